(* C03 - QER, URR and BAR reach the kernel exactly as the SMF specified them; periodic registration.
   This file contains only statements; proofs are in proofs/RulesQerUrrBarProofs.v.

   Vocabulary (as in C02.v): qie (model/PfcpIe3.v) = what go-pfcp's accessor returns for a child IE;
   create_qer/update_qer/create_urr/update_urr/remove_urr/create_bar/update_bar (model/RulesQerUrrBar.v) = model of
   gtp5g.go:764-1459 + go-gtp5gnl's envelopes; the URR operations also return the calls to the periodic-report server
   (PAdd seid urr period / PDel seid urr) in the order the driver issues them; ref_decode_qer/_urr/_bar, spec_qer/_urr/_bar,
   wf_qer/wf_urr/wf_bar (monitor/RulesSpec3.v) = strict reference decoders, order-free content of the IE, the quantifier:
   id exactly once, other IEs at most once, values within wire widths (bit rates < 2^40, volumes < 2^64, triggers 2-3 octets),
   Create URR with PERIO has a Measurement Period, no malformed child.

   ONE part of the property is false for go-upf as it is; it is stated at full strength, refuted with a witness, and the theorem is
   proved under the hypothesis excluding exactly the failing inputs (name ending in _partial):
     * periodic registration after Update URR (C03_perio_update_refuted; C03_perio_create_partial covers Create/Remove)
   The BAR Downlink Data Notification Delay was a second one (Duration cast to uint8) until go-upf 08f4372 repaired it; the model
   follows the repaired clause, C03_bar holds without exclusion, the old behaviour is kept as C03_bar_delay_legacy_refuted.
   Not in the property's list, decoded leniently, said in RulesSpec3.v: URR_MEASUREMENT_PERIOD, width of URR_MEASUREMENT_INFO. *)
From Coq Require Import List NArith Bool Permutation.
From GoUpf Require Import Bytes Nlattr PfcpIe3 RulesGen RulesSpec RulesSpec3 RulesPdrFar RulesQerUrrBar RulesQerUrrBarProofs.
Import ListNotations.
Local Open Scope N_scope.

(* --- QER: gate, 40-bit MBR/GBR per direction, QFI, RQI, PPI, correlation id, under the right session and id --- *)
Theorem C03_qer : forall create link seid ies,
  link < 4294967296 -> seid < 18446744073709551616 -> wf_qer ies = true ->
  exists id attrs,
    qer_op create link seid ies = Ok (nl_CMD_ADD_QER, op_flags create, (seid, id), attrs) /\
    ref_decode_req nl_CMD_ADD_QER ref_decode_qer nl_CMD_ADD_QER (op_flags create) attrs = Some (create, spec_qer link seid ies).
Proof. exact qer_roundtrip. Qed.
Print Assumptions C03_qer.

(* the split of a rate into the HIGH32 and LOW8 attributes loses nothing, for every value below 2^40 *)
Theorem C03_rate_split_exact : forall v, v < 1099511627776 ->
  (N.shiftr v 8) mod 4294967296 * 256 + v mod 256 = v.
Proof. exact rate_split_exact. Qed.
Print Assumptions C03_rate_split_exact.

(* --- URR: method, information, trigger bits, thresholds and quotas with their flags; and the call to the periodic server --- *)
Theorem C03_create_urr : forall link seid ies,
  link < 4294967296 -> seid < 18446744073709551616 -> wf_urr true ies = true ->
  exists id attrs,
    create_urr link seid ies =
      Ok ((if perio_bit ies then [PAdd seid id (match theq h_period ies with Some p => p | None => 0 end)] else []),
          (nl_CMD_ADD_URR, create_flags, (seid, id), attrs)) /\
    theq h_urrid ies = Some id /\
    ref_decode_req nl_CMD_ADD_URR ref_decode_urr nl_CMD_ADD_URR create_flags attrs = Some (true, spec_urr link seid ies).
Proof. exact create_urr_roundtrip. Qed.
Print Assumptions C03_create_urr.

Theorem C03_update_urr : forall link seid ies,
  link < 4294967296 -> seid < 18446744073709551616 -> wf_urr false ies = true ->
  exists id attrs,
    update_urr link seid ies = Ok ([], (nl_CMD_ADD_URR, update_flags, (seid, id), attrs)) /\
    ref_decode_req nl_CMD_ADD_URR ref_decode_urr nl_CMD_ADD_URR update_flags attrs = Some (false, spec_urr link seid ies).
Proof. exact update_urr_roundtrip. Qed.
Print Assumptions C03_update_urr.

(* --- BAR: delay (the IE's count of 50 ms units) and suggested packet count --- *)
Theorem C03_bar : forall create link seid ies,
  link < 4294967296 -> seid < 18446744073709551616 -> wf_bar ies = true ->
  exists id attrs,
    bar_op create link seid ies = Ok (nl_CMD_ADD_BAR, op_flags create, (seid, id), attrs) /\
    ref_decode_req nl_CMD_ADD_BAR ref_decode_bar nl_CMD_ADD_BAR (op_flags create) attrs = Some (create, spec_bar link seid ies).
Proof. exact bar_roundtrip. Qed.
Print Assumptions C03_bar.

(* before 08f4372: delay 3 (150 ms) reached gtp5g as 128; the repaired clause hands over 3 *)
Example C03_bar_delay_legacy_refuted :
  option_map b_delay (ofold dec_bar_step [bar_delay_legacy_attr (3 * 50000000)] bar0) = Some (Some 128) /\
  option_map b_delay (ofold dec_bar_step (bar_out (QDelay (3 * 50000000))) bar0) = Some (Some 3).
Proof. exact bar_delay_legacy_refuted. Qed.

(* --- periodic registration --- *)
(* Create URR: a tick of period p asks for the URR iff PERIO is among its triggers and p is its measurement period *)
Theorem C03_perio_create_partial : forall link seid ies p,
  link < 4294967296 -> seid < 18446744073709551616 -> wf_urr true ies = true ->
  exists calls req, create_urr link seid ies = Ok (calls, req) /\
    query_set p (reg_after calls) = spec_query_set seid p (spec_reg_step [] (UCreate ies)).
Proof. exact perio_create_partial. Qed.
Print Assumptions C03_perio_create_partial.

(* Remove URR unregisters *)
Theorem C03_perio_create_remove : forall link seid ies p,
  link < 4294967296 -> seid < 18446744073709551616 -> wf_urr true ies = true ->
  exists calls req id, create_urr link seid ies = Ok (calls, req) /\ theq h_urrid ies = Some id /\
    query_set p (reg_after (calls ++ fst (remove_urr link seid id))) = [] /\
    spec_query_set seid p (spec_reg_step (spec_reg_step [] (UCreate ies)) (URemove id)) = [].
Proof. exact perio_create_remove. Qed.
Print Assumptions C03_perio_create_remove.

(* finding: over histories with Update URR the registration does not follow the triggers.  Full-strength statement:
     forall h, hist_wf h = true -> forall p,
       same_set (query_set p (fold_left (model_reg_step link seid) h [])) (spec_query_set seid p (fold_left spec_reg_step h [])) = true *)
Theorem C03_perio_update_refuted :
  exists link seid h p,
    link < 4294967296 /\ seid < 18446744073709551616 /\ hist_wf h = true /\
    same_set (query_set p (fold_left (model_reg_step link seid) h []))
             (spec_query_set seid p (fold_left spec_reg_step h [])) = false.
Proof. exact perio_update_refuted. Qed.
Print Assumptions C03_perio_update_refuted.

(* --- order of the child IEs --- *)
Theorem C03_qer_order_free : forall create link seid ies ies',
  link < 4294967296 -> seid < 18446744073709551616 -> wf_qer ies = true -> Permutation ies ies' ->
  exists d, decoded3 nl_CMD_ADD_QER ref_decode_qer (qer_op create link seid ies) = Some d /\
            decoded3 nl_CMD_ADD_QER ref_decode_qer (qer_op create link seid ies') = Some d.
Proof. exact qer_order_free. Qed.
Print Assumptions C03_qer_order_free.

Theorem C03_create_urr_order_free : forall link seid ies ies',
  link < 4294967296 -> seid < 18446744073709551616 -> wf_urr true ies = true -> Permutation ies ies' ->
  exists calls d r r', create_urr link seid ies = Ok (calls, r) /\ create_urr link seid ies' = Ok (calls, r') /\
     decoded3 nl_CMD_ADD_URR ref_decode_urr (Ok r) = Some d /\ decoded3 nl_CMD_ADD_URR ref_decode_urr (Ok r') = Some d.
Proof. exact urr_order_free. Qed.
Print Assumptions C03_create_urr_order_free.

Theorem C03_update_urr_order_free : forall link seid ies ies',
  link < 4294967296 -> seid < 18446744073709551616 -> wf_urr false ies = true -> Permutation ies ies' ->
  exists d r r', update_urr link seid ies = Ok ([], r) /\ update_urr link seid ies' = Ok ([], r') /\
     decoded3 nl_CMD_ADD_URR ref_decode_urr (Ok r) = Some d /\ decoded3 nl_CMD_ADD_URR ref_decode_urr (Ok r') = Some d.
Proof. exact update_urr_order_free. Qed.
Print Assumptions C03_update_urr_order_free.

Theorem C03_bar_order_free : forall create link seid ies ies',
  link < 4294967296 -> seid < 18446744073709551616 -> wf_bar ies = true -> Permutation ies ies' ->
  exists d, decoded3 nl_CMD_ADD_BAR ref_decode_bar (bar_op create link seid ies) = Some d /\
            decoded3 nl_CMD_ADD_BAR ref_decode_bar (bar_op create link seid ies') = Some d.
Proof. exact bar_order_free. Qed.
Print Assumptions C03_bar_order_free.

(* --- the boolean monitors applied to the implementation's requests accept everything the model emits --- *)
Theorem C03_monitor_accepts_model_qer : forall create link seid ies,
  link < 4294967296 -> seid < 18446744073709551616 -> wf_qer ies = true ->
  match qer_op create link seid ies with
  | Ok (cmd, fl, _, attrs) => qer_req_ok create link seid ies cmd fl attrs = true
  | Err => False
  end.
Proof. exact monitor_accepts_qer. Qed.
Print Assumptions C03_monitor_accepts_model_qer.

Theorem C03_monitor_accepts_model_urr : forall link seid ies,
  link < 4294967296 -> seid < 18446744073709551616 ->
  (wf_urr true ies = true ->
   match create_urr link seid ies with
   | Ok (_, (cmd, fl, _, attrs)) => urr_req_ok true link seid ies cmd fl attrs = true | Err => False end) /\
  (wf_urr false ies = true ->
   match update_urr link seid ies with
   | Ok (_, (cmd, fl, _, attrs)) => urr_req_ok false link seid ies cmd fl attrs = true | Err => False end).
Proof. exact monitor_accepts_urr. Qed.
Print Assumptions C03_monitor_accepts_model_urr.

Theorem C03_monitor_accepts_model_bar : forall create link seid ies,
  link < 4294967296 -> seid < 18446744073709551616 -> wf_bar ies = true ->
  match bar_op create link seid ies with
  | Ok (cmd, fl, _, attrs) => bar_req_ok create link seid ies cmd fl attrs = true
  | Err => False
  end.
Proof. exact monitor_accepts_bar. Qed.
Print Assumptions C03_monitor_accepts_model_bar.

(* --- non-vacuity --- *)
Example C03_nonvacuous_qer :
  wf_qer [QQfi 63; QMbr 1099511627775 4294967297; QQerId 4294967295; QGate 5; QGbr 256 255] = true /\
  decoded3 nl_CMD_ADD_QER ref_decode_qer (create_qer 7 18446744073709551615 [QQfi 63; QMbr 1099511627775 4294967297; QQerId 4294967295; QGate 5; QGbr 256 255]) =
  Some {| q_link := Some 7; q_id := Some 4294967295; q_seid := Some 18446744073709551615; q_gate := Some 5;
          q_mbr := Some (1099511627775, 4294967297); q_gbr := Some (256, 255); q_corr := None; q_rqi := None; q_qfi := Some 63; q_ppi := None |}.
Proof. split; vm_compute; reflexivity. Qed.

Example C03_nonvacuous_urr :
  wf_urr true [QVolThr 5 18446744073709551615 7 2; QTriggers [3; 1]; QUrrId 7; QPeriod 3600000000000; QMethod 2] = true /\
  create_urr 7 9 [QVolThr 5 18446744073709551615 7 2; QTriggers [3; 1]; QUrrId 7; QPeriod 3600000000000; QMethod 2] =
  Ok ([PAdd 9 7 3600000000000],
      (nl_CMD_ADD_URR, create_flags, (9, 7),
       [A nl_LINK (V32 7); A nl_URR_ID (V32 7); A nl_URR_SEID (V64 9);
        A nl_URR_VOLUME_THRESHOLD (VNest [A 1 (V8 5); A 2 (V64 18446744073709551615); A 4 (V64 2)]);
        A nl_URR_REPORTING_TRIGGER (V32 259); A nl_URR_MEASUREMENT_PERIOD (V32 3600000000000); A nl_URR_MEASUREMENT_METHOD (V8 2)])).
Proof. split; vm_compute; reflexivity. Qed.

Example C03_nonvacuous_bar :
  wf_bar [QCount 200; QDelay 12750000000; QBarId 255] = true /\
  decoded3 nl_CMD_ADD_BAR ref_decode_bar (update_bar 7 9223372036854775808 [QCount 200; QDelay 12750000000; QBarId 255]) =
  Some {| b_link := Some 7; b_id := Some 255; b_seid := Some 9223372036854775808; b_delay := Some 255; b_count := Some 200 |}.
Proof. split; vm_compute; reflexivity. Qed.
