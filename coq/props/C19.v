(* C19 — flag octets are decoded and encoded bit-exactly per TS 29.244.
   Statements only; proofs are in proofs/FlagsProofs.v.  The specification tables (rt_spec, usar_spec,
   aa_spec, vol_spec: name, octet, bit) are transcribed by hand from TS 29.244 in monitor/FlagsSpec.v;
   the model (model/Flags.v) runs over the tables GENERATED from /repo's report.go (gen/FlagsGen.v). *)
From Coq Require Import String List Arith NArith Bool.
From GoUpf Require Import Bytes FlagsGen FlagsSpec Flags FlagsProofs.
Import ListNotations.
Local Open Scope N_scope.

(* (a) Reporting Triggers, decoding.  For EVERY octet string of at least two octets (the permitted
   lengths 2 and 3 — and also longer ones, which the code accepts and whose surplus octets no accessor
   sees) and every row of the 8.2.19 table: Unmarshal succeeds, the accessor of that name answers the
   bit TS 29.244 gives to the name, and so does the bit of the Flags word handed to the data plane. *)
Theorem C19_rt_decode : forall bs r, bytes_ok bs -> (2 <= length bs)%nat -> In r rt_spec ->
  exists f, rt_unmarshal_res bs = UOk f /\
            accessor rpt_accessors (row_name r) f = spec_flag rt_spec (row_name r) bs /\
            N.testbit f (row_pos r) = spec_flag rt_spec (row_name r) bs.
Proof. exact rt_decode. Qed.
Print Assumptions C19_rt_decode.

(* for the permitted lengths the stored word is exactly the octets read little-endian (no stray bits) *)
Theorem C19_rt_decode_value : forall bs, In (length bs) rt_lengths -> rt_unmarshal_res bs = UOk (le_val bs).
Proof. exact rt_unmarshal_value. Qed.
Print Assumptions C19_rt_decode_value.

(* (a) Apply Action, decoding: every octet string of at least one octet, every row of 8.2.26 *)
Theorem C19_aa_decode : forall bs r, bytes_ok bs -> (1 <= length bs)%nat -> In r aa_spec ->
  exists f, aa_unmarshal_res bs = UOk f /\
            accessor act_accessors (row_name r) f = spec_flag aa_spec (row_name r) bs /\
            N.testbit f (row_pos r) = spec_flag aa_spec (row_name r) bs.
Proof. exact aa_decode. Qed.
Print Assumptions C19_aa_decode.

Theorem C19_aa_decode_value : forall bs, In (length bs) aa_lengths -> aa_unmarshal_res bs = UOk (le_val bs).
Proof. exact aa_unmarshal_value. Qed.
Print Assumptions C19_aa_decode_value.

(* (c) too-short input is refused with an error (not a value, not a panic) *)
Theorem C19_rt_too_short : forall bs, (length bs < 2)%nat -> rt_unmarshal_res bs = UErr.
Proof. exact rt_too_short. Qed.
Print Assumptions C19_rt_too_short.

Theorem C19_aa_too_short : aa_unmarshal_res [] = UErr.
Proof. exact aa_too_short. Qed.
Print Assumptions C19_aa_too_short.

(* (b) encoding.  For EVERY flags word and every row: IE() yields three octets in which the flag
   stands at the position TS 29.244 gives to its name. *)
Theorem C19_rt_encode : forall f r, In r rt_spec ->
  exists p, rt_ie f = Some p /\ length p = 3%nat /\ bytes_ok p /\
            spec_flag rt_spec (row_name r) p = accessor rpt_accessors (row_name r) f.
Proof. exact rt_encode. Qed.
Print Assumptions C19_rt_encode.

Theorem C19_usar_encode : forall f r, In r usar_spec ->
  exists p, usar_ie f = Some p /\ length p = 3%nat /\ bytes_ok p /\
            spec_flag usar_spec (row_name r) p = accessor usar_accessors (row_name r) f.
Proof. exact usar_encode. Qed.
Print Assumptions C19_usar_encode.

(* the three octets themselves (third octet = f / 65536, i.e. 0 when no flag of octet 7 is set) *)
Theorem C19_ie_octets : forall f, f < 16777216 ->
  rt_ie f = Some [f mod 256; (f / 256) mod 256; f / 65536] /\
  usar_ie f = Some [f mod 256; (f / 256) mod 256; f / 65536] /\
  (f < 65536 -> f / 65536 = 0).
Proof. intros f Hf. split; [|split]; [apply rt_ie_octets_eq|apply usar_ie_octets_eq|apply ie_third_zero]; assumption. Qed.
Print Assumptions C19_ie_octets.

(* encode then decode returns the flags *)
Theorem C19_rt_roundtrip : forall f, f < 16777216 -> exists p, rt_ie f = Some p /\ rt_unmarshal_res p = UOk f.
Proof. exact rt_roundtrip. Qed.
Print Assumptions C19_rt_roundtrip.

(* (d) SetReportingTrigger, full strength: for EVERY initial flags word and EVERY cause value the result
   is the one the same-name rule prescribes (srt_expected, defined from the two specification tables only) *)
Theorem C19_srt_all : forall f r, set_reporting_trigger f r = srt_expected f r.
Proof. exact srt_all. Qed.
Print Assumptions C19_srt_all.

(* spelled out: a Reporting Triggers row whose name also names a Usage Report Trigger row sets exactly
   that usage-report bit and changes no other *)
Theorem C19_srt_same_name : forall f x o b i, In x rt_spec -> find_row usar_spec (row_name x) = Some (o, b) ->
  set_reporting_trigger f (row_mask x) = N.lor f (2 ^ (8 * N.of_nat o + b)) /\
  N.testbit (set_reporting_trigger f (row_mask x)) i = (i =? 8 * N.of_nat o + b) || N.testbit f i.
Proof. intros f x o b i Hx Hf. split; [apply srt_same_name|apply srt_same_name_bits]; assumption. Qed.
Print Assumptions C19_srt_same_name.

(* every other cause value (0, several bits, bits outside the table, a name without counterpart) changes nothing *)
Theorem C19_srt_other : forall f r,
  (forall x, In x rt_spec -> find_row usar_spec (row_name x) <> None -> r <> row_mask x) ->
  set_reporting_trigger f r = f.
Proof. exact srt_other. Qed.
Print Assumptions C19_srt_other.

(* REEMR: Reporting Triggers has REEMR (octet 7 bit 1) but Usage Report Trigger has no flag of that name —
   its end-marker flag is called EMRRE (octet 7 bit 5).  The code follows the names: the cause REEMR sets
   nothing, and no cause value at all ever sets EMRRE. *)
Theorem C19_srt_reemr :
  In ("REEMR"%string, 2%nat, 0) rt_spec /\ RPT_TRIG_REEMR = row_mask ("REEMR"%string, 2%nat, 0) /\
  find_row usar_spec "REEMR" = None /\ find_row usar_spec "EMRRE" = Some (2%nat, 4) /\
  USAR_TRIG_EMRRE = 2 ^ 20 /\
  (forall f, set_reporting_trigger f RPT_TRIG_REEMR = f) /\
  (forall f r, N.testbit (set_reporting_trigger f r) 20 = N.testbit f 20).
Proof.
  destruct reemr_facts as (H1 & H2 & H3 & H4 & H5).
  split; [exact H1|]. split; [exact H2|]. split; [exact H3|]. split; [exact H4|]. split; [exact H5|].
  split; [exact srt_reemr|exact srt_never_emrre].
Qed.
Print Assumptions C19_srt_reemr.

(* (e) SetFlags: exactly TOVOL|ULVOL|DLVOL (and TONOP|ULNOP|DLNOP iff mnop) are or-ed in *)
Theorem C19_set_flags : forall f mnop i, f < 256 ->
  set_flags f mnop = sf_expected f mnop /\
  N.testbit (set_flags f mnop) i = N.testbit f i || (i <? 3) || (mnop && (i <? 6)).
Proof. intros f mnop i Hf. split; [apply sf_all|apply sf_bits]; assumption. Qed.
Print Assumptions C19_set_flags.

(* the exported constants are 2^(8*octet+bit) of the row of their name; the accessor names are the table names *)
Theorem C19_constants :
  consts_mon rt_spec rpt_consts = true /\ consts_mon usar_spec usar_consts = true /\
  consts_mon aa_spec act_consts = true /\ consts_mon vol_spec vol_consts = true /\
  names_of rt_spec = map fst rpt_accessors /\ names_of usar_spec = map fst usar_accessors /\
  names_of aa_spec = map fst act_accessors.
Proof. destruct consts_ok as (A & B & C & D). destruct names_ok as (E & F & G). repeat split; assumption. Qed.
Print Assumptions C19_constants.

(* the run-time monitors of checks/c19.py accept everything the model produces *)
Theorem C19_monitors_accept_model : forall names,
  NoDup names ->
  (names_mon rt_spec names = true -> forall bs, bytes_ok bs ->
     match rt_unmarshal_res bs with
     | UOk f => decode_mon (prep rt_spec names) 2 bs StOk f (accmask rpt_accessors names f)
     | UErr => decode_mon (prep rt_spec names) 2 bs StErr 0 0
     | UPanic => false end = true) /\
  (names_mon aa_spec names = true -> forall bs, bytes_ok bs ->
     match aa_unmarshal_res bs with
     | UOk f => decode_mon (prep aa_spec names) 1 bs StOk f (accmask act_accessors names f)
     | UErr => decode_mon (prep aa_spec names) 1 bs StErr 0 0
     | UPanic => false end = true) /\
  (names_mon rt_spec names = true -> forall f,
     match rt_ie f with
     | Some p => encode_mon (prep rt_spec names) f (accmask rpt_accessors names f) StOk p
     | None => false end = true) /\
  (names_mon usar_spec names = true -> forall f,
     match usar_ie f with
     | Some p => encode_mon (prep usar_spec names) f (accmask usar_accessors names f) StOk p
     | None => false end = true) /\
  (forall f r, srt_mon f r StOk (set_reporting_trigger f r) = true) /\
  (forall f mnop, f < 256 -> sf_mon f mnop StOk (set_flags f mnop) = true).
Proof.
  intros names Hnd. repeat split.
  - intros Hn bs Hbs. apply rt_decode_mon_model; assumption.
  - intros Hn bs Hbs. apply aa_decode_mon_model; assumption.
  - intros Hn f. apply rt_encode_mon_model; assumption.
  - intros Hn f. apply usar_encode_mon_model; assumption.
  - exact srt_mon_model.
  - exact sf_mon_model.
Qed.
Print Assumptions C19_monitors_accept_model.

(* non-vacuity: concrete octets.  Reporting Triggers 0x80 0x02 0x01 = LIUSA, TIMQU, REEMR; the volume
   octet; SetReportingTrigger(LIUSA) sets usage-report LIUSA = octet 6 bit 3 = 0x0400. *)
Example C19_nonvacuous :
  rt_unmarshal_res [128; 2; 1] = UOk 66176 /\
  map (fun n => accessor rpt_accessors n 66176) ["LIUSA"; "TIMQU"; "REEMR"; "PERIO"; "UPINT"]%string
    = [true; true; true; false; false] /\
  map (fun n => spec_flag rt_spec n [128; 2; 1]) ["LIUSA"; "TIMQU"; "REEMR"; "PERIO"; "UPINT"]%string
    = [true; true; true; false; false] /\
  rt_ie 66176 = Some [128; 2; 1] /\
  aa_unmarshal_res [12] = UOk 12 /\ aa_unmarshal_res [2; 16] = UOk 4098 /\
  accessor act_accessors "MBSU" 4098 = true /\
  rt_unmarshal_res [255] = UErr /\
  set_reporting_trigger 1 RPT_TRIG_LIUSA = 1025 /\ usar_ie 1025 = Some [1; 4; 0] /\
  set_reporting_trigger 1 3 = 1 /\
  set_flags 64 true = 127 /\ set_flags 64 false = 71.
Proof. vm_compute. repeat split; reflexivity. Qed.
