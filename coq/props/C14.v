(* C14 — re-injected packets are well-formed GTP-U G-PDUs carrying the full QFI.
   This file contains only statements; proofs are in proofs/GtpuProofs.v. *)
From Coq Require Import List NArith Bool.
From GoUpf Require Import Bytes GtpuGen Gtpu GtpuRef GtpuProofs.
Import ListNotations.
Local Open Scope N_scope.

(* For the header form go-upf emits (flags 0x34), every TEID, every PDU type 0..15, every
   QFI 0..63, with or without the PDU Session Container, and every payload whose length fits
   the 16-bit length field: the independent reference decoder reads back version 1, PT=GTP,
   type 255, length = octets after the 8-octet header, the TEID, the extension (full 6-bit QFI),
   and the payload unchanged. *)
Theorem C14_roundtrip : forall teid ext pkt,
  teid < 4294967296 ->
  (match ext with Some (pt, qfi) => pt < 16 /\ qfi < 64 | None => True end) ->
  msg_len (emitted teid ext pkt) - 8 < 65536 ->
  ref_parse (encode (emitted teid ext pkt)) =
    Some {| g_version := 1; g_pt := true; g_type := 255;
            g_len := N.of_nat (length (encode (emitted teid ext pkt))) - 8;
            g_teid := teid; g_ext := ext; g_payload := pkt |}.
Proof. exact roundtrip. Qed.
Print Assumptions C14_roundtrip.

(* the boolean monitor applied to implementation bytes accepts everything the model emits *)
Theorem C14_monitor_accepts_model : forall teid ext pkt,
  teid < 4294967296 ->
  (match ext with Some (pt, qfi) => pt < 16 /\ qfi < 64 | None => True end) ->
  msg_len (emitted teid ext pkt) - 8 < 65536 ->
  gpdu_ok teid ext pkt (encode (emitted teid ext pkt)) = true.
Proof. exact roundtrip_monitor. Qed.
Print Assumptions C14_monitor_accepts_model.

(* what Gtp5g.WritePacket assembles is of that form (PDU type 0, the QER's QFI) *)
Theorem C14_write_packet_form : forall teid q pkt,
  write_packet_msg teid q pkt = emitted teid (option_map (fun x => (0, x)) q) pkt.
Proof. exact emitted_write_packet. Qed.
Print Assumptions C14_write_packet_form.

(* for every flag combination and extension list the payload is the unchanged suffix *)
Theorem C14_payload_suffix : forall m, exists hd, encode m = hd ++ m_payload m.
Proof. exact payload_is_suffix. Qed.
Print Assumptions C14_payload_suffix.

(* non-vacuity: a concrete packet with QFI 63 and PDU type 15 meets the hypotheses *)
Example C14_nonvacuous :
  ref_parse (encode (emitted 305419896 (Some (15, 63)) [1; 2; 3; 4; 5])) =
  Some {| g_version := 1; g_pt := true; g_type := 255; g_len := 13; g_teid := 305419896;
          g_ext := Some (15, 63); g_payload := [1; 2; 3; 4; 5] |}.
Proof. vm_compute. reflexivity. Qed.
