(* C20 — start-up accepts only a valid configuration and a compatible gtp5g.
   Statements only; proofs are in proofs/ConfigProofs.v.

   What these theorems are about.  [startup config_tags doc] is the model of ReadConfig followed by NewDriver's
   checks up to the call of OpenGtp5g, applied to a YAML document [doc]; [config_tags] is the `valid:"…"` table
   GENERATED from pkg/factory/config.go on every run and INTERPRETED by [validate]; the version bounds and the
   comparison used by checkVersion are GENERATED from gtp5g.go.  The semantics of yaml.v2 (decoding), govalidator
   (required / optional / in(..) / host / cidr, recursion into pointers and slices) and hashicorp/go-version
   (ordering of x.y.z) is LIBRARY code: it is modelled by the interpreter, not verified.  The theorems say what
   the tag table and the interpreter imply, for ALL answers of the oracles is_host / is_cidr / resolvable /
   parse_duration; the correspondence run (checks/c20.py) is what ties the interpreter to the libraries by running
   the real ReadConfig / NewDriver on every generated document. *)
From Coq Require Import String List NArith ZArith Bool.
From GoUpf Require Import ConfigGen ConstsGen ConfigSpec Config ConfigProofs.
Import ListNotations.
Local Open Scope string_scope.

(* A document is accepted (the forwarder would be opened) only if the running configuration has: the supported
   version; a PFCP section with a listen address and a node id that are hosts, the node id resolvable, and a
   non-zero retransmission timeout; the gtp5g forwarder with at least one interface entry, every entry with a
   host address and type N3 or N9; a non-empty DNN list, every entry with a name and a valid CIDR; a logger
   section with one of the seven levels.  The GTP address handed to OpenGtp5g is the first entry's. *)
Theorem C20_accept_sound :
  forall (is_host is_cidr resolvable : string -> bool) (parse_duration : string -> option Z) doc c a m,
  startup is_host is_cidr resolvable parse_duration config_tags doc = Started c a m ->
  (c_version c = "1.0.3"
   /\ (exists p, c_pfcp c = Some p /\ p_addr p <> "" /\ is_host (p_addr p) = true
                 /\ p_nodeid p <> "" /\ is_host (p_nodeid p) = true /\ p_retrans_timeout p <> 0%Z)
   /\ (exists g, c_gtpu c = Some g /\ g_forwarder g = "gtp5g"
                 /\ Forall (fun i => is_host (i_addr i) = true /\ (i_type i = "N3" \/ i_type i = "N9")) (g_iflist g))
   /\ c_dnnlist c <> [] /\ Forall (fun d => d_dnn d <> "" /\ is_cidr (d_cidr d) = true) (c_dnnlist c)
   /\ (exists l, c_logger c = Some l
                 /\ In (l_level l) ["trace"; "debug"; "info"; "warn"; "error"; "fatal"; "panic"]))
  /\ (exists p, c_pfcp c = Some p /\ resolvable (p_nodeid p) = true)
  /\ (exists g i r, c_gtpu c = Some g /\ g_iflist g = i :: r /\ a = i_addr i ++ ":2152" /\ m = i_mtu i).
Proof. exact accept_sound. Qed.
Print Assumptions C20_accept_sound.

(* The property's condition list as the boolean monitor of monitor/ConfigSpec.v (written from the property text,
   independent of the tag table) accepts every configuration the model starts with. *)
Theorem C20_monitor_accepts_model :
  forall (is_host is_cidr resolvable : string -> bool) (parse_duration : string -> option Z) doc c a m,
  startup is_host is_cidr resolvable parse_duration config_tags doc = Started c a m ->
  cond_okb is_host is_cidr resolvable c = true.
Proof. exact started_cond_okb. Qed.
Print Assumptions C20_monitor_accepts_model.

(* Everything else is an error: the outcome is either a rejection (which carries no configuration at all) or the
   start with the configuration that satisfies C20_accept_sound. *)
Theorem C20_reject_or_start :
  forall (is_host is_cidr resolvable : string -> bool) (parse_duration : string -> option Z) tags doc,
  (exists st, startup is_host is_cidr resolvable parse_duration tags doc = Rejected st)
  \/ (exists c a m, startup is_host is_cidr resolvable parse_duration tags doc = Started c a m).
Proof. exact rejected_or_started. Qed.
Print Assumptions C20_reject_or_start.

(* The running configuration is the decoded document and nothing else (no defaulting, no rewriting) ... *)
Theorem C20_values_unchanged :
  forall (is_host is_cidr resolvable : string -> bool) (parse_duration : string -> option Z) tags doc c a m,
  startup is_host is_cidr resolvable parse_duration tags doc = Started c a m ->
  decode parse_duration doc = Some c.
Proof. exact values_unchanged. Qed.
Print Assumptions C20_values_unchanged.

(* ... and decoding takes a scalar given for a string field exactly as written. *)
Theorem C20_strings_as_written : forall k text, k <> KNull -> dec_string (Some (YScalar k text)) = Some text.
Proof. exact dec_string_as_written. Qed.
Print Assumptions C20_strings_as_written.

(* The version window, for ALL triples of naturals: checkVersion's condition holds iff 0.9.5 <= v < 0.10.0 in the
   lexicographic order of the components, i.e. iff v = 0.9.z with z >= 5. *)
Theorem C20_version_window : forall v : N * N * N,
  version_ok v = true <-> lex_leP (0, 9, 5)%N v /\ lex_ltP v (0, 10, 0)%N.
Proof. exact version_window. Qed.
Print Assumptions C20_version_window.

Theorem C20_version_window_explicit : forall x y z : N,
  version_ok (x, y, z) = true <-> x = 0%N /\ y = 9%N /\ (5 <= z)%N.
Proof. exact version_window_explicit. Qed.
Print Assumptions C20_version_window_explicit.

(* T-gen ties: the fields / Go types / yaml names the decoders were written for are the generated table's, and the
   comparison in checkVersion has the shape the interpretation above was proved for. *)
Theorem C20_source_shapes :
  map (fun r : tag_row => match r with (s, f, ty, y, _) => (s, f, ty, y) end) config_tags = expected_fields
  /\ version_reject_lo = "LessThan:expMinVer" /\ version_reject_hi = "GreaterThanOrEqual:expMaxVer"
  /\ expectedMinGtp5gVersion = (0, 9, 5)%N /\ expectedMaxGtp5gVersion = (0, 10, 0)%N.
Proof. split; [exact expected_fields_ok|exact version_shapes]. Qed.
Print Assumptions C20_source_shapes.

(* non-vacuity: a complete document is accepted (with oracles that say yes), the same document without its
   ifList passes ReadConfig's checks but is refused by the driver, one with maxRetrans 256 is a YAML error *)
Definition yes (_ : string) : bool := true.
Definition dur (s : string) : option Z := if String.eqb s "1s" then Some 1000000000%Z else None.
Definition S_ (s : string) : yv := YScalar KStr s.
Definition sample_doc (iflist : list (string * yv)) (maxretrans : Z) : option yv :=
  Some (YMap [("version", S_ "1.0.3");
              ("pfcp", YMap [("addr", S_ "127.0.0.8"); ("nodeID", S_ "127.0.0.8"); ("retransTimeout", S_ "1s");
                             ("maxRetrans", YScalar (KInt maxretrans) "3")]);
              ("gtpu", YMap (("forwarder", S_ "gtp5g") :: iflist));
              ("dnnList", YSeq [YMap [("dnn", S_ "internet"); ("cidr", S_ "10.60.0.0/24")]]);
              ("logger", YMap [("enable", YScalar (KBool true) "true"); ("level", S_ "info")])]).
Example C20_nonvacuous :
  (exists c, startup yes yes yes dur config_tags
               (sample_doc [("ifList", YSeq [YMap [("addr", S_ "127.0.0.8"); ("type", S_ "N3"); ("mtu", YScalar (KInt 1400) "1400")]])] 3)
             = Started c "127.0.0.8:2152" 1400)
  /\ startup yes yes yes dur config_tags (sample_doc [] 3) = Rejected "driver:not found GTP address"
  /\ startup yes yes yes dur config_tags (sample_doc [] 256) = Rejected "yaml"
  /\ startup yes yes (fun _ => false) dur config_tags (sample_doc [] 3) = Rejected "resolve"
  /\ version_ok (0, 9, 5)%N = true /\ version_ok (0, 9, 4)%N = false /\ version_ok (0, 10, 0)%N = false.
Proof. split; [eexists; vm_compute; reflexivity|]. vm_compute. repeat split; reflexivity. Qed.

(* "Values appear unchanged", read at full strength for NUMERIC fields, does not hold and is not claimed:
   yaml.v2 converts a float scalar given for an integer field by truncation, so a file that says
   `maxRetrans: 2.5` is started with MaxRetrans = 2 (likewise mtu and retransTimeout).  The witness below is the
   model's; the same document is part of every correspondence run (checks/c20.py, SEMANTIC["maxRetrans"]) and the
   real ReadConfig accepts it with the value 2.  What IS proved is C20_values_unchanged (the running configuration
   is the decoded document) and C20_strings_as_written; the monitor checks string fields as written. *)
Theorem C20_numeric_as_written_refuted :
  exists doc c a m p,
    startup yes yes yes dur config_tags doc = Started c a m
    /\ sub "maxRetrans" (sub "pfcp" doc) = Some (YScalar (KFloat 2) "2.5")
    /\ c_pfcp c = Some p /\ p_max_retrans p = 2%Z.
Proof.
  exists (Some (YMap [("version", S_ "1.0.3");
              ("pfcp", YMap [("addr", S_ "127.0.0.8"); ("nodeID", S_ "127.0.0.8"); ("retransTimeout", S_ "1s");
                             ("maxRetrans", YScalar (KFloat 2) "2.5")]);
              ("gtpu", YMap [("forwarder", S_ "gtp5g"); ("ifList", YSeq [YMap [("addr", S_ "127.0.0.8"); ("type", S_ "N3")]])]);
              ("dnnList", YSeq [YMap [("dnn", S_ "internet"); ("cidr", S_ "10.60.0.0/24")]]);
              ("logger", YMap [("level", S_ "info")])])).
  eexists. eexists. eexists. eexists. vm_compute. repeat split; reflexivity.
Qed.
Print Assumptions C20_numeric_as_written_refuted.
