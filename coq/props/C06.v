(* C06 — retransmitted requests are executed at most once and re-answered identically. Statements only. *)
From Coq Require Import String List NArith ZArith Bool.
From GoUpf Require Import Bytes FlagsGen ConstsGen HandlerGen Pfcp PfcpBase PfcpSess PfcpClose PfcpTable PfcpDelete PfcpStep PfcpProps.
From GoUpf Require Import TxKeyGen TxKey TxKeyProofs.
Import ListNotations.
Local Open Scope N_scope.

(* a request whose (source, sequence number) has an entry in the receive-transaction table changes NOTHING
   (the whole state, data plane included, is identical) and is answered with the cached datagram, or not at all *)
Theorem C06_duplicate_not_executed : forall w peer seq m e c,
  is_request m = true -> klookup (peer, seq) (w_rx w) = Some c ->
  step w (EvRecv peer seq m e) = Ok (w, match c with Some p => [OSend peer p true] | None => [] end).
Proof. exact duplicate_not_executed. Qed.
Print Assumptions C06_duplicate_not_executed.

(* keys are compared exactly: a different source or a different sequence number is a different key *)
Theorem C06_key_exact : forall a b, key_eqb a b = true <-> a = b.
Proof. exact key_eqb_eq. Qed.
Print Assumptions C06_key_exact.

(* the code's keys are STRINGS, fmt.Sprintf(format, addr, seq), at the sites regenerated from the source (TxKeyGen):
   for ANY address strings (dashes, brackets, zones included) and ANY sequence numbers, two sites produce the same
   string only for the same (address, sequence number) - the pair keys of the model lose nothing *)
Theorem C06_string_key_injective : forall s1 f1 g1 s2 f2 g2 a1 n1 a2 n2 k,
  In (s1, f1, g1) txkey_sites -> In (s2, f2, g2) txkey_sites ->
  render f1 [AStr a1; ANum n1] = Some k -> render f2 [AStr a2; ANum n2] = Some k -> a1 = a2 /\ n1 = n2.
Proof. exact sites_injective. Qed.
Print Assumptions C06_string_key_injective.

(* and every site does render a key (the format uses only what the interpreter models) *)
Theorem C06_string_key_total : forall site f args, In (site, f, args) txkey_sites ->
  forall a n, render f [AStr a; ANum n] = Some (trid a n).
Proof. exact (sites_render sites_ok). Qed.
Print Assumptions C06_string_key_total.

(* a response that fails in the socket (EvRecvWF: the datagram is handled while every write fails): the state is that of
   the successful case - so the request is not executed again either - and nothing is emitted; the response is retained,
   and a retransmission is answered with it (shown for the Heartbeat, whose response is known in closed form) *)
From GoUpf Require WriteFail.
Theorem C06_lost_response_same_state : forall w peer seq m e w' o,
  step w (EvRecv peer seq m e) = Ok (w', o) ->
  step w (EvRecvWF peer seq m e) = Ok (w', drop_sends o) /\ (forall d p r, ~ In (OSend d p r) (drop_sends o)).
Proof. intros w peer seq m e w' o H. split; [apply WriteFail.recv_write_failure_same_state; exact H | intros d p r; apply WriteFail.drop_sends_no_send]. Qed.
Print Assumptions C06_lost_response_same_state.

Theorem C06_lost_heartbeat_response_retained : forall w peer seq e e',
  klookup (peer, seq) (w_rx w) = None ->
  exists w', step w (EvRecvWF peer seq MHeartbeat e) = Ok (w', []) /\
             step w' (EvRecv peer seq MHeartbeat e') = Ok (w', [OSend peer (PHeartbeatRsp seq) true]).
Proof. exact WriteFail.lost_heartbeat_response_retained. Qed.
Print Assumptions C06_lost_heartbeat_response_retained.

(* the retention timer releases the entry *)
Theorem C06_released : forall w peer seq,
  exists w', step w (EvTimeoutRx peer seq) = Ok (w', []) /\ klookup (peer, seq) (w_rx w') = None.
Proof. exact rx_released. Qed.
Print Assumptions C06_released.

Example C06_nonvacuous :
  match run (init 0 1) [EvRecv 0 7 MHeartbeat (mkEnv [] []); EvRecv 0 7 MHeartbeat (mkEnv [] []);
                        EvRecv 1 7 MHeartbeat (mkEnv [] []); EvTimeoutRx 0 7; EvRecv 0 7 MHeartbeat (mkEnv [] [])] with
  | Ok (_, os) => os = [[OSend 0 (PHeartbeatRsp 7) false]; [OSend 0 (PHeartbeatRsp 7) true];
                        [OSend 1 (PHeartbeatRsp 7) false]; []; [OSend 0 (PHeartbeatRsp 7) false]]
  | Fault _ => False
  end.
Proof. vm_compute. reflexivity. Qed.

(* ---------------------------------------------------------------- with time: the retention timer of a received request
   (model/Timed.v, parameters read from the source: see C09_timer_sites) *)
From GoUpf Require TimerGen Timed TimedProofs.

Theorem C06_timer_sites : Timed.source_tparams = Timed.tp_ok.
Proof. exact TimedProofs.source_tparams_ok. Qed.
Print Assumptions C06_timer_sites.

(* the window is fixed when the first copy arrives: T * (N+1) after it, whatever responses and duplicates follow *)
Theorem C06_retention_window_fixed : forall (T : Z) (N : nat) (t0 : Z) evs, forallb Timed.not_fire evs = true ->
  exists c, Timed.rx_run Timed.source_tparams T N (Timed.rx_create Timed.source_tparams T N t0) evs
            = Timed.RxHeld (Some (t0 + Timed.rx_window T N)%Z) c.
Proof. exact TimedProofs.src_rx_due_constant. Qed.
Print Assumptions C06_retention_window_fixed.

(* inside the window a later copy is answered from the store iff a response was produced, and changes nothing *)
Theorem C06_duplicate_in_window : forall p T N due c t,
  Timed.rx_step p T N (Timed.RxHeld due c) (Timed.RxDup t) = (Timed.RxHeld due c, [if c then Timed.ReAnswer t else Timed.Ignore t]).
Proof. exact TimedProofs.rx_dup_spec. Qed.
Print Assumptions C06_duplicate_in_window.

(* once the window has elapsed the bookkeeping is released - answered or not *)
Theorem C06_released_after_window : forall (T : Z) (N : nat) (t0 : Z) evs, forallb Timed.not_fire evs = true ->
  Timed.rx_run Timed.source_tparams T N (Timed.rx_create Timed.source_tparams T N t0) (evs ++ [Timed.RxFire]) = Timed.RxGone.
Proof. exact TimedProofs.src_rx_fire_releases. Qed.
Print Assumptions C06_released_after_window.

(* the variant that arms the timer when the response is sent: an unanswered request is never released *)
Theorem C06_arm_on_respond_refuted : forall T N t0 evs,
  forallb (fun e => match e with Timed.RxRespond _ => false | _ => true end) evs = true ->
  Timed.rx_run (Timed.mkTP true true true true false true true true true true) T N
               (Timed.rx_create (Timed.mkTP true true true true false true true true true true) T N t0) evs = Timed.RxHeld None false.
Proof. exact TimedProofs.rx_arm_on_respond_leaks. Qed.
Print Assumptions C06_arm_on_respond_refuted.

(* an expiry of a SENDER's timer never touches the receive table, even when a receive transaction has the same key
   (both are "<addr>-<seq>"); the variant posting it as an RX event deletes that entry *)
Theorem C06_tx_expiry_leaves_receive_table : forall V key (rxm : list (Timed.akey * V)),
  Timed.tx_expiry_rx_table Timed.source_tparams key rxm = rxm.
Proof. exact TimedProofs.src_tx_expiry_leaves_rx_all. Qed.
Print Assumptions C06_tx_expiry_leaves_receive_table.

Theorem C06_tx_expiry_as_rx_refuted :
  Timed.tx_expiry_rx_table (Timed.mkTP false true true true true true true true true true) "10.0.0.1:8805-7"%string
                           [("10.0.0.1:8805-7"%string, Timed.RxHeld (Some 100%Z) true)] = [].
Proof. exact TimedProofs.tx_expiry_as_rx_deletes. Qed.
Print Assumptions C06_tx_expiry_as_rx_refuted.
