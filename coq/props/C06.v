(* C06 — retransmitted requests are executed at most once and re-answered identically. Statements only. *)
From Coq Require Import String List NArith ZArith Bool.
From GoUpf Require Import Bytes FlagsGen ConstsGen HandlerGen Pfcp PfcpBase PfcpSess PfcpClose PfcpTable PfcpDelete PfcpStep PfcpProps.
Import ListNotations.
Local Open Scope N_scope.

(* a request whose (source, sequence number) has an entry in the receive-transaction table changes NOTHING
   (the whole state, data plane included, is identical) and is answered with the cached datagram, or not at all *)
Theorem C06_duplicate_not_executed : forall w peer seq m e c,
  is_request m = true -> klookup (peer, seq) (w_rx w) = Some c ->
  step w (EvRecv peer seq m e) = Ok (w, match c with Some p => [OSend peer p true] | None => [] end).
Proof. exact duplicate_not_executed. Qed.
Print Assumptions C06_duplicate_not_executed.

(* keys are compared exactly: a different source or a different sequence number is a different key *)
Theorem C06_key_exact : forall a b, key_eqb a b = true <-> a = b.
Proof. exact key_eqb_eq. Qed.
Print Assumptions C06_key_exact.

(* the retention timer releases the entry *)
Theorem C06_released : forall w peer seq,
  exists w', step w (EvTimeoutRx peer seq) = Ok (w', []) /\ klookup (peer, seq) (w_rx w') = None.
Proof. exact rx_released. Qed.
Print Assumptions C06_released.

Example C06_nonvacuous :
  match run (init 0 1) [EvRecv 0 7 MHeartbeat (mkEnv [] []); EvRecv 0 7 MHeartbeat (mkEnv [] []);
                        EvRecv 1 7 MHeartbeat (mkEnv [] []); EvTimeoutRx 0 7; EvRecv 0 7 MHeartbeat (mkEnv [] [])] with
  | Ok (_, os) => os = [[OSend 0 (PHeartbeatRsp 7) false]; [OSend 0 (PHeartbeatRsp 7) true];
                        [OSend 1 (PHeartbeatRsp 7) false]; []; [OSend 0 (PHeartbeatRsp 7) false]]
  | Fault _ => False
  end.
Proof. vm_compute. reflexivity. Qed.
