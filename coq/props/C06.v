(* C06 — retransmitted requests are executed at most once and re-answered identically. Statements only. *)
From Coq Require Import String List NArith ZArith Bool.
From GoUpf Require Import Bytes FlagsGen ConstsGen HandlerGen Pfcp PfcpBase PfcpSess PfcpClose PfcpTable PfcpDelete PfcpStep PfcpProps.
From GoUpf Require Import TxKeyGen TxKey TxKeyProofs.
Import ListNotations.
Local Open Scope N_scope.

(* a request whose (source, sequence number) has an entry in the receive-transaction table changes NOTHING
   (the whole state, data plane included, is identical) and is answered with the cached datagram, or not at all *)
Theorem C06_duplicate_not_executed : forall w peer seq m e c,
  is_request m = true -> klookup (peer, seq) (w_rx w) = Some c ->
  step w (EvRecv peer seq m e) = Ok (w, match c with Some p => [OSend peer p true] | None => [] end).
Proof. exact duplicate_not_executed. Qed.
Print Assumptions C06_duplicate_not_executed.

(* keys are compared exactly: a different source or a different sequence number is a different key *)
Theorem C06_key_exact : forall a b, key_eqb a b = true <-> a = b.
Proof. exact key_eqb_eq. Qed.
Print Assumptions C06_key_exact.

(* the code's keys are STRINGS, fmt.Sprintf(format, addr, seq), at the sites regenerated from the source (TxKeyGen):
   for ANY address strings (dashes, brackets, zones included) and ANY sequence numbers, two sites produce the same
   string only for the same (address, sequence number) - the pair keys of the model lose nothing *)
Theorem C06_string_key_injective : forall s1 f1 g1 s2 f2 g2 a1 n1 a2 n2 k,
  In (s1, f1, g1) txkey_sites -> In (s2, f2, g2) txkey_sites ->
  render f1 [AStr a1; ANum n1] = Some k -> render f2 [AStr a2; ANum n2] = Some k -> a1 = a2 /\ n1 = n2.
Proof. exact sites_injective. Qed.
Print Assumptions C06_string_key_injective.

(* and every site does render a key (the format uses only what the interpreter models) *)
Theorem C06_string_key_total : forall site f args, In (site, f, args) txkey_sites ->
  forall a n, render f [AStr a; ANum n] = Some (trid a n).
Proof. exact (sites_render sites_ok). Qed.
Print Assumptions C06_string_key_total.

(* the retention timer releases the entry *)
Theorem C06_released : forall w peer seq,
  exists w', step w (EvTimeoutRx peer seq) = Ok (w', []) /\ klookup (peer, seq) (w_rx w') = None.
Proof. exact rx_released. Qed.
Print Assumptions C06_released.

Example C06_nonvacuous :
  match run (init 0 1) [EvRecv 0 7 MHeartbeat (mkEnv [] []); EvRecv 0 7 MHeartbeat (mkEnv [] []);
                        EvRecv 1 7 MHeartbeat (mkEnv [] []); EvTimeoutRx 0 7; EvRecv 0 7 MHeartbeat (mkEnv [] [])] with
  | Ok (_, os) => os = [[OSend 0 (PHeartbeatRsp 7) false]; [OSend 0 (PHeartbeatRsp 7) true];
                        [OSend 1 (PHeartbeatRsp 7) false]; []; [OSend 0 (PHeartbeatRsp 7) false]]
  | Fault _ => False
  end.
Proof. vm_compute. reflexivity. Qed.
