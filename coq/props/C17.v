(* C17 — state is race-free under concurrent peers, reports and timers; Stop stops.  PARTIAL: the Go scheduler
   and memory model are outside any Gallina model; what is proved is (1) the confinement of all session /
   transaction state to the event-loop goroutine for the access table GENERATED from the source on every run,
   (2) ownership => no conflicting accesses, (3) an interleaving model of the channels / receiver / producers /
   Stop: no send on a closed channel, exactly-once hand-over, producers released after stop.  The race-detector
   stress run validates the rest.  Statements only. *)
From Coq Require Import String List NArith Bool Permutation.
From GoUpf Require Import ConstsGen ConcGen PerioConcGen Conc ConcProofs.
From GoUpf Require Shutdown ShutdownProofs.
Import ListNotations.

(* obligations over the tables regenerated from internal/pfcp/*.go *)
Theorem C17_confined : confined = true.
Proof. exact confined_true. Qed.
Print Assumptions C17_confined.

Theorem C17_offloop_never_touches_state : forall entry fields f,
  In (entry, fields) offloop_access -> In f fields -> state_cell f = false.
Proof. exact offloop_never_touches_state. Qed.
Print Assumptions C17_offloop_never_touches_state.

Theorem C17_offloop_channel_ops : offloop_chanops_ok = true.
Proof. exact offloop_chanops_ok_true. Qed.
Theorem C17_only_done_and_rcv_closed : closes_ok = true.
Proof. exact closes_ok_true. Qed.
Theorem C17_goroutines : gos_ok = true.
Proof. exact gos_ok_true. Qed.
Print Assumptions C17_goroutines.

(* ownership => data-race freedom on state cells, for every trace of accesses *)
Theorem C17_ownership_drf : forall trace : list access,
  (forall a, In a trace -> state_cell (a_cell a) = true -> a_thread a = TLoop) ->
  forall a b, In a trace -> In b trace -> state_cell (a_cell a) = true -> conflicting a b = false.
Proof. exact ownership_drf. Qed.
Print Assumptions C17_ownership_drf.

(* every interleaving of producers, timer callbacks, the receiver, Stop and the loop: nobody ever sends on a
   closed channel and the invariant holds *)
Theorem C17_no_send_on_closed_channel : forall l c, CInv c -> exists c', crun c l = Next c' /\ CInv c'.
Proof. intros l c. exact (crun_safe l c). Qed.
Print Assumptions C17_no_send_on_closed_channel.

(* every notification / datagram handed over is processed at most once; exactly once when the queues are empty *)
Theorem C17_exactly_once : forall l c,
  crun c_init l = Next c ->
  Permutation (processed c ++ q_sr c ++ q_to c ++ payloads (q_rcv c)) (accepted c).
Proof. exact exactly_once. Qed.
Theorem C17_quiescent_exactly_once : forall l c,
  crun c_init l = Next c -> q_sr c = [] -> q_to c = [] -> payloads (q_rcv c) = [] ->
  Permutation (processed c) (accepted c).
Proof. exact quiescent_exactly_once. Qed.
Print Assumptions C17_quiescent_exactly_once.

(* after the loop has stopped no producer or timer callback can stay blocked: its select's done branch is enabled *)
Theorem C17_stop_releases_producers : forall l c,
  crun c_init l = Next c -> main_exited c = true -> cstep c AGiveUp = Next c.
Proof. exact stopped_releases_producers. Qed.
Print Assumptions C17_stop_releases_producers.

(* ---- shutdown composition: event loop, Stop, the driver.Close that follows it, the periodic server's CLOSE handling,
   ticker goroutines.  The protocol parameters are READ OFF the generated channel-operation tables. *)
Definition has3 (t : list (string * string * string)) (x : string * string * string) : bool :=
  existsb (fun y => match x, y with (a, b, c), (a', b', c') => (String.eqb a a' && String.eqb b b' && String.eqb c c')%bool end) t.

Definition has2 (t : list (string * string)) (x : string * string) : bool :=
  existsb (fun y => (String.eqb (fst x) (fst y) && String.eqb (snd x) (snd y))%bool) t.

Definition ticker_posts_by_put : bool :=
  (negb (has3 perio_chanops ("PERIOGroup.newTicker$1", "local.evtCh", "send")) && has2 perio_calls ("PERIOGroup.newTicker$1", "eventQueue.put")
   && forallb (fun y => negb (String.eqb (fst y) "eventQueue.put") || existsb (String.eqb (snd y)) ["?.Lock"; "?.Unlock"; "?.Signal"; "append"]) perio_calls)%string.

Definition shutdown_params : Shutdown.params :=
  Shutdown.mkP (has3 offloop_chanops ("PfcpServer.Stop", "PfcpServer.done", "recv")%string)
      (has3 perio_chanops ("PERIOGroup.stopTicker", "PERIOGroup.stopCh", "send")%string
       && has3 perio_chanops ("PERIOGroup.stopTicker", "PERIOGroup.stopCh", "close")%string
       && (has3 perio_chanops ("Server.Serve$1", "Server.evtCh", "close") || has2 perio_calls ("Server.Serve$1", "eventQueue.close"))%string)
      (((has3 perio_chanops ("PERIOGroup.newTicker$1", "local.evtCh", "send-select")%string
         && negb (has3 perio_chanops ("PERIOGroup.newTicker$1", "local.evtCh", "send")%string)) || ticker_posts_by_put)
       && has3 perio_chanops ("PERIOGroup.newTicker$1", "PERIOGroup.stopCh", "recv")%string)
      (* posts after close are dropped: every poster goes through put, and put reads the queue's closed flag *)
      (has2 perio_calls ("Server.AddPeriodReportTimer", "eventQueue.put") && has2 perio_calls ("Server.DelPeriodReportTimer", "eventQueue.put")
       && has2 perio_calls ("Server.Close", "eventQueue.put") && ticker_posts_by_put
       && existsb (fun y => String.eqb (fst y) "eventQueue.put" && existsb (String.eqb "eventQueue.closed") (snd y)) perio_access)%string.

(* for the code as it is, with any number of tickers and under EVERY schedule of the loop, Stop, driver.Close, the
   periodic server and the tickers: nobody ever sends on the closed event channel (no panic at shutdown) *)
Theorem C17_shutdown_no_send_on_closed : forall n l, exists s, Shutdown.run shutdown_params (Shutdown.init n) l = Shutdown.Next s.
Proof. intros n l. destruct (ShutdownProofs.run_from_init shutdown_params n l eq_refl eq_refl) as [s [E _]]. exists s. exact E. Qed.
Print Assumptions C17_shutdown_no_send_on_closed.

(* ... and the periodic server, once it has taken CLOSE, is never stuck waiting for a ticker (it terminates) *)
Theorem C17_shutdown_server_never_stuck : forall n l s, Shutdown.run shutdown_params (Shutdown.init n) l = Shutdown.Next s -> Shutdown.serve_can_move shutdown_params s = true.
Proof. intros n l s. exact (ShutdownProofs.never_stuck_from_init shutdown_params n l s eq_refl eq_refl eq_refl). Qed.
Print Assumptions C17_shutdown_server_never_stuck.

(* since the event queue drops what is posted after it was closed, no schedule at all can fault - also those in which
   Stop would not wait or a ticker would not be handed over *)
Theorem C17_shutdown_queue_drops_after_close : Shutdown.drops shutdown_params = true /\
  forall s a, Shutdown.step shutdown_params s a <> Shutdown.SendOnClosed.
Proof. split; [reflexivity | intros s a; apply ShutdownProofs.drops_never_faults; reflexivity]. Qed.
Print Assumptions C17_shutdown_queue_drops_after_close.

(* each protocol element is necessary: the code before fixes 3f.. (Stop did not wait) / with stopTicker reduced to a
   close / with a plain tick send has a failing schedule - for an event CHANNEL (drops = false), which is what the code had *)
Example C17_shutdown_elements_needed :
  Shutdown.run (Shutdown.mkP false true true false) (Shutdown.init 0) [Shutdown.StopReturn; Shutdown.DriverClose; Shutdown.ServeTakeClose; Shutdown.ServeFinish; Shutdown.LoopDriverCall] = Shutdown.SendOnClosed /\
  Shutdown.run (Shutdown.mkP true false true false) (Shutdown.init 1) [Shutdown.LoopExit; Shutdown.StopReturn; Shutdown.DriverClose; Shutdown.TickFire 0; Shutdown.ServeTakeClose; Shutdown.ServeStopTicker; Shutdown.ServeFinish; Shutdown.TickSent 0] = Shutdown.SendOnClosed.
Proof. split; reflexivity. Qed.

(* the code before fix 4d35da3 closed srCh/trToCh in the clean-up: the table check rejects such a table *)
Example C17_legacy_closes_refuted :
  forallb (fun c => match c with (fn, ch) =>
    (String.eqb fn "PfcpServer.main$1" && mem_str ch ["PfcpServer.done"; "PfcpServer.rcvCh"])%string
    || (String.eqb fn "Sess.Close" && String.eqb ch "local.q")%string end)
    [("PfcpServer.main$1", "PfcpServer.rcvCh"); ("PfcpServer.main$1", "PfcpServer.srCh")]%string = false.
Proof. vm_compute. reflexivity. Qed.

Example C17_nonvacuous :
  match crun c_init [AReport 1; ADatagram 2; ATakeSr; ATimeout 3; ASocketClosed; ATakeRcv; ATakeRcv; AReport 4; AGiveUp; ADatagram 5] with
  | Next c => processed c = [1; 2]%N /\ main_exited c = true /\ q_to c = [3]%N /\ q_sr c = [4]%N
  | _ => False
  end.
Proof. vm_compute. repeat split; reflexivity. Qed.
