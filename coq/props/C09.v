(* C09 — UPF-initiated requests are retried, matched and retired correctly. Statements only. *)
From Coq Require Import String List NArith ZArith Bool.
From GoUpf Require Import Bytes FlagsGen ConstsGen HandlerGen Pfcp PfcpBase PfcpSess PfcpClose PfcpTable PfcpDelete PfcpStep PfcpProps.
Import ListNotations.
Local Open Scope N_scope.

(* a new request takes the counter as its sequence number, which is below 2^24 and stays below 2^24 for
   every counter position (wrap-around included); the entry is registered under exactly that number *)
Theorem C09_sequence_24bit : forall w dst rseid p,
  w_txseq w < 16777216 ->
  let '(w', o) := send_req w dst rseid p in
  w_txseq w' < 16777216 /\ klookup (dst, w_txseq w) (w_tx w') = Some (mkTx (pdu_with_seq p (w_txseq w)) 0 rseid) /\
  o = [OSend dst (pdu_with_seq p (w_txseq w)) false].
Proof. exact send_req_seq. Qed.
Print Assumptions C09_sequence_24bit.

(* each expiry re-sends the SAME datagram while the count is below the maximum, then the entry is dropped *)
Theorem C09_retry_budget : forall w peer seq t,
  klookup (peer, seq) (w_tx w) = Some t ->
  (tx_count t < w_maxretrans w ->
     exists w', step w (EvTimeoutTx peer seq) = Ok (w', [OSend peer (tx_pdu t) true]) /\
                klookup (peer, seq) (w_tx w') = Some (mkTx (tx_pdu t) (tx_count t + 1) (tx_rseid t))) /\
  (w_maxretrans w <= tx_count t ->
     exists w', step w (EvTimeoutTx peer seq) = Ok (w', []) /\ klookup (peer, seq) (w_tx w') = None).
Proof. exact tx_retry_budget. Qed.
Print Assumptions C09_retry_budget.

(* a response from the peer the request was sent to, carrying its sequence number, releases the entry and
   causes no transmission *)
Theorem C09_stop_on_response : forall w peer seq m e t,
  reachable w -> is_request m = false -> klookup (peer, seq) (w_tx w) = Some t ->
  exists w' o, step w (EvRecv peer seq m e) = Ok (w', o) /\ klookup (peer, seq) (w_tx w') = None /\
               (forall d p r, In (OSend d p r) o -> False).
Proof. exact tx_response_releases. Qed.
Print Assumptions C09_stop_on_response.

(* responses and expiries matching no outstanding request leave the whole state unchanged *)
Theorem C09_unmatched_response_noop : forall w peer seq m e,
  is_request m = false -> klookup (peer, seq) (w_tx w) = None -> step w (EvRecv peer seq m e) = Ok (w, []).
Proof. exact tx_unmatched_noop. Qed.
Theorem C09_unmatched_expiry_noop : forall w peer seq,
  klookup (peer, seq) (w_tx w) = None -> step w (EvTimeoutTx peer seq) = Ok (w, []).
Proof. exact tx_timeout_unmatched_noop. Qed.
Print Assumptions C09_unmatched_expiry_noop.

(* non-vacuity, across the 2^24 wrap: counter at 2^24-1, two reports, the second carries sequence 0 *)
Example C09_nonvacuous_wrap :
  match run (init 16777215 1)
    [EvRecv 0 1 (MAssocSetup (IeVal 0) []) (mkEnv [] []);
     EvRecv 0 2 (MEst (IeVal 0) (IeVal 10) (mkOps [] [] [] [] [] [] [] [] [] [] [] [] [] [] [] [])) (mkEnv [] []);
     EvReport 1 [RDld 1 12 [1]] (mkEnv [] []); EvReport 1 [RDld 1 12 [2]] (mkEnv [] []);
     EvTimeoutTx 0 0; EvTimeoutTx 0 0; EvRecv 0 16777215 (MReportRsp 10) (mkEnv [] [])] with
  | Ok (w, os) => skipn 2 os = [[OSend 0 (PReportDLDR 16777215 10 1) false]; [OSend 0 (PReportDLDR 0 10 1) false];
                                [OSend 0 (PReportDLDR 0 10 1) true]; []; []] /\ w_tx w = [] /\ w_txseq w = 1
  | Fault _ => False
  end.
Proof. vm_compute. repeat split; reflexivity. Qed.

(* ---------------------------------------------------------------- with time: the retransmission timer
   (model/Timed.v; where the code arms, re-arms and stops its timers, what an expiry posts and how the loop dispatches
   it is read from transaction.go / pfcp.go on every run: gen/TimerGen.v, condensed into Timed.source_tparams).
   T = configured time-out, N = configured retries, t0 = when the request was sent, ds = how long after each expiry the
   loop got round to handling it. *)
From GoUpf Require TimerGen Timed TimedProofs.

(* the source has the shape the timed model assumes: send arms the timer; the retry branch re-arms it on every path;
   an expiry posts (TX, tx.id) after cfg.RetransTimeout and is dispatched to txTrans / handleTimeout; a response stops it *)
Theorem C09_timer_sites : Timed.source_tparams = Timed.tp_ok.
Proof. exact TimedProofs.source_tparams_ok. Qed.
Print Assumptions C09_timer_sites.

(* each retransmission / the final abandonment happens no earlier than its expiry; consecutive ones are at least T
   apart (the i-th action is not before t0 + i*T), and not later than delta after its expiry if the loop is never
   busy for longer than delta *)
Theorem C09_retransmission_schedule : forall (T : Z) (N : nat) (t0 : Z) (ds : list Z),
  (0 <= T)%Z -> Forall (fun d => (0 <= d)%Z) ds ->
  Timed.spaced T (t0 + T)%Z (TimedProofs.times (snd (Timed.tx_run Timed.source_tparams T N (Timed.tx_start Timed.source_tparams T t0) ds))) /\
  forall delta, Forall (fun d => (d <= delta)%Z) ds ->
  Timed.punctual T delta (t0 + T)%Z (TimedProofs.times (snd (Timed.tx_run Timed.source_tparams T N (Timed.tx_start Timed.source_tparams T t0) ds))).
Proof. exact TimedProofs.src_tx_schedule. Qed.
Print Assumptions C09_retransmission_schedule.

(* never more than N retransmissions; once N+1 expiries have been handled: exactly N retransmissions, then the request
   is abandoned and its bookkeeping released (stale expiries afterwards do nothing) *)
Theorem C09_retry_budget_and_release : forall (T : Z) (N : nat) (t0 : Z) (ds : list Z),
  (List.length (filter Timed.is_retrans (snd (Timed.tx_run Timed.source_tparams T N (Timed.tx_start Timed.source_tparams T t0) ds))) <= N)%nat /\
  ((N < List.length ds)%nat ->
   fst (Timed.tx_run Timed.source_tparams T N (Timed.tx_start Timed.source_tparams T t0) ds) = Timed.TxGone /\
   map Timed.is_retrans (snd (Timed.tx_run Timed.source_tparams T N (Timed.tx_start Timed.source_tparams T t0) ds)) = repeat true N ++ [false]).
Proof. exact TimedProofs.src_tx_budget_release. Qed.
Print Assumptions C09_retry_budget_and_release.

(* a response retires the request: expiries handled afterwards emit nothing *)
Theorem C09_response_stops_retransmission : forall p T N s ds, Timed.tx_run p T N (Timed.tx_resp s) ds = (Timed.TxGone, []).
Proof. exact TimedProofs.tx_after_response. Qed.
Print Assumptions C09_response_stops_retransmission.

(* the variant in which the re-arm can be skipped (e.g. a failed write returning first): never retired *)
Theorem C09_skipped_rearm_refuted : forall T N ds due, (1 <= N)%nat -> ds <> [] ->
  fst (Timed.tx_run (Timed.mkTP true true true false true true true true true true) T N (Timed.TxWait 0 due) ds) = Timed.TxStalled 1.
Proof. exact TimedProofs.tx_no_rearm_stalls. Qed.
Print Assumptions C09_skipped_rearm_refuted.

Example C09_timed_nonvacuous :
  Timed.tx_run Timed.source_tparams 200 2 (Timed.tx_start Timed.source_tparams 200 1000) [3; 0; 7; 1]%Z
  = (Timed.TxGone, [Timed.Retrans 1203; Timed.Retrans 1403; Timed.Abandon 1610]).
Proof. exact TimedProofs.timed_example. Qed.

(* "distinct from every other outstanding one": the k-th request sent since the counter stood at x0 carries
   (x0 + k) mod 2^24 (C09_sequence_24bit: send_req stores counter+1 mod 2^24); two of them differ iff fewer than 2^24
   requests lie between them - the bound is exact.  A request can therefore meet an outstanding one with its own
   number only if that one stayed outstanding over 2^24 later requests; its life is bounded by (N+1)*T
   (C09_retry_budget_and_release). *)
From GoUpf Require SeqWindow.
Theorem C09_sequence_of_kth_request : forall x0 k, SeqWindow.seq_after x0 k = (x0 + N.of_nat k) mod 16777216.
Proof. exact SeqWindow.seq_after_closed. Qed.
Print Assumptions C09_sequence_of_kth_request.

Theorem C09_distinct_within_window : forall x0 (a b : nat),
  (a < b)%nat -> N.of_nat b - N.of_nat a < 16777216 -> SeqWindow.seq_after x0 a <> SeqWindow.seq_after x0 b.
Proof. exact SeqWindow.seq_distinct_within_window. Qed.
Print Assumptions C09_distinct_within_window.

Theorem C09_window_bound_exact : forall x0 a, SeqWindow.seq_after x0 (a + N.to_nat 16777216) = SeqWindow.seq_after x0 a.
Proof. exact SeqWindow.seq_repeat_at_window. Qed.
Print Assumptions C09_window_bound_exact.

(* T-gen tie: sendReqTo takes the counter, advances it, registers the transaction and only then writes - the order of
   send_req in the model; a failed write cannot leave the counter behind *)
From GoUpf Require LookupGen LookupShape.
Theorem C09_send_order_source_shape : (LookupGen.remote_sess_conds, LookupGen.sendreq_body) = LookupShape.lookup_model_shape.
Proof. exact LookupShape.lookup_shape_ok. Qed.
Print Assumptions C09_send_order_source_shape.

(* ---------------------------------------------------------------- a first transmission that fails in the socket
   (event EvReportWF: the report is served while every write on the PFCP socket fails).  sendReqTo registers the request
   before it writes and only logs the error of the write (statement order regenerated: C09_send_order_source_shape), so: *)
From GoUpf Require WriteFail.

(* the state after the failed transmission is the state after a successful one; only the emission is missing *)
Theorem C09_failed_write_same_state : forall w seid items e w' o,
  step w (EvReport seid items e) = Ok (w', o) ->
  step w (EvReportWF seid items e) = Ok (w', drop_sends o) /\ (forall d p r, ~ In (OSend d p r) (drop_sends o)).
Proof. intros w seid items e w' o H. split; [apply WriteFail.write_failure_same_state; exact H | intros d p r; apply WriteFail.drop_sends_no_send]. Qed.
Print Assumptions C09_failed_write_same_state.

(* the request is outstanding under the counter's value (retry count 0, counter advanced modulo 2^24) although
   nothing left the socket ... *)
Theorem C09_failed_write_still_registered : forall w seid s n usars e,
  reachable w -> live w seid s -> nth_error (w_heap w) (s_node s) = Some n -> usars <> [] ->
  exists w' p,
    step w (EvReportWF seid (map RUsa usars) e) = Ok (w', []) /\
    klookup (n_id n, w_txseq w) (w_tx w') = Some (mkTx p 0 (s_rid s)) /\
    w_txseq w' = (w_txseq w + 1) mod 16777216.
Proof. intros w seid s n usars e Hr. apply WriteFail.failed_write_still_registered. apply reachable_inv. exact Hr. Qed.
Print Assumptions C09_failed_write_still_registered.

(* ... its first expiry sends the stored datagram (budget > 0) or abandons it (budget 0) ... *)
Theorem C09_failed_write_then_expiry : forall w seid s n usars e,
  reachable w -> live w seid s -> nth_error (w_heap w) (s_node s) = Some n -> usars <> [] ->
  exists w' p, step w (EvReportWF seid (map RUsa usars) e) = Ok (w', []) /\
    (0 < w_maxretrans w' ->
       exists w'', step w' (EvTimeoutTx (n_id n) (w_txseq w)) = Ok (w'', [OSend (n_id n) p true])) /\
    (w_maxretrans w' = 0 ->
       exists w'', step w' (EvTimeoutTx (n_id n) (w_txseq w)) = Ok (w'', []) /\ klookup (n_id n, w_txseq w) (w_tx w'') = None).
Proof. intros w seid s n usars e Hr. apply WriteFail.failed_write_then_expiry. apply reachable_inv. exact Hr. Qed.
Print Assumptions C09_failed_write_then_expiry.

(* ... and a response with that number from that peer retires it (C09_stop_on_response applies: the state is reachable) *)
Theorem C09_failed_write_then_response : forall w seid s n usars e m e',
  reachable w -> live w seid s -> nth_error (w_heap w) (s_node s) = Some n -> usars <> [] -> is_request m = false ->
  exists w' w'' o,
    step w (EvReportWF seid (map RUsa usars) e) = Ok (w', []) /\
    step w' (EvRecv (n_id n) (w_txseq w) m e') = Ok (w'', o) /\
    klookup (n_id n, w_txseq w) (w_tx w'') = None /\ (forall d p r, In (OSend d p r) o -> False).
Proof.
  intros w seid s n usars e m e' Hr HL Hn Hne Hm.
  destruct (WriteFail.failed_write_still_registered w seid s n usars e (reachable_inv _ Hr) HL Hn Hne) as [w' [p [E [K _]]]].
  assert (Hr' : reachable w') by (eapply reach_step; eauto).
  destruct (tx_response_releases w' (n_id n) (w_txseq w) m e' _ Hr' Hm K) as [w'' [o [E2 [K2 S]]]].
  exists w', w'', o. auto.
Qed.
Print Assumptions C09_failed_write_then_response.

Example C09_failed_write_nonvacuous :
  match run (init 16777215 1)
    [EvRecv 0 1 (MAssocSetup (IeVal 0) []) (mkEnv [] []);
     EvRecv 0 2 (MEst (IeVal 0) (IeVal 10) (mkOps [] [] [] [] [] [] [] [] [] [] [] [] [] [] [] [])) (mkEnv [] []);
     EvReportWF 1 [RDld 1 12 [1]] (mkEnv [] []); EvReport 1 [RDld 1 12 [2]] (mkEnv [] []);
     EvTimeoutTx 0 16777215; EvRecv 0 16777215 (MReportRsp 10) (mkEnv [] []); EvTimeoutTx 0 16777215] with
  | Ok (w, os) => skipn 2 os = [[]; [OSend 0 (PReportDLDR 0 10 1) false];
                                [OSend 0 (PReportDLDR 16777215 10 1) true]; []; []] /\
                  map fst (w_tx w) = [(0, 0)] /\ w_txseq w = 1
  | Fault _ => False
  end.
Proof. vm_compute. repeat split; reflexivity. Qed.

(* a retransmission that fails in the socket (EvTimeoutTxWF) counts against the budget like one that went out *)
Theorem C09_lost_retransmission_counted : forall w peer seq t,
  klookup (peer, seq) (w_tx w) = Some t -> tx_count t < w_maxretrans w ->
  exists w', step w (EvTimeoutTxWF peer seq) = Ok (w', []) /\
             klookup (peer, seq) (w_tx w') = Some (mkTx (tx_pdu t) (tx_count t + 1) (tx_rseid t)).
Proof. exact WriteFail.lost_retransmission_counted. Qed.
Print Assumptions C09_lost_retransmission_counted.
