(* C09 — UPF-initiated requests are retried, matched and retired correctly. Statements only. *)
From Coq Require Import String List NArith ZArith Bool.
From GoUpf Require Import Bytes FlagsGen ConstsGen HandlerGen Pfcp PfcpBase PfcpSess PfcpClose PfcpTable PfcpDelete PfcpStep PfcpProps.
Import ListNotations.
Local Open Scope N_scope.

(* a new request takes the counter as its sequence number, which is below 2^24 and stays below 2^24 for
   every counter position (wrap-around included); the entry is registered under exactly that number *)
Theorem C09_sequence_24bit : forall w dst rseid p,
  w_txseq w < 16777216 ->
  let '(w', o) := send_req w dst rseid p in
  w_txseq w' < 16777216 /\ klookup (dst, w_txseq w) (w_tx w') = Some (mkTx (pdu_with_seq p (w_txseq w)) 0 rseid) /\
  o = [OSend dst (pdu_with_seq p (w_txseq w)) false].
Proof. exact send_req_seq. Qed.
Print Assumptions C09_sequence_24bit.

(* each expiry re-sends the SAME datagram while the count is below the maximum, then the entry is dropped *)
Theorem C09_retry_budget : forall w peer seq t,
  klookup (peer, seq) (w_tx w) = Some t ->
  (tx_count t < w_maxretrans w ->
     exists w', step w (EvTimeoutTx peer seq) = Ok (w', [OSend peer (tx_pdu t) true]) /\
                klookup (peer, seq) (w_tx w') = Some (mkTx (tx_pdu t) (tx_count t + 1) (tx_rseid t))) /\
  (w_maxretrans w <= tx_count t ->
     exists w', step w (EvTimeoutTx peer seq) = Ok (w', []) /\ klookup (peer, seq) (w_tx w') = None).
Proof. exact tx_retry_budget. Qed.
Print Assumptions C09_retry_budget.

(* a response from the peer the request was sent to, carrying its sequence number, releases the entry and
   causes no transmission *)
Theorem C09_stop_on_response : forall w peer seq m e t,
  reachable w -> is_request m = false -> klookup (peer, seq) (w_tx w) = Some t ->
  exists w' o, step w (EvRecv peer seq m e) = Ok (w', o) /\ klookup (peer, seq) (w_tx w') = None /\
               (forall d p r, In (OSend d p r) o -> False).
Proof. exact tx_response_releases. Qed.
Print Assumptions C09_stop_on_response.

(* responses and expiries matching no outstanding request leave the whole state unchanged *)
Theorem C09_unmatched_response_noop : forall w peer seq m e,
  is_request m = false -> klookup (peer, seq) (w_tx w) = None -> step w (EvRecv peer seq m e) = Ok (w, []).
Proof. exact tx_unmatched_noop. Qed.
Theorem C09_unmatched_expiry_noop : forall w peer seq,
  klookup (peer, seq) (w_tx w) = None -> step w (EvTimeoutTx peer seq) = Ok (w, []).
Proof. exact tx_timeout_unmatched_noop. Qed.
Print Assumptions C09_unmatched_expiry_noop.

(* non-vacuity, across the 2^24 wrap: counter at 2^24-1, two reports, the second carries sequence 0 *)
Example C09_nonvacuous_wrap :
  match run (init 16777215 1)
    [EvRecv 0 1 (MAssocSetup (IeVal 0) []) (mkEnv [] []);
     EvRecv 0 2 (MEst (IeVal 0) (IeVal 10) (mkOps [] [] [] [] [] [] [] [] [] [] [] [] [] [] [] [])) (mkEnv [] []);
     EvReport 1 [RDld 1 12 [1]] (mkEnv [] []); EvReport 1 [RDld 1 12 [2]] (mkEnv [] []);
     EvTimeoutTx 0 0; EvTimeoutTx 0 0; EvRecv 0 16777215 (MReportRsp 10) (mkEnv [] [])] with
  | Ok (w, os) => skipn 2 os = [[OSend 0 (PReportDLDR 16777215 10 1) false]; [OSend 0 (PReportDLDR 0 10 1) false];
                                [OSend 0 (PReportDLDR 0 10 1) true]; []; []] /\ w_tx w = [] /\ w_txseq w = 1
  | Fault _ => False
  end.
Proof. vm_compute. repeat split; reflexivity. Qed.
