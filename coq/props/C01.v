(* C01 — data-plane rules never outlive, escape or pre-date their PFCP session. Statements only. *)
From Coq Require Import String List NArith ZArith Bool.
From GoUpf Require Import Bytes FlagsGen ConstsGen HandlerGen Pfcp PfcpBase PfcpSess PfcpClose PfcpTable PfcpDelete PfcpStep PfcpProps.
Import ListNotations.
Local Open Scope N_scope.

(* containment, for every reachable state (all histories x all failure oracles x all Reset orders):
   a rule in the data plane belongs to a live session and its id is in that session's recorded set *)
Theorem C01_containment : forall w seid k id,
  reachable w -> In (seid, k, id) (w_dp w) -> exists s, live w seid s /\ In id (recorded s k).
Proof. exact containment. Qed.
Print Assumptions C01_containment.

(* Sess.Close withdraws everything, assuming only containment (so also after failed creates/updates) *)
Theorem C01_close_withdraws : forall e c c' rs,
  sess_close e c = Some (c', rs) -> SOK (c_s c) (c_dp c) ->
  forall k id, ~ In (s_lid (c_s c), k, id) (c_dp c').
Proof. exact close_withdraws. Qed.
Print Assumptions C01_close_withdraws.

(* every way a session ends goes through delete_sess; its post-condition: invariant kept, slot released,
   no rule of the session left, rules and sessions of every other SEID untouched *)
Theorem C01_delete_sess : forall e w ref lid,
  WInv w -> exists w' r, delete_sess e w ref lid = Ok (w', r) /\ delete_post w ref lid w' r /\
  (forall n, nth_error (w_heap w) ref = Some n -> In lid (n_sess n) -> r <> None).
Proof. exact delete_sess_spec. Qed.
Print Assumptions C01_delete_sess.

Theorem C01_deletion_withdraws : forall w peer seq seid e s,
  WInv w -> live w seid s ->
  exists w' o, handle_del w peer seq seid e = Ok (w', o) /\
    (forall k id, ~ In (seid, k, id) (w_dp w')) /\ (forall s', ~ live w' seid s') /\ In seid (w_free w') /\
    (forall lid' s', lid' <> seid -> (live w' lid' s' <-> live w lid' s')) /\
    (forall r, fst (fst r) <> seid -> (In r (w_dp w') <-> In r (w_dp w))).
Proof. exact deletion_withdraws. Qed.
Print Assumptions C01_deletion_withdraws.

(* the found-check: Update / Remove / Query for an id the session has not recorded never reaches the driver *)
Theorem C01_guarded_update : forall e k i c, ~ In i (recorded (c_s c) k) -> update_simple e k (Some i) c = c.
Proof. exact guarded_update_simple. Qed.
Theorem C01_guarded_remove : forall e k i c, ~ In i (recorded (c_s c) k) -> remove_simple e k (Some i) c = c.
Proof. exact guarded_remove_simple. Qed.
Theorem C01_guarded_update_urr : forall e o i c, uo_id o = Some i -> ~ In i (recorded (c_s c) KURR) -> update_urr e o c = (c, []).
Proof. exact guarded_update_urr. Qed.
Theorem C01_guarded_remove_urr : forall e i c, ~ In i (recorded (c_s c) KURR) -> remove_urr e (Some i) c = (c, []).
Proof. exact guarded_remove_urr. Qed.
Theorem C01_guarded_query_urr : forall e i c, ~ In i (recorded (c_s c) KURR) -> query_urr e (Some i) c = (c, []).
Proof. exact guarded_query_urr. Qed.
Theorem C01_guarded_update_pdr : forall e o c, ~ In (pdr_id o) (recorded (c_s c) KPDR) -> update_pdr e o c = (c, []).
Proof. exact guarded_update_pdr. Qed.
Theorem C01_guarded_remove_pdr : forall e i c, ~ In i (recorded (c_s c) KPDR) -> remove_pdr e (Some i) c = (c, []).
Proof. exact guarded_remove_pdr. Qed.
Print Assumptions C01_guarded_remove_pdr.

(* the generated Close order names all five rule kinds (re-checked against node.go on every run) *)
Theorem C01_close_covers_all_kinds : forall k, exists n, In n close_order /\ kind_of_close n = Some k.
Proof. exact close_order_covers. Qed.
Print Assumptions C01_close_covers_all_kinds.

(* non-vacuity: a failed create, a collision and a deletion; the data plane ends empty *)
Example C01_nonvacuous :
  match run (init 0 1)
    [EvRecv 0 1 (MAssocSetup (IeVal 0) []) (mkEnv [] []);
     EvRecv 0 2 (MEst (IeVal 0) (IeVal 10) (mkOps [Some 1; Some 2; Some 1] [Some 1] [] [] [mkPdrOp (Some 1) [] false false] [] [] [] [] [] [] [] [] [] [] []))
            (mkEnv [(DCreate, KFAR, 2)] [])] with
  | Ok (w, _) => w_dp w = [(1, KFAR, 1); (1, KQER, 1); (1, KPDR, 1)] /\
      match step w (EvRecv 0 3 (MDel 1) (mkEnv [] [])) with Ok (w', _) => w_dp w' = [] | Fault _ => False end
  | Fault _ => False
  end.
Proof. vm_compute. split; reflexivity. Qed.
