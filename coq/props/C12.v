(* C12 — ending or detaching a URR returns its final usage exactly once. Statements only. *)
From Coq Require Import String List NArith ZArith Bool.
From GoUpf Require Import Bytes FlagsGen ConstsGen HandlerGen Pfcp PfcpBase PfcpSess PfcpClose PfcpTable PfcpDelete
  PfcpStep PfcpProps PfcpCat PfcpUsage PfcpRef PfcpQueue.
Import ListNotations.
Local Open Scope N_scope.

(* (a) the reference counts are exact.  RefOK is the invariant proper; RefInv adds what the operations need to keep
   it (stored related-URR lists duplicate-free, fewer than 65536 PDRs so that the uint16 counter cannot wrap). *)
Theorem C12_RefInv_def : forall s,
  RefInv s <->
  ((NoDup (map fst (s_pdrs s)) /\ NoDup (map fst (s_urrs s)) /\
    forall u inf, alookup u (s_urrs s) = Some inf -> ui_ref inf = pdr_refs s u) /\
   (forall p us, alookup p (s_pdrs s) = Some us -> NoDup us) /\ N.of_nat (length (s_pdrs s)) < 65536).
Proof. exact RefInv_unfold. Qed.
Print Assumptions C12_RefInv_def.

(* a whole request, for ANY category order that runs the Create PDR loop at most once; cpdr_wf: the Create PDR
   IEs name pairwise distinct PDR ids that the session does not have yet, and the PDR count stays below 65536 *)
Theorem C12_request_keeps_refcounts : forall e o names c r,
  run_categories e o names c = Some r -> RefInv (c_s c) -> (occurs CPDR names <= 1)%nat -> cpdr_wf o (c_s c) ->
  RefInv (c_s (fst r)).
Proof. exact run_categories_RefInv. Qed.
Print Assumptions C12_request_keeps_refcounts.

Theorem C12_orders_once : (occurs CPDR est_order <= 1)%nat /\ (occurs CPDR mod_order <= 1)%nat.
Proof. exact orders_once. Qed.
Print Assumptions C12_orders_once.

(* at the server: a Session Modification whose Create PDR IEs are well-formed for the addressed session leaves
   that session with exact reference counts (run_categories in the generated order, then the emission) *)
Theorem C12_modification_keeps_refcounts : forall w peer seq seid o e s,
  WInv w -> live w seid s -> RefInv s -> cpdr_wf o s ->
  exists w' out, handle_mod w peer seq seid IeAbsent o e = Ok (w', out) /\
    (w' = w \/ exists s', live w' seid s' /\ RefInv s').
Proof. exact handle_mod_RefInv. Qed.
Print Assumptions C12_modification_keeps_refcounts.

(* ... and, since fix "Create PDR for a held id replaces its associations", for ANY Create PDR ids (naming PDRs the session
   holds, repeated in one request): only room below 65536 PDRs is required *)
Theorem C12_modification_keeps_refcounts_any_ids : forall w peer seq seid o e s,
  WInv w -> live w seid s -> RefInv s -> cpdr_room o s ->
  exists w' out, handle_mod w peer seq seid IeAbsent o e = Ok (w', out) /\
    (w' = w \/ exists s', live w' seid s' /\ RefInv s').
Proof. exact handle_mod_RefInv_room. Qed.
Print Assumptions C12_modification_keeps_refcounts_any_ids.

(* per operation *)
Theorem C12_create_pdr : forall e o c,
  RefInv (c_s c) -> N.of_nat (length (s_pdrs (c_s c))) + 1 < 65536 -> RefInv (c_s (create_pdr e o c)).
Proof. exact create_pdr_RefInv_any. Qed.
Print Assumptions C12_create_pdr.
Theorem C12_update_pdr : forall e o c, RefInv (c_s c) -> RefInv (c_s (fst (update_pdr e o c))).
Proof. exact update_pdr_RefInv. Qed.
Print Assumptions C12_update_pdr.
Theorem C12_remove_pdr : forall e id c, RefInv (c_s c) -> RefInv (c_s (fst (remove_pdr e id c))).
Proof. exact remove_pdr_RefInv. Qed.
Print Assumptions C12_remove_pdr.
Theorem C12_create_urr : forall e o c, RefInv (c_s c) -> RefInv (c_s (create_urr e o c)).
Proof. exact create_urr_RefInv. Qed.
Print Assumptions C12_create_urr.
Theorem C12_update_urr : forall e o c, RefInv (c_s c) -> RefInv (c_s (fst (update_urr e o c))).
Proof. exact update_urr_RefInv. Qed.
Print Assumptions C12_update_urr.
Theorem C12_remove_urr : forall e id c, RefInv (c_s c) -> RefInv (c_s (fst (remove_urr e id c))).
Proof. exact remove_urr_RefInv. Qed.
Print Assumptions C12_remove_urr.
Theorem C12_query_urr : forall e id c, RefInv (c_s c) -> RefInv (c_s (fst (query_urr e id c))).
Proof. exact query_urr_RefInv. Qed.
Print Assumptions C12_query_urr.
Theorem C12_simple : forall e k id c,
  RefInv (c_s c) ->
  RefInv (c_s (create_simple e k id c)) /\ RefInv (c_s (update_simple e k id c)) /\ RefInv (c_s (remove_simple e k id c)).
Proof. exact simple_RefInv. Qed.
Print Assumptions C12_simple.
Theorem C12_close : forall e c c' rs, sess_close e c = Some (c', rs) -> RefInv (c_s c) -> RefInv (c_s c').
Proof. exact sess_close_RefInv. Qed.
Print Assumptions C12_close.
Theorem C12_emit : forall extra d s rs, RefInv s -> RefInv (set_urrs (fst (emit extra d (s_urrs s) rs)) s).
Proof. exact emit_RefInv. Qed.
Print Assumptions C12_emit.
Theorem C12_new_session : forall lid rid node, RefInv (empty_sess lid rid node).
Proof. exact RefInv_empty. Qed.
Print Assumptions C12_new_session.

(* (b) dissociation: the last PDR gone => exactly one QueryURR call, its reports returned with TERMR;
   otherwise no call and no report *)
Theorem C12_diassociate_last : forall e u c inf,
  alookup u (s_urrs (c_s c)) = Some inf -> ui_ref inf = 1 ->
  diassociate e u c =
    (mkCtx (set_urrs (aset u (with_ref inf 0) (s_urrs (c_s c))) (c_s c)) (c_dp c)
           (c_out c ++ [ODrv DQuery KURR (s_lid (c_s c)) u (query_ok e c KURR u)]),
     if query_ok e c KURR u then map (or_trig USAR_TRIG_TERMR) (usage e DQuery u) else []).
Proof. exact diassociate_last. Qed.
Print Assumptions C12_diassociate_last.

Theorem C12_diassociate_last_counted : forall e u c inf,
  RefOK (c_s c) -> alookup u (s_urrs (c_s c)) = Some inf -> pdr_refs (c_s c) u = 1 ->
  snd (diassociate e u c) = (if query_ok e c KURR u then map (or_trig USAR_TRIG_TERMR) (usage e DQuery u) else []) /\
  c_out (fst (diassociate e u c)) = c_out c ++ [ODrv DQuery KURR (s_lid (c_s c)) u (query_ok e c KURR u)].
Proof. exact diassociate_last_RefOK. Qed.
Print Assumptions C12_diassociate_last_counted.

Theorem C12_diassociate_shared : forall e u c inf,
  RefOK (c_s c) -> alookup u (s_urrs (c_s c)) = Some inf -> 1 < pdr_refs (c_s c) u ->
  snd (diassociate e u c) = [] /\ c_out (fst (diassociate e u c)) = c_out c.
Proof. exact diassociate_shared_RefOK. Qed.
Print Assumptions C12_diassociate_shared.

(* (c) Remove URR / Query URR and the cause bits *)
Theorem C12_remove_urr_termr : forall e i c inf,
  alookup i (s_urrs (c_s c)) = Some inf ->
  snd (remove_urr e (Some i) c) =
    (if remove_ok c KURR i then map (or_trig USAR_TRIG_TERMR) (usage e DRemove i) else []) /\
  c_out (fst (remove_urr e (Some i) c)) = c_out c ++ [ODrv DRemove KURR (s_lid (c_s c)) i (remove_ok c KURR i)] /\
  (if remove_keeps e c i     (* the removal failed, or a returned (final) report names the URR *)
   then exists inf', alookup i (s_urrs (c_s (fst (remove_urr e (Some i) c)))) = Some inf' /\ ui_removed inf' = true /\
                     ui_seqn inf' = ui_seqn inf /\ ui_ref inf' = ui_ref inf
   else alookup i (s_urrs (c_s (fst (remove_urr e (Some i) c)))) = None).
Proof. exact remove_urr_termr. Qed.
Print Assumptions C12_remove_urr_termr.

Theorem C12_query_urr_immer : forall e i c inf,
  alookup i (s_urrs (c_s c)) = Some inf ->
  query_urr e (Some i) c =
    (mkCtx (c_s c) (c_dp c) (c_out c ++ [ODrv DQuery KURR (s_lid (c_s c)) i (query_ok e c KURR i)]),
     if query_ok e c KURR i then map (or_trig USAR_TRIG_IMMER) (usage e DQuery i) else []).
Proof. exact query_urr_immer. Qed.
Print Assumptions C12_query_urr_immer.

Theorem C12_or_trig_flag : forall r,
  flag_of USAR_TRIG_TERMR (r_trig (or_trig USAR_TRIG_TERMR r)) = true /\
  flag_of USAR_TRIG_IMMER (r_trig (or_trig USAR_TRIG_IMMER r)) = true.
Proof. exact or_trig_flags. Qed.
Print Assumptions C12_or_trig_flag.

Theorem C12_termr_reaches_peer : forall inf q r,
  flag_of USAR_TRIG_TERMR (ur_trig (mk_usage_ie inf q (or_trig USAR_TRIG_TERMR r))) = true.
Proof. exact termr_in_ie. Qed.
Print Assumptions C12_termr_reaches_peer.
Theorem C12_deletion_response_all_termr : forall d urrs rs ie,
  In ie (snd (emit USAR_TRIG_TERMR d urrs rs)) -> flag_of USAR_TRIG_TERMR (ur_trig ie) = true.
Proof. exact emit_termr_all. Qed.
Print Assumptions C12_deletion_response_all_termr.

(* (d) in a response a removed URR is reported at most once *)
Theorem C12_emit_once_per_removed : forall extra urrs rs urrs' ies u inf,
  emit extra true urrs rs = (urrs', ies) -> alookup u urrs = Some inf -> ui_removed inf = true ->
  length (ies_for u ies) = Nat.min 1 (length (reports_for u rs)) /\ (length (ies_for u ies) <= 1)%nat.
Proof. exact emit_once_per_removed. Qed.
Print Assumptions C12_emit_once_per_removed.

(* Session Deletion: Close marks every URR removed, so the Deletion Response carries at most ONE usage report
   per URR, and every one of them has TERMR *)
Theorem C12_close_marks_removed : forall e c c' rs,
  sess_close e c = Some (c', rs) ->
  forall u inf', alookup u (s_urrs (c_s c')) = Some inf' -> ui_removed inf' = true.
Proof. exact sess_close_marks_removed. Qed.
Print Assumptions C12_close_marks_removed.

Theorem C12_deletion_reports_once : forall e c c' rs u,
  sess_close e c = Some (c', rs) ->
  (length (ies_for u (snd (emit USAR_TRIG_TERMR true (s_urrs (c_s c')) rs))) <= 1)%nat /\
  forall ie, In ie (snd (emit USAR_TRIG_TERMR true (s_urrs (c_s c')) rs)) -> flag_of USAR_TRIG_TERMR (ur_trig ie) = true.
Proof. exact deletion_reports_once. Qed.
Print Assumptions C12_deletion_reports_once.

(* the history of the former finding create-pdr-existing-id (fixed): a Create PDR whose PDR id the session already has is
   rejected by the data plane and leaves the reference counts alone; Remove PDR then finds the URR's last reference,
   queries it and returns its final usage *)
Example C12_create_pdr_existing_id_exact :
  match run (init 0 1) dup_pdr_history with
  | Ok (w, os) =>
      map (fun x => match x with ODrv a b c d ok => Some (a, b, c, d, ok) | _ => None end) (firstn 2 (nth 3 os []))
        = [Some (DRemove, KPDR, 1, 1, true); Some (DQuery, KURR, 1, 7, true)] /\
      map (option_map (fun s => (s_pdrs s, map (fun x => (fst x, ui_ref (snd x))) (s_urrs s)))) (w_slots w)
        = [Some ([], [(7, 0)])]
  | Fault _ => False
  end.
Proof. exact create_pdr_existing_id_exact. Qed.

(* non-vacuity: Create URR 7, 8 + PDR 1 {7}; Update PDR 1 -> {7, 8}; Remove PDR 1: both URRs lose their last PDR,
   one QueryURR each, two reports with TERMR (2048) in the Modification Response *)
Definition C12_rp (u v : N) : rpt := mkRpt u 1 0 [v; v; v; 1; 1; 1] 5 100 200.
Definition C12_history : list event :=
  [EvRecv 0 1 (MAssocSetup (IeVal 0) []) (mkEnv [] []);
   EvRecv 0 2 (MEst (IeVal 0) (IeVal 10)
     (mkOps [] [] [mkUrrOp (Some 7) (Some 2) None; mkUrrOp (Some 8) (Some 3) (Some 16)] []
            [mkPdrOp (Some 1) [7] true false] [] [] [] [] [] [] [] [] [] [] [])) (mkEnv [] []);
   EvRecv 0 3 (MMod 1 IeAbsent (mkOps [] [] [] [] [] [] [] [] [] [] [] [] [] [] [mkPdrOp (Some 1) [7; 8] true false] []))
     (mkEnv [] []);
   EvRecv 0 4 (MMod 1 IeAbsent (mkOps [] [] [] [] [] [] [] [] [] [Some 1] [] [] [] [] [] []))
     (mkEnv [] [(DQuery, 7, [C12_rp 7 10]); (DQuery, 8, [C12_rp 8 20])])].

Example C12_nonvacuous :
  match run (init 0 1) C12_history with
  | Ok (w, os) =>
      match nth 3 os [] with
      | [ODrv DRemove KPDR 1 1 true; ODrv DQuery KURR 1 7 true; ODrv DQuery KURR 1 8 true;
         OSend 0 (PModRsp 4 10 1 ies) false] =>
          map (fun ie => (ur_urr ie, ur_seqn ie, ur_trig ie)) ies = [(7, 0, 2049); (8, 0, 2049)]
      | _ => False
      end /\
      map (option_map (fun s => map (fun x => (fst x, ui_ref (snd x))) (s_urrs s))) (w_slots w) = [Some [(7, 0); (8, 0)]]
  | Fault _ => False
  end.
Proof. vm_compute. split; reflexivity. Qed.
