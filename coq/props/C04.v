(* C04 — every SEID resolves to exactly the live session it was issued for.
   Statements only; proofs in proofs/PfcpTable.v, PfcpDelete.v, PfcpStep.v, PfcpProps.v. *)
From Coq Require Import String List NArith ZArith Bool.
From GoUpf Require Import Bytes FlagsGen ConstsGen HandlerGen Pfcp PfcpBase PfcpSess PfcpClose PfcpTable PfcpDelete PfcpStep PfcpProps.
Import ListNotations.
Local Open Scope N_scope.

(* For EVERY history (any events, oracles, fault positions): the run does not fault and the final state
   satisfies the table invariant WInv: free list duplicate-free and equal to the set of released (nil)
   slots; the session in slot i carries SEID i+1 (hence live SEIDs are non-zero and pairwise distinct). *)
Theorem C04_table_invariant : forall q m evs,
  exists w os, run (init q m) evs = Ok (w, os) /\ WInv w.
Proof. intros q m evs. exact (run_no_fault_inv evs (init q m) (WInv_init q m)). Qed.
Print Assumptions C04_table_invariant.

(* the look-up is exact for ALL 2^64 (indeed all natural) SEID values: found iff that SEID's slot is live;
   otherwise 'not found'; never a run-time fault *)
Theorem C04_lookup_exact : forall sl seid,
  (forall f, lookup sl seid <> Fault f) /\
  (forall s, lookup sl seid = Ok (Found s) <-> 1 <= seid /\ nth_error sl (N.to_nat (seid - 1)) = Some (Some s)) /\
  (lookup sl seid = Ok NotFound <-> forall s, ~ (1 <= seid /\ nth_error sl (N.to_nat (seid - 1)) = Some (Some s))).
Proof. exact lookup_exact. Qed.
Print Assumptions C04_lookup_exact.

Theorem C04_seid_unique : forall w lid lid' s, WInv w -> live w lid s -> live w lid' s -> lid = lid'.
Proof. exact seid_unique. Qed.
Print Assumptions C04_seid_unique.

(* allocation: the new session gets a non-zero SEID that no live session held, it becomes live under that
   SEID, and every other SEID resolves exactly as before *)
Theorem C04_fresh_nonzero : forall w rid ref n,
  WInv w -> nth_error (w_heap w) ref = Some n ->
  exists w2 s, est_alloc w rid ref = Ok (w2, s) /\ alloc_post w rid ref w2 s.
Proof. exact est_alloc_spec. Qed.
Print Assumptions C04_fresh_nonzero.

(* any SEID that is not live: 'session context not found' (cause 65) with header SEID 0, and the state is
   unchanged apart from the receive-transaction bookkeeping *)
Theorem C04_mod_not_found : forall w peer seq seid nid o e,
  (forall s, ~ live w seid s) -> klookup (peer, seq) (w_rx w) <> None ->
  exists w', handle_mod w peer seq seid nid o e = Ok (w', [OSend peer (PModRsp seq 0 CauseNoContext []) false]) /\
             same_core w w' /\ w_tx w' = w_tx w /\ w_txseq w' = w_txseq w.
Proof. exact mod_not_found. Qed.
Print Assumptions C04_mod_not_found.

Theorem C04_del_not_found : forall w peer seq seid e,
  (forall s, ~ live w seid s) -> klookup (peer, seq) (w_rx w) <> None ->
  exists w', handle_del w peer seq seid e = Ok (w', [OSend peer (PDelRsp seq 0 CauseNoContext []) false]) /\
             same_core w w' /\ w_tx w' = w_tx w /\ w_txseq w' = w_txseq w.
Proof. exact del_not_found. Qed.
Print Assumptions C04_del_not_found.

(* a released SEID (on the free list, i.e. the only ids that can be re-issued) has no rule left in the data plane *)
Theorem C04_reissue_after_complete_removal : forall w id k i, WInv w -> In id (w_free w) -> ~ In (id, k, i) (w_dp w).
Proof. exact free_seid_clean. Qed.
Print Assumptions C04_reissue_after_complete_removal.

(* the code before the repair (fix f339873): a SEID with the top bit set faults *)
Example C04_legacy_refuted : lookup_legacy [] 18446744073709551615 = Fault FIndexOutOfRange.
Proof. exact lookup_legacy_faults. Qed.

(* non-vacuity: a history that establishes two sessions, deletes the first and establishes a third re-uses SEID 1 *)
Definition ex_ops : ops := mkOps [Some 1] [] [] [] [] [] [] [] [] [] [] [] [] [] [] [].
Definition ex_env : env := mkEnv [] [].
Example C04_nonvacuous :
  match run (init 0 1) [EvRecv 0 1 (MAssocSetup (IeVal 0) []) ex_env;
                        EvRecv 0 2 (MEst (IeVal 0) (IeVal 10) ex_ops) ex_env;
                        EvRecv 0 3 (MEst (IeVal 0) (IeVal 11) ex_ops) ex_env;
                        EvRecv 0 4 (MDel 1) ex_env;
                        EvRecv 0 5 (MEst (IeVal 0) (IeVal 12) ex_ops) ex_env] with
  | Ok (w, _) => map (option_map s_rid) (w_slots w) = [Some 12; Some 11] /\ w_free w = []
  | Fault _ => False
  end.
Proof. vm_compute. split; reflexivity. Qed.

(* T-gen tie: the session a SEID-0 report response is about is recognised by the peer's SEID and the COMPLETE address
   (host and port) of its association - the comparison the model's lookup makes on peers *)
From GoUpf Require LookupGen LookupShape.
Theorem C04_seid0_lookup_source_shape : (LookupGen.remote_sess_conds, LookupGen.sendreq_body) = LookupShape.lookup_model_shape.
Proof. exact LookupShape.lookup_shape_ok. Qed.
Print Assumptions C04_seid0_lookup_source_shape.
