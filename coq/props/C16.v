(* C16 - stub, replaced below *)
From Coq Require Import List NArith Bool.
From GoUpf Require Import FlowTypes FlowSpec FlowDesc.
