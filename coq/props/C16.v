(* C16 - SDF flow descriptions are translated to the filter they denote.
   This file contains only statements; proofs are in proofs/FlowDescProofs.v.
   Vocabulary: monitor/FlowSpec.v (grammar [rule], printer [render] over all spacings and leading
   zeros, meaning [denote]/[denote_dp], reference decoder [decode_fd]/[unpack]) and
   model/FlowDesc.v (model of ParseFlowDesc, newFlowDesc, convertSlice and of the Go library
   fragments they call).  The record called "filter" in the design is [fdesc] here (the name
   clashes with List.filter); [dfilter] is the data-plane form. *)
From Coq Require Import List NArith Bool String.
From GoUpf Require Import Bytes FlowTypes FlowSpec FlowDesc FlowDescProofs FlowDescShape FlowDescGen Pdi PdiProofs.
Import ListNotations.
Local Open Scope N_scope.

(* Every rule of the grammar  permit in|out <0..255|ip> from <addr> [ports] to <addr> [ports]
   (addr = any | assigned | a.b.c.d | a.b.c.d/0..32, port lists of ANY length with single ports
   and ranges over 0..65535), rendered with ANY spacing (arbitrary non-empty runs of the six
   ASCII white-space characters between tokens, arbitrary runs before and after) and ANY number
   of leading zeros in protocol, prefix length and ports, is parsed to exactly the action,
   direction, protocol, source/destination network and mask and port lists it denotes. *)
Theorem C16_parse_render : forall r sp,
  wf_rule r -> parse_flow_desc (render r sp) = Ok (denote r).
Proof. exact parse_render. Qed.
Print Assumptions C16_parse_render.

(* The attribute list newFlowDesc hands to the data plane for such a string decodes (reference
   decoder, written from the attribute layout) to the denoted filter; for an uplink PDR
   (swapSrcDst) with source and destination addresses, masks and port lists exchanged. *)
Theorem C16_pack : forall r sp up,
  wf_rule r ->
  exists al, new_flow_desc (render r sp) up = Ok al /\
             decode_fd al = Some (swap_if up (denote_dp r)).
Proof. exact pack_render. Qed.
Print Assumptions C16_pack.

(* convertSlice: every list of 16-bit port entries ([p] or [lo; hi]) is recovered from the
   packed little-endian words (low port in the upper half) *)
Theorem C16_unpack_convert : forall l,
  Forall wf_entry l -> unpack (convert_slice l) = Some (map entry_range l).
Proof. exact unpack_convert. Qed.
Print Assumptions C16_unpack_convert.

(* the two readings of a rule agree: the data-plane reading of the parsed FlowDesc (used as a
   monitor on every accepted string) is the rule's data-plane denotation *)
Theorem C16_dp_reading : forall r, wf_rule r -> dp_of (denote r) = Some (denote_dp r).
Proof. exact dp_of_denote. Qed.
Print Assumptions C16_dp_reading.

(* The optional source port list is tried first on the token after the source address; the
   keyword that stands there when the list is absent is not a port list (so it is not consumed). *)
Theorem C16_to_is_not_a_port_list : parse_ports kw_to = None.
Proof. exact to_not_ports. Qed.
Print Assumptions C16_to_is_not_a_port_list.

(* Go's CIDRMask loop computes the specification's netmask, which is the usual one *)
Theorem C16_netmask : forall len, len <= 32 ->
  cidr_mask len = prefix_mask len /\
  match prefix_mask len with
  | [a; b; c; d] => rd32 a b c d = 2 ^ 32 - 2 ^ (32 - len)
  | _ => False
  end.
Proof. intros len H. split; [exact (cidr_mask_prefix len H) | exact (prefix_mask_value len H)]. Qed.
Print Assumptions C16_netmask.

(* "Any other string is rejected or handled without a fault": the model parser and packer are
   total functions with three outcomes and no fault outcome.  This is trivially true of any Coq
   function; the content of the no-fault claim for the Go code is the correspondence run
   (checks/c16.py: every case is executed under recover() and a panic is a monitor failure). *)
Theorem C16_total : forall s up,
  ((exists f, parse_flow_desc s = Ok f) \/ parse_flow_desc s = Err \/ parse_flow_desc s = Unmodelled) /\
  ((exists al, new_flow_desc s up = Ok al) \/ new_flow_desc s up = Err \/ new_flow_desc s up = Unmodelled).
Proof. intros s up. split; [exact (total_parse s) | exact (total_new s up)]. Qed.
Print Assumptions C16_total.

(* T-gen tie: the bit sizes, keywords, separators, attribute order/kinds and convertSlice
   shift/stride that the hand-written model fixes are the ones tools/gen found in /repo's
   flowdesc.go and gtp5g.go on this run (gen/FlowDescGen.v). *)
Theorem C16_source_shape : source_shape = model_shape.
Proof. exact source_shape_ok. Qed.
Print Assumptions C16_source_shape.

(* "with source and destination exchanged for uplink PDRs": which PDR is uplink is decided by the PDI's Source
   Interface, wherever that IE stands among the PDI's IEs.  The evaluation order the tree uses (filters packed
   while scanning, or after the scan) is read from newPdi on every run (fd_pdi_sdf_in_scan, fd_pdi_sdf_calls,
   fd_sdf_swap_when); under it every filter k of a PDI with one Source Interface IE v is exchanged iff v = Access. *)
Theorem C16_pdi_direction_any_ie_order : forall pre post v, no_srcif pre -> no_srcif post ->
  fd_sdf_swap_when = "srcIf == ie.SrcInterfaceAccess"%string /\ fd_pdi_sdf_calls = 1 /\
  pdi_sdf_swaps fd_pdi_sdf_in_scan (pre ++ PSrcIf v :: post)
  = map (fun k => (k, N.eqb v access)) (sdf_ids pre ++ sdf_ids post).
Proof. intros pre post v H1 H2. split; [reflexivity|split; [reflexivity|]]. exact (after_scan_order_independent pre post v H1 H2). Qed.
Print Assumptions C16_pdi_direction_any_ie_order.

(* the other evaluation order does not have the property: a filter in front of a Core Source Interface *)
Theorem C16_pdi_in_scan_refuted : pdi_sdf_swaps true [PSdf 1; PSrcIf 1] = [(1, true)]
                                  /\ pdi_sdf_swaps false [PSdf 1; PSrcIf 1] = [(1, false)].
Proof. exact in_scan_refuted. Qed.
Print Assumptions C16_pdi_in_scan_refuted.

(* non-vacuity: a concrete rule with both port lists, odd spacing and leading zeros *)
Definition ex_rule : rule :=
  {| r_dir := DOut; r_proto := Some 17; r_src := Prefix 10 1 2 3 20;
     r_sports := [Single 80; Range 1000 2000]; r_dst := Any; r_dports := [Range 5 5] |}.
Definition ex_sp : spacing :=
  {| sp_lead := [WTab]; sp_trail := [WCR; WSP];
     sp_gap := fun i => (WSP, if Nat.even i then [] else [WVT]);
     z_proto := 2; z_slen := 1; z_dlen := 0; z_sports := [(1%nat, 0%nat)]; z_dports := [] |}.

Example C16_nonvacuous :
  wf_ruleb ex_rule = true /\
  render ex_rule ex_sp =
    ([9] ++ txt "permit out" ++ [32; 11] ++ txt "0017 from" ++ [32; 11] ++ txt "10.1.2.3/020 080,1000-2000"
     ++ [32; 11] ++ txt "to any" ++ [32; 11] ++ txt "5-5" ++ [13; 32])%list /\
  parse_flow_desc (render ex_rule ex_sp) =
    Ok {| f_action := txt "permit"; f_dir := txt "out"; f_proto := 17;
          f_src_ip := [10; 1; 0; 0]; f_src_mask := [255; 255; 240; 0];
          f_dst_ip := repeat 0 16; f_dst_mask := repeat 0 16;
          f_sports := [[80]; [1000; 2000]]; f_dports := [[5; 5]] |} /\
  new_flow_desc (render ex_rule ex_sp) true =
    Ok [(1, AU8 1); (2, AU8 2); (3, AU8 17);
        (4, ABytes (repeat 0 16)); (5, ABytes (repeat 0 16));
        (6, ABytes [10; 1; 0; 0]); (7, ABytes [255; 255; 240; 0]);
        (8, ABytes [5; 0; 5; 0]); (9, ABytes [80; 0; 80; 0; 208; 7; 232; 3])].
Proof. vm_compute. repeat split; reflexivity. Qed.
