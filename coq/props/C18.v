(* C18 — the control loop cannot be wedged by bursts of reports or rule changes.
   The full property is FALSE on go-upf (finding sig=evt-sr-cycle): C18_wedge_refuted exhibits a reachable state
   in which the event loop and the periodic-report server block each other for ever.  What is proved: the exact
   characterisation of that state, its permanence, and progress below the two queue capacities (PARTIAL: fairness
   of the Go scheduler is assumed, liveness beyond 'the blocked send is enabled' is not modelled).
   Capacities and blocking modes come from the source on every run (ConstsGen, ConcGen, PerioConcGen). *)
From Coq Require Import String List NArith Bool.
From GoUpf Require Import ConstsGen ConcGen PerioConcGen Conc Wedge WedgeProofs.
Import ListNotations.
Local Open Scope N_scope.

(* the model's assumptions about the code, recomputed from the generated tables: the event loop posts timer
   events with PLAIN blocking sends, the periodic server posts session reports through NotifySessReport whose
   send is a select on srCh / done (blocking while the server runs), the ticker goroutine posts inside a select that
   also waits for its stop channel (since fix 3 of C17: it no longer blocks a stopping server), stopTicker hands over
   on an unbuffered channel *)
Definition blocking_modes_as_modelled : bool :=
  let has x := existsb (fun y => match x, y with (a, b, c), (a', b', c') =>
                  (String.eqb a a' && String.eqb b b' && String.eqb c c')%bool end) perio_chanops in
  (has ("Server.AddPeriodReportTimer", "Server.evtCh", "send") && has ("Server.DelPeriodReportTimer", "Server.evtCh", "send")
   && has ("PERIOGroup.newTicker$1", "local.evtCh", "send-select") && has ("PERIOGroup.stopTicker", "PERIOGroup.stopCh", "send")
   && has ("Server.Serve", "Server.evtCh", "recv")
   && existsb (fun y => match y with (a, b, c) => (String.eqb a "PfcpServer.NotifySessReport" && String.eqb b "PfcpServer.srCh"
                                                     && String.eqb c "send-select")%bool end) offloop_chanops)%string%bool.

Theorem C18_blocking_modes : blocking_modes_as_modelled = true.
Proof. vm_compute. reflexivity. Qed.
Print Assumptions C18_blocking_modes.

(* the queues of the model are the code's: each channel is made with the capacity constant the model uses for it
   (ConstsGen), so a queue sized with another constant breaks this obligation *)
Definition has3 (t : list (string * string * string)) (x : string * string * string) : bool :=
  existsb (fun y => match x, y with (a, b, c), (a', b', c') => (String.eqb a a' && String.eqb b b' && String.eqb c c')%bool end) t.
Definition capacities_as_modelled : bool :=
  (has3 chan_makes ("NewPfcpServer", "rcvCh", "RECEIVE_CHANNEL_LEN") && has3 chan_makes ("NewPfcpServer", "srCh", "REPORT_CHANNEL_LEN")
   && has3 chan_makes ("NewPfcpServer", "trToCh", "TRANS_TIMEOUT_CHANNEL_LEN") && has3 chan_makes ("OpenServer", "evtCh", "EVENT_CHANNEL_LEN")
   && has3 chan_makes ("Push", "s.q[pdrid]", "s.qlen"))%string%bool.
Theorem C18_capacities : capacities_as_modelled = true.
Proof. vm_compute. reflexivity. Qed.
Print Assumptions C18_capacities.

(* inside package pfcp the event loop never executes a send that can block on a queue only the loop itself drains:
   every send it can reach (over-approximated call graph, go statements excluded) is inside a select with a default
   clause; the two Notify* functions appear only through timer closures, which run on their own goroutines *)
Definition loop_sends_ok : bool :=
  forallb (fun x => match x with (f, ch, m) =>
    (String.eqb m "nonblocking" || existsb (String.eqb f) ["PfcpServer.NotifyTransTimeout"; "PfcpServer.NotifySessReport"])%string%bool end) loop_sends.
Theorem C18_loop_sends_cannot_block : loop_sends_ok = true.
Proof. vm_compute. reflexivity. Qed.
Print Assumptions C18_loop_sends_cannot_block.

(* while both servers are inside their critical sections, neither can move iff both queues are full *)
Theorem C18_deadlock_characterisation : forall w,
  0 < l_pending w -> 0 < p_pending w -> evt w <= cap_evt -> sr w <= cap_sr ->
  ((wstep w LSend = None /\ wstep w PSend = None) <-> wedged w = true).
Proof. exact deadlock_characterisation. Qed.
Print Assumptions C18_deadlock_characterisation.

(* such a state is permanent: no action of the loop, the periodic server or any ticker is enabled, ever *)
Theorem C18_wedged_forever : forall l w, wedged w = true -> wrun w l = w.
Proof. exact wedged_run. Qed.
Print Assumptions C18_wedged_forever.

(* progress below the thresholds *)
Theorem C18_progress_partial_evt : forall w, room_inv w -> wedged w = false /\ (0 < l_pending w -> wstep w LSend <> None).
Proof. intros w H. split; [apply not_wedged_with_room; exact H | apply loop_never_blocked; exact H]. Qed.
Theorem C18_progress_partial_sr : forall w, room_inv_sr w -> wedged w = false.
Proof. exact not_wedged_with_room_sr. Qed.
Print Assumptions C18_progress_partial_sr.

(* the full statement is false: a wedge is reachable (one tick over cap_sr+1 sessions, one turn over cap_evt+1 URRs) *)
Theorem C18_wedge_refuted : wedged (wrun w_init wedge_witness) = true.
Proof. exact wedge_reachable. Qed.
Print Assumptions C18_wedge_refuted.
