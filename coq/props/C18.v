(* C18 — the control loop cannot be wedged by bursts of reports or rule changes.
   Code as it is now (after fix "periodic server: unbounded event queue"): the event loop posts its timer events into an
   UNBOUNDED FIFO (put never blocks), so the circular wait of the old code cannot form.  Proved over the two-queue model
   (Wedge2): the loop is never blocked posting, its turn completes in exactly l_pending steps of its own, no state is a
   deadlock (either everything has been served or one of the two servers can move), every server step lowers a work
   measure.  PARTIAL only in that fairness of the Go scheduler is assumed.  The OLD code (bounded event channel) is kept
   as model Wedge: its wedge is reachable (C18_old_code_wedge_reachable) - the regression witness.
   Blocking modes and capacities come from the source on every run (ConstsGen, ConcGen, PerioConcGen). *)
From Coq Require Import String List NArith Bool.
From GoUpf Require Import ConstsGen ConcGen PerioConcGen Conc.
From GoUpf Require Wedge WedgeProofs Wedge2 Wedge2Proofs.
Import ListNotations.
Local Open Scope N_scope.

Definition has2 (t : list (string * string)) (x : string * string) : bool :=
  existsb (fun y => (String.eqb (fst x) (fst y) && String.eqb (snd x) (snd y))%bool) t.

(* the model's assumptions about the code, recomputed from the generated tables:
   - no function of the periodic server SENDS on a channel except stopTicker's hand-over on the stop channel;
   - AddPeriodReportTimer / DelPeriodReportTimer / Close / the ticker goroutine post through eventQueue.put;
   - put calls nothing but the queue's mutex, Signal and append (no Wait, no channel operation): it cannot wait for the
     consumer; the consumer (get) is the one that waits;
   - the periodic server hands session reports to PfcpServer.NotifySessReport, whose send is a select on srCh / done
     (blocking while the PFCP server runs) *)
Definition blocking_modes_as_modelled : bool :=
  (forallb (fun y => match y with (f, ch, m) =>
      negb (String.eqb m "send" || String.eqb m "send-select") || (String.eqb f "PERIOGroup.stopTicker" && String.eqb ch "PERIOGroup.stopCh") end) perio_chanops
   && has2 perio_calls ("Server.AddPeriodReportTimer", "eventQueue.put") && has2 perio_calls ("Server.DelPeriodReportTimer", "eventQueue.put")
   && has2 perio_calls ("Server.Close", "eventQueue.put") && has2 perio_calls ("PERIOGroup.newTicker$1", "eventQueue.put")
   && forallb (fun y => negb (existsb (String.eqb (fst y)) ["Server.AddPeriodReportTimer"; "Server.DelPeriodReportTimer"; "Server.Close"])
                        || String.eqb (snd y) "eventQueue.put") perio_calls      (* posting does nothing but put: no lock of its own, no wait *)
   && forallb (fun y => negb (String.eqb (fst y) "eventQueue.put") || existsb (String.eqb (snd y)) ["?.Lock"; "?.Unlock"; "?.Signal"; "append"]) perio_calls
   && has2 perio_calls ("eventQueue.get", "?.Wait") && has2 perio_calls ("Server.Serve", "eventQueue.get")
   && has2 perio_calls ("Server.Serve", "?.NotifySessReport")
   && existsb (fun y => match y with (a, b, c) => (String.eqb a "PfcpServer.NotifySessReport" && String.eqb b "PfcpServer.srCh"
                                                     && String.eqb c "send-select")%bool end) offloop_chanops)%string%bool.

(* the queue's wake-up protocol: put takes the lock, appends, and only then signals (a signal before the append can be
   lost: the consumer would sleep with an event queued); get re-checks its condition in a loop around Wait *)
Fixpoint index_of (x : string) (l : list string) (i : nat) : option nat :=
  match l with [] => None | y :: r => if String.eqb x y then Some i else index_of x r (S i) end.
Definition queue_protocol_ok : bool :=
  match index_of "Lock" perio_put_order 0, index_of "append" perio_put_order 0, index_of "Signal" perio_put_order 0 with
  | Some a, Some b, Some c => (Nat.ltb a b && Nat.ltb b c)%bool
  | _, _, _ => false
  end && perio_get_wait_in_loop.
Theorem C18_queue_wakeup_protocol : queue_protocol_ok = true.
Proof. vm_compute. reflexivity. Qed.
Print Assumptions C18_queue_wakeup_protocol.

Theorem C18_blocking_modes : blocking_modes_as_modelled = true.
Proof. vm_compute. reflexivity. Qed.
Print Assumptions C18_blocking_modes.

(* the queues of the model are the code's: each channel is made with the capacity constant the model uses for it
   (ConstsGen), so a queue sized with another constant breaks this obligation *)
Definition has3 (t : list (string * string * string)) (x : string * string * string) : bool :=
  existsb (fun y => match x, y with (a, b, c), (a', b', c') => (String.eqb a a' && String.eqb b b' && String.eqb c c')%bool end) t.
Definition capacities_as_modelled : bool :=
  (has3 chan_makes ("NewPfcpServer", "rcvCh", "RECEIVE_CHANNEL_LEN") && has3 chan_makes ("NewPfcpServer", "srCh", "REPORT_CHANNEL_LEN")
   && has3 chan_makes ("NewPfcpServer", "trToCh", "TRANS_TIMEOUT_CHANNEL_LEN")
   && has3 chan_makes ("Push", "s.q[pdrid]", "s.qlen"))%string%bool.
Theorem C18_capacities : capacities_as_modelled = true.
Proof. vm_compute. reflexivity. Qed.
Print Assumptions C18_capacities.

(* inside package pfcp the event loop never executes a send that can block on a queue only the loop itself drains:
   every send it can reach (over-approximated call graph, go statements excluded) is inside a select with a default
   clause; the two Notify* functions appear only through timer closures, which run on their own goroutines *)
Definition loop_sends_ok : bool :=
  forallb (fun x => match x with (f, ch, m) =>
    (String.eqb m "nonblocking" || existsb (String.eqb f) ["PfcpServer.NotifyTransTimeout"; "PfcpServer.NotifySessReport"])%string%bool end) loop_sends.
(* ... and every channel RECEIVE it can reach is a case of the loop's own select (or of the select on `done` in the
   Notify functions), or cannot block (select with default: Sess.Pop); PfcpServer.Stop appears only because the call
   graph resolves timer.Stop() by method name *)
Definition loop_recvs_ok : bool :=
  forallb (fun y => match y with (f, ch, m) =>
    (String.eqb m "nonblocking"
     || (String.eqb m "select" && existsb (String.eqb f) ["PfcpServer.main"; "PfcpServer.NotifyTransTimeout"; "PfcpServer.NotifySessReport"])
     || String.eqb f "PfcpServer.Stop")%string%bool end) loop_recvs.
Theorem C18_loop_recvs_cannot_block : loop_recvs_ok = true.
Proof. vm_compute. reflexivity. Qed.
Print Assumptions C18_loop_recvs_cannot_block.

Theorem C18_loop_sends_cannot_block : loop_sends_ok = true.
Proof. vm_compute. reflexivity. Qed.
Print Assumptions C18_loop_sends_cannot_block.

(* ---- the code as it is: Wedge2 *)
Import Wedge2.

(* the loop is never blocked posting a timer event, whatever the queues hold *)
Theorem C18_loop_post_never_blocks : forall w, 0 < l_pending w -> qstep w LPost <> None.
Proof. exact Wedge2Proofs.loop_post_never_blocks. Qed.
Print Assumptions C18_loop_post_never_blocks.

(* so a turn that touches k URRs completes in exactly k steps of the loop, however full the report queue is and
   whatever the periodic server is waiting for *)
Theorem C18_turn_completes : forall w, l_pending (qrun w (repeat LPost (N.to_nat (l_pending w)))) = 0.
Proof. exact Wedge2Proofs.turn_completes. Qed.
Print Assumptions C18_turn_completes.

(* no reachable state is a deadlock: either everything has been served, or the loop or the periodic server can move *)
Theorem C18_no_deadlock : forall l, let w := qrun q_init l in quiescent w = false -> server_can_move w = true.
Proof. intros l w. apply Wedge2Proofs.no_deadlock. apply Wedge2Proofs.qrun_inv. unfold Wedge2Proofs.QInv. cbn. apply N.le_refl. Qed.
Print Assumptions C18_no_deadlock.

(* and every step of a server lowers the remaining work (4 per pending post, 3 per queued event, 2 per pending report,
   1 per queued report): without new requests and ticks the system reaches quiescence *)
Theorem C18_server_steps_lower_work : forall w a w', ticks w <= evt w -> qstep w a = Some w' ->
  a <> TTick -> (forall k, a <> LStartTurn k) -> (forall m, a <> PTakeTick m) -> work w' < work w.
Proof. exact Wedge2Proofs.server_step_lowers_work. Qed.
Print Assumptions C18_server_steps_lower_work.

(* the history that wedged the old code now runs to completion *)
Example C18_old_wedge_history_completes :
  let w := qrun q_init ([TTick; PTakeTick (cap_sr + 1)] ++ repeat PSend (N.to_nat cap_sr) ++ [LStartTurn 600]
                        ++ repeat LPost 600 ++ [PSend; LDrain; PSend]) in
  l_pending w = 0 /\ p_pending w = 0 /\ evt w = 600.
Proof. exact Wedge2Proofs.old_wedge_history_now_completes. Qed.

(* ---- the OLD code (event channel of 512): the wedge was reachable and permanent - kept as the regression witness *)
Theorem C18_old_code_wedge_reachable : Wedge.wedged (Wedge.wrun Wedge.w_init WedgeProofs.wedge_witness) = true.
Proof. exact WedgeProofs.wedge_reachable. Qed.
Print Assumptions C18_old_code_wedge_reachable.

Theorem C18_old_code_wedged_forever : forall l w, Wedge.wedged w = true -> Wedge.wrun w l = w.
Proof. exact WedgeProofs.wedged_run. Qed.
Print Assumptions C18_old_code_wedged_forever.
