(* C11 — UR-SEQN counts each URR's reports 0,1,2,... without gap or repeat. Statements only.
   [emit extra d urrs rs] is the emission loop of all three carriers: Session Modification Response
   (emit 0 true), Session Deletion Response (emit USAR_TRIG_TERMR true), Session Report Request (emit 0 false). *)
From Coq Require Import String List NArith ZArith Bool.
From GoUpf Require Import UrrSeqGen UrrSeqShape Bytes FlagsGen ConstsGen HandlerGen Pfcp PfcpBase PfcpSess PfcpClose PfcpTable PfcpDelete
  PfcpStep PfcpProps PfcpCat PfcpUsage PfcpQueue.
Import ListNotations.
Local Open Scope N_scope.

(* (a) within one message: the UR-SEQN values carried for URR u are ui_seqn, ui_seqn+1, ... (mod 2^32) in order,
   no gap, no repeat; there is one IE per report of u - except for a removed URR in a response, whose
   bookkeeping is deleted after its first report (then exactly min(1, #reports) IEs) *)
Theorem C11_emit_seqn_consecutive : forall extra d urrs rs urrs' ies u inf,
  emit extra d urrs rs = (urrs', ies) -> alookup u urrs = Some inf -> ui_seqn inf < M32 ->
  length (seqs_for u ies) = emitted_n d inf (length (reports_for u rs)) /\
  forall k, (k < length (seqs_for u ies))%nat ->
            nth k (seqs_for u ies) 0 = (ui_seqn inf + N.of_nat k) mod M32.
Proof. exact emit_seqn_consecutive. Qed.
Print Assumptions C11_emit_seqn_consecutive.

(* (b) across messages: the stored counter advances by exactly the number of IEs sent; all other fields keep *)
Theorem C11_emit_counter_after : forall extra d urrs rs urrs' ies u inf inf',
  emit extra d urrs rs = (urrs', ies) -> alookup u urrs = Some inf -> ui_seqn inf < M32 ->
  alookup u urrs' = Some inf' ->
  inf' = with_seqn inf ((ui_seqn inf + N.of_nat (length (seqs_for u ies))) mod M32).
Proof. exact emit_counter_after. Qed.
Print Assumptions C11_emit_counter_after.

Theorem C11_emit_dropped_iff : forall extra d urrs rs urrs' ies u inf,
  emit extra d urrs rs = (urrs', ies) -> alookup u urrs = Some inf ->
  (alookup u urrs' = None <-> d = true /\ ui_removed inf = true /\ reports_for u rs <> []).
Proof. exact emit_dropped_iff. Qed.
Print Assumptions C11_emit_dropped_iff.

(* (c) per-URR independence *)
Theorem C11_emit_independent : forall extra d urrs rs urrs' ies u,
  emit extra d urrs rs = (urrs', ies) -> reports_for u rs = [] -> alookup u urrs' = alookup u urrs.
Proof. exact emit_independent. Qed.
Print Assumptions C11_emit_independent.

Theorem C11_emit_unknown_no_ie : forall extra d urrs rs urrs' ies u,
  emit extra d urrs rs = (urrs', ies) -> alookup u urrs = None -> ies_for u ies = [] /\ alookup u urrs' = None.
Proof. exact emit_unknown_no_ie. Qed.
Print Assumptions C11_emit_unknown_no_ie.

(* the counters stay uint32 values, so the hypothesis ui_seqn inf < M32 above holds in every reachable state *)
Theorem C11_emit_bounded : forall extra d rs urrs, seq_bounded urrs -> seq_bounded (fst (emit extra d urrs rs)).
Proof. exact emit_bounded. Qed.
Print Assumptions C11_emit_bounded.

Theorem C11_counters_uint32 : forall w lid s u inf,
  reachable w -> live w lid s -> alookup u (s_urrs s) = Some inf -> ui_seqn inf < M32.
Proof. exact seq_bounded_reachable. Qed.
Print Assumptions C11_counters_uint32.

(* the carriers store what they counted: the session kept after a Modification Response / Session Report Request
   holds fst of the very emission whose snd went out (so (b) chains from message to message) *)
Theorem C11_modification_carrier : forall w peer seq seid o e s c rs,
  WInv w -> live w seid s ->
  run_categories e o mod_order (mkCtx s (w_dp w) []) = Some (c, rs) ->
  exists w' o3,
    handle_mod w peer seq seid IeAbsent o e = Ok (w', c_out c ++ o3) /\
    live w' seid (set_urrs (fst (emit 0 true (s_urrs (c_s c)) rs)) (c_s c)) /\
    (o3 = [] \/ o3 = [OSend peer (PModRsp seq (s_rid s) CauseAccepted (snd (emit 0 true (s_urrs (c_s c)) rs))) false]).
Proof. exact handle_mod_emits. Qed.
Print Assumptions C11_modification_carrier.

Theorem C11_report_carrier : forall w seid s n usars,
  WInv w -> live w seid s -> nth_error (w_heap w) (s_node s) = Some n -> usars <> [] ->
  exists w',
    serve_report w seid (map RUsa usars) =
      Ok (w', [OSend (n_id n) (PReportUSAR (w_txseq w mod 16777216) (s_rid s) (snd (emit 0 false (s_urrs s) usars))) false]) /\
    live w' seid (set_urrs (fst (emit 0 false (s_urrs s) usars)) s) /\
    (forall lid' s', lid' <> seid -> (live w' lid' s' <-> live w lid' s')).
Proof. exact serve_report_route. Qed.
Print Assumptions C11_report_carrier.

Theorem C11_deletion_carrier : forall w peer seq seid e s w1 o1 s1 rs,
  live w seid s -> delete_sess e w (s_node s) seid = Ok (w1, Some (o1, s1, rs)) ->
  exists w' o3,
    handle_del w peer seq seid e = Ok (w', o1 ++ o3) /\
    (o3 = [] \/ o3 = [OSend peer (PDelRsp seq (s_rid s) CauseAccepted (snd (emit USAR_TRIG_TERMR true (s_urrs s1) rs))) false]).
Proof. exact handle_del_emits. Qed.
Print Assumptions C11_deletion_carrier.

(* (d) Create URR for an id the session does not hold (never created, or removed) starts the counter at 0 *)
Theorem C11_create_urr_restarts : forall e o c i,
  uo_id o = Some i -> held_urr (c_s c) i = None ->
  exists inf, alookup i (s_urrs (c_s (create_urr e o c))) = Some inf /\ ui_seqn inf = 0 /\ ui_removed inf = false /\
              ui_durat inf = bit 0 (uo_method o) /\ ui_volum inf = bit 1 (uo_method o) /\ ui_mnop inf = bit 4 (uo_info o).
Proof. exact create_urr_restarts. Qed.
Print Assumptions C11_create_urr_restarts.

(* (d') Create URR for an id the session still holds does NOT restart the running URR's counter (whatever the data plane
   answers), and when the data plane holds the URR (it then rejects the duplicate) the bookkeeping is exactly what it was *)
Theorem C11_create_urr_held_keeps_counter : forall e o c i u,
  uo_id o = Some i -> held_urr (c_s c) i = Some u ->
  exists inf, alookup i (s_urrs (c_s (create_urr e o c))) = Some inf /\ ui_seqn inf = ui_seqn u /\ ui_removed inf = false.
Proof. exact create_urr_held_keeps_counter. Qed.
Print Assumptions C11_create_urr_held_keeps_counter.

Theorem C11_create_urr_duplicate_rejected_unchanged : forall e o c i u,
  uo_id o = Some i -> held_urr (c_s c) i = Some u -> In (s_lid (c_s c), KURR, i) (c_dp c) ->
  s_urrs (c_s (create_urr e o c)) = s_urrs (c_s c).
Proof. exact create_urr_held_rejected_unchanged. Qed.
Print Assumptions C11_create_urr_duplicate_rejected_unchanged.

(* (e) nothing but emission and Create URR touches a counter: for ANY category order, every URR of the session
   after the per-session operations of a request either existed before with the same counter, or is named by a
   Create URR of this request (and then has counter 0) *)
Theorem C11_operations_keep_counters : forall e o names c r,
  run_categories e o names c = Some r ->
  forall u inf', alookup u (s_urrs (c_s (fst r))) = Some inf' ->
    (exists inf, alookup u (s_urrs (c_s c)) = Some inf /\ ui_seqn inf' = ui_seqn inf) \/
    (created_by o u /\ ui_seqn inf' = 0).
Proof. exact run_categories_counters_kept. Qed.
Print Assumptions C11_operations_keep_counters.

Theorem C11_close_keeps_counters : forall e c c' rs,
  sess_close e c = Some (c', rs) ->
  s_q (c_s c') = [] /\
  forall u inf', alookup u (s_urrs (c_s c')) = Some inf' ->
    exists inf, alookup u (s_urrs (c_s c)) = Some inf /\ ui_seqn inf' = ui_seqn inf.
Proof. exact sess_close_kept. Qed.
Print Assumptions C11_close_keeps_counters.

(* the history of the former finding create-urr-existing-id (fixed): a Create URR naming a URR id the session already
   has is rejected by the data plane and leaves the counter alone: UR-SEQN 0, then 1 *)
Example C11_create_urr_existing_id_keeps_counter :
  match run (init 0 1) recreate_urr_history with
  | Ok (_, os) =>
      usar_seqns (nth 2 os []) = [(7, 0)] /\
      nth 3 os [] = [ODrv DCreate KURR 1 7 false; OSend 0 (PModRsp 3 10 CauseAccepted []) false] /\
      usar_seqns (nth 4 os []) = [(7, 1)]
  | Fault _ => False
  end.
Proof. exact create_urr_existing_id_keeps_counter. Qed.

(* non-vacuity: URR 7 is queried in a Modification whose driver answer holds two reports, then reports once more
   in a Session Report Request (together with a report for the unknown URR 9): UR-SEQN 0,1 then 2 *)
Definition C11_rp (u v : N) : rpt := mkRpt u 1 0 [v; v; v; 1; 1; 1] 5 100 200.
Definition C11_history : list event :=
  [EvRecv 0 1 (MAssocSetup (IeVal 0) []) (mkEnv [] []);
   EvRecv 0 2 (MEst (IeVal 0) (IeVal 10)
     (mkOps [] [] [mkUrrOp (Some 7) (Some 2) None] [] [mkPdrOp (Some 1) [7] true false] [] [] [] [] [] [] [] [] [] [] []))
     (mkEnv [] []);
   EvRecv 0 3 (MMod 1 IeAbsent (mkOps [] [] [] [] [] [] [] [] [] [] [] [] [] [] [] [Some 7]))
     (mkEnv [] [(DQuery, 7, [C11_rp 7 10; C11_rp 7 20])]);
   EvReport 1 [RUsa (C11_rp 7 30); RUsa (C11_rp 9 1)] (mkEnv [] [])].

(* T-gen tie: URRSeq (the one place the counter is read and advanced: post-increment of a uint32) and the only other
   write to a SEQN field (the inheritance in CreateURR) are as the model has them *)
Theorem C11_counter_source_shape : (urrseq_body, urr_seqn_type, urr_seqn_other_writes) = urrseq_model_shape.
Proof. exact urrseq_shape_ok. Qed.
Print Assumptions C11_counter_source_shape.

Definition C11_seqns (os : list (list out)) : list (list (N * N)) :=
  flat_map (fun o => flat_map (fun x => match x with
     | OSend _ (PModRsp _ _ _ ies) _ | OSend _ (PReportUSAR _ _ ies) _ | OSend _ (PDelRsp _ _ _ ies) _ =>
         [map (fun ie => (ur_urr ie, ur_seqn ie)) ies]
     | _ => [] end) o) os.

Example C11_nonvacuous :
  match run (init 0 1) C11_history with
  | Ok (_, os) => C11_seqns os = [[(7, 0); (7, 1)]; [(7, 2)]]
  | Fault _ => False
  end.
Proof. vm_compute. reflexivity. Qed.
