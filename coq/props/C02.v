(* C02 - PDR and FAR reach the kernel exactly as the SMF specified them.
   This file contains only statements; proofs are in proofs/RulesPdrFarProofs.v.

   Vocabulary
     ie (model/PfcpIe.v)            abstract child IE = what go-pfcp's accessor returns for it
     create_pdr/update_pdr/create_far/update_far (model/RulesPdrFar.v)
                                    model of gtp5g.go:176-753 + go-gtp5gnl's request envelope:
                                    link -> seid -> list ie -> result (cmd, nlmsg flags, (seid, id), attribute tree)
     ref_decode_pdr_req/_far_req (monitor/RulesSpec.v)
                                    independent strict decoder of the gtp5g netlink rule format
     spec_pdr/spec_far              order-free (find-by-type) content of the grouped IE
     wf_pdr/wf_far                  the quantifier "well-formed IE" as a boolean: id exactly once, other singleton IEs at
                                    most once, any number of QER ids / URR ids / SDF filters and of other IEs, values within
                                    their wire widths, IPv4 fields 4 octets, SDF filters with flow description and/or filter id
                                    (TTC/SPI/FL are hard-coded placeholders in the driver, gtp5g.go:275-301, and outside wf),
                                    flow description accepted by ParseFlowDesc (C16 owns the parser), apply action 1-2 octets,
                                    a GTP-U outer header without port field, no malformed (IBad) child,
                                    and - the one clause that EXCLUDES inputs of the property - a forwarding policy identifier
                                    without NUL octet (see C02_far_policy_nul_refuted).
   link is the ifindex of the gtp5g device (any 32-bit value); seid ranges over all 64-bit values. *)
From Coq Require Import List NArith Bool Permutation.
From GoUpf Require Import Bytes Nlattr PfcpIe RulesGen RulesSpec RulesPdrFar RulesPdrFarProofs.
Import ListNotations.
Local Open Scope N_scope.

(* --- the rule handed to the data plane, read back with the independent decoder, is exactly the IE's content --- *)
Theorem C02_create_pdr : forall link seid ies,
  link < 4294967296 -> seid < 18446744073709551616 -> wf_pdr ies = true ->
  exists id attrs,
    create_pdr link seid ies = Ok (nl_CMD_ADD_PDR, create_flags, (seid, id), attrs) /\
    ref_decode_pdr_req nl_CMD_ADD_PDR create_flags attrs = Some (true, spec_pdr true link seid ies).
Proof. exact create_pdr_roundtrip. Qed.
Print Assumptions C02_create_pdr.

Theorem C02_update_pdr : forall link seid ies,
  link < 4294967296 -> seid < 18446744073709551616 -> wf_pdr ies = true ->
  exists id attrs,
    update_pdr link seid ies = Ok (nl_CMD_ADD_PDR, update_flags, (seid, id), attrs) /\
    ref_decode_pdr_req nl_CMD_ADD_PDR update_flags attrs = Some (false, spec_pdr false link seid ies).
Proof. exact update_pdr_roundtrip. Qed.
Print Assumptions C02_update_pdr.

(* FAR: full-strength statement = the same with wf_far_full (identifier = any octet string); it is FALSE
   (C02_far_policy_nul_refuted below); proved under wf_far, which adds "no NUL octet in the identifier". *)
Theorem C02_create_far_partial : forall link seid ies,
  link < 4294967296 -> seid < 18446744073709551616 -> wf_far false ies = true ->
  exists id attrs,
    create_far link seid ies = Ok (nl_CMD_ADD_FAR, create_flags, (seid, id), attrs) /\
    ref_decode_far_req nl_CMD_ADD_FAR create_flags attrs = Some (true, spec_far false link seid ies).
Proof. exact create_far_roundtrip. Qed.
Print Assumptions C02_create_far_partial.

Theorem C02_update_far_partial : forall link seid ies,
  link < 4294967296 -> seid < 18446744073709551616 -> wf_far true ies = true ->
  exists id attrs,
    update_far link seid ies = Ok (nl_CMD_ADD_FAR, update_flags, (seid, id), attrs) /\
    ref_decode_far_req nl_CMD_ADD_FAR update_flags attrs = Some (false, spec_far true link seid ies).
Proof. exact update_far_roundtrip. Qed.
Print Assumptions C02_update_far_partial.

(* finding: Create FAR {FAR ID 1, Forwarding Parameters {Forwarding Policy "a\000b"}} reaches gtp5g as policy "a" *)
Theorem C02_far_policy_nul_refuted :
  exists link seid ies,
    link < 4294967296 /\ seid < 18446744073709551616 /\ wf_far_full false ies = true /\
    decoded_far (create_far link seid ies) <> Some (spec_far false link seid ies).
Proof. exact far_policy_nul_refuted. Qed.
Print Assumptions C02_far_policy_nul_refuted.

(* --- the result does not depend on the order of IEs inside the grouped IE (both nesting levels) --- *)
Theorem C02_pdr_order_free : forall create link seid ies ies',
  link < 4294967296 -> seid < 18446744073709551616 -> wf_pdr ies = true -> Permutation ies ies' ->
  exists d d', decoded_pdr (pdr_op create link seid ies) = Some d /\
               decoded_pdr (pdr_op create link seid ies') = Some d' /\
               dpdr_equiv d d'.      (* singleton fields identical, QER ids / URR ids / SDF filters equal as multisets *)
Proof. exact pdr_order_free. Qed.
Print Assumptions C02_pdr_order_free.

Theorem C02_pdr_pdi_order_free : forall create link seid l1 l2 c c',
  link < 4294967296 -> seid < 18446744073709551616 -> wf_pdr (l1 ++ IPdi c :: l2) = true -> Permutation c c' ->
  exists d d', decoded_pdr (pdr_op create link seid (l1 ++ IPdi c :: l2)) = Some d /\
               decoded_pdr (pdr_op create link seid (l1 ++ IPdi c' :: l2)) = Some d' /\ dpdr_equiv d d'.
Proof. exact pdr_pdi_order_free. Qed.
Print Assumptions C02_pdr_pdi_order_free.

Theorem C02_far_order_free : forall upd link seid ies ies',
  link < 4294967296 -> seid < 18446744073709551616 -> wf_far upd ies = true -> Permutation ies ies' ->
  exists d, decoded_far (far_op upd link seid ies) = Some d /\ decoded_far (far_op upd link seid ies') = Some d.
Proof. exact far_order_free. Qed.
Print Assumptions C02_far_order_free.

Theorem C02_far_fp_order_free : forall upd link seid l1 l2 (mk : list ie -> ie) c c',
  (mk = IFwdParams /\ upd = false) \/ (mk = IUpdFwdParams /\ upd = true) ->
  link < 4294967296 -> seid < 18446744073709551616 -> wf_far upd (l1 ++ mk c :: l2) = true -> Permutation c c' ->
  exists d, decoded_far (far_op upd link seid (l1 ++ mk c :: l2)) = Some d /\
            decoded_far (far_op upd link seid (l1 ++ mk c' :: l2)) = Some d.
Proof. exact far_fp_order_free. Qed.
Print Assumptions C02_far_fp_order_free.

(* --- SDF source and destination are swapped iff the source interface is Access, wherever that IE stands --- *)
Theorem C02_sdf_swap_any_position : forall c1 c2 v d,
  wf_pdi (c1 ++ ISrcIf v :: c2) = true ->
  dec_pdi (new_pdi (c1 ++ ISrcIf v :: c2)) = Some d ->
  i_srcif d = Some v /\
  i_sdfs d = flat_map (fun x => o2l (spec_sdf (v =? SrcInterfaceAccess) x)) (sel g_sdf (c1 ++ c2)).
Proof. exact sdf_swap_any_position. Qed.
Print Assumptions C02_sdf_swap_any_position.

(* --- no value is truncated, shifted, attached to another attribute, rule or session: field by field --- *)
Theorem C02_pdr_fields_exact : forall create link seid ies d,
  link < 4294967296 -> seid < 18446744073709551616 -> wf_pdr ies = true ->
  decoded_pdr (pdr_op create link seid ies) = Some d ->
  p_link d = Some link /\ p_seid d = Some seid /\
  (forall v, In (IPdrId v) ies -> p_id d = Some v) /\
  (forall v, In (IPrecedence v) ies -> p_prec d = Some v) /\
  (forall v, In (IOhr v) ies -> p_ohr d = Some v) /\
  (forall v, In (IFarId v) ies -> p_farid d = Some v) /\
  (forall v, In (IQerId v) ies -> In v (p_qerids d)) /\
  (forall v, In (IUrrId v) ies -> In v (p_urrids d)) /\
  length (p_qerids d) = length (sel g_qerid ies) /\ length (p_urrids d) = length (sel g_urrid ies) /\
  (forall c, In (IPdi c) ies -> exists pd, p_pdi d = Some pd /\
     (forall v, In (ISrcIf v) c -> i_srcif pd = Some v) /\
     (forall t a, In (IFteid t a) c -> i_fteid pd = Some (t, a)) /\
     (forall a, In (IUeIp a) c -> i_ueaddr pd = Some a) /\
     length (i_sdfs pd) = length (sel g_sdf c)).
Proof. exact pdr_fields_exact. Qed.
Print Assumptions C02_pdr_fields_exact.

Theorem C02_far_fields_exact : forall upd link seid ies d,
  link < 4294967296 -> seid < 18446744073709551616 -> wf_far upd ies = true ->
  decoded_far (far_op upd link seid ies) = Some d ->
  r_link d = Some link /\ r_seid d = Some seid /\
  (forall v, In (IFarId v) ies -> r_id d = Some v) /\
  (forall b0, In (IApplyAction [b0]) ies -> r_action d = Some b0) /\
  (forall b0 b1, In (IApplyAction [b0; b1]) ies -> r_action d = Some (b0 + 256 * b1)) /\
  (forall v, In (IBarId v) ies -> r_barid d = Some v) /\
  (forall x c, In x ies -> g_fp upd x = Some c ->
     (forall desc ht hv teid v4 port, In (IOhc desc ht hv teid v4 port) c ->
        exists p h, r_param d = Some p /\ fp_ohc p = Some h /\ h_desc h = Some desc /\
                    h_teid h = (if ht then Some teid else None) /\ h_peer h = (if hv then Some v4 else None) /\
                    h_port h = Some (if ht then 2152 else port)) /\
     (forall s, In (IFwdPolicy s) c -> exists p, r_param d = Some p /\ fp_policy p = Some s)).
Proof. exact far_fields_exact. Qed.
Print Assumptions C02_far_fields_exact.

(* --- the boolean monitor applied to the implementation's requests accepts everything the model emits --- *)
Theorem C02_monitor_accepts_model_pdr : forall create link seid ies,
  link < 4294967296 -> seid < 18446744073709551616 -> wf_pdr ies = true ->
  match pdr_op create link seid ies with
  | Ok (cmd, fl, _, attrs) => pdr_req_ok create link seid ies cmd fl attrs = true
  | Err => False
  end.
Proof. exact monitor_accepts_pdr. Qed.
Print Assumptions C02_monitor_accepts_model_pdr.

Theorem C02_monitor_accepts_model_far : forall upd link seid ies,
  link < 4294967296 -> seid < 18446744073709551616 -> wf_far upd ies = true ->
  match far_op upd link seid ies with
  | Ok (cmd, fl, _, attrs) => far_req_ok upd link seid ies cmd fl attrs = true
  | Err => False
  end.
Proof. exact monitor_accepts_far. Qed.
Print Assumptions C02_monitor_accepts_model_far.

(* --- non-vacuity: an uplink PDR with two SDF filters, two QER ids and a 64-bit SEID, children out of order --- *)
Definition ex_fd : pfd :=
  {| pf_action := 1; pf_dir := 2; pf_proto := 17;
     pf_src_ip := [10; 1; 2; 0]; pf_src_mask := [255; 255; 255; 0]; pf_dst_ip := [192; 168; 7; 9]; pf_dst_mask := [255; 255; 255; 255];
     pf_sports := [[1000; 2000]]; pf_dports := [[80]; [443]] |}.
Definition ex_pdr : list ie :=
  [IQerId 4294967295; IFarId 9;
   IPdi [ISdf true false false false true [] (Some ex_fd) 77; IUeIp [10; 60; 0; 1]; IOther 22;
         ISdf false false false false true [] None 0; ISrcIf 0; IFteid 305419896 [10; 0; 0; 1]];
   IPrecedence 255; IQerId 1; IPdrId 65535; IOhr 0].
Example C02_nonvacuous :
  wf_pdr ex_pdr = true /\
  decoded_pdr (create_pdr 7 18446744073709551615 ex_pdr) =
  Some {| p_link := Some 7; p_id := Some 65535; p_seid := Some 18446744073709551615; p_prec := Some 255;
          p_pdi := Some {| i_srcif := Some 0; i_ueaddr := Some [10; 60; 0; 1]; i_fteid := Some (305419896, [10; 0; 0; 1]);
                           i_sdfs := [ {| s_fd := Some {| f_action := 1; f_dir := 2; f_proto := 17;
                                                          f_src_ip := [192; 168; 7; 9]; f_src_mask := [255; 255; 255; 255];
                                                          f_dst_ip := [10; 1; 2; 0]; f_dst_mask := [255; 255; 255; 0];
                                                          f_sports := [(80, 80); (443, 443)]; f_dports := [(1000, 2000)] |};
                                          s_ttc := None; s_spi := None; s_fl := None; s_bid := Some 77 |};
                                       {| s_fd := None; s_ttc := None; s_spi := None; s_fl := None; s_bid := Some 0 |} ] |};
          p_ohr := Some 0; p_farid := Some 9; p_qerids := [4294967295; 1]; p_urrids := []; p_sock := Some [47] |}.
Proof. split; vm_compute; reflexivity. Qed.

Example C02_nonvacuous_far :
  wf_far true [IBarId 255; IUpdFwdParams [IFwdPolicy [97; 98]; IOther 42; IOhc 256 true true 4294967295 [127; 0; 0; 2] 0]; IApplyAction [12; 1]; IFarId 4294967295] = true /\
  decoded_far (update_far 7 9223372036854775808
     [IBarId 255; IUpdFwdParams [IFwdPolicy [97; 98]; IOther 42; IOhc 256 true true 4294967295 [127; 0; 0; 2] 0]; IApplyAction [12; 1]; IFarId 4294967295]) =
  Some {| r_link := Some 7; r_id := Some 4294967295; r_seid := Some 9223372036854775808; r_action := Some 268;
          r_param := Some {| fp_ohc := Some {| h_desc := Some 256; h_teid := Some 4294967295; h_peer := Some [127; 0; 0; 2]; h_port := Some 2152 |};
                             fp_policy := Some [97; 98]; fp_smreq := None |};
          r_barid := Some 255 |}.
Proof. split; vm_compute; reflexivity. Qed.
