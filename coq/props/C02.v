(* C02 - placeholder while the proofs are being written *)
From Coq Require Import List NArith Bool.
From GoUpf Require Import Bytes Nlattr PfcpIe RulesGen RulesSpec RulesPdrFar.
Import ListNotations.
Local Open Scope N_scope.
Example C02_nonvacuous : wf_pdr [IPdrId 1; IPdi [ISrcIf 0]] = true.
Proof. vm_compute. reflexivity. Qed.
