(* C13 — buffered downlink packets are released in order, once, to the right tunnel: the part inside the PFCP
   layer (Sess.Push / ServeReport / Sess.Close; the release path lives in the gtp5g driver). Statements only. *)
From Coq Require Import String List NArith ZArith Bool.
From GoUpf Require Import Bytes FlagsGen ConstsGen HandlerGen Pfcp PfcpBase PfcpSess PfcpClose PfcpTable PfcpDelete
  PfcpStep PfcpProps PfcpCat PfcpUsage PfcpQueue.
Import ListNotations.
Local Open Scope N_scope.

(* (a) Push: FIFO with cap BUFFQ_LEN; when full the NEWEST packet is dropped, older ones are never displaced;
   other queues and every other field of the session are unchanged *)
Theorem C13_push_fifo_cap : forall pdrid p s,
  alookup pdrid (s_q (push pdrid p s)) =
    Some (if N.of_nat (length (queue_of pdrid s)) <? BUFFQ_LEN then queue_of pdrid s ++ [p] else queue_of pdrid s) /\
  (forall pdr', pdr' <> pdrid -> alookup pdr' (s_q (push pdrid p s)) = alookup pdr' (s_q s)) /\
  s_lid (push pdrid p s) = s_lid s /\ s_rid (push pdrid p s) = s_rid s /\ s_node (push pdrid p s) = s_node s /\
  s_pdrs (push pdrid p s) = s_pdrs s /\ s_fars (push pdrid p s) = s_fars s /\ s_qers (push pdrid p s) = s_qers s /\
  s_bars (push pdrid p s) = s_bars s /\ s_urrs (push pdrid p s) = s_urrs s.
Proof. exact push_fifo_cap. Qed.
Print Assumptions C13_push_fifo_cap.

Theorem C13_push_bounded : forall pdrid p s, q_bounded s -> q_bounded (push pdrid p s).
Proof. exact push_bounded. Qed.
Print Assumptions C13_push_bounded.

(* (b) one downlink-data item: pushed iff BUFF and non-empty; DLDR request (peer's SEID, PDR id) to dst iff NOCP;
   without NOCP the remaining items are skipped (Go: return) *)
Theorem C13_serve_items_dld : forall w s dst pdrid action p rest usars,
  serve_items w s dst (RDld pdrid action p :: rest) usars =
    let s1 := if flag_of APPLY_ACT_BUFF action && negb (is_nil p) then push pdrid p s else s in
    if flag_of APPLY_ACT_NOCP action then
      let w1 := fst (send_req w dst (s_rid s) (PReportDLDR 0 (s_rid s) pdrid)) in
      let '(w2, s2, o2, u) := serve_items w1 s1 dst rest usars in
      (w2, s2, OSend dst (PReportDLDR (w_txseq w mod 16777216) (s_rid s) pdrid) false :: o2, u)
    else (w, s1, [], None).
Proof. exact serve_items_dld. Qed.
Print Assumptions C13_serve_items_dld.

Theorem C13_serve_items_result : forall items w s dst usars w1 s1 o1 u,
  serve_items w s dst items usars = (w1, s1, o1, u) ->
  u = (if all_nocp items then Some (usars ++ usa_of items) else None) /\
  (exists qs pdrs, o1 = map (fun x => OSend dst (PReportDLDR (fst x) (s_rid s) (snd x)) false) (combine qs pdrs) /\
                   length qs = length pdrs /\ (all_nocp items = true -> pdrs = dld_of items)) /\
  s_urrs s1 = s_urrs s /\ s_rid s1 = s_rid s /\ s_lid s1 = s_lid s /\ s_node s1 = s_node s /\
  (q_bounded s -> q_bounded s1).
Proof. exact serve_items_result. Qed.
Print Assumptions C13_serve_items_result.

(* the destination of ServeReport's requests is the node id of the node object owning the session *)
Theorem C13_serve_report_general : forall w seid s n items w1 s1 o1 u,
  WInv w -> live w seid s -> nth_error (w_heap w) (s_node s) = Some n ->
  serve_items w s (n_id n) items [] = (w1, s1, o1, u) ->
  exists w',
    serve_report w seid items =
      Ok (w', o1 ++ match u with
                    | Some (r :: rs) =>
                        [OSend (n_id n) (PReportUSAR (w_txseq w1 mod 16777216) (s_rid s)
                                           (snd (emit 0 false (s_urrs s) (r :: rs)))) false]
                    | _ => [] end) /\
    live w' seid (match u with
                  | Some (r :: rs) => set_urrs (fst (emit 0 false (s_urrs s) (r :: rs))) s1
                  | _ => s1 end) /\
    (forall lid' s', lid' <> seid -> (live w' lid' s' <-> live w lid' s')) /\
    w_dp w' = w_dp w /\ w_heap w' = w_heap w /\ w_rnodes w' = w_rnodes w.
Proof. exact serve_report_general. Qed.
Print Assumptions C13_serve_report_general.

(* (c) Close drops the queues; no per-session operation of a request touches them (ANY category order) *)
Theorem C13_close_drops_queues : forall e c c' rs, sess_close e c = Some (c', rs) -> s_q (c_s c') = [].
Proof. exact close_drops_queues. Qed.
Print Assumptions C13_close_drops_queues.

Theorem C13_operations_keep_queues : forall e o names c r,
  run_categories e o names c = Some r -> s_q (c_s (fst r)) = s_q (c_s c).
Proof. exact run_categories_q_kept. Qed.
Print Assumptions C13_operations_keep_queues.

(* (d) over all histories: every queue of every live session holds at most BUFFQ_LEN packets.
   QOK w := forall lid s, live w lid s -> forall pdr q, alookup pdr (s_q s) = Some q -> N.of_nat (length q) <= BUFFQ_LEN *)
Theorem C13_step_preserves_QOK : forall w ev w' o, QOK w -> step w ev = Ok (w', o) -> QOK w'.
Proof. exact step_preserves_QOK. Qed.
Print Assumptions C13_step_preserves_QOK.

Theorem C13_reachable_QOK : forall w lid s pdr q,
  reachable w -> live w lid s -> alookup pdr (s_q s) = Some q -> N.of_nat (length q) <= BUFFQ_LEN.
Proof. exact reachable_queue_bound. Qed.
Print Assumptions C13_reachable_QOK.

(* the generic form: any predicate on sessions that holds for a new session and is kept by the per-session
   operations, by emission, by Push and by a change of the owning node holds for every slot after every step *)
Theorem C13_step_sess_inv : forall P : sess -> Prop,
  (forall lid rid node, P (empty_sess lid rid node)) ->
  (forall e o names c r, run_categories e o names c = Some r -> P (c_s c) -> P (c_s (fst r))) ->
  (forall extra d s rs, P s -> P (set_urrs (fst (emit extra d (s_urrs s) rs)) s)) ->
  (forall pdrid p s, P s -> P (push pdrid p s)) ->
  (forall n s, P s -> P (set_node n s)) ->
  forall w ev w' o, WP P w -> step w ev = Ok (w', o) -> WP P w'.
Proof. exact step_sess_inv. Qed.
Print Assumptions C13_step_sess_inv.

(* non-vacuity: 514 buffered packets for PDR 1 (BUFF|NOCP): 514 DLDR requests, the queue keeps the FIRST 512 in
   order; a BUFF item without NOCP ends the report (the usage item after it is not sent); deletion drops the session *)
Definition C13_history : list event :=
  [EvRecv 6 1 (MAssocSetup (IeVal 60) []) (mkEnv [] []);
   EvRecv 6 2 (MEst (IeVal 60) (IeVal 200) (mkOps [] [] [] [] [mkPdrOp (Some 1) [] false false] [] [] [] [] [] [] [] [] [] [] []))
     (mkEnv [] []);
   EvReport 1 (map (fun i => RDld 1 12 [N.of_nat i]) (seq 0 514)) (mkEnv [] []);
   EvReport 1 [RDld 1 4 [9]; RUsa (mkRpt 7 1 0 [1; 1; 1; 1; 1; 1] 5 100 200)] (mkEnv [] [])].

Example C13_nonvacuous :
  match run (init 0 1) C13_history with
  | Ok (w, os) =>
      map (option_map s_q) (w_slots w) = [Some [(1, map (fun i => [N.of_nat i]) (seq 0 512))]] /\
      nth 2 os [] = map (fun i => OSend 60 (PReportDLDR (N.of_nat i) 200 1) false) (seq 0 514) /\
      nth 3 os [] = [] /\
      match step w (EvRecv 6 3 (MDel 1) (mkEnv [] [])) with Ok (w', _) => w_slots w' = [None] | Fault _ => False end
  | Fault _ => False
  end.
Proof. vm_compute. repeat split; reflexivity. Qed.

(* ---------------------------------------------------------------- release path (Gtp5g.UpdateFAR / applyAction / WritePacket,
   model/Release.v, after fix 6f99407) *)
From GoUpf Require Import GtpuGen Gtpu GtpuRef Release ReleaseProofs.

(* one PDR's release: the reference GTP-U decoder reads back, in queue order and each exactly once, the queued
   packets, every datagram addressed to the FAR's peer/port with the FAR's TEID and the PDR's QFI *)
Theorem C13_release_pdr_exact : forall s f pdr far qs h,
  alook pdr (r_pdrs s) = Some (far, qs) -> kf_ohc f = Some h -> oh_teid h < 4294967296 ->
  (forall q, first_qfi s qs = Some q -> q < 64) -> Forall small_pkt (queue_of s pdr) ->
  map e_payload (release_pdr s f pdr) = map Some (queue_of s pdr) /\
  Forall (fun e => e_dst e = (oh_peer h, oh_port h) /\ e_teid e = Some (oh_teid h) /\ e_qfi e = Some (first_qfi s qs))
         (release_pdr s f pdr).
Proof. exact release_pdr_exact. Qed.
Print Assumptions C13_release_pdr_exact.

(* BUFF -> FORW: exactly the releases of the FAR's PDRs, in the data plane's PDR order, with the UPDATED parameters *)
Theorem C13_buff_to_forw : forall s u old a,
  alook (fu_id u) (r_fars s) = Some old -> fu_action u = Some a ->
  flag_of APPLY_ACT_BUFF (kf_action old) = true -> flag_of APPLY_ACT_DROP a = false -> flag_of APPLY_ACT_FORW a = true ->
  let f' := mkFar a (match fu_ohc u with Some h => Some h | None => kf_ohc old end) in
  let '(s', es) := update_far s u in
  es = flat_map (fun p => release_pdr s f' p) (related_pdrs s (fu_id u)) /\ alook (fu_id u) (r_fars s') = Some f'.
Proof. exact update_far_forw. Qed.
Print Assumptions C13_buff_to_forw.

(* BUFF -> DROP: nothing leaves, the FAR's queues are emptied, every other queue is untouched *)
Theorem C13_buff_to_drop : forall s u old a,
  alook (fu_id u) (r_fars s) = Some old -> fu_action u = Some a ->
  flag_of APPLY_ACT_BUFF (kf_action old) = true -> flag_of APPLY_ACT_DROP a = true ->
  let '(s', es) := update_far s u in
  es = [] /\ (forall p, In p (related_pdrs s (fu_id u)) -> queue_of s' p = []) /\
  (forall p, ~ In p (related_pdrs s (fu_id u)) -> queue_of s' p = queue_of s p).
Proof. exact update_far_drop. Qed.
Print Assumptions C13_buff_to_drop.

Theorem C13_no_release_otherwise : forall s u,
  (fu_action u = None \/ (exists old, alook (fu_id u) (r_fars s) = Some old /\ flag_of APPLY_ACT_BUFF (kf_action old) = false)
   \/ alook (fu_id u) (r_fars s) = None) ->
  snd (update_far s u) = [] /\ r_q (fst (update_far s u)) = r_q s.
Proof. exact update_far_no_release. Qed.
Print Assumptions C13_no_release_otherwise.

(* nothing survives the session: a later session under the same SEID cannot release old packets *)
Theorem C13_ended_session_holds_nothing : forall s, r_q (fst (fst (rstep_run s RDel))) = [].
Proof. exact ended_session_holds_nothing. Qed.
Theorem C13_empty_queues_emit_nothing : forall s u, r_q s = [] -> snd (update_far s u) = [].
Proof. exact update_far_empty_queues. Qed.
Print Assumptions C13_empty_queues_emit_nothing.

Example C13_release_nonvacuous :
  let s := mkR [(1, mkFar 12 None)] [(1, (1, [5])); (2, (1, [5]))] [(5, 9)] [(1, [[170; 1]; [170; 2]]); (2, [[187]])] true in
  match update_far s (mkFarUpd 1 (Some 2) (Some (mkOhc 200 1 2152))) with
  | (s', es) => map e_payload es = [Some [170; 1]; Some [170; 2]; Some [187]] /\ map e_teid es = [Some 200; Some 200; Some 200]
                /\ map e_qfi es = [Some (Some 9); Some (Some 9); Some (Some 9)] /\ queue_of s' 1 = [] /\ queue_of s' 2 = []
  end.
Proof. vm_compute. repeat split; reflexivity. Qed.

(* ---------------------------------------------------------------- the way in: the BUFFER notification of the gtp5g module
   (buffnetlink.decodbuffer, octet-level model model/BuffDec.v; its shape is read from the source: gen/BuffDecGen.v) *)
From GoUpf Require BuffDecGen BuffDec BuffDecProofs.

(* whatever the order of the attributes, with repetitions (the last one of a kind counts) and attributes of other types
   in between, for every packet length (padding of 0..3 octets is not part of the packet) and every 64-bit SEID: the
   walk returns exactly the SEID, PDR id, apply action and packet the message carries *)
Theorem C13_buffer_notification_decoded : forall l, Forall BuffDec.battr_ok l ->
  BuffDec.dec_buffer (BuffDec.enc_msg l) = BuffDec.DOk (fold_left BuffDec.apply_attr l BuffDec.b0).
Proof. exact BuffDecProofs.dec_buffer_enc. Qed.
Print Assumptions C13_buffer_notification_decoded.

Theorem C13_buffer_notification_kernel_form : forall seid pdr action pkt,
  seid < 18446744073709551616 -> pdr < 65536 -> action < 65536 -> bytes_ok pkt -> BuffDec.len_of pkt < 65532 ->
  BuffDec.dec_buffer (BuffDec.enc_msg [BuffDec.BPkt pkt; BuffDec.BSeid seid; BuffDec.BId pdr; BuffDec.BAct action])
  = BuffDec.DOk (BuffDec.mkB seid pdr action (Some pkt)).
Proof. exact BuffDecProofs.dec_buffer_kernel. Qed.
Print Assumptions C13_buffer_notification_kernel_form.

(* malformed notifications (they can only come from the kernel module): an attribute of length 0 makes the walk spin
   for ever, a fixed-width field cut short or an unpadded tail faults, fewer than four octets are an error *)
Theorem C13_buffer_decoder_faults :
  BuffDec.dec_buffer [0; 0; 9; 0] = BuffDec.DLoop /\ BuffDec.dec_buffer [0; 0; 5; 0; 1; 0] = BuffDec.DLoop /\
  BuffDec.dec_buffer [5; 0; 5; 0; 7] = BuffDec.DPanic /\
  BuffDec.dec_buffer [5; 0; 4; 0; 170] = BuffDec.DPanic /\
  BuffDec.dec_buffer [8; 0; 4] = BuffDec.DErr /\
  BuffDec.dec_buffer [3; 0; 4; 0] = BuffDec.DPanic.
Proof. exact BuffDecProofs.dec_buffer_faults. Qed.
Print Assumptions C13_buffer_decoder_faults.

Theorem C13_buffer_decoder_source_shape :
  (BuffDecGen.buffdec_loop_cond, BuffDecGen.buffdec_before_switch, BuffDecGen.buffdec_cases, BuffDecGen.buffdec_after_switch,
   BuffDecGen.buffdec_return, BuffDecGen.buffdec_notify_guard) = BuffDecProofs.buffdec_model_shape.
Proof. exact BuffDecProofs.buffdec_shape_ok. Qed.
Print Assumptions C13_buffer_decoder_source_shape.
