(* C10, kernel side: from the attribute tree of a gtp5g usage report to the report.USAReport value go-upf hands to the
   PFCP layer.  Definitions only.
   (1) the attribute tree of one usage report in the layout gtp5g sends (= what SimReport.Attr() of the simulated kernel
       writes = what go-gtp5gnl's DecodeAllUSAReports reads) and the REPORT multicast container;
   (2) go-gtp5gnl attr_report.go: DecodeAllUSAReports / decodeUSAReport / decodeVolumeMeasurement, written as they are
       (first [w] octets of the payload are read, a shorter payload is a run-time panic = None; unknown report attributes are
       skipped, UR_QUERY_URR_REFERENCE among them; decodeVolumeMeasurement STOPS at the first attribute it does not know;
       time.Unix(0, int64(v)) with the conversion's wrap written out) - pinned to the library's clauses by an Example in
       proofs/UsageDecProofs.v (usagedec_decoder tables of T-gen);
   (3) the five conversion sites of go-upf (buffnetlink.ServeMsg; Gtp5g.UpdateURR, RemoveURR, queryURR, queryMultiURR):
       [conv_site] INTERPRETS the table T-gen extracts from the loops (gen/UsageDecGen.v: key/value pairs of the
       report.USAReport and report.VolumeMeasure literals, trigger statement, sink); a source expression or target field the
       interpreter does not know gives None (fail closed);
   (4) the composition with the PFCP layer's IE construction (model/Pfcp.v mk_usage_ie). *)
From Coq Require Import List NArith ZArith Bool String.
From GoUpf Require Import Bytes Nlattr RulesGen FlagsGen Flags UsageDecGen Pfcp.
Import ListNotations.
Local Open Scope N_scope.

Definition obind {X Y : Type} (o : option X) (f : X -> option Y) : option Y :=
  match o with Some x => f x | None => None end.

(* ------------------------------------------------------------------ (1) the kernel's report *)
Record simreport := mkSim {
  s_urrid : N; s_seid : N; s_trig : N; s_seqn : N; s_qref : N; s_start : N; s_end : N (* ns since the epoch *);
  s_mask : N (* bit i: counter i present *);
  s_tot : N; s_ul : N; s_dl : N; s_tpk : N; s_upk : N; s_dpk : N }.

Definition sim_cnts (s : simreport) : list N := [s_tot s; s_ul s; s_dl s; s_tpk s; s_upk s; s_dpk s].

Fixpoint sim_vol_from (i mask : N) (vs : list N) : list attr :=
  match vs with
  | [] => []
  | v :: r => ((if N.testbit mask i then [A (nl_UR_VOLUME_MEASUREMENT_TOVOL + i) (V64 v)] else []) ++ sim_vol_from (i + 1) mask r)%list
  end.

Definition sim_children (s : simreport) : list attr :=
  [A nl_UR_URRID (V32 (s_urrid s)); A nl_UR_USAGE_REPORT_TRIGGER (V32 (s_trig s)); A nl_UR_URSEQN (V32 (s_seqn s));
   A nl_UR_VOLUME_MEASUREMENT (VNest (sim_vol_from 0 (s_mask s) (sim_cnts s)));
   A nl_UR_QUERY_URR_REFERENCE (V32 (s_qref s));
   A nl_UR_START_TIME (V64 (s_start s)); A nl_UR_END_TIME (V64 (s_end s)); A nl_UR_SEID (V64 (s_seid s))].
Definition sim_attr (s : simreport) : attr := A nl_UR (VNest (sim_children s)).
(* body of a reply (GET_REPORT, GET_MULTI_REPORTS, ADD_URR+REPLACE, DEL_URR) / of the REPORT multicast *)
Definition sim_reply (rs : list simreport) : list attr := map sim_attr rs.
Definition sim_mcast (rs : list simreport) : list attr := [A nl_REPORT (VNest (map sim_attr rs))].

(* the fields are Go uint32 / uint64 / uint8 values *)
Definition sim_wf (s : simreport) : Prop :=
  s_urrid s < 4294967296 /\ s_trig s < 4294967296 /\ s_seqn s < 4294967296 /\ s_qref s < 4294967296 /\
  s_seid s < 18446744073709551616 /\ s_start s < 18446744073709551616 /\ s_end s < 18446744073709551616 /\
  s_tot s < 18446744073709551616 /\ s_ul s < 18446744073709551616 /\ s_dl s < 18446744073709551616 /\
  s_tpk s < 18446744073709551616 /\ s_upk s < 18446744073709551616 /\ s_dpk s < 18446744073709551616.

(* ------------------------------------------------------------------ (2) go-gtp5gnl's decoders *)
Record kvol := mkKvol { kv_flag : N; kv_tot : N; kv_ul : N; kv_dl : N; kv_tpk : N; kv_upk : N; kv_dpk : N }.
(* gtp5gnl.USAReport; a time.Time is the number of nanoseconds since the Unix epoch, None = the zero time.Time *)
Record kreport := mkK {
  k_urrid : N; k_seqn : N; k_trig : N; k_vol : kvol; k_qref : N; k_start : option Z; k_end : option Z; k_seid : N }.

Definition kvol0 : kvol := mkKvol 0 0 0 0 0 0 0.
Definition k0 : kreport := mkK 0 0 0 kvol0 0 None None 0.

(* native.UintNN(b[n:attrLen]): the first w octets, little endian; panics on a shorter payload *)
Definition rd_pre (w : nat) (v : val) : option N :=
  if is_nest v then None else
  if Nat.ltb (List.length (payload v)) w then None else Some (le_val (firstn w (payload v))).

Definition to_int64 (v : N) : Z :=
  if v <? 9223372036854775808 then Z.of_N v else (Z.of_N v - 18446744073709551616)%Z.

(* one attribute of the volume container: None = run-time panic, Some None = `default: return VolMeasurement, nil`
   (the decoder stops), Some (Some d') = next attribute *)
Definition dec_vol_step (d : kvol) (a : attr) : option (option kvol) :=
  let '(A t v) := a in
  if t =? nl_UR_VOLUME_MEASUREMENT_TOVOL then obind (rd_pre 8 v) (fun x =>
    Some (Some (mkKvol (N.lor (kv_flag d) nl_TOVOL) x (kv_ul d) (kv_dl d) (kv_tpk d) (kv_upk d) (kv_dpk d))))
  else if t =? nl_UR_VOLUME_MEASUREMENT_UVOL then obind (rd_pre 8 v) (fun x =>
    Some (Some (mkKvol (N.lor (kv_flag d) nl_ULVOL) (kv_tot d) x (kv_dl d) (kv_tpk d) (kv_upk d) (kv_dpk d))))
  else if t =? nl_UR_VOLUME_MEASUREMENT_DVOL then obind (rd_pre 8 v) (fun x =>
    Some (Some (mkKvol (N.lor (kv_flag d) nl_DLVOL) (kv_tot d) (kv_ul d) x (kv_tpk d) (kv_upk d) (kv_dpk d))))
  else if t =? nl_UR_VOLUME_MEASUREMENT_TOPACKET then obind (rd_pre 8 v) (fun x =>
    Some (Some (mkKvol (N.lor (kv_flag d) nl_TONOP) (kv_tot d) (kv_ul d) (kv_dl d) x (kv_upk d) (kv_dpk d))))
  else if t =? nl_UR_VOLUME_MEASUREMENT_UPACKET then obind (rd_pre 8 v) (fun x =>
    Some (Some (mkKvol (N.lor (kv_flag d) nl_ULNOP) (kv_tot d) (kv_ul d) (kv_dl d) (kv_tpk d) x (kv_dpk d))))
  else if t =? nl_UR_VOLUME_MEASUREMENT_DPACKET then obind (rd_pre 8 v) (fun x =>
    Some (Some (mkKvol (N.lor (kv_flag d) nl_DLNOP) (kv_tot d) (kv_ul d) (kv_dl d) (kv_tpk d) (kv_upk d) x)))
  else Some None.

Fixpoint dec_vol (l : list attr) (d : kvol) : option kvol :=
  match l with
  | [] => Some d
  | a :: r =>
    match dec_vol_step d a with
    | None => None
    | Some None => Some d
    | Some (Some d') => dec_vol r d'
    end
  end.

(* one attribute of a UR container; unknown types (UR_QUERY_URR_REFERENCE among them) are skipped *)
Definition dec_report_step (k : kreport) (a : attr) : option kreport :=
  let '(A t v) := a in
  if t =? nl_UR_URRID then obind (rd_pre 4 v) (fun x =>
    Some (mkK x (k_seqn k) (k_trig k) (k_vol k) (k_qref k) (k_start k) (k_end k) (k_seid k)))
  else if t =? nl_UR_USAGE_REPORT_TRIGGER then obind (rd_pre 4 v) (fun x =>
    Some (mkK (k_urrid k) (k_seqn k) x (k_vol k) (k_qref k) (k_start k) (k_end k) (k_seid k)))
  else if t =? nl_UR_URSEQN then obind (rd_pre 4 v) (fun x =>
    Some (mkK (k_urrid k) x (k_trig k) (k_vol k) (k_qref k) (k_start k) (k_end k) (k_seid k)))
  else if t =? nl_UR_VOLUME_MEASUREMENT then
    match v with
    | VNest sub => obind (dec_vol sub kvol0) (fun x =>
        Some (mkK (k_urrid k) (k_seqn k) (k_trig k) x (k_qref k) (k_start k) (k_end k) (k_seid k)))
    | _ => None                                   (* leaf where a container is expected: not modelled *)
    end
  else if t =? nl_UR_START_TIME then obind (rd_pre 8 v) (fun x =>
    Some (mkK (k_urrid k) (k_seqn k) (k_trig k) (k_vol k) (k_qref k) (Some (to_int64 x)) (k_end k) (k_seid k)))
  else if t =? nl_UR_END_TIME then obind (rd_pre 8 v) (fun x =>
    Some (mkK (k_urrid k) (k_seqn k) (k_trig k) (k_vol k) (k_qref k) (k_start k) (Some (to_int64 x)) (k_seid k)))
  else if t =? nl_UR_SEID then obind (rd_pre 8 v) (fun x =>
    Some (mkK (k_urrid k) (k_seqn k) (k_trig k) (k_vol k) (k_qref k) (k_start k) (k_end k) x))
  else Some k.

Fixpoint dec_report (l : list attr) (k : kreport) : option kreport :=
  match l with
  | [] => Some k
  | a :: r => obind (dec_report_step k a) (dec_report r)
  end.

Fixpoint dec_all (l : list attr) : option (list kreport) :=
  match l with
  | [] => Some []
  | A t v :: r =>
    if t =? nl_UR then
      match v with
      | VNest sub => obind (dec_report sub k0) (fun x => obind (dec_all r) (fun xs => Some (x :: xs)))
      | _ => None
      end
    else dec_all r
  end.

(* ------------------------------------------------------------------ (3) go-upf's conversion sites *)
(* report.USAReport *)
Record usa := mkUsa {
  u_urrid : N; u_seqn : N; u_trig : N;
  u_vflags : N; u_tot : N; u_ul : N; u_dl : N; u_tpk : N; u_upk : N; u_dpk : N;
  u_dur : N; u_qref : N; u_start : option Z; u_end : option Z }.
Definition usa_cnt (u : usa) : list N := [u_tot u; u_ul u; u_dl u; u_tpk u; u_upk u; u_dpk u].

Local Open Scope string_scope.

Fixpoint sassoc {X : Type} (k : string) (l : list (string * X)) : option X :=
  match l with [] => None | (k', x) :: r => if String.eqb k k' then Some x else sassoc k r end.

(* source expressions the interpreter knows: plain selectors of the loop variable r (a gtp5gnl.USAReport).  Go's typing
   makes such an assignment width-preserving (no implicit conversion); anything else - a conversion, an arithmetic
   expression - is not interpreted *)
Definition src_n (e : string) (k : kreport) : option N :=
  if String.eqb e "r.URRID" then Some (k_urrid k)
  else if String.eqb e "r.URSEQN" then Some (k_seqn k)
  else if String.eqb e "r.USARTrigger" then Some (k_trig k)
  else if String.eqb e "r.QueryUrrRef" then Some (k_qref k)
  else if String.eqb e "r.VolMeasurement.Flag" then Some (kv_flag (k_vol k))
  else if String.eqb e "r.VolMeasurement.TotalVolume" then Some (kv_tot (k_vol k))
  else if String.eqb e "r.VolMeasurement.UplinkVolume" then Some (kv_ul (k_vol k))
  else if String.eqb e "r.VolMeasurement.DownlinkVolume" then Some (kv_dl (k_vol k))
  else if String.eqb e "r.VolMeasurement.TotalPktNum" then Some (kv_tpk (k_vol k))
  else if String.eqb e "r.VolMeasurement.UplinkPktNum" then Some (kv_upk (k_vol k))
  else if String.eqb e "r.VolMeasurement.DownlinkPktNum" then Some (kv_dpk (k_vol k))
  else None.
Definition src_t (e : string) (k : kreport) : option (option Z) :=
  if String.eqb e "r.StartTime" then Some (k_start k)
  else if String.eqb e "r.EndTime" then Some (k_end k)
  else None.

(* a field the literal does not mention keeps Go's zero value *)
Definition fld_n (tbl : list (string * string)) (name : string) (k : kreport) : option N :=
  match sassoc name tbl with None => Some 0%N | Some e => src_n e k end.
Definition fld_t (tbl : list (string * string)) (name : string) (k : kreport) : option (option Z) :=
  match sassoc name tbl with None => Some None | Some e => src_t e k end.
Definition known_keys (allowed : list string) (tbl : list (string * string)) : bool :=
  forallb (fun p => existsb (String.eqb (fst p)) allowed) tbl.

Definition trig_of (stmt : string) (k : kreport) : option N :=
  if String.eqb stmt "" then Some 0%N
  else if String.eqb stmt "Flags=r.USARTrigger" then Some (k_trig k)
  else if String.eqb stmt "SetReportingTrigger(r.USARTrigger)" then Some (set_reporting_trigger 0 (k_trig k))
  else None.

Definition usa_keys : list string := ["URRID"; "URSEQN"; "QueryUrrRef"; "StartTime"; "EndTime"].
Definition vol_keys : list string :=
  ["Flags"; "TotalVolume"; "UplinkVolume"; "DownlinkVolume"; "TotalPktNum"; "UplinkPktNum"; "DownlinkPktNum"].

Definition conv_site (site : string) (k : kreport) : option usa :=
  match sassoc site usagedec_sites with
  | None => None
  | Some (flds, vol, trig, _) =>
    if negb (known_keys usa_keys flds && known_keys vol_keys vol) then None else
    obind (fld_n flds "URRID" k) (fun urrid =>
    obind (fld_n flds "URSEQN" k) (fun seqn =>
    obind (trig_of trig k) (fun tr =>
    obind (fld_n vol "Flags" k) (fun vf =>
    obind (fld_n vol "TotalVolume" k) (fun tot =>
    obind (fld_n vol "UplinkVolume" k) (fun ul =>
    obind (fld_n vol "DownlinkVolume" k) (fun dl =>
    obind (fld_n vol "TotalPktNum" k) (fun tpk =>
    obind (fld_n vol "UplinkPktNum" k) (fun upk =>
    obind (fld_n vol "DownlinkPktNum" k) (fun dpk =>
    obind (fld_n flds "QueryUrrRef" k) (fun qref =>
    obind (fld_t flds "StartTime" k) (fun st =>
    obind (fld_t flds "EndTime" k) (fun en =>
      Some (mkUsa urrid seqn tr vf tot ul dl tpk upk dpk 0 qref st en))))))))))))))
  end.

(* the sink: a plain slice, or a map keyed by the report's SEID (association list, insertion order) *)
Definition site_grouped (site : string) : option bool :=
  match sassoc site usagedec_sites with
  | Some (_, _, _, sink) =>
      if String.eqb sink "usars" then Some false else if String.eqb sink "usars[r.SEID]" then Some true else None
  | None => None
  end.

Local Close Scope string_scope.

Fixpoint group_add (seid : N) (u : usa) (g : list (N * list usa)) : list (N * list usa) :=
  match g with
  | [] => [(seid, [u])]
  | (s, us) :: r => if s =? seid then (s, (us ++ [u])%list) :: r else (s, us) :: group_add seid u r
  end.

Fixpoint conv_list (site : string) (ks : list kreport) : option (list (N * usa)) :=
  match ks with
  | [] => Some []
  | k :: r => obind (conv_site site k) (fun u => obind (conv_list site r) (fun us => Some ((k_seid k, u) :: us)))
  end.

(* what a site returns for the decoded reports: groups (seid, reports); a plain slice is the single group of key 0,
   no group at all when the slice is empty *)
Definition conv_batch (site : string) (ks : list kreport) : option (list (N * list usa)) :=
  obind (site_grouped site) (fun g =>
  obind (conv_list site ks) (fun us =>
    if g then Some (fold_left (fun acc p => group_add (fst p) (snd p) acc) us [])
    else Some (match us with [] => [] | _ => [(0, map snd us)] end))).

(* buffnetlink.ServeMsg on a multicast body: only the first attribute is looked at; for REPORT everything after its
   header (b[n:], i.e. its children AND whatever follows the container) goes to DecodeAllUSAReports *)
Definition serve_mcast (body : list attr) : option (bool * list (N * list usa)) :=
  match body with
  | A t (VNest sub) :: rest =>
    if t =? nl_REPORT then
      obind (dec_all (sub ++ rest)) (fun ks =>
        match ks with
        | [] => Some (false, [])                                   (* rs == nil: return false *)
        | _ => obind (conv_batch "ServeMsg" ks) (fun g => Some (true, g))
        end)
    else None                                                      (* BUFFER / other: not this model *)
  | _ => None
  end.

(* a reply's attributes (after the genl header) through one of the four driver sites *)
Definition serve_reply (site : string) (body : list attr) : option (list (N * list usa)) :=
  obind (dec_all body) (conv_batch site).

(* ------------------------------------------------------------------ (4) towards the PFCP layer *)
(* whole seconds since the Unix epoch, as the Start/End Time IEs carry them (times before the epoch: not modelled, 0) *)
Definition unix_secs (t : option Z) : N :=
  match t with Some z => Z.to_N (z / 1000000000) | None => 0 end.

(* the driver-level report of model/Pfcp.v; [extra] = cause added by the PFCP layer / the periodic server
   (TERMR for Remove URR and session deletion, IMMER for Query URR, PERIO for a tick) *)
Definition rpt_of_usa (extra : N) (u : usa) : rpt :=
  mkRpt (u_urrid u) (N.lor (u_trig u) extra) (u_vflags u) (usa_cnt u) (u_dur u) (unix_secs (u_start u)) (unix_secs (u_end u)).

(* ------------------------------------------------------------------ (5) vocabulary of the statements (props/C10.v) *)
Definition mbit (m i v : N) : N := if N.testbit m i then v else 0.

Definition kvol_of_sim (s : simreport) : kvol :=
  let m := s_mask s in
  mkKvol (N.lor (N.lor (N.lor (N.lor (N.lor (mbit m 0 1) (mbit m 1 2)) (mbit m 2 4)) (mbit m 3 8)) (mbit m 4 16)) (mbit m 5 32))
         (mbit m 0 (s_tot s)) (mbit m 1 (s_ul s)) (mbit m 2 (s_dl s)) (mbit m 3 (s_tpk s)) (mbit m 4 (s_upk s)) (mbit m 5 (s_dpk s)).

Definition k_of_sim (s : simreport) : kreport :=
  mkK (s_urrid s) (s_seqn s) (s_trig s) (kvol_of_sim s) 0 (Some (to_int64 (s_start s))) (Some (to_int64 (s_end s))) (s_seid s).

Definition usa_of (k : kreport) (t : N) : usa :=
  mkUsa (k_urrid k) 0 t 0 (kv_tot (k_vol k)) (kv_ul (k_vol k)) (kv_dl (k_vol k)) (kv_tpk (k_vol k)) (kv_upk (k_vol k))
        (kv_dpk (k_vol k)) 0 (k_qref k) (k_start k) (k_end k).

(* what each site does with the kernel's trigger word *)
Definition site_trig (site : string) (t : N) : N :=
  if String.eqb site "ServeMsg" then set_reporting_trigger 0 t
  else if String.eqb site "UpdateURR" || String.eqb site "RemoveURR" then t
  else 0.

Definition sites5 : list string := ["ServeMsg"; "UpdateURR"; "RemoveURR"; "queryURR"; "queryMultiURR"]%string.

Definition usa_of_sim (site : string) (s : simreport) : usa := usa_of (k_of_sim s) (site_trig site (s_trig s)).

Definition sel (x : N) (us : list (N * usa)) : list usa := map snd (filter (fun p => fst p =? x) us).

(* the usage-report IE the SMF receives for kernel report s that went through [site], for a URR with bookkeeping inf,
   sequence number q, cause [extra] added on the way (TERMR / IMMER / PERIO / 0) *)
Definition ie_of_kernel (inf : urrinfo) (q extra : N) (site : string) (s : simreport) : usage_ie :=
  mk_usage_ie inf q (rpt_of_usa extra (usa_of_sim site s)).

(* ------------------------------------------------------------------ comparison helpers for the correspondence run *)
Definition oz_eqb (a b : option Z) : bool :=
  match a, b with Some x, Some y => Z.eqb x y | None, None => true | _, _ => false end.
Definition usa_eqb (a b : usa) : bool :=
  (u_urrid a =? u_urrid b) && (u_seqn a =? u_seqn b) && (u_trig a =? u_trig b) && (u_vflags a =? u_vflags b) &&
  list_N_eqb (usa_cnt a) (usa_cnt b) && (u_dur a =? u_dur b) && (u_qref a =? u_qref b) &&
  oz_eqb (u_start a) (u_start b) && oz_eqb (u_end a) (u_end b).
Fixpoint usas_eqb (a b : list usa) : bool :=
  match a, b with
  | [], [] => true
  | x :: a', y :: b' => usa_eqb x y && usas_eqb a' b'
  | _, _ => false
  end.
Fixpoint galookup (s : N) (g : list (N * list usa)) : option (list usa) :=
  match g with [] => None | (s', us) :: r => if s' =? s then Some us else galookup s r end.
(* groups equal up to the order of the groups (Go map iteration) *)
Definition groups_eqb (model impl : list (N * list usa)) : bool :=
  Nat.eqb (List.length model) (List.length impl) &&
  forallb (fun p => match galookup (fst p) model with Some us => usas_eqb us (snd p) | None => false end) impl.
