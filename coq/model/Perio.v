(* Model of internal/forwarder/perio/server.go (Server.Serve: the ADD / DEL / TIMEOUT / CLOSE cases,
   one ticker per period) and of the chunking loop of Gtp5g.queryMultiURR (gtp5g.go:1515-1556).
   Definitions only.  Go maps are association lists in insertion order (keys distinct: an invariant proved in
   proofs/PerioProofs.v, not assumed here); the only place where Go's map iteration order matters to the
   result is the DEL scan when the same (seid,urr) sits under two periods — excluded by the property's
   quantifier (wf_hist); everywhere else the observable is a set (the correspondence canonicalises).
   The constant OR-ed into the reports is GENERATED from the source (gen/PerioGen.v). *)
From Coq Require Import List NArith Bool.
From GoUpf Require Import PerioGen PerioSpec.
Import ListNotations.
Local Open Scope N_scope.

(* ---------------------------------------------------------------- association lists keyed by N *)
Section Assoc.
  Context {V : Type}.
  Fixpoint lookup (k : N) (l : list (N * V)) : option V :=
    match l with
    | [] => None
    | (k', v) :: r => if k' =? k then Some v else lookup k r
    end.
  (* m[k] = v for a key that is present *)
  Fixpoint update (k : N) (v : V) (l : list (N * V)) : list (N * V) :=
    match l with
    | [] => []
    | (k', v') :: r => if k' =? k then (k', v) :: r else (k', v') :: update k v r
    end.
  (* delete(m, k) *)
  Definition remove_key (k : N) (l : list (N * V)) : list (N * V) :=
    filter (fun e => negb (fst e =? k)) l.
End Assoc.

Definition mem (u : N) (l : list N) : bool := existsb (N.eqb u) l.
Definition remove_n (u : N) (l : list N) : list N := filter (fun v => negb (v =? u)) l.
Definition is_nil {A} (l : list A) : bool := match l with [] => true | _ => false end.

(* ---------------------------------------------------------------- state *)

Definition group := list (N * list N).     (* PERIOGroup.urrids : seid -> set of urr ids *)

Record state := {
  groups : list (N * group);               (* Server.perioList : period -> group *)
  tickers : list N;                        (* periods whose ticker goroutine is alive *)
  closed : bool                            (* Serve has returned and closed evtCh *)
}.
Definition init : state := {| groups := []; tickers := []; closed := false |}.

(* ---------------------------------------------------------------- TYPE_PERIO_ADD (server.go:134-159) *)

Definition group_add (x u : N) (g : group) : group :=
  match lookup x g with
  | None => g ++ [(x, [u])]
  | Some us => if mem u us then g else update x (us ++ [u]) g
  end.

Definition step_add (s : state) (x u p : N) : state * list output :=
  match lookup p (groups s) with
  | None =>    (* new group, new ticker; the fresh group's ticker is nil so newTicker cannot fail *)
      ({| groups := groups s ++ [(p, [(x, [u])])]; tickers := tickers s ++ [p]; closed := closed s |},
       [TickerStart p])
  | Some g =>
      ({| groups := update p (group_add x u g) (groups s); tickers := tickers s; closed := closed s |}, [])
  end.

(* ---------------------------------------------------------------- TYPE_PERIO_DEL (server.go:160-176) *)

(* _, ok := perioGroup.urrids[seid][urrid] *)
Definition has_reg (x u : N) (g : group) : bool :=
  match lookup x g with Some us => mem u us | None => false end.

(* delete(urrids[seid], urrid); if len(urrids[seid]) == 0 { delete(urrids, seid) } *)
Definition group_del (x u : N) (g : group) : group :=
  match lookup x g with
  | Some us => let us' := remove_n u us in
               if is_nil us' then remove_key x g else update x us' g
  | None => g
  end.

(* the range loop over perioList with its `break` after the first group that contains (seid,urr);
   second component: the period whose ticker was stopped (group became empty and was deleted) *)
Fixpoint del_scan (x u : N) (gs : list (N * group)) : list (N * group) * option N :=
  match gs with
  | [] => ([], None)
  | (p, g) :: r =>
      if has_reg x u g then
        let g' := group_del x u g in
        if is_nil g' then (r, Some p) else ((p, g') :: r, None)
      else
        let (r', st) := del_scan x u r in ((p, g) :: r', st)
  end.

Definition step_del (s : state) (x u : N) : state * list output :=
  let (gs', st) := del_scan x u (groups s) in
  match st with
  | Some p => ({| groups := gs'; tickers := remove_n p (tickers s); closed := closed s |}, [TickerStop p])
  | None => ({| groups := gs'; tickers := tickers s; closed := closed s |}, [])
  end.

(* ---------------------------------------------------------------- TYPE_PERIO_TIMEOUT (server.go:177-216) *)

(* usars[i].USARTrigger.Flags |= report.<perio_mark_name> *)
Definition mark (r : report) : report :=
  {| r_urr := r_urr r; r_flags := N.lor (r_flags r) perio_mark_flag; r_tag := r_tag r |}.

(* lSeidUrridsMap: an entry appears only through append, i.e. only for a non-empty id set *)
Definition query_of (g : group) : list (N * list N) :=
  filter (fun e => negb (is_nil (snd e))) g.

Definition notifications (a : answer) : list output :=
  match a with
  | None => []                        (* err != nil *)
  | Some [] => []                     (* len(seidUsars) == 0 *)
  | Some l => map (fun e => Notify (fst e) (map mark (snd e))) l
  end.

Definition step_tick (s : state) (p : N) (a : answer) : state * list output :=
  match lookup p (groups s) with
  | None => (s, [])                   (* "no periodGroup found": stale tick *)
  | Some g => (s, Query (query_of g) :: notifications a)
  end.

(* ---------------------------------------------------------------- TYPE_SERVER_CLOSE (server.go:217-222) *)

Definition step_close (s : state) : state * list output :=
  ({| groups := [];
      tickers := fold_left (fun t pg => remove_n (fst pg) t) (groups s) (tickers s);
      closed := true |},
   map (fun pg => TickerStop (fst pg)) (groups s)).

(* ---------------------------------------------------------------- step *)

(* After Close, Serve has returned and its deferred evtQ.close() has run: whatever AddPeriodReportTimer /
   DelPeriodReportTimer / Close / a ticker posts afterwards is dropped by the queue (eventQueue.put returns false).
   (Before the event channel became a queue such a post was a send on a closed channel: output FaultSendOnClosed,
   which the code can no longer produce.) *)
Definition step (s : state) (e : event) : state * list output :=
  if closed s then (s, [])
  else match e with
       | Add x u p => step_add s x u p
       | Del x u => step_del s x u
       | Tick p a => step_tick s p a
       | Close => step_close s
       end.

Definition run_from (s : state) (evs : list event) : state :=
  fold_left (fun s e => fst (step s e)) evs s.
Definition run (evs : list event) : state := run_from init evs.

(* state and outputs after every event (for the correspondence) *)
Fixpoint trace_from (s : state) (evs : list event) : list (state * list output) :=
  match evs with
  | [] => []
  | e :: r => let so := step s e in so :: trace_from (fst so) r
  end.
Definition trace (evs : list event) := trace_from init evs.

(* ---------------------------------------------------------------- queryMultiURR chunking (gtp5g.go:1527-1556) *)

(* l = the (seid,urr) pairs of the query map in the order the two nested range loops visit them;
   acc = oids, length acc = queryNum; n = queryNumOnce.  Flush when queryNum >= queryNumOnce after the
   append; a last request for what is left if len(oids) > 0. *)
Section Batches.
  Context {A : Type}.
  Fixpoint batches_aux (n : nat) (acc l : list A) : list (list A) :=
    match l with
    | [] => match acc with [] => [] | _ => [acc] end
    | a :: r => let acc' := (acc ++ [a])%list in
                if Nat.leb n (length acc') then acc' :: batches_aux n [] r
                else batches_aux n acc' r
    end.
  Definition batches (n : nat) (l : list A) : list (list A) := batches_aux n [] l.
End Batches.

(* observation of the model in the monitor's vocabulary *)
Definition queries_of (outs : list output) : list (list (N * list N)) :=
  flat_map (fun o => match o with Query q => [q] | _ => [] end) outs.
Definition notifies_of (outs : list output) : list (N * list report) :=
  flat_map (fun o => match o with Notify x rs => [(x, rs)] | _ => [] end) outs.
Definition faulted (outs : list output) : bool :=
  existsb (fun o => match o with FaultSendOnClosed => true | _ => false end) outs.
Definition obs_of (so : state * list output) : obs :=
  {| o_queries := queries_of (snd so); o_notifies := notifies_of (snd so);
     o_groups := groups (fst so); o_tickers := N.of_nat (length (tickers (fst so)));
     o_fault := faulted (snd so) |}.
