(* Concurrency skeleton of internal/pfcp (C17): confinement of state to the event-loop goroutine, checked
   against the access table GENERATED from the source (gen/ConcGen.v), and an interleaving model of the three
   input channels, the receiver, the producers and Stop.  Definitions only. *)
From Coq Require Import String List NArith Bool.
From GoUpf Require Import ConstsGen ConcGen.
Import ListNotations.
Local Open Scope string_scope.

(* what goroutines other than the event loop may touch: the three input channels, the done channel, the socket
   (assigned before the receiver is started; guarded by connMu between main and Stop), the started/stopped flags
   (guarded by connMu), immutable fields *)
Definition offloop_allowed : list string :=
  ["PfcpServer.rcvCh"; "PfcpServer.srCh"; "PfcpServer.trToCh"; "PfcpServer.done";
   "PfcpServer.conn"; "PfcpServer.connMu"; "PfcpServer.stopped"; "PfcpServer.started"; "PfcpServer.log";
   "TxTransaction.server"; "TxTransaction.id"; "RxTransaction.server"; "RxTransaction.id"].

Definition mem_str (x : string) (l : list string) : bool := existsb (String.eqb x) l.

Definition confined : bool :=
  forallb (fun e => forallb (fun f => mem_str f offloop_allowed) (snd e)) offloop_access.

(* off-loop code sends on srCh / trToCh only inside a select that also waits for done; plain sends only on rcvCh
   by the receiver; it never closes a channel *)
Definition offloop_chanops_ok : bool :=
  forallb (fun op => match op with (entry, ch, mode) =>
    if String.eqb mode "send" then String.eqb ch "PfcpServer.rcvCh" && String.eqb entry "PfcpServer.receiver"
    else if String.eqb mode "send-select" then mem_str ch ["PfcpServer.srCh"; "PfcpServer.trToCh"]
    else if String.eqb mode "recv" then String.eqb ch "PfcpServer.done"
    else false end) offloop_chanops.

(* the only channels ever closed: done and rcvCh, by the loop's deferred clean-up (and per-session packet queues) *)
Definition closes_ok : bool :=
  forallb (fun c => match c with (fn, ch) =>
    (String.eqb fn "PfcpServer.main$1" && mem_str ch ["PfcpServer.done"; "PfcpServer.rcvCh"])
    || (String.eqb fn "Sess.Close" && String.eqb ch "local.q") end) chan_closes.

(* goroutines started by the package *)
Definition gos_ok : bool :=
  forallb (fun g => match g with (fn, callee) =>
    (String.eqb fn "PfcpServer.Start" && String.eqb callee "PfcpServer.main")
    || (String.eqb fn "PfcpServer.main" && String.eqb callee "PfcpServer.receiver") end) go_stmts.

(* ---------------------------------------------------------------- accesses and races *)

Inductive thread := TLoop | TReceiver | TStopper | TProducer (n : nat) | TTimer (n : nat).

Record access := mkAccess { a_thread : thread; a_cell : string; a_write : bool }.

Definition thread_eqb (a b : thread) : bool :=
  match a, b with
  | TLoop, TLoop | TReceiver, TReceiver | TStopper, TStopper => true
  | TProducer n, TProducer m | TTimer n, TTimer m => Nat.eqb n m
  | _, _ => false
  end.

Definition state_cell (c : string) : bool := negb (mem_str c offloop_allowed).

Definition conflicting (a b : access) : bool :=
  String.eqb (a_cell a) (a_cell b) && negb (thread_eqb (a_thread a) (a_thread b)) && (a_write a || a_write b).

(* ---------------------------------------------------------------- interleaving model of the channels *)

Local Open Scope N_scope.

Inductive msg := Payload (id : N) | StopMarker.

Record cstate := mkC {
  q_rcv : list msg; q_sr : list N; q_to : list N;
  rcv_closed : bool; done_closed : bool;
  receiver_exited : bool; main_exited : bool;
  processed : list N;           (* notifications / datagrams handled by the loop, in order *)
  accepted : list N }.          (* everything a producer or the receiver managed to hand over *)

Definition c_init : cstate := mkC [] [] [] false false false false [] [].

Inductive act :=
| AReport (id : N)          (* a producer's  select { srCh <- id ; <-done }  taking the send branch *)
| ATimeout (id : N)         (* a timer callback's select taking the send branch *)
| AGiveUp                   (* ... taking the <-done branch *)
| ADatagram (id : N)        (* receiver: rcvCh <- datagram *)
| ASocketClosed             (* receiver: read error (Stop closed the socket): rcvCh <- marker, then exit *)
| ATakeSr | ATakeTo | ATakeRcv.   (* the loop's select *)

Inductive outcome := Next (c : cstate) | Disabled | SendOnClosed.

Definition cap_ok (len cap : N) : bool := N.ltb len cap.

Definition cstep (c : cstate) (a : act) : outcome :=
  match a with
  | AReport id =>
    if cap_ok (N.of_nat (length (q_sr c))) REPORT_CHANNEL_LEN
    then Next (mkC (q_rcv c) (q_sr c ++ [id]) (q_to c) (rcv_closed c) (done_closed c) (receiver_exited c) (main_exited c)
                   (processed c) (accepted c ++ [id]))
    else Disabled
  | ATimeout id =>
    if cap_ok (N.of_nat (length (q_to c))) TRANS_TIMEOUT_CHANNEL_LEN
    then Next (mkC (q_rcv c) (q_sr c) (q_to c ++ [id]) (rcv_closed c) (done_closed c) (receiver_exited c) (main_exited c)
                   (processed c) (accepted c ++ [id]))
    else Disabled
  | AGiveUp => if done_closed c then Next c else Disabled
  | ADatagram id =>
    if receiver_exited c then Disabled else
    if rcv_closed c then SendOnClosed else
    if cap_ok (N.of_nat (length (q_rcv c))) RECEIVE_CHANNEL_LEN
    then Next (mkC (q_rcv c ++ [Payload id]) (q_sr c) (q_to c) (rcv_closed c) (done_closed c) (receiver_exited c) (main_exited c)
                   (processed c) (accepted c ++ [id]))
    else Disabled
  | ASocketClosed =>
    if receiver_exited c then Disabled else
    if rcv_closed c then SendOnClosed else
    if cap_ok (N.of_nat (length (q_rcv c))) RECEIVE_CHANNEL_LEN
    then Next (mkC (q_rcv c ++ [StopMarker]) (q_sr c) (q_to c) (rcv_closed c) (done_closed c) true (main_exited c)
                   (processed c) (accepted c))
    else Disabled
  | ATakeSr =>
    if main_exited c then Disabled else
    match q_sr c with
    | [] => Disabled
    | id :: r => Next (mkC (q_rcv c) r (q_to c) (rcv_closed c) (done_closed c) (receiver_exited c) (main_exited c)
                           (processed c ++ [id]) (accepted c))
    end
  | ATakeTo =>
    if main_exited c then Disabled else
    match q_to c with
    | [] => Disabled
    | id :: r => Next (mkC (q_rcv c) (q_sr c) r (rcv_closed c) (done_closed c) (receiver_exited c) (main_exited c)
                           (processed c ++ [id]) (accepted c))
    end
  | ATakeRcv =>
    if main_exited c then Disabled else
    match q_rcv c with
    | [] => Disabled
    | Payload id :: r => Next (mkC r (q_sr c) (q_to c) (rcv_closed c) (done_closed c) (receiver_exited c) (main_exited c)
                                   (processed c ++ [id]) (accepted c))
    | StopMarker :: r =>   (* the loop returns: deferred clean-up closes done, then rcvCh *)
      Next (mkC r (q_sr c) (q_to c) true true (receiver_exited c) true (processed c) (accepted c))
    end
  end.

Fixpoint crun (c : cstate) (l : list act) : outcome :=
  match l with
  | [] => Next c
  | a :: r => match cstep c a with
              | Next c' => crun c' r
              | Disabled => crun c r        (* a disabled action simply does not happen *)
              | SendOnClosed => SendOnClosed
              end
  end.

Definition payloads (q : list msg) : list N :=
  flat_map (fun m => match m with Payload id => [id] | StopMarker => [] end) q.
