(* Model of internal/forwarder/gtp5g.go:176-753 - translation of Create/Update PDR and Create/Update FAR
   grouped IEs into the gtp5g netlink request - clause by clause, plus the envelope go-gtp5gnl's
   CreatePDROID/UpdatePDROID/CreateFAROID/UpdateFAROID put around the attributes (pdr.go, far.go).
   Attribute type numbers and command numbers come from the go-gtp5gnl version in go.mod (gen/RulesGen.v),
   the GTP-U port from pkg/factory (gen/ConstsGen.v), the ApplyAction.Unmarshal shape from gen/FlagsGen.v.
   Definitions only; proofs are in proofs/RulesPdrFarProofs.v. *)
From Coq Require Import List NArith Bool.
From GoUpf Require Import Bytes Nlattr PfcpIe RulesGen ConstsGen FlagsGen.
Import ListNotations.
Local Open Scope N_scope.

(* Err: the driver method returned an error before issuing the netlink request *)
Inductive result (T : Type) : Type := Ok (x : T) | Err.
Arguments Ok {T} _.
Arguments Err {T}.

(* ---- newFlowDesc (:176-238) and convertSlice (:240-254) ---- *)

(* one uint32 per entry, stored in native (little-endian) order *)
Definition convert_slice (ports : list (list N)) : list N :=
  flat_map (fun p =>
    match p with
    | [a] => le_bytes 4 (N.lor (N.shiftl a 16) a)
    | [a; b] => le_bytes 4 (N.lor (N.shiftl a 16) b)
    | _ => [0; 0; 0; 0]
    end) ports.

Definition swap_pfd (p : pfd) : pfd :=
  {| pf_action := pf_action p; pf_dir := pf_dir p; pf_proto := pf_proto p;
     pf_src_ip := pf_dst_ip p; pf_src_mask := pf_dst_mask p;
     pf_dst_ip := pf_src_ip p; pf_dst_mask := pf_src_mask p;
     pf_sports := pf_dports p; pf_dports := pf_sports p |}.

(* None = `return nil, err` *)
Definition new_flow_desc (fd : option pfd) (swap : bool) : option (list attr) :=
  match fd with
  | None => None                                           (* ParseFlowDesc error *)
  | Some p0 =>
    let p := if swap then swap_pfd p0 else p0 in
    if negb (pf_action p =? 1) then None else              (* default: not support action *)
    let a1 := [A nl_FLOW_DESCRIPTION_ACTION (V8 nl_SDF_FILTER_PERMIT)] in
    match (if pf_dir p =? 1 then Some nl_SDF_FILTER_IN
           else if pf_dir p =? 2 then Some nl_SDF_FILTER_OUT else None) with
    | None => None                                         (* default: not support dir *)
    | Some d =>
      Some (a1 ++ [A nl_FLOW_DESCRIPTION_DIRECTION (V8 d);
                   A nl_FLOW_DESCRIPTION_PROTOCOL (V8 (pf_proto p));
                   A nl_FLOW_DESCRIPTION_SRC_IPV4 (VBytes (pf_src_ip p));
                   A nl_FLOW_DESCRIPTION_SRC_MASK (VBytes (pf_src_mask p));
                   A nl_FLOW_DESCRIPTION_DEST_IPV4 (VBytes (pf_dst_ip p));
                   A nl_FLOW_DESCRIPTION_DEST_MASK (VBytes (pf_dst_mask p));
                   A nl_FLOW_DESCRIPTION_SRC_PORT (VBytes (convert_slice (pf_sports p)));
                   A nl_FLOW_DESCRIPTION_DEST_PORT (VBytes (convert_slice (pf_dports p)))])
    end
  end.

(* ---- newSdfFilter (:256-310): None = error (the caller drops the filter) ---- *)
Definition new_sdf_filter (x : ie) (src_if : N) : option (list attr) :=
  match x with
  | ISdf has_fd has_ttc has_spi has_fl has_bid _ fd bid =>
    match (if has_fd
           then match new_flow_desc fd (src_if =? SrcInterfaceAccess) with
                | Some l => Some [A nl_SDF_FILTER_FLOW_DESCRIPTION (VNest l)]
                | None => None
                end
           else Some []) with
    | None => None
    | Some a0 =>
      Some (a0
        ++ (if has_ttc then [A nl_SDF_FILTER_TOS_TRAFFIC_CLASS (V16 29)] else [])         (* TODO placeholders *)
        ++ (if has_spi then [A nl_SDF_FILTER_SECURITY_PARAMETER_INDEX (V32 30)] else [])
        ++ (if has_fl then [A nl_SDF_FILTER_FLOW_LABEL (V32 31)] else [])
        ++ (if has_bid then [A nl_SDF_FILTER_SDF_FILTER_ID (V32 bid)] else []))
    end
  | _ => None                                              (* i.SDFFilter() error *)
  end.

(* ---- newPdi (:312-379) ---- *)
(* state of the first loop: attrs, srcIf, sdfIEs *)
Definition pdi_scan (st : list attr * N * list ie) (x : ie) : list attr * N * list ie :=
  let '(attrs, src_if, sdfs) := st in
  match x with
  | ISrcIf v => (attrs ++ [A nl_PDI_SRC_INTF (V8 v)], v, sdfs)
  | IFteid teid v4 =>
      (attrs ++ [A nl_PDI_F_TEID (VNest [A nl_F_TEID_I_TEID (V32 teid);
                                          A nl_F_TEID_GTPU_ADDR_IPV4 (VBytes v4)])], src_if, sdfs)
  | IUeIp v4 => (attrs ++ [A nl_PDI_UE_ADDR_IPV4 (VBytes v4)], src_if, sdfs)
  | ISdf _ _ _ _ _ _ _ _ => (attrs, src_if, sdfs ++ [x])
  | IBad t => if t =? T_SDFFilter then (attrs, src_if, sdfs ++ [x]) else st   (* other accessor errors: break *)
  | _ => st
  end.

Definition new_pdi (c : list ie) : list attr :=
  let '(attrs, src_if, sdfs) := fold_left pdi_scan c ([], 0, []) in
  fold_left (fun acc x =>
    match new_sdf_filter x src_if with
    | Some v => acc ++ [A nl_PDI_SDF_FILTER (VNest v)]
    | None => acc
    end) sdfs attrs.

(* ---- CreatePDR / UpdatePDR loops (:390-456, :484-550): state = pdrid, attrs ---- *)
Definition pdr_clause (st : N * list attr) (i : ie) : N * list attr :=
  let '(pdrid, attrs) := st in
  match i with
  | IPdrId v => (v, attrs)
  | IPrecedence v => (pdrid, attrs ++ [A nl_PDR_PRECEDENCE (V32 v)])
  | IPdi c =>
      match new_pdi c with
      | [] => st                                           (* if v != nil *)
      | v => (pdrid, attrs ++ [A nl_PDR_PDI (VNest v)])
      end
  | IOhr v => (pdrid, attrs ++ [A nl_PDR_OUTER_HEADER_REMOVAL (V8 v)])
  | IFarId v => (pdrid, attrs ++ [A nl_PDR_FAR_ID (V32 v)])
  | IQerId v => (pdrid, attrs ++ [A nl_PDR_QER_ID (V32 v)])
  | IUrrId v => (pdrid, attrs ++ [A nl_PDR_URR_ID (V32 v)])
  | _ => st                                                (* every accessor error is `break` here *)
  end.

(* go-gtp5gnl Create/UpdatePDROID: LINK u32, PDR_ID u16 (of int(oid[1])), PDR_SEID u64, then the attributes *)
Definition pdr_envelope (link seid pdrid : N) (attrs : list attr) : list attr :=
  [A nl_LINK (V32 link); A nl_PDR_ID (V16 pdrid)] ++ [A nl_PDR_SEID (V64 seid)] ++ attrs.

Definition request : Type := N * N * (N * N) * list attr.   (* genl cmd, nlmsg flags, oid (seid, id), attributes *)

Definition create_flags : N := NLM_F_REQUEST + NLM_F_EXCL + NLM_F_ACK.
Definition update_flags : N := NLM_F_REQUEST + NLM_F_REPLACE + NLM_F_ACK.

Definition create_pdr (link seid : N) (ies : list ie) : result request :=
  let '(pdrid, attrs) := fold_left pdr_clause ies (0, []) in
  let attrs := attrs ++ [A nl_PDR_UNIX_SOCKET_PATH (VStr nl_PdrAddrForNetlink)] in
  Ok (nl_CMD_ADD_PDR, create_flags, (seid, pdrid), pdr_envelope link seid pdrid attrs).

Definition update_pdr (link seid : N) (ies : list ie) : result request :=
  let '(pdrid, attrs) := fold_left pdr_clause ies (0, []) in
  Ok (nl_CMD_ADD_PDR, update_flags, (seid, pdrid), pdr_envelope link seid pdrid attrs).

(* ---- newForwardingParameter (:565-630) ---- *)
Definition fwd_param_clause (attrs : list attr) (x : ie) : list attr :=
  match x with
  | IOhc desc has_teid has_v4 teid v4 port =>
      let hc := [A nl_OUTER_HEADER_CREATION_DESCRIPTION (V16 desc)]
        ++ (if has_teid
            then [A nl_OUTER_HEADER_CREATION_O_TEID (V32 teid);
                  A nl_OUTER_HEADER_CREATION_PORT (V16 UpfGtpDefaultPort)]       (* GTPv1-U port *)
            else [A nl_OUTER_HEADER_CREATION_PORT (V16 port)])
        ++ (if has_v4 then [A nl_OUTER_HEADER_CREATION_PEER_ADDR_IPV4 (VBytes v4)] else []) in
      attrs ++ [A nl_FORWARDING_PARAMETER_OUTER_HEADER_CREATION (VNest hc)]
  | IFwdPolicy id => attrs ++ [A nl_FORWARDING_PARAMETER_FORWARDING_POLICY (VStr id)]
  | ISmReqFlags v => attrs ++ [A nl_FORWARDING_PARAMETER_PFCPSM_REQ_FLAGS (V8 v)]
  | _ => attrs
  end.
Definition new_fwd_param (c : list ie) : list attr := fold_left fwd_param_clause c [].

(* report.ApplyAction.Unmarshal, shape from FlagsGen (aa_min_len, aa_pad, aa_width) *)
Definition aa_unmarshal (b : list N) : option N :=
  if Nat.ltb (length b) aa_min_len then None else
  let n := match aa_pad with
           | (O, k) => (length b + k)%nat
           | (_, k) => Nat.max k (length b)
           end in
  Some (le_val (firstn (Nat.div aa_width 8) (b ++ repeat 0 (n - length b)))).

(* ---- CreateFAR / UpdateFAR loops (:640-687, :701-749): state = farid, attrs; Err = `return err` ---- *)
Definition far_clause (upd : bool) (st : result (N * list attr)) (i : ie) : result (N * list attr) :=
  match st with
  | Err => Err
  | Ok (farid, attrs) =>
    let fp c := match new_fwd_param c with
                | [] => st                                 (* if v != nil *)
                | v => Ok (farid, attrs ++ [A nl_FAR_FORWARDING_PARAMETER (VNest v)])
                end in
    match i with
    | IFarId v => Ok (v, attrs)
    | IApplyAction b =>
        match aa_unmarshal b with
        | None => Err
        | Some fl => Ok (farid, attrs ++ [A nl_FAR_APPLY_ACTION (V16 fl)])
        end                                                (* UpdateFAR remembers the action and releases buffered packets after the request (C13) *)
    | IFwdParams c => if upd then st else fp c
    | IUpdFwdParams c => if upd then fp c else st
    | IBarId v => Ok (farid, attrs ++ [A nl_FAR_BAR_ID (V8 v)])
    | IBad t =>
        if (t =? T_FARID) || (t =? T_ApplyAction)
           || (t =? (if upd then T_UpdateForwardingParameters else T_ForwardingParameters))
        then Err else st                                   (* BARID error: break *)
    | _ => st
    end
  end.

Definition far_envelope (link seid farid : N) (attrs : list attr) : list attr :=
  [A nl_LINK (V32 link); A nl_FAR_ID (V32 farid)] ++ [A nl_FAR_SEID (V64 seid)] ++ attrs.

Definition create_far (link seid : N) (ies : list ie) : result request :=
  match fold_left (far_clause false) ies (Ok (0, [])) with
  | Err => Err
  | Ok (farid, attrs) => Ok (nl_CMD_ADD_FAR, create_flags, (seid, farid), far_envelope link seid farid attrs)
  end.

Definition update_far (link seid : N) (ies : list ie) : result request :=
  match fold_left (far_clause true) ies (Ok (0, [])) with
  | Err => Err
  | Ok (farid, attrs) => Ok (nl_CMD_ADD_FAR, update_flags, (seid, farid), far_envelope link seid farid attrs)
  end.
