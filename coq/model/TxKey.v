(* The transaction key of internal/pfcp: fmt.Sprintf("%s-%d", addr, seq).  Model: the address is ANY string, the
   sequence number is rendered in decimal (Go's %d on an unsigned value: no sign, no padding, "0" for zero). *)
From Coq Require Import String Ascii List NArith Bool DecimalString DecimalN DecimalPos Decimal.
Local Open Scope string_scope.

Definition dec (n : N) : string := NilZero.string_of_uint (N.to_uint n).
Definition trid (addr : string) (seq : N) : string := addr ++ "-" ++ dec seq.

Fixpoint nodash (s : string) : bool :=
  match s with
  | EmptyString => true
  | String c r => negb (Ascii.eqb c "-") && nodash r
  end.

(* fmt.Sprintf restricted to what the key sites may use: literal characters, %s of a string, %d of an unsigned
   number, %%; operands consumed in order; anything else (other verbs, flags, missing or ill-typed operand) = None *)
Inductive farg := AStr (s : string) | ANum (n : N).

Fixpoint render (f : string) (args : list farg) : option string :=
  match f with
  | EmptyString => match args with nil => Some EmptyString | _ => None end
  | String "%" (String "s" r) =>
      match args with
      | AStr s :: args' => option_map (append s) (render r args')
      | _ => None
      end
  | String "%" (String "d" r) =>
      match args with
      | ANum n :: args' => option_map (append (dec n)) (render r args')
      | _ => None
      end
  | String "%" (String "%" r) => option_map (String "%") (render r args)
  | String "%" _ => None
  | String c r => option_map (String c) (render r args)
  end.
