(* Shutdown composition (C17, "Stop stops"): the PFCP event loop, PfcpServer.Stop, the application's driver.Close
   that follows it, the periodic-report server's CLOSE handling (stop every ticker, then close the event channel)
   and the ticker goroutines.  The protocol parameters are read off the GENERATED channel-operation tables:
     stop_waits       Stop receives on the loop's done channel before returning
     rendezvous       stopTicker hands a value over on the unbuffered stop channel before closing it
     guarded          the ticker goroutine cannot be blocked posting its tick while the server stops it (the post is a
                      select that also waits for the stop channel, or a put into the unbounded queue)
     drops            posting after the server has closed its queue is dropped (the queue checks a closed flag) instead
                      of being a send on a closed channel
   Fault = a send on the closed event channel (a Go panic).  Definitions only. *)
From Coq Require Import List Bool Arith.
Import ListNotations.

Record params := mkP { stop_waits : bool; rendezvous : bool; guarded : bool; drops : bool }.

Inductive tstate := TSel | TSend | TDone.     (* in the outer select / committed to posting a tick / returned *)
Inductive serve := SRun | SStopping (rest : list nat) | SClosed.

Record sh := mkS {
  loop_running : bool;      (* the PFCP event loop may still call the driver (posts ADD/DEL events) *)
  stop_returned : bool;     (* PfcpServer.Stop has returned to the application *)
  close_posted : bool;      (* driver.Close posted the CLOSE event *)
  sv : serve;
  evt_closed : bool;        (* the periodic server closed its event channel *)
  q_full : bool;            (* the event channel's buffer is full (environment) *)
  stop_closed : list nat;   (* tickers whose stop channel has been closed without a hand-over *)
  tickers : list tstate }.

Inductive act :=
| LoopDriverCall | LoopExit | StopReturn | DriverClose | ServeTakeClose | ServeStopTicker | ServeFinish
| TickFire (i : nat) | TickSent (i : nat) | TickSeeStop (i : nat) | QueueFull (b : bool).

Inductive outcome := Next (s : sh) | Disabled | SendOnClosed.

Fixpoint set_nth {A} (l : list A) (i : nat) (x : A) : list A :=
  match l, i with
  | [], _ => []
  | _ :: r, O => x :: r
  | y :: r, S j => y :: set_nth r j x
  end.

Definition tstate_eqb (a b : tstate) : bool :=
  match a, b with TSel, TSel | TSend, TSend | TDone, TDone => true | _, _ => false end.

Definition upd (s : sh) lr sr cp v ec qf sc tk := mkS lr sr cp v ec qf sc tk.

Definition step (p : params) (s : sh) (a : act) : outcome :=
  match a with
  | LoopDriverCall =>
      if loop_running s then (if evt_closed s && negb (drops p) then SendOnClosed else Next s) else Disabled
  | LoopExit => Next (mkS false (stop_returned s) (close_posted s) (sv s) (evt_closed s) (q_full s) (stop_closed s) (tickers s))
  | StopReturn =>
      if stop_waits p && loop_running s then Disabled
      else Next (mkS (loop_running s) true (close_posted s) (sv s) (evt_closed s) (q_full s) (stop_closed s) (tickers s))
  | DriverClose =>
      if stop_returned s && negb (close_posted s)
      then (if evt_closed s && negb (drops p) then SendOnClosed
            else Next (mkS (loop_running s) (stop_returned s) true (sv s) (evt_closed s) (q_full s) (stop_closed s) (tickers s)))
      else Disabled
  | ServeTakeClose =>
      match sv s with
      | SRun => if close_posted s
                then Next (mkS (loop_running s) (stop_returned s) (close_posted s) (SStopping (seq 0 (length (tickers s))))
                               (evt_closed s) (q_full s) (stop_closed s) (tickers s))
                else Disabled
      | _ => Disabled
      end
  | ServeStopTicker =>
      match sv s with
      | SStopping (i :: rest) =>
          if rendezvous p then
            (* the hand-over completes only if the ticker goroutine is receiving on its stop channel *)
            match nth i (tickers s) TDone with
            | TSel => Next (mkS (loop_running s) (stop_returned s) (close_posted s) (SStopping rest) (evt_closed s) (q_full s)
                                (stop_closed s) (set_nth (tickers s) i TDone))
            | TSend => if guarded p
                       then Next (mkS (loop_running s) (stop_returned s) (close_posted s) (SStopping rest) (evt_closed s) (q_full s)
                                      (stop_closed s) (set_nth (tickers s) i TDone))
                       else Disabled
            | TDone => Disabled
            end
          else Next (mkS (loop_running s) (stop_returned s) (close_posted s) (SStopping rest) (evt_closed s) (q_full s)
                         (i :: stop_closed s) (tickers s))
      | _ => Disabled
      end
  | ServeFinish =>
      match sv s with
      | SStopping [] => Next (mkS (loop_running s) (stop_returned s) (close_posted s) SClosed true (q_full s) (stop_closed s) (tickers s))
      | _ => Disabled
      end
  | TickFire i =>
      match nth i (tickers s) TDone with
      | TSel => Next (mkS (loop_running s) (stop_returned s) (close_posted s) (sv s) (evt_closed s) (q_full s) (stop_closed s)
                          (set_nth (tickers s) i TSend))
      | _ => Disabled
      end
  | TickSent i =>
      match nth i (tickers s) TDone with
      | TSend => if evt_closed s && negb (drops p) then SendOnClosed
                 else if q_full s then Disabled
                 else Next (mkS (loop_running s) (stop_returned s) (close_posted s) (sv s) (evt_closed s) (q_full s) (stop_closed s)
                                (set_nth (tickers s) i TSel))
      | _ => Disabled
      end
  | TickSeeStop i =>
      if existsb (Nat.eqb i) (stop_closed s) then
        match nth i (tickers s) TDone with
        | TSel => Next (mkS (loop_running s) (stop_returned s) (close_posted s) (sv s) (evt_closed s) (q_full s) (stop_closed s)
                            (set_nth (tickers s) i TDone))
        | TSend => if guarded p
                   then Next (mkS (loop_running s) (stop_returned s) (close_posted s) (sv s) (evt_closed s) (q_full s) (stop_closed s)
                                  (set_nth (tickers s) i TDone))
                   else Disabled
        | TDone => Disabled
        end
      else Disabled
  | QueueFull b =>
      (* the buffer can only be observed full while nobody drains it or producers keep it full; free environment *)
      Next (mkS (loop_running s) (stop_returned s) (close_posted s) (sv s) (evt_closed s) b (stop_closed s) (tickers s))
  end.

Fixpoint run (p : params) (s : sh) (l : list act) : outcome :=
  match l with
  | [] => Next s
  | a :: r => match step p s a with
              | Next s' => run p s' r
              | Disabled => run p s r
              | SendOnClosed => SendOnClosed
              end
  end.

Definition init (n : nat) : sh := mkS true false false SRun false false [] (repeat TSel n).

(* the periodic server, once it has taken CLOSE, can always take its next step (it is never stuck in stopTicker) *)
Definition serve_can_move (p : params) (s : sh) : bool :=
  match sv s with
  | SStopping _ => match step p s ServeStopTicker with Next _ => true | _ =>
                     match step p s ServeFinish with Next _ => true | _ => false end end
  | _ => true
  end.
