(* Model of internal/gtpv1/msg.go: Message.Len, Message.Encode, PDUSessionContainer.
   The per-byte expressions of PDUSessionContainer.Encode and the flag masks are
   GENERATED from the source (gen/GtpuGen.v); the control flow of Len/Encode is
   written by hand and validated by the correspondence check. *)
From Coq Require Import List NArith Bool.
From GoUpf Require Import Bytes GtpuGen.
Import ListNotations.
Local Open Scope N_scope.

(* the only extension header go-upf constructs *)
Record psc := { psc_pt : N; psc_qfi : N }.

Record gmsg := {
  m_flags : N; m_type : N; m_teid : N; m_seq : N; m_npdu : N;
  m_exts : list psc; m_payload : list N }.

Definition has_seq (m : gmsg) : bool := flag_of mask_HasSequence (m_flags m).
Definition has_npdu (m : gmsg) : bool := flag_of mask_HasNPDUNumber (m_flags m).

(* position after the optional fields *)
Definition opt_end (m : gmsg) : N :=
  8 + (if has_seq m then 2 else 0) + (if has_npdu m then 1 else 0).
(* ((l + 4) &^ 0x3) - 1 *)
Definition align_pos (l : N) : N := 4 * ((l + 4) / 4) - 1.

Definition exts_len (m : gmsg) : N := N.of_nat (length (m_exts m) * psc_len).

(* Message.Len *)
Definition msg_len (m : gmsg) : N :=
  align_pos (opt_end m) + exts_len m + 1 + N.of_nat (length (m_payload m)).

(* Message.Encode into a zero-filled buffer of msg_len octets *)
Definition encode (m : gmsg) : list N :=
  [m_flags m mod 256; m_type m mod 256]
  ++ be16 ((msg_len m - 8) mod 65536)
  ++ be32 (m_teid m)
  ++ (if has_seq m then be16 (m_seq m) else [])
  ++ (if has_npdu m then [m_npdu m mod 256] else [])
  ++ repeat 0 (N.to_nat (align_pos (opt_end m) - opt_end m))
  ++ flat_map (fun e => psc_bytes (psc_pt e) (psc_qfi e)) (m_exts m)
  ++ [0]
  ++ m_payload m.

(* what Gtp5g.WritePacket builds (gtp5g.go:1659-1672) *)
Definition write_packet_msg (teid : N) (qfi : option N) (pkt : list N) : gmsg :=
  {| m_flags := 52; m_type := MsgTypeTPDU; m_teid := teid; m_seq := 0; m_npdu := 0;
     m_exts := match qfi with Some q => [{| psc_pt := 0; psc_qfi := q |}] | None => [] end;
     m_payload := pkt |}.
