(* Model of internal/forwarder/gtp5g.go:764-1459 - Create/Update QER, Create/Update/Remove URR (with the calls to the
   periodic-report server), Create/Update BAR - clause by clause, plus go-gtp5gnl's request envelopes (qer.go, urr.go,
   bar.go).  Constants from gen/RulesGen.v (go-gtp5gnl), gen/FlagsGen.v (report.go).  Definitions only. *)
From Coq Require Import List NArith Bool.
From GoUpf Require Import Bytes Nlattr PfcpIe3 RulesGen FlagsGen RulesPdrFar.
Import ListNotations.
Local Open Scope N_scope.

(* ---- CreateQER / UpdateQER (:772-894, :908-1030): identical loops, every accessor error is `break` ---- *)
Definition rate_attrs (hi_ul lo_ul hi_dl lo_dl : N) (ul dl : N) : list attr :=
  [A hi_ul (V32 (N.shiftr ul 8)); A lo_ul (V8 ul); A hi_dl (V32 (N.shiftr dl 8)); A lo_dl (V8 dl)].

Definition qer_clause (st : N * list attr) (i : qie) : N * list attr :=
  let '(qerid, attrs) := st in
  match i with
  | QQerId v => (v, attrs)
  | QCorrId v => (qerid, attrs ++ [A nl_QER_CORR_ID (V32 v)])
  | QGate v => (qerid, attrs ++ [A nl_QER_GATE (V8 v)])
  | QMbr ul dl => (qerid, attrs ++ [A nl_QER_MBR (VNest (rate_attrs nl_QER_MBR_UL_HIGH32 nl_QER_MBR_UL_LOW8
                                                                  nl_QER_MBR_DL_HIGH32 nl_QER_MBR_DL_LOW8 ul dl))])
  | QGbr ul dl => (qerid, attrs ++ [A nl_QER_GBR (VNest (rate_attrs nl_QER_GBR_UL_HIGH32 nl_QER_GBR_UL_LOW8
                                                                  nl_QER_GBR_DL_HIGH32 nl_QER_GBR_DL_LOW8 ul dl))])
  | QQfi v => (qerid, attrs ++ [A nl_QER_QFI (V8 v)])
  | QRqi v => (qerid, attrs ++ [A nl_QER_RQI (V8 v)])
  | QPpi v => (qerid, attrs ++ [A nl_QER_PPI (V8 v)])
  | _ => st
  end.

Definition qer_envelope (link seid id : N) (attrs : list attr) : list attr :=
  [A nl_LINK (V32 link); A nl_QER_ID (V32 id)] ++ [A nl_QER_SEID (V64 seid)] ++ attrs.

Definition create_qer (link seid : N) (ies : list qie) : result request :=
  let '(id, attrs) := fold_left qer_clause ies (0, []) in
  Ok (nl_CMD_ADD_QER, create_flags, (seid, id), qer_envelope link seid id attrs).
Definition update_qer (link seid : N) (ies : list qie) : result request :=
  let '(id, attrs) := fold_left qer_clause ies (0, []) in
  Ok (nl_CMD_ADD_QER, update_flags, (seid, id), qer_envelope link seid id attrs).

(* ---- URR ---- *)
(* report.ReportingTrigger.Unmarshal, shape from FlagsGen (rt_min_len, rt_pad, rt_width) *)
Definition rt_unmarshal (b : list N) : option N :=
  if Nat.ltb (length b) rt_min_len then None else
  let n := match rt_pad with
           | (O, k) => (length b + k)%nat
           | (_, k) => Nat.max k (length b)
           end in
  Some (le_val (firstn (Nat.div rt_width 8) (b ++ repeat 0 (n - length b)))).

(* newVolumeThreshold / newVolumeQuota (:1045-1111) *)
Definition vol_attrs (t_flag t_tot t_ul t_dl : N) (flags tot ul dl : N) : list attr :=
  [A t_flag (V8 flags)]
  ++ (if N.testbit flags 0 then [A t_tot (V64 tot)] else [])     (* HasTOVOL *)
  ++ (if N.testbit flags 1 then [A t_ul (V64 ul)] else [])       (* HasULVOL *)
  ++ (if N.testbit flags 2 then [A t_dl (V64 dl)] else []).      (* HasDLVOL *)

(* calls to the periodic-report server *)
Inductive pcall : Type := PAdd (seid urr period : N) | PDel (seid urr : N).

Record urr_st := { us_id : N; us_trig : N; us_period : N; us_attrs : list attr }.
Definition us_add (s : urr_st) (a : attr) : urr_st :=
  {| us_id := us_id s; us_trig := us_trig s; us_period := us_period s; us_attrs := us_attrs s ++ [a] |}.

(* CreateURR loop (:1124-1195); Err = `return err` *)
Definition urr_create_clause (st : result urr_st) (i : qie) : result urr_st :=
  match st with
  | Err => Err
  | Ok s =>
    match i with
    | QUrrId v => Ok {| us_id := v; us_trig := us_trig s; us_period := us_period s; us_attrs := us_attrs s |}
    | QMethod v => Ok (us_add s (A nl_URR_MEASUREMENT_METHOD (V8 v)))
    | QTriggers b =>
        match rt_unmarshal b with
        | None => Err
        | Some fl => Ok {| us_id := us_id s; us_trig := fl; us_period := us_period s;
                           us_attrs := us_attrs s ++ [A nl_URR_REPORTING_TRIGGER (V32 fl)] |}
        end
    | QPeriod ns =>
        if ns =? 0 then Err                                 (* measurePeriod <= 0: invalid measurement period *)
        else Ok {| us_id := us_id s; us_trig := us_trig s; us_period := ns;
                   us_attrs := us_attrs s ++ [A nl_URR_MEASUREMENT_PERIOD (V32 ns)] |}   (* TODO in the code: Duration as u32 *)
    | QInfo v => Ok (us_add s (A nl_URR_MEASUREMENT_INFO (V64 v)))
    | QVolThr fl tot ul dl =>
        Ok (us_add s (A nl_URR_VOLUME_THRESHOLD (VNest (vol_attrs nl_URR_VOLUME_THRESHOLD_FLAG nl_URR_VOLUME_THRESHOLD_TOVOL
                        nl_URR_VOLUME_THRESHOLD_UVOL nl_URR_VOLUME_THRESHOLD_DVOL fl tot ul dl))))
    | QVolQuota fl tot ul dl =>
        Ok (us_add s (A nl_URR_VOLUME_QUOTA (VNest (vol_attrs nl_URR_VOLUME_QUOTA_FLAG nl_URR_VOLUME_QUOTA_TOVOL
                        nl_URR_VOLUME_QUOTA_UVOL nl_URR_VOLUME_QUOTA_DVOL fl tot ul dl))))
    | QBad t =>
        if (t =? T3_URRID) || (t =? T3_MeasurementMethod) || (t =? T3_ReportingTriggers)
           || (t =? T3_MeasurementPeriod) || (t =? T3_MeasurementInformation)
        then Err else st                                    (* threshold / quota errors: break *)
    | _ => st
    end
  end.

Definition urr_envelope (link seid id : N) (attrs : list attr) : list attr :=
  [A nl_LINK (V32 link); A nl_URR_ID (V32 id)] ++ [A nl_URR_SEID (V64 seid)] ++ attrs.

Definition urr0 : urr_st := {| us_id := 0; us_trig := 0; us_period := 0; us_attrs := [] |}.

(* result: the calls to the periodic server (issued BEFORE the netlink request, :1197-1202) and the request *)
Definition create_urr (link seid : N) (ies : list qie) : result (list pcall * request) :=
  match fold_left urr_create_clause ies (Ok urr0) with
  | Err => Err
  | Ok s =>
    let req := (nl_CMD_ADD_URR, create_flags, (seid, us_id s), urr_envelope link seid (us_id s) (us_attrs s)) in
    if negb (N.land (us_trig s) RPT_TRIG_PERIO =? 0)        (* rptTrig.PERIO() *)
    then if us_period s =? 0 then Err else Ok ([PAdd seid (us_id s) (us_period s)], req)
    else Ok ([], req)
  end.

(* UpdateURR loop (:1217-1288): no period check, no call to the periodic server (TODO in the code) *)
Definition urr_update_clause (st : result (N * list attr)) (i : qie) : result (N * list attr) :=
  match st with
  | Err => Err
  | Ok (id, attrs) =>
    match i with
    | QUrrId v => Ok (v, attrs)
    | QMethod v => Ok (id, attrs ++ [A nl_URR_MEASUREMENT_METHOD (V8 v)])
    | QTriggers b =>
        match rt_unmarshal b with
        | None => Err
        | Some fl => Ok (id, attrs ++ [A nl_URR_REPORTING_TRIGGER (V32 fl)])
        end
    | QPeriod ns => Ok (id, attrs ++ [A nl_URR_MEASUREMENT_PERIOD (V32 ns)])
    | QInfo v => Ok (id, attrs ++ [A nl_URR_MEASUREMENT_INFO (V64 v)])
    | QVolThr fl tot ul dl =>
        Ok (id, attrs ++ [A nl_URR_VOLUME_THRESHOLD (VNest (vol_attrs nl_URR_VOLUME_THRESHOLD_FLAG nl_URR_VOLUME_THRESHOLD_TOVOL
                            nl_URR_VOLUME_THRESHOLD_UVOL nl_URR_VOLUME_THRESHOLD_DVOL fl tot ul dl))])
    | QVolQuota fl tot ul dl =>
        Ok (id, attrs ++ [A nl_URR_VOLUME_QUOTA (VNest (vol_attrs nl_URR_VOLUME_QUOTA_FLAG nl_URR_VOLUME_QUOTA_TOVOL
                            nl_URR_VOLUME_QUOTA_UVOL nl_URR_VOLUME_QUOTA_DVOL fl tot ul dl))])
    | QBad t =>
        if (t =? T3_URRID) || (t =? T3_MeasurementMethod) || (t =? T3_ReportingTriggers)
           || (t =? T3_MeasurementPeriod) || (t =? T3_MeasurementInformation)
        then Err else st
    | _ => st
    end
  end.

Definition update_urr (link seid : N) (ies : list qie) : result (list pcall * request) :=
  match fold_left urr_update_clause ies (Ok (0, [])) with
  | Err => Err
  | Ok (id, attrs) => Ok ([], (nl_CMD_ADD_URR, update_flags, (seid, id), urr_envelope link seid id attrs))
  end.

(* RemoveURR (:1324-1338): always unregisters, then DEL_URR *)
Definition remove_urr (link seid urrid : N) : list pcall * request :=
  ([PDel seid urrid],
   (nl_CMD_DEL_URR, create_flags, (seid, urrid), [A nl_LINK (V32 link); A nl_URR_ID (V32 urrid)] ++ [A nl_URR_SEID (V64 seid)])).

(* ---- CreateBAR / UpdateBAR (:1376-1404, :1418-1446): identical loops, every accessor error is `return err` ---- *)
Definition bar_clause (st : result (N * list attr)) (i : qie) : result (N * list attr) :=
  match st with
  | Err => Err
  | Ok (id, attrs) =>
    match i with
    | QBarId v => Ok (v, attrs)
    | QDelay ns => Ok (id, attrs ++ [A nl_BAR_DOWNLINK_DATA_NOTIFICATION_DELAY (V8 (ns / 50000000))])   (* AttrU8(v / (50 * time.Millisecond)) *)
    | QCount v => Ok (id, attrs ++ [A nl_BAR_BUFFERING_PACKETS_COUNT (V16 v)])
    | QBad t => if (t =? T3_BARID) || (t =? T3_DLDNDelay) || (t =? T3_SuggestedBufferingPacketsCount) then Err else st
    | _ => st
    end
  end.

Definition bar_envelope (link seid id : N) (attrs : list attr) : list attr :=
  [A nl_LINK (V32 link); A nl_BAR_ID (V8 id)] ++ [A nl_BAR_SEID (V64 seid)] ++ attrs.

Definition create_bar (link seid : N) (ies : list qie) : result request :=
  match fold_left bar_clause ies (Ok (0, [])) with
  | Err => Err
  | Ok (id, attrs) => Ok (nl_CMD_ADD_BAR, create_flags, (seid, id), bar_envelope link seid id attrs)
  end.
Definition update_bar (link seid : N) (ies : list qie) : result request :=
  match fold_left bar_clause ies (Ok (0, [])) with
  | Err => Err
  | Ok (id, attrs) => Ok (nl_CMD_ADD_BAR, update_flags, (seid, id), bar_envelope link seid id attrs)
  end.

(* ---- the periodic server's registration table (perio/server.go:40-45, :143-186) ----
   perioList[period].urrids[seid][urrid]: a set of (period, seid, urr).  Del removes the pair from ONE period group
   (Go map iteration order decides which when it is registered under several; here: list order). *)
Definition preg : Type := list (N * N * N).
Definition trip_eqb (a b : N * N * N) : bool :=
  let '(p, s, u) := a in let '(p', s', u') := b in (p =? p') && (s =? s') && (u =? u').
Fixpoint del_first (seid urr : N) (r : preg) : preg :=
  match r with
  | [] => []
  | (p, s, u) :: r' => if (s =? seid) && (u =? urr) then r' else (p, s, u) :: del_first seid urr r'
  end.
Definition perio_apply (r : preg) (c : pcall) : preg :=
  match c with
  | PAdd seid urr period => if existsb (trip_eqb (period, seid, urr)) r then r else r ++ [(period, seid, urr)]
  | PDel seid urr => del_first seid urr r
  end.
(* what a tick of `period` asks the data plane for *)
Definition query_set (period : N) (r : preg) : list (N * N) :=
  flat_map (fun t => let '(p, s, u) := t in if p =? period then [(s, u)] else []) r.
