(* Abstract view of the grouped IEs Create/Update PDR and Create/Update FAR: for each child IE the value
   go-pfcp's accessor - the one the driver calls for that IE type - returns.  Data only.
   go-pfcp itself (message.Parse, accessors) is modelled, not verified: the correspondence harness obtains
   this view by calling the same accessors on the IE it hands to the driver. *)
From Coq Require Import List NArith Bool.
Import ListNotations.
Local Open Scope N_scope.

(* result of forwarder.ParseFlowDesc (subject of C16; an input here).  Strings abstracted to codes:
   action 1 = "permit" (0 other), dir 1 = "in", 2 = "out" (0 other).  Addresses/masks are the octets of
   net.IPNet.IP / .Mask (4, or 16 for "any"/"assigned"/IPv6); a port entry is [p] or [lo; hi]. *)
Record pfd := {
  pf_action : N; pf_dir : N; pf_proto : N;
  pf_src_ip : list N; pf_src_mask : list N; pf_dst_ip : list N; pf_dst_mask : list N;
  pf_sports : list (list N); pf_dports : list (list N) }.

Inductive ie : Type :=
| IPdrId (v : N)                       (* PDRID()  uint16 *)
| IPrecedence (v : N)                  (* Precedence() uint32 *)
| IPdi (c : list ie)                   (* PDI() children *)
| ISrcIf (v : N)                       (* SourceInterface() uint8: the whole octet *)
| IFteid (teid : N) (v4 : list N)      (* FTEID(): TEID, IPv4Address octets ([] when the V4 flag is clear) *)
| IUeIp (v4 : list N)                  (* UEIPAddress(): IPv4Address octets ([] when absent) *)
| ISdf (has_fd has_ttc has_spi has_fl has_bid : bool)
       (fd_raw : list N) (fd : option pfd) (bid : N)
                                       (* SDFFilter(): flag accessors, FlowDescription octets, ParseFlowDesc of it
                                          (None = error), SDFFilterID *)
| IOhr (v : N)                         (* OuterHeaderRemovalDescription() uint8 *)
| IFarId (v : N) | IQerId (v : N) | IUrrId (v : N)      (* uint32 *)
| IApplyAction (b : list N)            (* ApplyAction(): payload octets, at least one *)
| IFwdParams (c : list ie)             (* ForwardingParameters() children *)
| IUpdFwdParams (c : list ie)          (* UpdateForwardingParameters() children *)
| IOhc (desc : N) (has_teid has_v4 : bool) (teid : N) (v4 : list N) (port : N)
                                       (* OuterHeaderCreation(): description uint16, x.HasTEID(), x.HasIPv4(), fields *)
| IFwdPolicy (id : list N)             (* ForwardingPolicyIdentifier() octets *)
| ISmReqFlags (v : N)                  (* PFCPSMReqFlags() uint8 *)
| IBarId (v : N)                       (* BARID() uint8 *)
| IBad (ty : N)                        (* an IE of PFCP type ty whose accessor returns an error *)
| IOther (ty : N).                     (* an IE type without a case in the driver's switch *)

(* PFCP IE type numbers (TS 29.244 table 8.1.2-1 / go-pfcp ie.go) *)
Definition T_PDI := 2. Definition T_ForwardingParameters := 4. Definition T_UpdateForwardingParameters := 11.
Definition T_SourceInterface := 20. Definition T_FTEID := 21. Definition T_NetworkInstance := 22.
Definition T_SDFFilter := 23. Definition T_ApplicationID := 24. Definition T_Precedence := 29.
Definition T_ForwardingPolicy := 41. Definition T_DestinationInterface := 42. Definition T_ApplyAction := 44.
Definition T_PFCPSMReqFlags := 49. Definition T_PDRID := 56. Definition T_URRID := 81.
Definition T_OuterHeaderCreation := 84. Definition T_BARID := 88. Definition T_UEIPAddress := 93.
Definition T_OuterHeaderRemoval := 95. Definition T_FARID := 108. Definition T_QERID := 109.

Definition ie_type (i : ie) : N :=
  match i with
  | IPdrId _ => T_PDRID | IPrecedence _ => T_Precedence | IPdi _ => T_PDI | ISrcIf _ => T_SourceInterface
  | IFteid _ _ => T_FTEID | IUeIp _ => T_UEIPAddress | ISdf _ _ _ _ _ _ _ _ => T_SDFFilter
  | IOhr _ => T_OuterHeaderRemoval | IFarId _ => T_FARID | IQerId _ => T_QERID | IUrrId _ => T_URRID
  | IApplyAction _ => T_ApplyAction | IFwdParams _ => T_ForwardingParameters
  | IUpdFwdParams _ => T_UpdateForwardingParameters | IOhc _ _ _ _ _ _ => T_OuterHeaderCreation
  | IFwdPolicy _ => T_ForwardingPolicy | ISmReqFlags _ => T_PFCPSMReqFlags | IBarId _ => T_BARID
  | IBad t => t | IOther t => t
  end.

(* ie.SrcInterfaceAccess *)
Definition SrcInterfaceAccess : N := 0.
