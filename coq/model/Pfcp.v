(* Executable model of go-upf's PFCP control side (internal/pfcp/*.go) together with a
   model data plane (the twin of the harness's ModelDP driver).

   Sources followed clause by clause:
     node.go        Sess (rule bookkeeping, Close, Push/Pop, URRSeq), RemoteNode, LocalNode (session table)
     session.go     establishment / modification / deletion handlers, report response
     association.go, heartbeat.go, dispacher.go
     pfcp.go        the event loop body (rx / tx transaction look-up), sendReqTo, sendRspTo, UpdateNodeID
     transaction.go Tx/Rx transactions
     report.go      ServeReport, serveDLDReport, serveUSAReport
     report/report.go  usage-report IE selection

   Conventions: Go maps are association lists (insertion order = iteration order of the model; the
   correspondence check canonicalises); the iteration order of RemoteNode.Reset, which is observable
   through the free list, is an ORACLE carried by the event; data-plane failures and usage counters
   are oracles carried by the event ([env]); Go run-time faults are values ([Fault]).
   Definitions only - proofs live in proofs/. *)
From Coq Require Import String List NArith ZArith Bool.
From GoUpf Require Import Bytes FlagsGen ConstsGen HandlerGen.
Import ListNotations.
Local Open Scope N_scope.

(* ------------------------------------------------------------------ basics *)

Inductive kind := KPDR | KFAR | KQER | KURR | KBAR.
Inductive dop := DCreate | DUpdate | DRemove | DQuery.

Definition kind_eqb (a b : kind) : bool :=
  match a, b with KPDR, KPDR | KFAR, KFAR | KQER, KQER | KURR, KURR | KBAR, KBAR => true | _, _ => false end.
Definition dop_eqb (a b : dop) : bool :=
  match a, b with DCreate, DCreate | DUpdate, DUpdate | DRemove, DRemove | DQuery, DQuery => true | _, _ => false end.

Inductive fault := FIndexOutOfRange | FNilDeref.
Inductive res (A : Type) := Ok (a : A) | Fault (f : fault).
Arguments Ok {A} a.
Arguments Fault {A} f.

Definition memN (x : N) (l : list N) : bool := existsb (N.eqb x) l.
Definition addN (x : N) (l : list N) : list N := if memN x l then l else l ++ [x].
Definition delN (x : N) (l : list N) : list N := filter (fun y => negb (N.eqb x y)) l.

Section Assoc.
  Context {V : Type}.
  Fixpoint alookup (k : N) (l : list (N * V)) : option V :=
    match l with [] => None | (k', v) :: r => if N.eqb k k' then Some v else alookup k r end.
  Fixpoint aset (k : N) (v : V) (l : list (N * V)) : list (N * V) :=
    match l with
    | [] => [(k, v)]
    | (k', v') :: r => if N.eqb k k' then (k, v) :: r else (k', v') :: aset k v r
    end.
  Definition adel (k : N) (l : list (N * V)) : list (N * V) :=
    filter (fun p => negb (N.eqb k (fst p))) l.
End Assoc.

(* ------------------------------------------------------------------ data plane (ModelDP) *)

Definition rule := (N * kind * N)%type.            (* (seid, kind, id) *)
Definition rule_eqb (a b : rule) : bool :=
  match a, b with (s, k, i), (s', k', i') => N.eqb s s' && kind_eqb k k' && N.eqb i i' end.
Definition dplane := list rule.
Definition dp_has (dp : dplane) (r : rule) : bool := existsb (rule_eqb r) dp.
Definition dp_add (dp : dplane) (r : rule) : dplane := dp ++ [r].
Definition dp_del (dp : dplane) (r : rule) : dplane := filter (fun x => negb (rule_eqb r x)) dp.

(* a usage report as the driver returns it *)
Record rpt := mkRpt {
  r_urr : N; r_trig : N; r_vflags : N; r_cnt : list N (* six counters *);
  r_dur : N; r_start : N; r_end : N }.

(* oracles of one event: which data-plane calls fail, what usage the data plane reports *)
Record env := mkEnv {
  e_fail : list (dop * kind * N);
  e_usage : list (dop * N * list rpt) }.

Definition fails (e : env) (op : dop) (k : kind) (id : N) : bool :=
  existsb (fun x => match x with (o, k', i) => dop_eqb o op && kind_eqb k' k && N.eqb i id end) (e_fail e).

Fixpoint usage_lookup (l : list (dop * N * list rpt)) (op : dop) (id : N) : list rpt :=
  match l with
  | [] => []
  | (o, i, rs) :: r => if dop_eqb o op && N.eqb i id then rs else usage_lookup r op id
  end.
Definition usage (e : env) (op : dop) (id : N) : list rpt := usage_lookup (e_usage e) op id.

(* create: scripted failure (leaving nothing, or - residue - the rule), or the rule exists already (NLM_F_EXCL) -> error; update / query: scripted
   failure or rule absent -> error; remove: absent -> error (removal is not in the fault model) *)
Definition dp_call (e : env) (dp : dplane) (op : dop) (k : kind) (seid id : N) : dplane * bool :=
  let present := dp_has dp (seid, k, id) in
  match op with
  | DCreate => if fails e op k id
               then (* a failing installation may leave the rule behind: scripted by a (DRemove, k, id) entry of the
                       failure set (removal itself is not in the fault model, so that entry has no other meaning) *)
                    (if fails e DRemove k id && negb present then dp_add dp (seid, k, id) else dp, false)
               else if present then (dp, false) else (dp_add dp (seid, k, id), true)
  | DUpdate | DQuery => if fails e op k id then (dp, false) else (dp, present)
  | DRemove => if present then (dp_del dp (seid, k, id), true) else (dp, false)
  end.

(* ------------------------------------------------------------------ observable outputs *)

(* usage-report IE as decoded by the peer *)
Record usage_ie := mkUie {
  ur_urr : N; ur_seqn : N; ur_trig : N;
  ur_times : option (N * N);
  ur_vol : option (N * list N);
  ur_dur : option N }.

Inductive pdu :=
| PHeartbeatRsp (seq : N)
| PAssocRsp (seq cause : N)
| PEstRsp (seq hdr cause fseid : N) (created : list N)
| PModRsp (seq hdr cause : N) (urs : list usage_ie)
| PDelRsp (seq hdr cause : N) (urs : list usage_ie)
| PReportDLDR (seq hdr pdrid : N)
| PReportUSAR (seq hdr : N) (urs : list usage_ie).

Inductive out :=
| ODrv (op : dop) (k : kind) (seid id : N) (ok : bool)
| OSend (dst : N) (p : pdu) (retrans : bool).

(* ------------------------------------------------------------------ sessions *)

Record urrinfo := mkUrr {
  ui_removed : bool; ui_seqn : N; ui_durat : bool; ui_volum : bool; ui_event : bool; ui_mnop : bool;
  ui_ref : N }.

Definition pkt := list N.

Record sess := mkSess {
  s_lid : N; s_rid : N; s_node : nat;
  s_pdrs : list (N * list N);          (* PDR id -> related URR ids *)
  s_fars : list N; s_qers : list N; s_bars : list N;
  s_urrs : list (N * urrinfo);
  s_q : list (N * list pkt) }.

Definition recorded (s : sess) (k : kind) : list N :=
  match k with
  | KPDR => map fst (s_pdrs s) | KFAR => s_fars s | KQER => s_qers s
  | KURR => map fst (s_urrs s) | KBAR => s_bars s
  end.

Definition set_simple (k : kind) (l : list N) (s : sess) : sess :=
  match k with
  | KFAR => mkSess (s_lid s) (s_rid s) (s_node s) (s_pdrs s) l (s_qers s) (s_bars s) (s_urrs s) (s_q s)
  | KQER => mkSess (s_lid s) (s_rid s) (s_node s) (s_pdrs s) (s_fars s) l (s_bars s) (s_urrs s) (s_q s)
  | KBAR => mkSess (s_lid s) (s_rid s) (s_node s) (s_pdrs s) (s_fars s) (s_qers s) l (s_urrs s) (s_q s)
  | _ => s
  end.
Definition set_pdrs (l : list (N * list N)) (s : sess) : sess :=
  mkSess (s_lid s) (s_rid s) (s_node s) l (s_fars s) (s_qers s) (s_bars s) (s_urrs s) (s_q s).
Definition set_urrs (l : list (N * urrinfo)) (s : sess) : sess :=
  mkSess (s_lid s) (s_rid s) (s_node s) (s_pdrs s) (s_fars s) (s_qers s) (s_bars s) l (s_q s).
Definition set_q (l : list (N * list pkt)) (s : sess) : sess :=
  mkSess (s_lid s) (s_rid s) (s_node s) (s_pdrs s) (s_fars s) (s_qers s) (s_bars s) (s_urrs s) l.
Definition set_node (n : nat) (s : sess) : sess :=
  mkSess (s_lid s) (s_rid s) n (s_pdrs s) (s_fars s) (s_qers s) (s_bars s) (s_urrs s) (s_q s).

(* working context of the per-session operations: the session, the data plane, outputs so far *)
Record sctx := mkCtx { c_s : sess; c_dp : dplane; c_out : list out }.

Definition drv (e : env) (c : sctx) (op : dop) (k : kind) (id : N) : sctx * bool :=
  let '(dp', ok) := dp_call e (c_dp c) op k (s_lid (c_s c)) id in
  (mkCtx (c_s c) dp' (c_out c ++ [ODrv op k (s_lid (c_s c)) id ok]), ok).

Definition upd_s (c : sctx) (f : sess -> sess) : sctx := mkCtx (f (c_s c)) (c_dp c) (c_out c).

(* --- FAR / QER / BAR: node.go:240-332, 448-493.  id = None models a missing / undecodable id IE *)
Definition create_simple (e : env) (k : kind) (id : option N) (c : sctx) : sctx :=
  match id with
  | None => c
  | Some i =>
    let c1 := upd_s c (fun s => set_simple k (addN i (recorded s k)) s) in   (* recorded BEFORE the call *)
    fst (drv e c1 DCreate k i)
  end.

Definition update_simple (e : env) (k : kind) (id : option N) (c : sctx) : sctx :=
  match id with
  | None => c
  | Some i => if memN i (recorded (c_s c) k) then fst (drv e c DUpdate k i) else c
  end.

Definition remove_simple (e : env) (k : kind) (id : option N) (c : sctx) : sctx :=
  match id with
  | None => c
  | Some i =>
    if memN i (recorded (c_s c) k) then
      let '(c1, ok) := drv e c DRemove k i in
      if ok then upd_s c1 (fun s => set_simple k (delN i (recorded s k)) s) else c1
    else c
  end.

(* --- URR: node.go:334-446 *)
Record urr_op := mkUrrOp { uo_id : option N; uo_method : option N; uo_info : option N }.

Definition bit (n : N) (v : option N) : bool := match v with Some x => N.testbit x n | None => false end.

(* number of PDRs whose related-URR set names u (used by the repaired CreateURR) *)
Definition pdr_refs (s : sess) (u : N) : N :=
  N.of_nat (length (filter (fun p => memN u (snd p)) (s_pdrs s))).

(* the URR of that id which the session still holds (not marked removed) *)
Definition held_urr (s : sess) (i : N) : option urrinfo :=
  match alookup i (s_urrs s) with
  | Some u => if ui_removed u then None else Some u
  | None => None
  end.

(* node.go CreateURR (after fix "Create URR for a held id keeps its UR-SEQN"): the new bookkeeping entry inherits the
   sequence counter of a held URR of that id; when the data plane rejects the create the held entry is put back *)
Definition create_urr (e : env) (o : urr_op) (c : sctx) : sctx :=
  match uo_id o with
  | None => c
  | Some i =>
    let old := held_urr (c_s c) i in
    let info := mkUrr false (match old with Some u => ui_seqn u | None => 0 end)
                      (bit 0 (uo_method o)) (bit 1 (uo_method o)) (bit 2 (uo_method o))
                      (bit 4 (uo_info o)) (pdr_refs (c_s c) i mod 65536) in
    let c1 := upd_s c (fun s => set_urrs (aset i info (s_urrs s)) s) in
    let '(c2, ok) := drv e c1 DCreate KURR i in
    if ok then c2
    else match old with
         | Some u => upd_s c2 (fun s => set_urrs (aset i u (s_urrs s)) s)
         | None => c2
         end
  end.

Definition update_urr (e : env) (o : urr_op) (c : sctx) : sctx * list rpt :=
  match uo_id o with
  | None => (c, [])
  | Some i =>
    match alookup i (s_urrs (c_s c)) with
    | None => (c, [])
    | Some inf =>
      let inf1 := match uo_method o with
                  | Some _ => mkUrr (ui_removed inf) (ui_seqn inf) (bit 0 (uo_method o)) (bit 1 (uo_method o))
                                    (bit 2 (uo_method o)) (ui_mnop inf) (ui_ref inf)
                  | None => inf end in
      let inf2 := match uo_info o with
                  | Some _ => mkUrr (ui_removed inf1) (ui_seqn inf1) (ui_durat inf1) (ui_volum inf1) (ui_event inf1)
                                    (bit 4 (uo_info o)) (ui_ref inf1)
                  | None => inf1 end in
      let c1 := upd_s c (fun s => set_urrs (aset i inf2 (s_urrs s)) s) in
      let '(c2, ok) := drv e c1 DUpdate KURR i in
      (c2, if ok then usage e DUpdate i else [])
    end
  end.

Definition or_trig (f : N) (r : rpt) : rpt :=
  mkRpt (r_urr r) (N.lor (r_trig r) f) (r_vflags r) (r_cnt r) (r_dur r) (r_start r) (r_end r).

(* node.go RemoveURR (after fix "a removed URR that no final report names is forgotten at once"): the entry marked removed
   is kept only for the final reports that name it (emit drops it with the last of them); when the removal succeeded and
   no returned report names the URR, nothing is left to remember it for *)
Definition names_urr (i : N) (rs : list rpt) : bool := existsb (fun r => N.eqb (r_urr r) i) rs.

Definition forget_urr (ok : bool) (i : N) (rs : list rpt) (c : sctx) : sctx :=
  if ok && negb (names_urr i rs) then upd_s c (fun s => set_urrs (adel i (s_urrs s)) s) else c.

Definition remove_urr (e : env) (id : option N) (c : sctx) : sctx * list rpt :=
  match id with
  | None => (c, [])
  | Some i =>
    match alookup i (s_urrs (c_s c)) with
    | None => (c, [])
    | Some inf =>
      let inf1 := mkUrr true (ui_seqn inf) (ui_durat inf) (ui_volum inf) (ui_event inf) (ui_mnop inf) (ui_ref inf) in
      let c1 := upd_s c (fun s => set_urrs (aset i inf1 (s_urrs s)) s) in
      let '(c2, ok) := drv e c1 DRemove KURR i in
      let rs := if ok then map (or_trig USAR_TRIG_TERMR) (usage e DRemove i) else [] in
      (forget_urr ok i rs c2, rs)
    end
  end.

Definition query_urr (e : env) (id : option N) (c : sctx) : sctx * list rpt :=
  match id with
  | None => (c, [])
  | Some i =>
    match alookup i (s_urrs (c_s c)) with
    | None => (c, [])
    | Some _ =>
      let '(c1, ok) := drv e c DQuery KURR i in
      (c1, if ok then map (or_trig USAR_TRIG_IMMER) (usage e DQuery i) else [])
    end
  end.

(* node.go:138-161 *)
Definition diassociate (e : env) (u : N) (c : sctx) : sctx * list rpt :=
  match alookup u (s_urrs (c_s c)) with
  | None => (c, [])
  | Some inf =>
    if 0 <? ui_ref inf then
      let inf1 := mkUrr (ui_removed inf) (ui_seqn inf) (ui_durat inf) (ui_volum inf) (ui_event inf) (ui_mnop inf)
                        (ui_ref inf - 1) in
      let c1 := upd_s c (fun s => set_urrs (aset u inf1 (s_urrs s)) s) in
      if ui_ref inf1 =? 0 then
        let '(c2, ok) := drv e c1 DQuery KURR u in
        (c2, if ok then map (or_trig USAR_TRIG_TERMR) (usage e DQuery u) else [])
      else (c1, [])
    else (c, [])
  end.

Fixpoint diassociate_all (e : env) (us : list N) (c : sctx) : sctx * list rpt :=
  match us with
  | [] => (c, [])
  | u :: r => let '(c1, r1) := diassociate e u c in
              let '(c2, r2) := diassociate_all e r c1 in (c2, r1 ++ r2)
  end.

(* --- PDR: node.go:97-238 (with the reference-count repair: see known_findings.txt) *)
Record pdr_op := mkPdrOp { po_id : option N; po_urrs : list N; po_has_urr_ie : bool; po_ueip : bool }.

Definition dedup (l : list N) : list N := fold_left (fun acc x => addN x acc) l [].

Definition incr_ref (u : N) (l : list (N * urrinfo)) : list (N * urrinfo) :=
  match alookup u l with
  | None => l
  | Some inf => aset u (mkUrr (ui_removed inf) (ui_seqn inf) (ui_durat inf) (ui_volum inf) (ui_event inf)
                              (ui_mnop inf) ((ui_ref inf + 1) mod 65536)) l
  end.

Definition pdr_id (o : pdr_op) : N := match po_id o with Some i => i | None => 0 end.

(* one reference less (never below zero): the bookkeeping half of diassociate, without the data-plane query *)
Definition decr_ref (u : N) (l : list (N * urrinfo)) : list (N * urrinfo) :=
  match alookup u l with
  | None => l
  | Some inf => if 0 <? ui_ref inf
                then aset u (mkUrr (ui_removed inf) (ui_seqn inf) (ui_durat inf) (ui_volum inf) (ui_event inf)
                                   (ui_mnop inf) (ui_ref inf - 1)) l
                else l
  end.

(* Create PDR for an id the session does not hold *)
Definition create_pdr_new (e : env) (o : pdr_op) (c : sctx) : sctx :=
  let us := dedup (po_urrs o) in
  let c1 := upd_s c (fun s => set_urrs (fold_left (fun l u => incr_ref u l) us (s_urrs s)) s) in
  let c2 := upd_s c1 (fun s => set_pdrs (aset (pdr_id o) us (s_pdrs s)) s) in
  fst (drv e c2 DCreate KPDR (pdr_id o)).

(* Create PDR for an id the session still holds (after fix "Create PDR for a held id replaces its associations"): the
   PDR's URR associations are REPLACED as Update PDR replaces them (references of newly named URRs up, of no longer
   named ones down, no data-plane query); if the data plane rejects the create, URR and PDR bookkeeping are put back *)
Definition create_pdr_held (e : env) (o : pdr_op) (old : list N) (c : sctx) : sctx :=
  let new := dedup (po_urrs o) in
  let added := filter (fun u => negb (memN u old)) new in
  let dropped := filter (fun u => negb (memN u new)) old in
  let c1 := upd_s c (fun s => set_urrs (fold_left (fun l u => decr_ref u l) dropped
                                          (fold_left (fun l u => incr_ref u l) added (s_urrs s))) s) in
  let c2 := upd_s c1 (fun s => set_pdrs (aset (pdr_id o) new (s_pdrs s)) s) in
  let '(c3, ok) := drv e c2 DCreate KPDR (pdr_id o) in
  if ok then c3
  else upd_s c3 (fun s => set_pdrs (s_pdrs (c_s c)) (set_urrs (s_urrs (c_s c)) s)).

Definition create_pdr (e : env) (o : pdr_op) (c : sctx) : sctx :=
  match alookup (pdr_id o) (s_pdrs (c_s c)) with
  | None => create_pdr_new e o c
  | Some old => create_pdr_held e o old c
  end.

Definition update_pdr (e : env) (o : pdr_op) (c : sctx) : sctx * list rpt :=
  match alookup (pdr_id o) (s_pdrs (c_s c)) with
  | None => (c, [])
  | Some old =>
    let '(c1, ok) := drv e c DUpdate KPDR (pdr_id o) in
    if negb ok then (c1, []) else
    if negb (po_has_urr_ie o) then (c1, []) else       (* no URR ID IE: associations unchanged *)
    let new := dedup (po_urrs o) in
    let added := filter (fun u => negb (memN u old)) new in
    let dropped := filter (fun u => negb (memN u new)) old in
    let c2 := upd_s c1 (fun s => set_urrs (fold_left (fun l u => incr_ref u l) added (s_urrs s)) s) in
    let '(c3, rs) := diassociate_all e dropped c2 in
    (upd_s c3 (fun s => set_pdrs (aset (pdr_id o) new (s_pdrs s)) s), rs)
  end.

Definition remove_pdr (e : env) (id : option N) (c : sctx) : sctx * list rpt :=
  match id with
  | None => (c, [])
  | Some i =>
    match alookup i (s_pdrs (c_s c)) with
    | None => (c, [])
    | Some rel =>
      let '(c1, ok) := drv e c DRemove KPDR i in
      if negb ok then (c1, []) else
      let '(c2, rs) := diassociate_all e rel c1 in
      (upd_s c2 (fun s => set_pdrs (adel i (s_pdrs s)) s), rs)
    end
  end.

(* --- request payload: rule operations grouped by category as go-pfcp groups them *)
Record ops := mkOps {
  cFAR : list (option N); cQER : list (option N); cURR : list urr_op; cBAR : list (option N); cPDR : list pdr_op;
  rFAR : list (option N); rQER : list (option N); rURR : list (option N); rBAR : list (option N); rPDR : list (option N);
  uFAR : list (option N); uQER : list (option N); uURR : list urr_op; uBAR : list (option N); uPDR : list pdr_op;
  qURR : list (option N) }.

Definition fold_ctx {A} (f : A -> sctx -> sctx) (l : list A) (c : sctx) : sctx := fold_left (fun c x => f x c) l c.

Fixpoint fold_rpt {A} (f : A -> sctx -> sctx * list rpt) (l : list A) (c : sctx) : sctx * list rpt :=
  match l with
  | [] => (c, [])
  | x :: r => let '(c1, r1) := f x c in let '(c2, r2) := fold_rpt f r c1 in (c2, r1 ++ r2)
  end.

(* one per-category loop of a handler, selected by the name T-gen extracted from session.go *)
Definition run_category (e : env) (o : ops) (name : String.string) (c : sctx) : option (sctx * list rpt) :=
  let nr c := Some (c, []) in
  if String.eqb name "CreateFAR:CreateFAR"%string then nr (fold_ctx (create_simple e KFAR) (cFAR o) c) else
  if String.eqb name "CreateQER:CreateQER"%string then nr (fold_ctx (create_simple e KQER) (cQER o) c) else
  if String.eqb name "CreateURR:CreateURR"%string then nr (fold_ctx (create_urr e) (cURR o) c) else
  if String.eqb name "CreateBAR:CreateBAR"%string then nr (fold_ctx (create_simple e KBAR) (cBAR o) c) else
  if String.eqb name "CreatePDR:CreatePDR"%string then nr (fold_ctx (create_pdr e) (cPDR o) c) else
  if String.eqb name "RemoveFAR:RemoveFAR"%string then nr (fold_ctx (remove_simple e KFAR) (rFAR o) c) else
  if String.eqb name "RemoveQER:RemoveQER"%string then nr (fold_ctx (remove_simple e KQER) (rQER o) c) else
  if String.eqb name "RemoveURR:RemoveURR"%string then Some (fold_rpt (remove_urr e) (rURR o) c) else
  if String.eqb name "RemoveBAR:RemoveBAR"%string then nr (fold_ctx (remove_simple e KBAR) (rBAR o) c) else
  if String.eqb name "RemovePDR:RemovePDR"%string then Some (fold_rpt (remove_pdr e) (rPDR o) c) else
  if String.eqb name "UpdateFAR:UpdateFAR"%string then nr (fold_ctx (update_simple e KFAR) (uFAR o) c) else
  if String.eqb name "UpdateQER:UpdateQER"%string then nr (fold_ctx (update_simple e KQER) (uQER o) c) else
  if String.eqb name "UpdateURR:UpdateURR"%string then Some (fold_rpt (update_urr e) (uURR o) c) else
  if String.eqb name "UpdateBAR:UpdateBAR"%string then nr (fold_ctx (update_simple e KBAR) (uBAR o) c) else
  if String.eqb name "UpdatePDR:UpdatePDR"%string then Some (fold_rpt (update_pdr e) (uPDR o) c) else
  if String.eqb name "QueryURR:QueryURR"%string then Some (fold_rpt (query_urr e) (qURR o) c) else
  None.

Fixpoint run_categories (e : env) (o : ops) (names : list String.string) (c : sctx) : option (sctx * list rpt) :=
  match names with
  | [] => Some (c, [])
  | n :: r =>
    match run_category e o n c with
    | None => None
    | Some (c1, r1) =>
      match run_categories e o r c1 with
      | None => None
      | Some (c2, r2) => Some (c2, r1 ++ r2)
      end
    end
  end.

(* Sess.Close, node.go:46-95: remove everything recorded, category order from T-gen *)
Definition close_category (e : env) (name : String.string) (c : sctx) : option (sctx * list rpt) :=
  let s := c_s c in
  if String.eqb name "FARIDs:RemoveFAR"%string then Some (fold_ctx (remove_simple e KFAR) (map Some (s_fars s)) c, []) else
  if String.eqb name "QERIDs:RemoveQER"%string then Some (fold_ctx (remove_simple e KQER) (map Some (s_qers s)) c, []) else
  if String.eqb name "URRIDs:RemoveURR"%string then Some (fold_rpt (remove_urr e) (map Some (map fst (s_urrs s))) c) else
  if String.eqb name "BARIDs:RemoveBAR"%string then Some (fold_ctx (remove_simple e KBAR) (map Some (s_bars s)) c, []) else
  if String.eqb name "PDRIDs:RemovePDR"%string then Some (fold_rpt (remove_pdr e) (map Some (map fst (s_pdrs s))) c) else
  None.

Fixpoint close_categories (e : env) (names : list String.string) (c : sctx) : option (sctx * list rpt) :=
  match names with
  | [] => Some (c, [])
  | n :: r =>
    match close_category e n c with
    | None => None
    | Some (c1, r1) =>
      match close_categories e r c1 with
      | None => None
      | Some (c2, r2) => Some (c2, r1 ++ r2)
      end
    end
  end.

Definition sess_close (e : env) (c : sctx) : option (sctx * list rpt) :=
  match close_categories e close_order c with
  | Some (c1, rs) => Some (upd_s c1 (set_q []), rs)
  | None => None
  end.

(* --- usage-report IE selection: report/report.go:75-145 (the three selectors are identical) *)
Definition mk_usage_ie (inf : urrinfo) (seqn : N) (r : rpt) : usage_ie :=
  let t := r_trig r in
  let no_times := flag_of USAR_TRIG_START t || flag_of USAR_TRIG_STOPT t || flag_of USAR_TRIG_MACAR t in
  let vf := N.lor (N.lor (r_vflags r) setflags_base) (if ui_mnop inf then setflags_mnop else 0) in
  let cnt := map (fun p => if N.testbit vf (fst p) then snd p else 0)
                 (combine [0; 1; 2; 3; 4; 5] (r_cnt r)) in
  mkUie (r_urr r) seqn (t mod 16777216)
        (if no_times then None else Some (r_start r, r_end r))
        (if ui_volum inf then Some (vf mod 256, cnt) else None)
        (if ui_durat inf then Some (r_dur r) else None).

(* emission loop shared by session.go:311-327, 375-393 and report.go:108-120.
   [extra] is or-ed into the trigger (TERMR for the deletion response); [drop_removed] = delete the URR
   bookkeeping once a report of a removed URR has been emitted (modification / deletion response only). *)
Fixpoint emit (extra : N) (drop_removed : bool) (urrs : list (N * urrinfo)) (rs : list rpt)
  : list (N * urrinfo) * list usage_ie :=
  match rs with
  | [] => (urrs, [])
  | r :: rest =>
    match alookup (r_urr r) urrs with
    | None => emit extra drop_removed urrs rest
    | Some inf =>
      let ie := mk_usage_ie inf (ui_seqn inf) (or_trig extra r) in
      let inf1 := mkUrr (ui_removed inf) ((ui_seqn inf + 1) mod 4294967296) (ui_durat inf) (ui_volum inf)
                        (ui_event inf) (ui_mnop inf) (ui_ref inf) in
      let urrs1 := if drop_removed && ui_removed inf then adel (r_urr r) urrs else aset (r_urr r) inf1 urrs in
      let '(urrs2, ies) := emit extra drop_removed urrs1 rest in
      (urrs2, ie :: ies)
    end
  end.

(* ------------------------------------------------------------------ the server *)

Record rnode := mkNode { n_id : N; n_addr : N; n_sess : list N }.

Record txent := mkTx { tx_pdu : pdu; tx_count : N; tx_rseid : N }.

Record world := mkWorld {
  w_slots : list (option sess);
  w_free : list N;
  w_heap : list rnode;                 (* RemoteNode objects, index = identity; never freed in the model *)
  w_rnodes : list (N * nat);           (* PfcpServer.rnodes: node id -> object *)
  w_rx : list (N * N * option pdu);    (* rxTrans: (peer, seq) -> cached response *)
  w_tx : list (N * N * txent);         (* txTrans: (peer, counter value) -> outstanding request *)
  w_txseq : N;
  w_maxretrans : N;
  w_dp : dplane }.

Definition init (txseq0 maxretrans : N) : world := mkWorld [] [] [] [] [] [] txseq0 maxretrans [].

Definition set_slots_free sl fr (w : world) : world :=
  mkWorld sl fr (w_heap w) (w_rnodes w) (w_rx w) (w_tx w) (w_txseq w) (w_maxretrans w) (w_dp w).
Definition set_heap h (w : world) : world :=
  mkWorld (w_slots w) (w_free w) h (w_rnodes w) (w_rx w) (w_tx w) (w_txseq w) (w_maxretrans w) (w_dp w).
Definition set_rnodes r (w : world) : world :=
  mkWorld (w_slots w) (w_free w) (w_heap w) r (w_rx w) (w_tx w) (w_txseq w) (w_maxretrans w) (w_dp w).
Definition set_rx r (w : world) : world :=
  mkWorld (w_slots w) (w_free w) (w_heap w) (w_rnodes w) r (w_tx w) (w_txseq w) (w_maxretrans w) (w_dp w).
Definition set_tx t q (w : world) : world :=
  mkWorld (w_slots w) (w_free w) (w_heap w) (w_rnodes w) (w_rx w) t q (w_maxretrans w) (w_dp w).
Definition set_dp d (w : world) : world :=
  mkWorld (w_slots w) (w_free w) (w_heap w) (w_rnodes w) (w_rx w) (w_tx w) (w_txseq w) (w_maxretrans w) d.

(* --- LocalNode: node.go:612-690 (with the repaired bounds checks: see known_findings.txt) *)

(* slice indexing with Go's run-time bounds check *)
Definition slot_get (sl : list (option sess)) (i : nat) : res (option sess) :=
  match nth_error sl i with
  | Some x => Ok x
  | None => Fault FIndexOutOfRange
  end.

Fixpoint set_nth {A} (n : nat) (x : A) (l : list A) : list A :=
  match l, n with
  | [], _ => []
  | _ :: r, O => x :: r
  | y :: r, S k => y :: set_nth k x r
  end.

Definition slot_set (sl : list (option sess)) (i : nat) (x : option sess) : res (list (option sess)) :=
  if (i <? length sl)%nat then Ok (set_nth i x sl) else Fault FIndexOutOfRange.

Inductive found (A : Type) := Found (a : A) | NotFound.
Arguments Found {A} a.
Arguments NotFound {A}.

(* LocalNode.Sess (repaired):  if lSeid == 0 -> not found;  if lSeid > uint64(len(n.sess)) -> not found;
   i := int(lSeid) - 1  (exact, because lSeid <= len <= MaxInt64);  n.sess[i] == nil -> not found *)
Definition lookup (sl : list (option sess)) (seid : N) : res (found sess) :=
  if seid =? 0 then Ok NotFound else
  if N.of_nat (length sl) <? seid then Ok NotFound else
  match slot_get sl (N.to_nat (seid - 1)) with
  | Fault f => Fault f
  | Ok None => Ok NotFound
  | Ok (Some s) => Ok (Found s)
  end.

(* The code as it stood at the pinned commit: i := int(lSeid) - 1 (two's complement), only i >= len
   checked.  Kept for the refutation example (a negative index is a run-time fault). *)
Definition to_int64 (x : N) : Z :=
  let z := Z.of_N (x mod 18446744073709551616) in
  if (z <? 9223372036854775808)%Z then z else (z - 18446744073709551616)%Z.

Definition lookup_legacy (sl : list (option sess)) (seid : N) : res (found sess) :=
  if seid =? 0 then Ok NotFound else
  let i := (to_int64 seid - 1)%Z in
  if (Z.of_nat (length sl) <=? i)%Z then Ok NotFound else
  if (i <? 0)%Z then Fault FIndexOutOfRange else
  match slot_get sl (Z.to_nat i) with
  | Fault f => Fault f
  | Ok None => Ok NotFound
  | Ok (Some s) => Ok (Found s)
  end.

(* LocalNode.RemoteSess: first slot (skipping released ones) whose control-plane SEID and node address match *)
Fixpoint remote_sess (heap : list rnode) (sl : list (option sess)) (rseid addr : N) : found sess :=
  match sl with
  | [] => NotFound
  | None :: r => remote_sess heap r rseid addr
  | Some s :: r =>
    if (s_rid s =? rseid) &&
       (match nth_error heap (s_node s) with Some n => n_addr n =? addr | None => false end)
    then Found s else remote_sess heap r rseid addr
  end.

Definition empty_sess (lid rid : N) (node : nat) : sess := mkSess lid rid node [] [] [] [] [] [].

(* LocalNode.NewSess: reuse the id freed last, else append *)
Definition new_sess (w : world) (rid : N) (node : nat) : res (world * sess) :=
  match rev (w_free w) with
  | last :: _ =>
    let s := empty_sess last rid node in
    match slot_set (w_slots w) (N.to_nat (last - 1)) (Some s) with
    | Fault f => Fault f
    | Ok sl => Ok (set_slots_free sl (removelast (w_free w)) w, s)
    end
  | [] =>
    let lid := N.of_nat (length (w_slots w)) + 1 in
    let s := empty_sess lid rid node in
    Ok (set_slots_free (w_slots w ++ [Some s]) (w_free w) w, s)
  end.

Definition node_upd (ref : nat) (f : rnode -> rnode) (h : list rnode) : list rnode :=
  match nth_error h ref with Some n => set_nth ref (f n) h | None => h end.

(* RemoteNode.DeleteSess + LocalNode.DeleteSess.  Returns the closed session (for the response) and
   the usage reports of Close. *)
Definition delete_sess (e : env) (w : world) (ref : nat) (lid : N)
  : res (world * option (list out * sess * list rpt)) :=
  match nth_error (w_heap w) ref with
  | None => Ok (w, None)
  | Some n =>
    if negb (memN lid (n_sess n)) then Ok (w, None) else
    let w1 := set_heap (node_upd ref (fun n => mkNode (n_id n) (n_addr n) (delN lid (n_sess n))) (w_heap w)) w in
    if lid =? 0 then Ok (w1, None) else
    if N.of_nat (length (w_slots w1)) <? lid then Ok (w1, None) else
    let i := N.to_nat (lid - 1) in
    match slot_get (w_slots w1) i with
    | Fault f => Fault f
    | Ok None => Ok (w1, None)
    | Ok (Some s) =>
      match sess_close e (mkCtx s (w_dp w1) []) with
      | None => Ok (w1, None)
      | Some (c, rs) =>
        match slot_set (w_slots w1) i None with
        | Fault f => Fault f
        | Ok sl => Ok (set_dp (c_dp c) (set_slots_free sl (w_free w1 ++ [lid]) w1), Some (c_out c, c_s c, rs))
        end
      end
    end
  end.

(* RemoteNode.Reset: delete every session of the node; [order] is the map-iteration oracle.  Sessions of the
   node the oracle does not mention are deleted afterwards in stored order, so every choice of [order] deletes
   the whole set. *)
Fixpoint reset_loop (e : env) (w : world) (ref : nat) (ids : list N) (acc : list out)
  : res (world * list out) :=
  match ids with
  | [] => Ok (w, acc)
  | lid :: r =>
    match delete_sess e w ref lid with
    | Fault f => Fault f
    | Ok (w1, None) => reset_loop e w1 ref r acc
    | Ok (w1, Some (o, _, _)) => reset_loop e w1 ref r (acc ++ o)
    end
  end.

Definition node_reset (e : env) (w : world) (ref : nat) (order : list N) : res (world * list out) :=
  match nth_error (w_heap w) ref with
  | None => Ok (w, [])
  | Some n =>
    let ids := filter (fun x => memN x (n_sess n)) (dedup order) ++ filter (fun x => negb (memN x order)) (n_sess n) in
    match reset_loop e w ref ids [] with
    | Fault f => Fault f
    | Ok (w1, o) => Ok (set_heap (node_upd ref (fun n => mkNode (n_id n) (n_addr n) []) (w_heap w1)) w1, o)
    end
  end.

(* --- messages and events *)
Inductive ie_val (A : Type) := IeAbsent | IeBad | IeVal (a : A).
Arguments IeAbsent {A}.
Arguments IeBad {A}.
Arguments IeVal {A} a.

Inductive msg :=
| MHeartbeat
| MAssocSetup (nid : ie_val N) (reset_order : list N)
| MEst (nid : ie_val N) (fseid : ie_val N) (o : ops)
| MMod (seid : N) (nid : ie_val N) (o : ops)
| MDel (seid : N)
| MOtherReq                       (* any other request type: transaction created, no handler *)
| MReportRsp (hdr : N)
| MOtherRsp.                      (* any other response type *)

Inductive report_item :=
| RDld (pdrid action : N) (p : pkt)
| RUsa (r : rpt).

Inductive event :=
| EvRecv (peer seq : N) (m : msg) (e : env)
| EvRecvAbort (peer seq : N) (m : msg) (e : env)
    (* a request whose handler PANICKED (an IE accessor of the dependency reading past a malformed IE) right after the
       operations listed in m had run; contained since fix 242a7e8: the dispatcher recovers, logs and drops the
       message - what the handler had done so far stays, nothing is emitted, nothing is answered *)
| EvReport (seid : N) (items : list report_item) (e : env)
| EvTimeoutTx (peer seq : N)
| EvTimeoutRx (peer seq : N)
| EvReportWF (seid : N) (items : list report_item) (e : env)
    (* a report served while every write on the PFCP socket FAILS (transient send failure): sendReqTo takes the counter,
       registers the transaction and arms its timer BEFORE it writes, and only logs the error of the write - so the
       state is that of EvReport and nothing is emitted *)
| EvRecvWF (peer seq : N) (m : msg) (e : env)
    (* a datagram received and handled while every write fails: RxTransaction.send stores the marshalled response
       before it writes, every handler calls sendRspTo last and only logs its error, a duplicate's re-send error skips
       nothing but the dispatch it would have skipped anyway - the state is that of EvRecv, nothing is emitted *)
| EvTimeoutTxWF (peer seq : N).
    (* an expiry whose retransmission fails in the socket: the retry is counted and the timer re-armed all the same *)

Definition key_eqb (a b : N * N) : bool := N.eqb (fst a) (fst b) && N.eqb (snd a) (snd b).

Section KeyMap.
  Context {V : Type}.
  Fixpoint klookup (k : N * N) (l : list (N * N * V)) : option V :=
    match l with [] => None | (k', v) :: r => if key_eqb k k' then Some v else klookup k r end.
  Fixpoint kset (k : N * N) (v : V) (l : list (N * N * V)) : list (N * N * V) :=
    match l with
    | [] => [(k, v)]
    | (k', v') :: r => if key_eqb k k' then (k, v) :: r else (k', v') :: kset k v r
    end.
  Definition kdel (k : N * N) (l : list (N * N * V)) : list (N * N * V) :=
    filter (fun p => negb (key_eqb k (fst p))) l.
End KeyMap.

Definition is_request (m : msg) : bool :=
  match m with MReportRsp _ | MOtherRsp => false | _ => true end.

Definition CauseAccepted : N := 1.
Definition CauseNoContext : N := 65.

(* sendRspTo: look the rx transaction up again, marshal, cache, send *)
Definition send_rsp (w : world) (peer seq : N) (p : pdu) : world * list out :=
  match klookup (peer, seq) (w_rx w) with
  | None => (w, [])
  | Some _ => (set_rx (kset (peer, seq) (Some p) (w_rx w)) w, [OSend peer p false])
  end.

(* sendReqTo: pfcp.go:273-283 (sequence counter kept within 24 bits: see known_findings.txt) *)
Definition pdu_with_seq (p : pdu) (q : N) : pdu :=
  match p with
  | PReportDLDR _ h i => PReportDLDR q h i
  | PReportUSAR _ h u => PReportUSAR q h u
  | x => x
  end.

Definition send_req (w : world) (dst rseid : N) (p : pdu) : world * list out :=
  let q := w_txseq w in
  let p' := pdu_with_seq p (q mod 16777216) in
  (set_tx (kset (dst, q) (mkTx p' 0 rseid) (w_tx w)) ((q + 1) mod 16777216) w, [OSend dst p' false]).

Definition put_slot (w : world) (s : sess) : res world :=
  match slot_set (w_slots w) (N.to_nat (s_lid s - 1)) (Some s) with
  | Fault f => Fault f
  | Ok sl => Ok (set_slots_free sl (w_free w) w)
  end.

Definition handle_assoc (w : world) (peer seq : N) (nid : ie_val N) (order : list N) (e : env)
  : res (world * list out) :=
  match nid with
  | IeAbsent | IeBad => Ok (w, [])
  | IeVal id =>
    let r := match alookup id (w_rnodes w) with
             | Some ref =>
               match node_reset e w ref order with
               | Fault f => Fault f
               | Ok (w1, o) => Ok (set_rnodes (adel id (w_rnodes w1)) w1, o)
               end
             | None => Ok (w, [])
             end in
    match r with
    | Fault f => Fault f
    | Ok (w1, o) =>
      let ref := length (w_heap w1) in
      let w2 := set_rnodes (aset id ref (w_rnodes w1)) (set_heap (w_heap w1 ++ [mkNode id peer []]) w1) in
      let '(w3, o3) := send_rsp w2 peer seq (PAssocRsp seq CauseAccepted) in
      Ok (w3, o ++ o3)
    end
  end.

Definition handle_est (w : world) (peer seq : N) (nid fseid : ie_val N) (o : ops) (e : env)
  : res (world * list out) :=
  match nid with
  | IeAbsent | IeBad => Ok (w, [])
  | IeVal id =>
    match alookup id (w_rnodes w) with
    | None => Ok (w, [])
    | Some ref =>
      match fseid with
      | IeAbsent | IeBad => Ok (w, [])
      | IeVal rid =>
        match new_sess w rid ref with
        | Fault f => Fault f
        | Ok (w1, s) =>
          let w2 := set_heap (node_upd ref (fun n => mkNode (n_id n) (n_addr n) (addN (s_lid s) (n_sess n))) (w_heap w1)) w1 in
          match run_categories e o est_order (mkCtx s (w_dp w2) []) with
          | None => Ok (w, [])
          | Some (c, _) =>
            match put_slot (set_dp (c_dp c) w2) (c_s c) with
            | Fault f => Fault f
            | Ok w3 =>
              let created := map pdr_id (filter po_ueip (cPDR o)) in
              let '(w4, o4) := send_rsp w3 peer seq (PEstRsp seq (s_rid s) CauseAccepted (s_lid s) created) in
              Ok (w4, c_out c ++ o4)
            end
          end
        end
      end
    end
  end.

(* PfcpServer.UpdateNodeID: delete(rnodes, n.ID); n.ID = newId; rnodes[newId] = n *)
Definition update_node_id (w : world) (ref : nat) (newid : N) : world :=
  match nth_error (w_heap w) ref with
  | None => w
  | Some n =>
    let w1 := set_rnodes (adel (n_id n) (w_rnodes w)) w in
    let w2 := set_heap (node_upd ref (fun n => mkNode newid (n_addr n) (n_sess n)) (w_heap w1)) w1 in
    set_rnodes (aset newid ref (w_rnodes w2)) w2
  end.

(* SMF-set takeover (session.go, Node ID IE in a Modification Request; after fix "takeover by a node that has its own
   association moves the session"): if the new id names ANOTHER node object the session is handed over to it (the old
   node keeps its id and its other sessions); otherwise the session's node object is re-keyed as before *)
Definition move_sess (w : world) (s : sess) (ref' : nat) : world * sess :=
  let s' := set_node ref' s in
  let h1 := node_upd (s_node s) (fun n => mkNode (n_id n) (n_addr n) (delN (s_lid s) (n_sess n))) (w_heap w) in
  let h2 := node_upd ref' (fun n => mkNode (n_id n) (n_addr n) (addN (s_lid s) (n_sess n))) h1 in
  (set_heap h2 (set_dp (w_dp w) (set_slots_free (set_nth (N.to_nat (s_lid s - 1)) (Some s') (w_slots w)) (w_free w) w)), s').

Definition takeover (w : world) (s : sess) (newid : N) : world * sess :=
  match alookup newid (w_rnodes w) with
  | Some ref' => if Nat.eqb ref' (s_node s) then (update_node_id w (s_node s) newid, s) else move_sess w s ref'
  | None => (update_node_id w (s_node s) newid, s)
  end.

Definition handle_mod (w : world) (peer seq seid : N) (nid : ie_val N) (o : ops) (e : env)
  : res (world * list out) :=
  match lookup (w_slots w) seid with
  | Fault f => Fault f
  | Ok NotFound =>
    let '(w1, o1) := send_rsp w peer seq (PModRsp seq 0 CauseNoContext []) in Ok (w1, o1)
  | Ok (Found s) =>
    match nid with
    | IeBad => Ok (w, [])
    | _ =>
      let '(w1, s1) := match nid with IeVal id => takeover w s id | _ => (w, s) end in
      match run_categories e o mod_order (mkCtx s1 (w_dp w1) []) with
      | None => Ok (w, [])
      | Some (c, rs) =>
        let '(urrs, ies) := emit 0 true (s_urrs (c_s c)) rs in
        match put_slot (set_dp (c_dp c) w1) (set_urrs urrs (c_s c)) with
        | Fault f => Fault f
        | Ok w2 =>
          let '(w3, o3) := send_rsp w2 peer seq (PModRsp seq (s_rid s) CauseAccepted ies) in
          Ok (w3, c_out c ++ o3)
        end
      end
    end
  end.

(* the two handlers that decode rule IEs, aborted after the operations of o (session.go: the session object is
   modified in place, so the partial state is the state; the usage reports collected so far are dropped) *)
Definition handle_est_abort (w : world) (nid fseid : ie_val N) (o : ops) (e : env) : res (world * list out) :=
  match nid with
  | IeAbsent | IeBad => Ok (w, [])
  | IeVal id =>
    match alookup id (w_rnodes w) with
    | None => Ok (w, [])
    | Some ref =>
      match fseid with
      | IeAbsent | IeBad => Ok (w, [])
      | IeVal rid =>
        match new_sess w rid ref with
        | Fault f => Fault f
        | Ok (w1, s) =>
          let w2 := set_heap (node_upd ref (fun n => mkNode (n_id n) (n_addr n) (addN (s_lid s) (n_sess n))) (w_heap w1)) w1 in
          match run_categories e o est_order (mkCtx s (w_dp w2) []) with
          | None => Ok (w, [])
          | Some (c, _) =>
            match put_slot (set_dp (c_dp c) w2) (c_s c) with
            | Fault f => Fault f
            | Ok w3 => Ok (w3, c_out c)
            end
          end
        end
      end
    end
  end.

Definition handle_mod_abort (w : world) (seid : N) (nid : ie_val N) (o : ops) (e : env) : res (world * list out) :=
  match lookup (w_slots w) seid with
  | Fault f => Fault f
  | Ok NotFound => Ok (w, [])
  | Ok (Found s) =>
    match nid with
    | IeBad => Ok (w, [])
    | _ =>
      let '(w1, s1) := match nid with IeVal id => takeover w s id | _ => (w, s) end in
      match run_categories e o mod_order (mkCtx s1 (w_dp w1) []) with
      | None => Ok (w, [])
      | Some (c, _) =>
        match put_slot (set_dp (c_dp c) w1) (c_s c) with
        | Fault f => Fault f
        | Ok w2 => Ok (w2, c_out c)
        end
      end
    end
  end.

Definition handle_del (w : world) (peer seq seid : N) (e : env) : res (world * list out) :=
  match lookup (w_slots w) seid with
  | Fault f => Fault f
  | Ok NotFound =>
    let '(w1, o1) := send_rsp w peer seq (PDelRsp seq 0 CauseNoContext []) in Ok (w1, o1)
  | Ok (Found s) =>
    match delete_sess e w (s_node s) seid with
    | Fault f => Fault f
    | Ok (w0, None) =>
      let '(w1, o1) := send_rsp w0 peer seq (PDelRsp seq (s_rid s) CauseAccepted []) in Ok (w1, o1)
    | Ok (w1, Some (o1, s1, rs)) =>
      let '(_, ies) := emit USAR_TRIG_TERMR true (s_urrs s1) rs in
      let '(w2, o2) := send_rsp w1 peer seq (PDelRsp seq (s_rid s) CauseAccepted ies) in
      Ok (w2, o1 ++ o2)
    end
  end.

Definition handle_report_rsp (w : world) (peer hdr : N) (t : txent) (e : env) : res (world * list out) :=
  if hdr =? 0 then
    match remote_sess (w_heap w) (w_slots w) (tx_rseid t) peer with
    | NotFound => Ok (w, [])
    | Found s =>
      match delete_sess e w (s_node s) (s_lid s) with
      | Fault f => Fault f
      | Ok (w1, None) => Ok (w1, [])
      | Ok (w1, Some (o1, _, _)) => Ok (w1, o1)
      end
    end
  else
    match lookup (w_slots w) hdr with
    | Fault f => Fault f
    | Ok _ => Ok (w, [])
    end.

(* the request branch of the loop body, pfcp.go:133-152 *)
Definition recv_request (w : world) (peer seq : N) (m : msg) (e : env) : res (world * list out) :=
  match klookup (peer, seq) (w_rx w) with
  | Some None => Ok (w, [])                                   (* duplicate, no answer cached: ignored *)
  | Some (Some p) => Ok (w, [OSend peer p true])              (* duplicate: cached answer re-sent *)
  | None =>
    let w0 := set_rx (kset (peer, seq) None (w_rx w)) w in
    match m with
    | MHeartbeat => let '(w1, o1) := send_rsp w0 peer seq (PHeartbeatRsp seq) in Ok (w1, o1)
    | MAssocSetup nid order => handle_assoc w0 peer seq nid order e
    | MEst nid fseid o => handle_est w0 peer seq nid fseid o e
    | MMod seid nid o => handle_mod w0 peer seq seid nid o e
    | MDel seid => handle_del w0 peer seq seid e
    | _ => Ok (w0, [])
    end
  end.

(* the same branch when the dispatched handler panics: the receive transaction exists (created before the dispatch) and
   never gets an answer, so retransmissions of the request are ignored until the entry expires *)
Definition recv_request_abort (w : world) (peer seq : N) (m : msg) (e : env) : res (world * list out) :=
  match klookup (peer, seq) (w_rx w) with
  | Some None => Ok (w, [])
  | Some (Some p) => Ok (w, [OSend peer p true])
  | None =>
    let w0 := set_rx (kset (peer, seq) None (w_rx w)) w in
    match m with
    | MEst nid fseid o => handle_est_abort w0 nid fseid o e
    | MMod seid nid o => handle_mod_abort w0 seid nid o e
    | _ => Ok (w0, [])
    end
  end.

(* the response branch, pfcp.go:153-166 *)
Definition recv_response (w : world) (peer seq : N) (m : msg) (e : env) : res (world * list out) :=
  match klookup (peer, seq) (w_tx w) with
  | None => Ok (w, [])
  | Some t =>
    let w1 := set_tx (kdel (peer, seq) (w_tx w)) (w_txseq w) w in
    match m with
    | MReportRsp hdr => handle_report_rsp w1 peer hdr t e
    | _ => Ok (w1, [])
    end
  end.

(* Sess.Push, node.go:495-510 *)
Definition push (pdrid : N) (p : pkt) (s : sess) : sess :=
  let q := match alookup pdrid (s_q s) with Some q => q | None => [] end in
  if N.of_nat (length q) <? BUFFQ_LEN then set_q (aset pdrid (q ++ [p]) (s_q s)) s
  else set_q (aset pdrid q (s_q s)) s.

(* ServeReport, report.go:15-58 *)
Fixpoint serve_items (w : world) (s : sess) (dst : N) (items : list report_item) (usars : list rpt)
  : world * sess * list out * option (list rpt) :=
  match items with
  | [] => (w, s, [], Some usars)
  | RUsa r :: rest => serve_items w s dst rest (usars ++ [r])
  | RDld pdrid action p :: rest =>
    let s1 := if flag_of APPLY_ACT_BUFF action && negb (match p with [] => true | _ => false end)
              then push pdrid p s else s in
    if negb (flag_of APPLY_ACT_NOCP action) then (w, s1, [], None)      (* 'return': the rest is skipped *)
    else
      let '(w1, o1) := send_req w dst (s_rid s1) (PReportDLDR 0 (s_rid s1) pdrid) in
      let '(w2, s2, o2, u) := serve_items w1 s1 dst rest usars in
      (w2, s2, o1 ++ o2, u)
  end.

Definition serve_report (w : world) (seid : N) (items : list report_item) : res (world * list out) :=
  match lookup (w_slots w) seid with
  | Fault f => Fault f
  | Ok NotFound => Ok (w, [])
  | Ok (Found s) =>
    match nth_error (w_heap w) (s_node s) with
    | None => Fault FNilDeref
    | Some n =>
      let dst := n_id n in
      let '(w1, s1, o1, u) := serve_items w s dst items [] in
      match u with
      | Some (r :: rs) =>
        let '(urrs, ies) := emit 0 false (s_urrs s1) (r :: rs) in
        let s2 := set_urrs urrs s1 in
        let '(w2, o2) := send_req w1 dst (s_rid s2) (PReportUSAR 0 (s_rid s2) ies) in
        match put_slot w2 s2 with Fault f => Fault f | Ok w3 => Ok (w3, o1 ++ o2) end
      | _ => match put_slot w1 s1 with Fault f => Fault f | Ok w3 => Ok (w3, o1) end
      end
    end
  end.

Definition timeout_tx (w : world) (peer seq : N) : world * list out :=
  match klookup (peer, seq) (w_tx w) with
  | None => (w, [])
  | Some t =>
    if tx_count t <? w_maxretrans w then
      (set_tx (kset (peer, seq) (mkTx (tx_pdu t) (tx_count t + 1) (tx_rseid t)) (w_tx w)) (w_txseq w) w,
       [OSend peer (tx_pdu t) true])
    else (set_tx (kdel (peer, seq) (w_tx w)) (w_txseq w) w, [])
  end.

Definition is_send (o : out) : bool := match o with OSend _ _ _ => true | ODrv _ _ _ _ _ => false end.
Definition drop_sends (l : list out) : list out := filter (fun o => negb (is_send o)) l.
Definition write_fails (r : res (world * list out)) : res (world * list out) :=
  match r with Ok (w', o) => Ok (w', drop_sends o) | Fault f => Fault f end.

Definition step (w : world) (ev : event) : res (world * list out) :=
  match ev with
  | EvRecv peer seq m e =>
    if is_request m then recv_request w peer seq m e else recv_response w peer seq m e
  | EvRecvAbort peer seq m e =>
    if is_request m then recv_request_abort w peer seq m e
    else match klookup (peer, seq) (w_tx w) with        (* tx.recv has retired the transaction before the handler ran *)
         | None => Ok (w, [])
         | Some _ => Ok (set_tx (kdel (peer, seq) (w_tx w)) (w_txseq w) w, [])
         end
  | EvReport seid items _ => serve_report w seid items
  | EvTimeoutTx peer seq => Ok (timeout_tx w peer seq)
  | EvTimeoutRx peer seq => Ok (set_rx (kdel (peer, seq) (w_rx w)) w, [])
  | EvReportWF seid items _ => write_fails (serve_report w seid items)
  | EvRecvWF peer seq m e =>
    write_fails (if is_request m then recv_request w peer seq m e else recv_response w peer seq m e)
  | EvTimeoutTxWF peer seq => write_fails (Ok (timeout_tx w peer seq))
  end.

(* a run stops at the first fault (the real process exits) *)
Fixpoint run (w : world) (evs : list event) : res (world * list (list out)) :=
  match evs with
  | [] => Ok (w, [])
  | ev :: r =>
    match step w ev with
    | Fault f => Fault f
    | Ok (w1, o) =>
      match run w1 r with
      | Fault f => Fault f
      | Ok (w2, os) => Ok (w2, o :: os)
      end
    end
  end.
