(* Timers of the PFCP transactions (internal/pfcp/transaction.go), with time.
   Time is an integer (any unit); T = the configured retransmission time-out (> 0), N = the configured number of
   retransmissions.  A timer armed at time t fires at t + duration; the event loop handles the expiry d >= 0 later
   (whatever it was busy with).  Where the code arms, re-arms and stops its timers, which kind of event an expiry
   posts and how the loop dispatches it is read from the source on every run (gen/TimerGen.v) and condensed into
   [source_tparams]; the functions below take these parameters, so that the code as it is (all true) and the
   variants that break the properties can both be stated. *)
From Coq Require Import List ZArith Bool String.
From GoUpf Require Import TimerGen.
Import ListNotations.
Local Open Scope string_scope.
Local Open Scope list_scope.
Local Open Scope Z_scope.

(* ---------------------------------------------------------------- parameters read off the generated tables *)

Definition lstr_eqb (a b : list string) : bool := if list_eq_dec string_dec a b then true else false.

Record tparams := mkTP {
  tp_tx_cb : bool;          (* the sender's timer posts (TX, its own id) after its retransTimeout (locals are printed canonically: recv, v1, v2, ..) *)
  tp_rx_cb : bool;          (* the receiver's timer posts (RX, rx.id) after rx.timeout *)
  tp_tx_arm_send : bool;    (* TxTransaction.send arms the timer, unconditionally (a marshalling error aside) *)
  tp_tx_rearm : bool;       (* the retry branch of handleTimeout re-arms it on every path *)
  tp_rx_arm_create : bool;  (* the receive transaction's timer is armed when the transaction is created *)
  tp_rx_single : bool;      (* ... and nowhere else *)
  tp_dispatch : bool;       (* the loop hands a TX expiry to txTrans/handleTimeout, anything else to rxTrans/handleTimeout *)
  tp_durations : bool;      (* retransTimeout = cfg.RetransTimeout; rx.timeout = RetransTimeout * (MaxRetrans+1) *)
  tp_branches : bool;       (* retry: count++, write, arm; give up: delete + notify; receive side: delete *)
  tp_stop_on_resp : bool    (* a response stops the timer *)
}.

Definition cb_is (recv dur kind id : string) (cb : string * string * string * string) : bool :=
  match cb with (r, d, k, i) => String.eqb r recv && String.eqb d dur && String.eqb k kind && String.eqb i id end.

Definition cb_of (recv : string) : list (string * string * string * string) :=
  filter (fun cb => match cb with (r, _, _, _) => String.eqb r recv end) timer_callbacks.

Definition arm_is (fn : string) (conds : list string) (arm : string * list string * list string) : bool :=
  match arm with (f, c, _) => String.eqb f fn && lstr_eqb c conds end.

Definition arm_skips (fn : string) : list (list string) :=
  flat_map (fun arm => match arm with (f, _, s) => if String.eqb f fn then [s] else [] end) timer_arms.

Definition arms_of_prefix (pre : string) : list string :=
  flat_map (fun arm => match arm with (f, _, _) => if String.prefix pre f then [f] else [] end) timer_arms.

Definition source_tparams : tparams :=
  mkTP (match cb_of "TxTransaction" with [cb] => cb_is "TxTransaction" "recv.retransTimeout" "TX" "recv.id" cb | _ => false end)
       (match cb_of "RxTransaction" with [cb] => cb_is "RxTransaction" "recv.timeout" "RX" "recv.id" cb | _ => false end)
       (existsb (arm_is "TxTransaction.send" []) timer_arms
        && forallb (forallb (String.eqb "v3 := v1.MarshalTo(v2)")) (arm_skips "TxTransaction.send"))
       (existsb (arm_is "TxTransaction.handleTimeout" [tx_retry_test]) timer_arms
        && forallb (fun s => lstr_eqb s []) (arm_skips "TxTransaction.handleTimeout")
        && lstr_eqb (arms_of_prefix "TxTransaction.") ["TxTransaction.send"; "TxTransaction.handleTimeout"])
       (existsb (arm_is "NewRxTransaction" []) timer_arms && forallb (fun s => lstr_eqb s []) (arm_skips "NewRxTransaction"))
       (lstr_eqb (arms_of_prefix "RxTransaction.") [] && lstr_eqb (arms_of_prefix "NewRxTransaction") ["NewRxTransaction"])
       (match timeout_dispatch with
        | [(c1, t1, m1); (c2, t2, m2)] =>
          String.eqb c1 "v1.TrType == TX" && String.eqb t1 "recv.txTrans" && String.eqb m1 "v2.handleTimeout"
          && String.eqb c2 "not (v1.TrType == TX)" && String.eqb t2 "recv.rxTrans" && String.eqb m2 "v4.handleTimeout"
        | _ => false end)
       (String.eqb tx_timeout_expr "v1.cfg.Pfcp.RetransTimeout" && String.eqb tx_maxretrans_expr "v1.cfg.Pfcp.MaxRetrans"
        && String.eqb rx_timeout_expr "v1.cfg.Pfcp.RetransTimeout * time.Duration(v1.cfg.Pfcp.MaxRetrans+1)")
       (String.eqb tx_retry_test "recv.retransCount < recv.maxRetrans"
        && lstr_eqb tx_retry_branch ["recv.retransCount++"; "_, v1 := recv.server.conn.WriteTo(recv.msgBuf, recv.raddr)"; "recv.timer = recv.startTimer()"]
        && lstr_eqb tx_giveup_branch ["delete(recv.server.txTrans, recv.id)"; "v2 := recv.server.txtoDispacher(recv.req, recv.raddr)"]
        && lstr_eqb rx_timeout_body ["delete(recv.server.rxTrans, recv.id)"])
       (lstr_eqb timer_stops ["TxTransaction.recv"]).

Definition tp_ok : tparams := mkTP true true true true true true true true true true.

(* ---------------------------------------------------------------- the sender's side (C09) *)

Inductive act := Retrans (t : Z) | Abandon (t : Z).
Definition act_time (a : act) : Z := match a with Retrans t | Abandon t => t end.
Definition is_retrans (a : act) : bool := match a with Retrans _ => true | Abandon _ => false end.

(* an outstanding request: retransmissions so far and when its timer is due; stalled = outstanding without a timer *)
Inductive txs := TxWait (k : nat) (due : Z) | TxStalled (k : nat) | TxGone.

Definition tx_start (p : tparams) (T t0 : Z) : txs := if tp_tx_arm_send p then TxWait 0 (t0 + T) else TxStalled 0.

(* the loop handles the expiry d after it was due *)
Definition tx_fire (p : tparams) (T : Z) (N : nat) (s : txs) (d : Z) : txs * list act :=
  match s with
  | TxWait k due =>
    let t := due + d in
    if Nat.ltb k N then ((if tp_tx_rearm p then TxWait (S k) (t + T) else TxStalled (S k)), [Retrans t])
    else (TxGone, [Abandon t])
  | _ => (s, [])
  end.

(* a matching response: the timer is stopped, the request retired; an expiry already under way finds nothing *)
Definition tx_resp (s : txs) : txs := TxGone.

Fixpoint tx_run (p : tparams) (T : Z) (N : nat) (s : txs) (ds : list Z) : txs * list act :=
  match ds with
  | [] => (s, [])
  | d :: r => let '(s1, a1) := tx_fire p T N s d in let '(s2, a2) := tx_run p T N s1 r in (s2, a1 ++ a2)
  end.

(* times that are at least T apart, the first not before lo *)
Fixpoint spaced (T lo : Z) (l : list Z) : Prop :=
  match l with [] => True | t :: r => lo <= t /\ spaced T (t + T) r end.
(* ... and at most delta late each *)
Fixpoint punctual (T delta lo : Z) (l : list Z) : Prop :=
  match l with [] => True | t :: r => t <= lo + delta /\ punctual T delta (t + T) r end.

(* ---------------------------------------------------------------- the receiver's side (C06) *)

(* a handled request: when its retention timer is due (None = no timer armed) and whether a response is stored *)
Inductive rxs := RxHeld (due : option Z) (cached : bool) | RxGone.
Inductive rxev := RxRespond (t : Z) | RxDup (t : Z) | RxFire.
Inductive rxact := ReAnswer (t : Z) | Ignore (t : Z).

(* MaxRetrans is a uint8 and the sum is taken in uint8 *)
Definition rx_window (T : Z) (N : nat) : Z := T * Z.of_nat ((N + 1) mod 256).

Definition rx_create (p : tparams) (T : Z) (N : nat) (t0 : Z) : rxs :=
  RxHeld (if tp_rx_arm_create p then Some (t0 + rx_window T N) else None) false.

Definition rx_step (p : tparams) (T : Z) (N : nat) (s : rxs) (ev : rxev) : rxs * list rxact :=
  match s, ev with
  | RxHeld due c, RxRespond t =>
    (RxHeld (if tp_rx_arm_create p then due else Some (t + rx_window T N)) true, [])   (* variant: armed when answered *)
  | RxHeld _ c, RxDup t => (s, [if c then ReAnswer t else Ignore t])
  | RxHeld (Some _) _, RxFire => (RxGone, [])
  | _, _ => (s, [])
  end.

Fixpoint rx_run (p : tparams) (T : Z) (N : nat) (s : rxs) (evs : list rxev) : rxs :=
  match evs with [] => s | e :: r => rx_run p T N (fst (rx_step p T N s e)) r end.

Definition not_fire (e : rxev) : bool := match e with RxFire => false | _ => true end.

(* ---------------------------------------------------------------- dispatch of an expiry (C06: TX and RX keys coincide) *)

Definition akey := string.
Fixpoint adel_s {V} (k : akey) (l : list (akey * V)) : list (akey * V) :=
  match l with [] => [] | (a, v) :: r => if String.eqb a k then adel_s k r else (a, v) :: adel_s k r end.

(* the kind an expiry of the SENDER's timer is posted with, and what the loop then does to the two tables: for a TX
   event the sender's entry is handled (here: only whether the receive table changes matters), for an RX event the
   receive entry of that key is deleted *)
Definition tx_expiry_rx_table {V} (p : tparams) (key : akey) (rxm : list (akey * V)) : list (akey * V) :=
  let posted_as_tx := tp_tx_cb p in
  if posted_as_tx && tp_dispatch p then rxm else adel_s key rxm.
