(* Abstract view of the grouped IEs Create/Update QER, Create/Update URR, Create/Update BAR: for each child IE
   the value go-pfcp's accessor - the one the driver calls - returns.  Data only (see PfcpIe.v). *)
From Coq Require Import List NArith Bool.
Import ListNotations.
Local Open Scope N_scope.

Inductive qie : Type :=
| QQerId (v : N)                      (* QERID() uint32 *)
| QCorrId (v : N)                     (* QERCorrelationID() uint32 *)
| QGate (v : N)                       (* GateStatus() uint8: the whole octet (UL gate bits 3-4, DL gate bits 1-2) *)
| QMbr (ul dl : N)                    (* MBRUL(), MBRDL(): 40-bit values as uint64 *)
| QGbr (ul dl : N)                    (* GBRUL(), GBRDL() *)
| QQfi (v : N) | QRqi (v : N)         (* uint8 *)
| QPpi (v : N)                        (* PagingPolicyIndicator(): octet & 7 *)
| QUrrId (v : N)                      (* URRID() uint32 *)
| QMethod (v : N)                     (* MeasurementMethod() uint8 *)
| QTriggers (b : list N)              (* ReportingTriggers(): payload octets, at least two *)
| QPeriod (ns : N)                    (* MeasurementPeriod(): time.Duration = seconds * 10^9 (never negative) *)
| QInfo (v : N)                       (* MeasurementInformation() uint8 *)
| QVolThr (flags tot ul dl : N)       (* VolumeThreshold(): Flags octet, TotalVolume, UplinkVolume, DownlinkVolume (0 when absent) *)
| QVolQuota (flags tot ul dl : N)     (* VolumeQuota() *)
| QBarId (v : N)                      (* BARID() uint8 *)
| QDelay (ns : N)                     (* DownlinkDataNotificationDelay(): time.Duration = octet * 50 ms in ns *)
| QCount (v : N)                      (* SuggestedBufferingPacketsCount() uint8 *)
| QBad (ty : N)                       (* an IE of PFCP type ty whose accessor returns an error *)
| QOther (ty : N).                    (* an IE type without a case in the driver's switch *)

Definition T3_GateStatus := 25. Definition T3_MBR := 26. Definition T3_GBR := 27. Definition T3_QERCorrelationID := 28.
Definition T3_VolumeThreshold := 31. Definition T3_ReportingTriggers := 37. Definition T3_DLDNDelay := 46.
Definition T3_MeasurementMethod := 62. Definition T3_MeasurementPeriod := 64. Definition T3_VolumeQuota := 73.
Definition T3_URRID := 81. Definition T3_BARID := 88. Definition T3_MeasurementInformation := 100.
Definition T3_QERID := 109. Definition T3_RQI := 123. Definition T3_QFI := 124.
Definition T3_SuggestedBufferingPacketsCount := 140. Definition T3_PagingPolicyIndicator := 158.
