(* C13, release path: model of Gtp5g.UpdateFAR / applyAction / WritePacket (gtp5g.go, after fix 6f99407) together
   with the queue side of ServeReport, for ONE session.  The data plane's view (what GET_FAR / GET_PDR / GET_QER
   answer) is part of the state.  Definitions only. *)
From Coq Require Import List NArith Bool.
From GoUpf Require Import Bytes FlagsGen ConstsGen GtpuGen Gtpu.
Import ListNotations.
Local Open Scope N_scope.

Definition pkt := list N.
Record ohc := mkOhc { oh_teid : N; oh_peer : N; oh_port : N }.
Record kfar := mkFar { kf_action : N; kf_ohc : option ohc }.

Record rstate := mkR {
  r_fars : list (N * kfar);
  r_pdrs : list (N * (N * list N));     (* PDR id -> (FAR id, QER ids) *)
  r_qers : list (N * N);                (* QER id -> QFI *)
  r_q : list (N * list pkt);            (* the session's packet queues, PDR id -> FIFO *)
  r_alive : bool }.

Definition r_init : rstate := mkR [] [] [] [] false.

Fixpoint alook {V} (k : N) (l : list (N * V)) : option V :=
  match l with [] => None | (k', v) :: r => if N.eqb k k' then Some v else alook k r end.
Fixpoint aput {V} (k : N) (v : V) (l : list (N * V)) : list (N * V) :=
  match l with
  | [] => [(k, v)]
  | (k', v') :: r => if N.eqb k k' then (k, v) :: r else (k', v') :: aput k v r
  end.
Definition arem {V} (k : N) (l : list (N * V)) : list (N * V) := filter (fun p => negb (N.eqb k (fst p))) l.

(* insertion keeping the keys ascending: the simulated kernel lists RELATED_TO_PDR in ascending PDR id order *)
Fixpoint ains {V} (k : N) (v : V) (l : list (N * V)) : list (N * V) :=
  match l with
  | [] => [(k, v)]
  | (k', v') :: r => if N.eqb k k' then (k, v) :: r else if N.ltb k k' then (k, v) :: (k', v') :: r else (k', v') :: ains k v r
  end.

Definition related_pdrs (s : rstate) (far : N) : list N :=
  map fst (filter (fun p => N.eqb (fst (snd p)) far) (r_pdrs s)).

(* first QER of the PDR whose QFI is not 0 (gtp5g.go applyAction) *)
Fixpoint first_qfi (s : rstate) (qs : list N) : option N :=
  match qs with
  | [] => None
  | q :: r => match alook q (r_qers s) with
              | Some qfi => if qfi =? 0 then first_qfi s r else Some qfi
              | None => first_qfi s r
              end
  end.

Inductive emission := Emit (peer port : N) (bytes : list N).

(* WritePacket for every queued packet of one PDR, in queue order; packets are popped whether or not the write succeeds *)
Definition release_pdr (s : rstate) (f : kfar) (pdr : N) : list emission :=
  match alook pdr (r_pdrs s) with
  | None => []
  | Some (_, qs) =>
    let qfi := first_qfi s qs in
    match kf_ohc f with
    | None => []
    | Some h => map (fun p => Emit (oh_peer h) (oh_port h) (encode (write_packet_msg (oh_teid h) qfi p)))
                    (match alook pdr (r_q s) with Some q => q | None => [] end)
    end
  end.

Definition empty_queue (pdr : N) (q : list (N * list pkt)) : list (N * list pkt) :=
  match alook pdr q with Some _ => aput pdr [] q | None => q end.

(* a PDR the data plane does not know is skipped by the FORW branch (GetPDROID error => continue): its queue stays *)
Definition drained_forw (s : rstate) (pdrs : list N) : list (N * list pkt) :=
  fold_left (fun q p => match alook p (r_pdrs s) with Some _ => empty_queue p q | None => q end) pdrs (r_q s).
Definition drained_drop (s : rstate) (pdrs : list N) : list (N * list pkt) :=
  fold_left (fun q p => empty_queue p q) pdrs (r_q s).

Record far_upd := mkFarUpd { fu_id : N; fu_action : option N; fu_ohc : option ohc }.

(* Gtp5g.UpdateFAR: (state, emitted packets); an update of an unknown FAR fails and does nothing *)
Definition update_far (s : rstate) (u : far_upd) : rstate * list emission :=
  match alook (fu_id u) (r_fars s) with
  | None => (s, [])
  | Some old =>
    let f' := mkFar (match fu_action u with Some a => a | None => kf_action old end)
                    (match fu_ohc u with Some h => Some h | None => kf_ohc old end) in
    let s1 := mkR (aput (fu_id u) f' (r_fars s)) (r_pdrs s) (r_qers s) (r_q s) (r_alive s) in
    match fu_action u with
    | None => (s1, [])
    | Some a =>
      if negb (flag_of APPLY_ACT_BUFF (kf_action old)) then (s1, []) else
      let pdrs := related_pdrs s1 (fu_id u) in
      if flag_of APPLY_ACT_DROP a then
        (mkR (r_fars s1) (r_pdrs s1) (r_qers s1) (drained_drop s1 pdrs) (r_alive s1), [])
      else if flag_of APPLY_ACT_FORW a then
        (mkR (r_fars s1) (r_pdrs s1) (r_qers s1) (drained_forw s1 pdrs) (r_alive s1),
         flat_map (release_pdr s1 f') pdrs)
      else (s1, [])
    end
  end.

(* Sess.Push with the capacity from T-gen; ServeReport's conditions *)
Definition buffer_in (s : rstate) (pdr action : N) (p : pkt) : rstate * list N (* DLDR for PDR ids *) :=
  if negb (r_alive s) then (s, []) else
  let q := match alook pdr (r_q s) with Some q => q | None => [] end in
  let push := flag_of APPLY_ACT_BUFF action && negb (match p with [] => true | _ => false end) in
  let q' := if push then (if N.of_nat (length q) <? BUFFQ_LEN then q ++ [p] else q) else q in
  let s1 := if push then mkR (r_fars s) (r_pdrs s) (r_qers s) (aput pdr q' (r_q s)) (r_alive s) else s in
  (s1, if flag_of APPLY_ACT_NOCP action then [pdr] else []).

Inductive rstep :=
| REst (fars : list (N * kfar)) (qers : list (N * N)) (pdrs : list (N * (N * list N)))
| RMod (cfars : list (N * kfar)) (cqers : list (N * N)) (cpdrs : list (N * (N * list N))) (rpdrs : list N) (ufars : list far_upd)
| RDel
| RBuffer (pdr action : N) (p : pkt).

Definition add_all {V} (l : list (N * V)) (m : list (N * V)) (ins : N -> V -> list (N * V) -> list (N * V)) :=
  fold_left (fun acc kv => match alook (fst kv) acc with Some _ => acc | None => ins (fst kv) (snd kv) acc end) l m.

Fixpoint update_fars (s : rstate) (us : list far_upd) : rstate * list emission :=
  match us with
  | [] => (s, [])
  | u :: r => let '(s1, e1) := update_far s u in let '(s2, e2) := update_fars s1 r in (s2, e1 ++ e2)
  end.

Definition rstep_run (s : rstate) (st : rstep) : rstate * list emission * list N :=
  match st with
  | REst fars qers pdrs =>
    if r_alive s then (s, [], []) else
    (mkR (add_all fars [] aput) (add_all pdrs [] ains) (add_all qers [] aput) [] true, [], [])
  | RMod cf cq cp rp uf =>
    if negb (r_alive s) then (s, [], []) else
    let s1 := mkR (add_all cf (r_fars s) aput) (add_all cp (r_pdrs s) ains) (add_all cq (r_qers s) aput) (r_q s) true in
    let s2 := mkR (r_fars s1) (fold_left (fun m p => arem p m) rp (r_pdrs s1)) (r_qers s1) (r_q s1) true in
    let '(s3, e) := update_fars s2 uf in (s3, e, [])
  | RDel => (r_init, [], [])
  | RBuffer pdr action p => let '(s1, d) := buffer_in s pdr action p in (s1, [], d)
  end.
