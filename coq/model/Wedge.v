(* C18: the two bounded queues between the PFCP event loop and the periodic-report server.
   Loop L: within one turn (one request) it issues blocking sends to evtCh (one per URR create / remove,
   gtp5g.go:1201,1332 -> perio/server.go:227-241) and drains srCh only between turns (pfcp.go:114-119).
   Periodic server P: within one tick it issues blocking sends to srCh (one per session, perio/server.go:203-215
   -> pfcp.go NotifySessReport) and takes the next event from evtCh only after finishing the tick.
   Capacities come from T-gen (ConstsGen).  Definitions only. *)
From Coq Require Import List NArith Bool.
From GoUpf Require Import ConstsGen.
Import ListNotations.
Local Open Scope N_scope.

Record wstate := mkW {
  evt : N;        (* events queued in evtCh (ticks among them: [ticks]) *)
  ticks : N;      (* queued tick events, each of which will report [tick_sessions] sessions *)
  sr : N;         (* session reports queued in srCh *)
  l_pending : N;  (* sends to evtCh still to do in the loop's current turn *)
  p_pending : N   (* sends to srCh still to do in the periodic server's current tick *) }.

(* the capacity the event channel had before it became an unbounded queue (fix "periodic server: unbounded event queue"):
   this file is kept as the model of the OLD code, in which the wedge below is reachable *)
Definition cap_evt : N := 512.
Definition cap_sr : N := REPORT_CHANNEL_LEN.

Inductive wact :=
| LSend            (* loop: evtCh <- add/del event *)
| LStartTurn (k : N)   (* loop finished a turn and starts a request that touches k URRs *)
| LDrain           (* loop between turns: takes one session report from srCh and serves it *)
| PSend            (* periodic server: srCh <- report *)
| PTakeEvent       (* periodic server between events: takes an add/del event *)
| PTakeTick (m : N)    (* ... takes a tick that yields reports for m sessions *)
| TTick.           (* a ticker goroutine: evtCh <- tick *)

Definition wstep (w : wstate) (a : wact) : option wstate :=
  match a with
  | LSend => if (0 <? l_pending w) && (evt w <? cap_evt)
             then Some (mkW (evt w + 1) (ticks w) (sr w) (l_pending w - 1) (p_pending w)) else None
  | LStartTurn k => if l_pending w =? 0 then Some (mkW (evt w) (ticks w) (sr w) k (p_pending w)) else None
  | LDrain => if (l_pending w =? 0) && (0 <? sr w)
              then Some (mkW (evt w) (ticks w) (sr w - 1) 0 (p_pending w)) else None
  | PSend => if (0 <? p_pending w) && (sr w <? cap_sr)
             then Some (mkW (evt w) (ticks w) (sr w + 1) (l_pending w) (p_pending w - 1)) else None
  | PTakeEvent => if (p_pending w =? 0) && (ticks w <? evt w)
                  then Some (mkW (evt w - 1) (ticks w) (sr w) (l_pending w) 0) else None
  | PTakeTick m => if (p_pending w =? 0) && (0 <? ticks w) && (ticks w <=? evt w)
                   then Some (mkW (evt w - 1) (ticks w - 1) (sr w) (l_pending w) m) else None
  | TTick => if evt w <? cap_evt then Some (mkW (evt w + 1) (ticks w + 1) (sr w) (l_pending w) (p_pending w)) else None
  end.

(* both servers are stuck inside their critical sections: neither can complete its send, and neither reaches
   the point where it would drain the other's queue *)
Definition wedged (w : wstate) : bool :=
  (0 <? l_pending w) && (evt w =? cap_evt) && (0 <? p_pending w) && (sr w =? cap_sr).

(* the actions of the two servers themselves (a ticker cannot help: it only adds to evtCh) *)
Definition server_enabled (w : wstate) : bool :=
  match wstep w LSend, wstep w LDrain, wstep w PSend, wstep w PTakeEvent with
  | None, None, None, None =>
    negb ((l_pending w =? 0)) && negb ((p_pending w =? 0) && (0 <? ticks w) && (ticks w <=? evt w))
    && false
  | _, _, _, _ => true
  end.

Fixpoint wrun (w : wstate) (l : list wact) : wstate :=
  match l with
  | [] => w
  | a :: r => match wstep w a with Some w' => wrun w' r | None => wrun w r end
  end.

Definition w_init : wstate := mkW 0 0 0 0 0.
