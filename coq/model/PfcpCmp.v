(* Observation types of the correspondence check for the PFCP model, the projection of the model
   state that is compared with the implementation's state dump, and the comparison functions.
   Map-valued fields are compared up to permutation (Go's iteration order is free). *)
From Coq Require Import String List NArith ZArith Bool.
From GoUpf Require Import Bytes FlagsGen ConstsGen HandlerGen Pfcp.
Import ListNotations.
Local Open Scope N_scope.

Section Perm.
  Context {A : Type} (eqb : A -> A -> bool).
  Fixpoint remove1 (x : A) (l : list A) : option (list A) :=
    match l with
    | [] => None
    | y :: r => if eqb x y then Some r else option_map (cons y) (remove1 x r)
    end.
  Fixpoint perm_eqb (a b : list A) : bool :=
    match a with
    | [] => match b with [] => true | _ => false end
    | x :: r => match remove1 x b with Some b' => perm_eqb r b' | None => false end
    end.
  Fixpoint list_eqb (a b : list A) : bool :=
    match a, b with
    | [], [] => true
    | x :: r, y :: s => eqb x y && list_eqb r s
    | _, _ => false
    end.
End Perm.

Definition opt_eqb {A} (eqb : A -> A -> bool) (a b : option A) : bool :=
  match a, b with None, None => true | Some x, Some y => eqb x y | _, _ => false end.
Definition pair_eqb {A B} (ea : A -> A -> bool) (eb : B -> B -> bool) (a b : A * B) : bool :=
  ea (fst a) (fst b) && eb (snd a) (snd b).

Definition uie_eqb (a b : usage_ie) : bool :=
  N.eqb (ur_urr a) (ur_urr b) && N.eqb (ur_seqn a) (ur_seqn b) && N.eqb (ur_trig a) (ur_trig b)
  && opt_eqb (pair_eqb N.eqb N.eqb) (ur_times a) (ur_times b)
  && opt_eqb (pair_eqb N.eqb (list_eqb N.eqb)) (ur_vol a) (ur_vol b)
  && opt_eqb N.eqb (ur_dur a) (ur_dur b).

Definition pdu_eqb (a b : pdu) : bool :=
  match a, b with
  | PHeartbeatRsp s, PHeartbeatRsp s' => N.eqb s s'
  | PAssocRsp s c, PAssocRsp s' c' => N.eqb s s' && N.eqb c c'
  | PEstRsp s h c f cr, PEstRsp s' h' c' f' cr' =>
    N.eqb s s' && N.eqb h h' && N.eqb c c' && N.eqb f f' && list_eqb N.eqb cr cr'
  | PModRsp s h c u, PModRsp s' h' c' u' => N.eqb s s' && N.eqb h h' && N.eqb c c' && perm_eqb uie_eqb u u'
  | PDelRsp s h c u, PDelRsp s' h' c' u' => N.eqb s s' && N.eqb h h' && N.eqb c c' && perm_eqb uie_eqb u u'
  | PReportDLDR s h p, PReportDLDR s' h' p' => N.eqb s s' && N.eqb h h' && N.eqb p p'
  | PReportUSAR s h u, PReportUSAR s' h' u' => N.eqb s s' && N.eqb h h' && perm_eqb uie_eqb u u'
  | _, _ => false
  end.

(* ---------------------------------------------------------------- state dump *)

Record sdump := mkSd {
  sd_lid : N; sd_rid : N; sd_node : N;
  sd_pdrs : list (N * list N);
  sd_fars : list N; sd_qers : list N; sd_bars : list N;
  sd_urrs : list (N * (bool * N * N * (bool * bool * bool * bool)));   (* removed, seqn, ref, durat volum event mnop *)
  sd_q : list (N * list pkt) }.

Record dump := mkDump {
  d_slots : list (option sdump);
  d_free : list N;
  d_nodes : list (N * (N * N * list N));    (* object -> (node id, address, session set) for reachable objects *)
  d_rnodes : list (N * N);
  d_rx : list (N * N * bool);
  d_tx : list (N * N * N);
  d_txseq : N;
  d_dp : list (N * N * N) }.

Definition kind_idx (k : kind) : N :=
  match k with KPDR => 0 | KFAR => 1 | KQER => 2 | KURR => 3 | KBAR => 4 end.

Definition sdump_of (s : sess) : sdump :=
  mkSd (s_lid s) (s_rid s) (N.of_nat (s_node s)) (s_pdrs s) (s_fars s) (s_qers s) (s_bars s)
       (map (fun p => (fst p, (ui_removed (snd p), ui_seqn (snd p), ui_ref (snd p),
                               (ui_durat (snd p), ui_volum (snd p), ui_event (snd p), ui_mnop (snd p))))) (s_urrs s))
       (s_q s).

Definition reachable_refs (w : world) : list N :=
  dedup (map (fun p => N.of_nat (snd p)) (w_rnodes w)
         ++ flat_map (fun o => match o with Some s => [N.of_nat (s_node s)] | None => [] end) (w_slots w)).

Definition dump_of (w : world) : dump :=
  mkDump (map (option_map sdump_of) (w_slots w)) (w_free w)
         (flat_map (fun r => match nth_error (w_heap w) (N.to_nat r) with
                             | Some n => [(r, (n_id n, n_addr n, n_sess n))] | None => [] end) (reachable_refs w))
         (map (fun p => (fst p, N.of_nat (snd p))) (w_rnodes w))
         (map (fun p => (fst (fst p), snd (fst p), match snd p with Some _ => true | None => false end)) (w_rx w))
         (map (fun p => (fst (fst p), snd (fst p), tx_count (snd p))) (w_tx w))
         (w_txseq w)
         (map (fun r => match r with (s, k, i) => (s, kind_idx k, i) end) (w_dp w)).

Definition nlist_perm := perm_eqb N.eqb.
Definition triple_eqb (a b : N * N * N) : bool :=
  N.eqb (fst (fst a)) (fst (fst b)) && N.eqb (snd (fst a)) (snd (fst b)) && N.eqb (snd a) (snd b).

Definition urrd_eqb (a b : N * (bool * N * N * (bool * bool * bool * bool))) : bool :=
  match a, b with
  | (i, (r, q, f, (d, v, e, m))), (i', (r', q', f', (d', v', e', m'))) =>
    N.eqb i i' && Bool.eqb r r' && N.eqb q q' && N.eqb f f' && Bool.eqb d d' && Bool.eqb v v' && Bool.eqb e e' && Bool.eqb m m'
  end.

Definition sdump_eqb (a b : sdump) : bool :=
  N.eqb (sd_lid a) (sd_lid b) && N.eqb (sd_rid a) (sd_rid b) && N.eqb (sd_node a) (sd_node b)
  && perm_eqb (pair_eqb N.eqb nlist_perm) (sd_pdrs a) (sd_pdrs b)
  && nlist_perm (sd_fars a) (sd_fars b) && nlist_perm (sd_qers a) (sd_qers b) && nlist_perm (sd_bars a) (sd_bars b)
  && perm_eqb urrd_eqb (sd_urrs a) (sd_urrs b)
  && perm_eqb (pair_eqb N.eqb (list_eqb (list_eqb N.eqb))) (sd_q a) (sd_q b).

(* which component differs: 0 = equal *)
Definition dump_diff (a b : dump) : N :=
  if negb (list_eqb (opt_eqb sdump_eqb) (d_slots a) (d_slots b)) then 31 else
  if negb (list_eqb N.eqb (d_free a) (d_free b)) then 32 else
  if negb (perm_eqb (pair_eqb N.eqb (pair_eqb (pair_eqb N.eqb N.eqb) nlist_perm)) (d_nodes a) (d_nodes b)) then 33 else
  if negb (perm_eqb (pair_eqb N.eqb N.eqb) (d_rnodes a) (d_rnodes b)) then 34 else
  if negb (perm_eqb (pair_eqb (pair_eqb N.eqb N.eqb) Bool.eqb) (d_rx a) (d_rx b)) then 35 else
  if negb (perm_eqb triple_eqb (d_tx a) (d_tx b)) then 36 else
  if negb (N.eqb (d_txseq a) (d_txseq b)) then 37 else
  if negb (perm_eqb triple_eqb (d_dp a) (d_dp b)) then 38 else 0.

(* ---------------------------------------------------------------- observations of one event *)

Record obs := mkObs {
  ob_drv : list (dop * kind * N * N * bool);
  ob_sends : list (N * pdu * N);          (* destination, decoded datagram, byte class *)
  ob_dump : option dump;
  ob_fault : bool }.

Definition drv_eqb (a b : dop * kind * N * N * bool) : bool :=
  match a, b with
  | (o, k, s, i, r), (o', k', s', i', r') => dop_eqb o o' && kind_eqb k k' && N.eqb s s' && N.eqb i i' && Bool.eqb r r'
  end.

Definition drv_of (o : list out) : list (dop * kind * N * N * bool) :=
  flat_map (fun x => match x with ODrv op k s i ok => [(op, k, s, i, ok)] | _ => [] end) o.
Definition sends_of (o : list out) : list (N * pdu * bool) :=
  flat_map (fun x => match x with OSend d p r => [(d, p, r)] | _ => [] end) o.

Definition send_eqb (m : N * pdu * bool) (i : N * pdu * N) : bool :=
  N.eqb (fst (fst m)) (fst (fst i)) && pdu_eqb (snd (fst m)) (snd (fst i)).

Fixpoint list_eqb2 {A B} (f : A -> B -> bool) (a : list A) (b : list B) : bool :=
  match a, b with
  | [], [] => true
  | x :: r, y :: s => f x y && list_eqb2 f r s
  | _, _ => false
  end.

(* 0 = the model's step and the implementation's observation agree; otherwise a code naming the component *)
Definition step_diff (w : world) (ev : event) (o : obs) : N * option world :=
  match step w ev with
  | Fault _ => (if ob_fault o then 0 else 10, None)
  | Ok (w1, outs) =>
    if ob_fault o then (11, None) else
    if negb (perm_eqb drv_eqb (drv_of outs) (ob_drv o)) then (1, Some w1) else
    if negb (list_eqb2 send_eqb (sends_of outs) (ob_sends o)) then (2, Some w1) else
    match ob_dump o with
    | None => (39, Some w1)
    | Some d => (dump_diff (dump_of w1) d, Some w1)
    end
  end.

(* first disagreement of a history: (event index, code); None = agreement throughout *)
Fixpoint run_diff (w : world) (l : list (event * obs)) (i : N) : option (N * N) :=
  match l with
  | [] => None
  | (ev, o) :: r =>
    match step_diff w ev o with
    | (0, Some w1) => run_diff w1 r (i + 1)
    | (0, None) => None
    | (c, _) => Some (i, c)
    end
  end.

Record pcase := mkCase { pc_txseq0 : N; pc_maxretrans : N; pc_hist : list (event * obs) }.

Definition case_diff (c : pcase) : option (N * N) := run_diff (init (pc_txseq0 c) (pc_maxretrans c)) (pc_hist c) 0.

Fixpoint cases_diff (l : list pcase) (i : N) : list (N * N * N) :=
  match l with
  | [] => []
  | c :: r => (match case_diff c with Some (e, code) => [(i, e, code)] | None => [] end) ++ cases_diff r (i + 1)
  end.
