(* C18, the code as it is now: the periodic server's event queue is an UNBOUNDED FIFO (perio/server.go eventQueue:
   put never blocks), the report queue srCh between the periodic server and the PFCP loop is bounded.
   Loop L: within one turn it posts one event per URR it creates / removes; it takes session reports from srCh only
   between turns.  Periodic server P: within one tick it sends one report per session to srCh (blocking while full) and
   takes its next event only after the tick.  Tickers post ticks at any time.  Definitions only. *)
From Coq Require Import List NArith Bool.
From GoUpf Require Import ConstsGen.
Import ListNotations.
Local Open Scope N_scope.

Record qstate := mkQ {
  evt : N;        (* events in the unbounded queue *)
  ticks : N;      (* how many of them are ticks *)
  sr : N;         (* session reports queued in srCh *)
  l_pending : N;  (* posts still to do in the loop's current turn *)
  p_pending : N   (* sends to srCh still to do in the periodic server's current tick *) }.

Definition cap_sr : N := REPORT_CHANNEL_LEN.

Inductive qact :=
| LPost | LStartTurn (k : N) | LDrain        (* the PFCP loop *)
| PSend | PTakeEvent | PTakeTick (m : N)     (* the periodic server *)
| TTick.                                     (* a ticker goroutine *)

Definition qstep (w : qstate) (a : qact) : option qstate :=
  match a with
  | LPost => if 0 <? l_pending w
             then Some (mkQ (evt w + 1) (ticks w) (sr w) (l_pending w - 1) (p_pending w)) else None
  | LStartTurn k => if l_pending w =? 0 then Some (mkQ (evt w) (ticks w) (sr w) k (p_pending w)) else None
  | LDrain => if (l_pending w =? 0) && (0 <? sr w)
              then Some (mkQ (evt w) (ticks w) (sr w - 1) 0 (p_pending w)) else None
  | PSend => if (0 <? p_pending w) && (sr w <? cap_sr)
             then Some (mkQ (evt w) (ticks w) (sr w + 1) (l_pending w) (p_pending w - 1)) else None
  | PTakeEvent => if (p_pending w =? 0) && (ticks w <? evt w)
                  then Some (mkQ (evt w - 1) (ticks w) (sr w) (l_pending w) 0) else None
  | PTakeTick m => if (p_pending w =? 0) && (0 <? ticks w) && (ticks w <=? evt w)
                   then Some (mkQ (evt w - 1) (ticks w - 1) (sr w) (l_pending w) m) else None
  | TTick => Some (mkQ (evt w + 1) (ticks w + 1) (sr w) (l_pending w) (p_pending w))
  end.

Fixpoint qrun (w : qstate) (l : list qact) : qstate :=
  match l with
  | [] => w
  | a :: r => match qstep w a with Some w' => qrun w' r | None => qrun w r end
  end.

Definition q_init : qstate := mkQ 0 0 0 0 0.

(* everything has been served: no post pending, no report pending or queued, no event queued *)
Definition quiescent (w : qstate) : bool :=
  (l_pending w =? 0) && (p_pending w =? 0) && (sr w =? 0) && (evt w =? 0).

(* one of the two servers can take a step of its own *)
Definition server_can_move (w : qstate) : bool :=
  match qstep w LPost, qstep w LDrain, qstep w PSend, qstep w PTakeEvent, qstep w (PTakeTick 0) with
  | None, None, None, None, None => false
  | _, _, _, _, _ => true
  end.

(* work the two servers still have to do; every server step lowers it (ticks and new turns are the environment) *)
Definition work (w : qstate) : N := 4 * l_pending w + 3 * evt w + 2 * p_pending w + sr w.
