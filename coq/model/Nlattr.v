(* Netlink attribute trees as go-nl builds them (nl.Attr / nl.AttrList / nl.AttrU8..U64 / AttrBytes /
   AttrString) and their serialisation (go-nl attr.go: native = little endian on the supported targets,
   4-octet alignment, NLA_F_NESTED on containers).  Definitions only. *)
From Coq Require Import List NArith Bool.
From GoUpf Require Import Bytes.
Import ListNotations.
Local Open Scope N_scope.

(* VStr carries the Go string as its octets (Go strings are arbitrary octet sequences); AttrString
   appends one NUL.  V8..V64 carry the Go value *before* the conversion to the fixed-width type:
   the wrap of the conversion is written out in [payload]. *)
Inductive attr : Type := A (ty : N) (v : val)
with val : Type :=
| V8 (n : N) | V16 (n : N) | V32 (n : N) | V64 (n : N)
| VBytes (l : list N) | VStr (s : list N)
| VNest (l : list attr).

Definition a_ty (a : attr) : N := match a with A t _ => t end.
Definition a_val (a : attr) : val := match a with A _ v => v end.

Definition is_nest (v : val) : bool := match v with VNest _ => true | _ => false end.

(* octets of a leaf value (Encoder.Encode); [] for a container *)
Definition payload (v : val) : list N :=
  match v with
  | V8 n => [n mod 256]
  | V16 n => le_bytes 2 n
  | V32 n => le_bytes 4 n
  | V64 n => le_bytes 8 n
  | VBytes l => l
  | VStr s => s ++ [0]
  | VNest _ => []
  end.

(* what is observable on the wire: every leaf as its octets *)
Fixpoint norm (a : attr) : attr :=
  match a with A t v => A t (norm_val v) end
with norm_val (v : val) : val :=
  match v with
  | VNest l => VNest (map norm l)
  | _ => VBytes (payload v)
  end.

Fixpoint list_N_eqb (a b : list N) : bool :=
  match a, b with
  | [], [] => true
  | x :: a', y :: b' => (x =? y) && list_N_eqb a' b'
  | _, _ => false
  end.

(* structural equality of wire forms; on anything but VBytes/VNest leaves it is false *)
Fixpoint attr_eqb (a b : attr) : bool :=
  match a, b with A t v, A t' v' => (t =? t') && val_eqb v v' end
with val_eqb (v w : val) : bool :=
  match v, w with
  | VBytes l, VBytes l' => list_N_eqb l l'
  | VNest l, VNest l' =>
      (fix go (x y : list attr) : bool :=
         match x, y with
         | [], [] => true
         | a :: x', b :: y' => attr_eqb a b && go x' y'
         | _, _ => false
         end) l l'
  | _, _ => false
  end.

Fixpoint attrs_eqb (x y : list attr) : bool :=
  match x, y with
  | [], [] => true
  | a :: x', b :: y' => attr_eqb a b && attrs_eqb x' y'
  | _, _ => false
  end.

(* ---- serialisation (nl.Attr.Encode / nl.AttrList.Encode) ---- *)
Definition NLA_F_NESTED : N := 32768.
Definition NLA_TYPE_MASK : N := 16383.   (* ^(NESTED | NET_BYTEORDER) on 16 bits *)
Definition pad4 (n : nat) : nat := Nat.modulo (4 - Nat.modulo n 4) 4.

Fixpoint ser (a : attr) : list N :=
  match a with
  | A t v =>
    let pl := match v with
              | VNest l => flat_map ser l
              | _ => payload v
              end in
    le_bytes 2 ((4 + N.of_nat (length pl)) mod 65536)       (* AttrLen is uint16 *)
    ++ le_bytes 2 (if is_nest v then N.lor (t mod 65536) NLA_F_NESTED else t mod 65536)
    ++ pl ++ repeat 0 (pad4 (length pl))
  end.
Definition ser_list (l : list attr) : list N := flat_map ser l.

(* parser of the same format (the one SimKernel implements in Go): containers are recognised by the
   NLA_F_NESTED bit, leaves come back as VBytes.  fuel bounds the nesting depth + length. *)
Fixpoint parse (fuel : nat) (b : list N) : option (list attr) :=
  match fuel with
  | O => None
  | S k =>
    match b with
    | [] => Some []
    | l0 :: l1 :: t0 :: t1 :: rest =>
      let len := N.to_nat (l0 + 256 * l1) in
      let ty := t0 + 256 * t1 in
      if Nat.ltb len 4 then None else
      let plen := (len - 4)%nat in
      if Nat.ltb (length rest) plen then None else
      let pl := firstn plen rest in
      let tail := skipn (plen + pad4 plen) rest in
      let v := if N.testbit ty 15
               then option_map VNest (parse k pl)
               else Some (VBytes pl) in
      match v, parse k tail with
      | Some v', Some more => Some (A (N.land ty NLA_TYPE_MASK) v' :: more)
      | _, _ => None
      end
    | _ => None
    end
  end.

(* netlink message flags (linux/netlink.h) *)
Definition NLM_F_REQUEST : N := 1.
Definition NLM_F_ACK : N := 4.
Definition NLM_F_REPLACE : N := 256.
Definition NLM_F_EXCL : N := 512.
