(* buffnetlink.decodbuffer (internal/forwarder/buffnetlink/server.go): the body of a BUFFER notification of the gtp5g
   module is a sequence of netlink attributes - header (length incl. header, type; both 16-bit native = little endian),
   payload, padding to a multiple of 4 - which the function walks by hand.  Octet-level model, with the situations in
   which the Go code would fault or never return made explicit:
     DErr    fewer than 4 octets left (nl.DecodeAttrHdr fails): the message is dropped
     DPanic  a fixed-width field with too few octets behind its header, a packet attribute whose length is below 4,
             or a (padded) length that reaches past the end of the body: slice bounds out of range
     DLoop   an attribute of length 0: the walk does not advance (the listener spins for ever)
     DOut    a packet attribute whose length lies beyond the body: Go's b[4:len] may read into the rest of the read
             buffer (cap, not len, bounds a slice expression) - outside the model
   None of these can be provoked over PFCP: the input comes from the kernel module. *)
From Coq Require Import List NArith Bool.
From GoUpf Require Import Bytes RulesGen.
Import ListNotations.
Local Open Scope N_scope.

Record bstate := mkB { b_seid : N; b_pdr : N; b_action : N; b_pkt : option (list N) }.
Definition b0 : bstate := mkB 0 0 0 None.

Inductive dres := DOk (s : bstate) | DErr | DPanic | DLoop | DOut.

Definition align4 (n : N) : N := (n + 3) / 4 * 4.
Definition type_mask : N := 16383.        (* NLA_TYPE_MASK: the nested and byte-order flag bits are dropped *)
Definition len_of (l : list N) : N := N.of_nat (length l).

(* one attribute: the new state and what is left, or a fault *)
Definition dec_step (b : list N) (s : bstate) : dres + (bstate * list N) :=
  if len_of b <? 4 then inl DErr else
  let len := le_val (firstn 2 b) in
  let ty := N.land (le_val (firstn 2 (skipn 2 b))) type_mask in
  let body := skipn 4 b in
  let field (w : nat) (set : N -> bstate) : dres + bstate :=
    if len_of body <? N.of_nat w then inl DPanic else inr (set (le_val (firstn w body))) in
  let s' : dres + bstate :=
    if ty =? nl_BUFFER_ID then field 2%nat (fun v => mkB (b_seid s) v (b_action s) (b_pkt s))
    else if ty =? nl_BUFFER_ACTION then field 2%nat (fun v => mkB (b_seid s) (b_pdr s) v (b_pkt s))
    else if ty =? nl_BUFFER_SEID then field 8%nat (fun v => mkB v (b_pdr s) (b_action s) (b_pkt s))
    else if ty =? nl_BUFFER_PACKET then
      (if len <? 4 then inl DPanic else if len_of b <? len then inl DOut
       else inr (mkB (b_seid s) (b_pdr s) (b_action s) (Some (firstn (N.to_nat (len - 4)) body))))
    else inr s in
  match s' with
  | inl e => inl e
  | inr s1 => if len_of b <? align4 len then inl DPanic else inr (s1, skipn (N.to_nat (align4 len)) b)
  end.

Fixpoint dec_loop (fuel : nat) (b : list N) (s : bstate) : dres :=
  match b with
  | [] => DOk s
  | _ => match fuel with
         | O => DLoop
         | S f => match dec_step b s with
                  | inl e => e
                  | inr (s1, rest) => dec_loop f rest s1
                  end
         end
  end.

Definition dec_buffer (b : list N) : dres := dec_loop (S (length b)) b b0.

(* ---------------------------------------------------------------- what the module sends (and the simulated kernel) *)

Inductive battr := BId (v : N) | BAct (v : N) | BSeid (v : N) | BPkt (p : list N) | BOther (ty : N) (p : list N).

Definition pad_to4 (n : nat) : list N := repeat 0 (N.to_nat (align4 (N.of_nat n) - N.of_nat n)).

Definition enc_raw (ty : N) (p : list N) : list N :=
  le_bytes 2 (4 + len_of p) ++ le_bytes 2 ty ++ p ++ pad_to4 (length p).

Definition enc_attr (a : battr) : list N :=
  match a with
  | BId v => enc_raw nl_BUFFER_ID (le_bytes 2 v)
  | BAct v => enc_raw nl_BUFFER_ACTION (le_bytes 2 v)
  | BSeid v => enc_raw nl_BUFFER_SEID (le_bytes 8 v)
  | BPkt p => enc_raw nl_BUFFER_PACKET p
  | BOther ty p => enc_raw ty p
  end.

Definition enc_msg (l : list battr) : list N := flat_map enc_attr l.

Definition known_type (ty : N) : bool :=
  (ty =? nl_BUFFER_ID) || (ty =? nl_BUFFER_ACTION) || (ty =? nl_BUFFER_SEID) || (ty =? nl_BUFFER_PACKET).

Definition battr_ok (a : battr) : Prop :=
  match a with
  | BId v | BAct v => v < 65536
  | BSeid v => v < 18446744073709551616
  | BPkt p => bytes_ok p /\ len_of p < 65532
  | BOther ty p => ty < 16384 /\ known_type ty = false /\ bytes_ok p /\ len_of p < 65532
  end.

(* what the message means: later attributes of a kind override earlier ones, unknown kinds are skipped *)
Definition apply_attr (s : bstate) (a : battr) : bstate :=
  match a with
  | BId v => mkB (b_seid s) v (b_action s) (b_pkt s)
  | BAct v => mkB (b_seid s) (b_pdr s) v (b_pkt s)
  | BSeid v => mkB v (b_pdr s) (b_action s) (b_pkt s)
  | BPkt p => mkB (b_seid s) (b_pdr s) (b_action s) (Some p)
  | BOther _ _ => s
  end.
