(* Model of go-upf's start-up checks (C20):
     factory.ReadConfig  = yaml.Unmarshal into factory.Config ; govalidator.ValidateStruct over the `valid:"…"` tags ;
                           net.ResolveIPAddr("ip4", cfg.Pfcp.NodeID)                       (pkg/factory/factory.go)
     forwarder.NewDriver = the checks made before OpenGtp5g is called                      (internal/forwarder/driver.go:44-64)
     Gtp5g.checkVersion  = the version window                                              (internal/forwarder/gtp5g.go:143-170)
   Definitions only.  The tag table is GENERATED (gen/ConfigGen.v) and INTERPRETED here ([validate]); the version
   bounds and the comparison shape are GENERATED (gen/ConstsGen.v) and interpreted by [version_ok].
   What is library code and therefore NOT verified but modelled: yaml.v2's type-directed decoding ([dec_*]),
   govalidator's treatment of `required` / `optional` / `in(..)` / registered validators and its recursion into
   pointers and slices ([validate]), hashicorp/go-version's ordering of plain x.y.z ([lex_lt]).  The string
   predicates govalidator.IsHost / IsCIDR, the resolver and time.ParseDuration are ORACLES (Section variables):
   every theorem holds for all of them; the correspondence run answers them by calling the real functions. *)
From Coq Require Import List NArith ZArith Bool String Ascii.
From GoUpf Require Import ConfigGen ConstsGen ConfigSpec.
Import ListNotations.
Local Open Scope string_scope.

(* generic view of a Go value, for the tag interpreter *)
Inductive gval :=
| GStr (s : string) | GNum (z : Z) | GBool (b : bool)
| GNil                               (* nil pointer *)
| GPtr (v : gval)
| GSlice (l : list gval)
| GStruct (name : string) (fs : list (string * gval)).

Definition gv_pfcp (p : pfcp) : gval :=
  GStruct "Pfcp" [("Addr", GStr (p_addr p)); ("NodeID", GStr (p_nodeid p));
                  ("RetransTimeout", GNum (p_retrans_timeout p)); ("MaxRetrans", GNum (p_max_retrans p))].
Definition gv_ifinfo (i : ifinfo) : gval :=
  GStruct "IfInfo" [("Addr", GStr (i_addr i)); ("Type", GStr (i_type i)); ("Name", GStr (i_name i));
                    ("IfName", GStr (i_ifname i)); ("MTU", GNum (i_mtu i))].
Definition gv_gtpu (g : gtpu) : gval :=
  GStruct "Gtpu" [("Forwarder", GStr (g_forwarder g)); ("IfList", GSlice (map gv_ifinfo (g_iflist g)))].
Definition gv_dnn (d : dnn) : gval :=
  GStruct "DnnList" [("Dnn", GStr (d_dnn d)); ("Cidr", GStr (d_cidr d)); ("NatIfName", GStr (d_natifname d))].
Definition gv_logger (l : logcfg) : gval :=
  GStruct "Logger" [("Enable", GBool (l_enable l)); ("Level", GStr (l_level l)); ("ReportCaller", GBool (l_report_caller l))].
Definition gv_opt {A} (f : A -> gval) (o : option A) : gval :=
  match o with None => GNil | Some a => GPtr (f a) end.
Definition gv_config (c : config) : gval :=
  GStruct "Config" [("Version", GStr (c_version c)); ("Description", GStr (c_description c));
                    ("Pfcp", gv_opt gv_pfcp (c_pfcp c)); ("Gtpu", gv_opt gv_gtpu (c_gtpu c));
                    ("DnnList", GSlice (map gv_dnn (c_dnnlist c))); ("Logger", gv_opt gv_logger (c_logger c))].

(* the Go types and yaml names this file was written for; proofs/ConfigProofs.v shows that this IS the generated
   table's (struct, field, type, yaml name) projection, so a changed field type or name breaks the build *)
Definition expected_fields : list (string * string * string * string) := [
  ("Config", "Description", "string", "description"); ("Config", "DnnList", "[]DnnList", "dnnList");
  ("Config", "Gtpu", "*Gtpu", "gtpu"); ("Config", "Logger", "*Logger", "logger");
  ("Config", "Pfcp", "*Pfcp", "pfcp"); ("Config", "Version", "string", "version");
  ("DnnList", "Cidr", "string", "cidr"); ("DnnList", "Dnn", "string", "dnn"); ("DnnList", "NatIfName", "string", "natifname");
  ("Gtpu", "Forwarder", "string", "forwarder"); ("Gtpu", "IfList", "[]IfInfo", "ifList");
  ("IfInfo", "Addr", "string", "addr"); ("IfInfo", "IfName", "string", "ifname"); ("IfInfo", "MTU", "uint32", "mtu");
  ("IfInfo", "Name", "string", "name"); ("IfInfo", "Type", "string", "type");
  ("Logger", "Enable", "bool", "enable"); ("Logger", "Level", "string", "level"); ("Logger", "ReportCaller", "bool", "reportCaller");
  ("Pfcp", "Addr", "string", "addr"); ("Pfcp", "MaxRetrans", "uint8", "maxRetrans"); ("Pfcp", "NodeID", "string", "nodeID");
  ("Pfcp", "RetransTimeout", "time.Duration", "retransTimeout")].

(* ================================================================ tag items *)

Fixpoint split_on (c : ascii) (s : string) : list string :=
  match s with
  | EmptyString => [EmptyString]
  | String a r => if Ascii.eqb a c then EmptyString :: split_on c r
                  else match split_on c r with
                       | h :: t => String a h :: t
                       | [] => [String a EmptyString]
                       end
  end.

Fixpoint drop_last_paren (s : string) : option string :=   (* "abc)" -> Some "abc" *)
  match s with
  | EmptyString => None
  | String a EmptyString => if Ascii.eqb a ")"%char then Some EmptyString else None
  | String a r => match drop_last_paren r with Some t => Some (String a t) | None => None end
  end.

(* "in(a|b|c)" -> Some [a;b;c]   (govalidator: the text between "in(" and the last ")", split at "|") *)
Definition parse_in (item : string) : option (list string) :=
  match item with
  | String "i"%char (String "n"%char (String "("%char rest)) =>
      match drop_last_paren rest with Some inner => Some (split_on "|"%char inner) | None => None end
  | _ => None
  end.

Section Oracles.
  (* govalidator.IsHost, govalidator.IsCIDR (= net.ParseCIDR succeeds), net.ResolveIPAddr("ip4", .) succeeds,
     time.ParseDuration *)
  Variable is_host : string -> bool.
  Variable is_cidr : string -> bool.
  Variable resolvable : string -> bool.
  Variable parse_duration : string -> option Z.

  (* ============================================================== yaml.v2 decoding into factory.Config *)

  Definition is_null (y : option yv) : bool :=
    match y with None => true | Some (YScalar KNull _) => true | _ => false end.

  (* None = yaml.Unmarshal reports a type error.  A missing key or a null leaves the zero value. *)
  Definition dec_string (y : option yv) : option string :=
    match y with
    | None | Some (YScalar KNull _) => Some ""
    | Some (YScalar _ text) => Some text          (* any scalar is taken as written *)
    | Some _ => None
    end.

  Definition dec_uint (bits : N) (y : option yv) : option Z :=
    match y with
    | None | Some (YScalar KNull _) => Some 0%Z
    | Some (YScalar (KInt z) _) | Some (YScalar (KFloat z) _) =>
        if (0 <=? z)%Z && (z <? Z.of_N (2 ^ bits))%Z then Some z else None
    | Some _ => None
    end.

  (* time.Duration = int64: an integer is taken as nanoseconds, a string goes through time.ParseDuration *)
  Definition dec_duration (y : option yv) : option Z :=
    match y with
    | None | Some (YScalar KNull _) => Some 0%Z
    | Some (YScalar (KInt z) _) | Some (YScalar (KFloat z) _) =>
        if (- 9223372036854775808 <=? z)%Z && (z <=? 9223372036854775807)%Z then Some z else None
    | Some (YScalar KStr text) => parse_duration text
    | Some _ => None
    end.

  Definition dec_bool (y : option yv) : option bool :=
    match y with
    | None | Some (YScalar KNull _) => Some false
    | Some (YScalar (KBool b) _) => Some b
    | Some _ => None
    end.

  (* a mapping decoded into a struct: unknown keys are ignored; a repeated key is decoded every time it occurs
     (a type error in any occurrence is an error) and the last occurrence stays (ylookup) *)
  Definition occurrences (k : string) (kvs : list (string * yv)) : list yv :=
    map snd (filter (fun kv => String.eqb (fst kv) k) kvs).
  Definition is_some {A} (o : option A) : bool := match o with Some _ => true | None => false end.
  Definition dec_field {A} (dec : option yv -> option A) (k : string) (kvs : list (string * yv)) : option A :=
    if forallb (fun y => is_some (dec (Some y))) (occurrences k kvs) then dec (ylookup k kvs) else None.

  Definition dec_struct {A} (f : list (string * yv) -> option A) (zero : A) (y : option yv) : option A :=
    match y with
    | None | Some (YScalar KNull _) => Some zero
    | Some (YMap kvs) => f kvs
    | Some _ => None
    end.

  Definition dec_ptr {A} (f : list (string * yv) -> option A) (y : option yv) : option (option A) :=
    match y with
    | None | Some (YScalar KNull _) => Some None
    | Some (YMap kvs) => option_map Some (f kvs)
    | Some _ => None
    end.

  Fixpoint all_some {A} (l : list (option A)) : option (list A) :=
    match l with
    | [] => Some []
    | None :: _ => None
    | Some a :: r => match all_some r with Some t => Some (a :: t) | None => None end
    end.

  Definition dec_slice {A} (f : list (string * yv) -> option A) (zero : A) (y : option yv) : option (list A) :=
    match y with
    | None | Some (YScalar KNull _) => Some []
    | Some (YSeq l) => all_some (map (fun e => dec_struct f zero (Some e)) l)
    | Some _ => None
    end.

  Definition bind {A B} (o : option A) (f : A -> option B) : option B :=
    match o with Some a => f a | None => None end.
  Notation "x <- e ;; r" := (bind e (fun x => r)) (at level 61, e at next level, right associativity).

  Definition dec_pfcp (kvs : list (string * yv)) : option pfcp :=
    a <- dec_field dec_string "addr" kvs ;; n <- dec_field dec_string "nodeID" kvs ;;
    t <- dec_field dec_duration "retransTimeout" kvs ;; m <- dec_field (dec_uint 8) "maxRetrans" kvs ;;
    Some {| p_addr := a; p_nodeid := n; p_retrans_timeout := t; p_max_retrans := m |}.

  Definition zero_ifinfo : ifinfo := {| i_addr := ""; i_type := ""; i_name := ""; i_ifname := ""; i_mtu := 0 |}.
  Definition dec_ifinfo (kvs : list (string * yv)) : option ifinfo :=
    a <- dec_field dec_string "addr" kvs ;; t <- dec_field dec_string "type" kvs ;;
    n <- dec_field dec_string "name" kvs ;; i <- dec_field dec_string "ifname" kvs ;;
    m <- dec_field (dec_uint 32) "mtu" kvs ;;
    Some {| i_addr := a; i_type := t; i_name := n; i_ifname := i; i_mtu := m |}.

  Definition dec_gtpu (kvs : list (string * yv)) : option gtpu :=
    f <- dec_field dec_string "forwarder" kvs ;;
    l <- dec_field (dec_slice dec_ifinfo zero_ifinfo) "ifList" kvs ;;
    Some {| g_forwarder := f; g_iflist := l |}.

  Definition zero_dnn : dnn := {| d_dnn := ""; d_cidr := ""; d_natifname := "" |}.
  Definition dec_dnn (kvs : list (string * yv)) : option dnn :=
    d <- dec_field dec_string "dnn" kvs ;; c <- dec_field dec_string "cidr" kvs ;;
    n <- dec_field dec_string "natifname" kvs ;;
    Some {| d_dnn := d; d_cidr := c; d_natifname := n |}.

  Definition dec_logger (kvs : list (string * yv)) : option logcfg :=
    e <- dec_field dec_bool "enable" kvs ;; l <- dec_field dec_string "level" kvs ;;
    r <- dec_field dec_bool "reportCaller" kvs ;;
    Some {| l_enable := e; l_level := l; l_report_caller := r |}.

  Definition zero_config : config :=
    {| c_version := ""; c_description := ""; c_pfcp := None; c_gtpu := None; c_dnnlist := []; c_logger := None |}.
  Definition dec_config (kvs : list (string * yv)) : option config :=
    v <- dec_field dec_string "version" kvs ;; d <- dec_field dec_string "description" kvs ;;
    p <- dec_field (dec_ptr dec_pfcp) "pfcp" kvs ;; g <- dec_field (dec_ptr dec_gtpu) "gtpu" kvs ;;
    n <- dec_field (dec_slice dec_dnn zero_dnn) "dnnList" kvs ;; l <- dec_field (dec_ptr dec_logger) "logger" kvs ;;
    Some {| c_version := v; c_description := d; c_pfcp := p; c_gtpu := g; c_dnnlist := n; c_logger := l |}.

  (* yaml.Unmarshal(content, cfg): the document (None = empty file) *)
  Definition decode (doc : option yv) : option config := dec_struct dec_config zero_config doc.

  (* ============================================================== govalidator.ValidateStruct over the tag table *)

  Definition tag_row := (string * string * string * string * list string)%type.

  (* isEmptyValue *)
  Definition is_empty (v : gval) : bool :=
    match v with
    | GStr s => String.eqb s ""
    | GNum z => Z.eqb z 0
    | GBool b => negb b
    | GNil => true
    | GSlice l => match l with [] => true | _ => false end
    | GPtr _ | GStruct _ _ => false
    end.

  Definition is_flag_item (it : string) : bool := String.eqb it "required" || String.eqb it "optional".

  (* one validator applied to a non-empty string value; an item that is neither known nor parsable is
     "invalid or can't be applied": an error *)
  Definition item_ok_str (s it : string) : bool :=
    if is_flag_item it then true
    else if String.eqb it "host" then is_host s
    else if String.eqb it "cidr" then is_cidr s
    else match parse_in it with Some opts => str_mem s opts | None => false end.

  Fixpoint glookup (k : string) (fs : list (string * gval)) : option gval :=
    match fs with [] => None | (k', v) :: r => if String.eqb k' k then Some v else glookup k r end.

  Section WithTags.
    Variable tags : list tag_row.

    (* ValidateStruct / typeCheck; fuel bounds the nesting depth (Config -> Gtpu -> IfInfo is 3) *)
    Fixpoint validate (fuel : nat) (v : gval) : bool :=
      match fuel with
      | O => false
      | S k =>
          match v with
          | GStruct n fs =>
              forallb (fun row : tag_row =>
                         match row with
                         | (s, f, _, _, items) =>
                             if String.eqb s n then
                               match glookup f fs with
                               | Some fv =>
                                   (* typeCheck on the field ... *)
                                   (if is_empty fv then negb (str_mem "required" items)
                                    else match fv with
                                         | GStr x => forallb (item_ok_str x) items
                                         | GSlice l => forallb is_flag_item items && forallb (validate k) l
                                         | _ => forallb is_flag_item items
                                         end)
                                   (* ... and ValidateStruct on a struct or non-nil pointer to struct *)
                                   && match fv with
                                      | GPtr x => validate k x
                                      | GStruct _ _ => validate k fv
                                      | _ => true
                                      end
                               | None => false
                               end
                             else true
                         end) tags
          | _ => true
          end
      end.
  End WithTags.

  Definition fuel0 : nat := 6.
  Definition accepts_tags (tags : list tag_row) (c : config) : bool := validate tags fuel0 (gv_config c).

  (* ============================================================== ReadConfig *)

  Inductive rc_result :=
  | RcYamlError                 (* "[Factory] yaml: ..." : not a valid document for factory.Config *)
  | RcValidationError           (* govalidator.ValidateStruct returned an error *)
  | RcResolveError              (* "cfg.Pfcp.NodeID[..] can't be resolved" *)
  | RcOk (c : config).

  Definition read_config (tags : list tag_row) (doc : option yv) : rc_result :=
    match decode doc with
    | None => RcYamlError
    | Some c =>
        if accepts_tags tags c then
          match c_pfcp c with
          | Some p => if resolvable (p_nodeid p) then RcOk c else RcResolveError
          | None => RcResolveError     (* unreachable when Pfcp is `required` (the Go code would dereference nil) *)
          end
        else RcValidationError
    end.

  (* ============================================================== NewDriver, up to the call of OpenGtp5g *)

  Inductive drv_result :=
  | DrvNoGtpu                    (* "no Gtpu config" *)
  | DrvNoAddr                    (* "not found GTP address" *)
  | DrvUnsupported               (* "not support forwarder:%q" *)
  | DrvOpen (addr : string) (mtu : Z).   (* OpenGtp5g(wg, addr, mtu) is called *)

  Definition gtp_port_suffix : string := ":2152".
  Definition new_driver_pre (c : config) : drv_result :=
    match c_gtpu c with
    | None => DrvNoGtpu
    | Some g =>
        if String.eqb (g_forwarder g) "gtp5g" then
          match g_iflist g with
          | i :: _ => DrvOpen (i_addr i ++ gtp_port_suffix) (i_mtu i)   (* the loop breaks after the first entry *)
          | [] => DrvNoAddr
          end
        else DrvUnsupported
    end.

  (* the whole start-up decision *)
  Inductive outcome :=
  | Rejected (at_stage : string)
  | Started (c : config) (gtp_addr : string) (mtu : Z).

  Definition startup (tags : list tag_row) (doc : option yv) : outcome :=
    match read_config tags doc with
    | RcYamlError => Rejected "yaml"
    | RcValidationError => Rejected "valid"
    | RcResolveError => Rejected "resolve"
    | RcOk c => match new_driver_pre c with
                | DrvOpen a m => Started c a m
                | DrvNoGtpu => Rejected "driver:no Gtpu config"
                | DrvNoAddr => Rejected "driver:not found GTP address"
                | DrvUnsupported => Rejected "driver:not support forwarder"
                end
    end.
End Oracles.

(* ================================================================ checkVersion *)

Local Open Scope N_scope.
Definition ver := (N * N * N)%type.

(* hashicorp/go-version on plain x.y.z: segment-wise numeric comparison *)
Definition lex_lt (a b : ver) : bool :=
  match a, b with
  | (a1, a2, a3), (b1, b2, b3) =>
      (a1 <? b1) || ((a1 =? b1) && ((a2 <? b2) || ((a2 =? b2) && (a3 <? b3))))
  end.
Definition lex_eq (a b : ver) : bool :=
  match a, b with (a1, a2, a3), (b1, b2, b3) => (a1 =? b1) && (a2 =? b2) && (a3 =? b3) end.
Definition lex_le (a b : ver) : bool := lex_lt a b || lex_eq a b.

(* "<Method>:<arg>" as generated from the condition  nowVer.<M1>(<arg1>) || nowVer.<M2>(<arg2>) *)
Definition cmp_of (shape : string) (now : ver) : option bool :=
  match split_on ":"%char shape with
  | [m; arg] =>
      let bound := if String.eqb arg "expMinVer" then Some expectedMinGtp5gVersion
                   else if String.eqb arg "expMaxVer" then Some expectedMaxGtp5gVersion else None in
      match bound with
      | None => None
      | Some b =>
          if String.eqb m "LessThan" then Some (lex_lt now b)
          else if String.eqb m "LessThanOrEqual" then Some (lex_le now b)
          else if String.eqb m "GreaterThan" then Some (lex_lt b now)
          else if String.eqb m "GreaterThanOrEqual" then Some (lex_le b now)
          else if String.eqb m "Equal" then Some (lex_eq now b)
          else None
      end
  | _ => None
  end.

(* checkVersion returns nil; an uninterpretable shape counts as "not ok" *)
Definition version_ok (now : ver) : bool :=
  match cmp_of version_reject_lo now, cmp_of version_reject_hi now with
  | Some lo, Some hi => negb (lo || hi)
  | _, _ => false
  end.

(* version.NewVersion parses each component with strconv.ParseInt(.., 10, 64): a component beyond int64 is
   "Error parsing version" and checkVersion fails *)
Definition int64_fits (n : N) : bool := n <? 9223372036854775808.
Definition check_version (v : ver) : bool :=
  match v with (x, y, z) => int64_fits x && int64_fits y && int64_fits z && version_ok v end.
