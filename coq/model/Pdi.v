(* The part of Gtp5g.newPdi that decides the direction of an SDF filter: the PDI is a list of IEs in
   wire order; a filter is packed with source and destination exchanged iff the Source Interface used for
   the decision is Access (0, go-pfcp's ie.SrcInterfaceAccess).  Two evaluation orders: packing a filter
   when the scan meets it (with the interface seen so far, initially the zero value = Access), or after
   the scan (with the interface the scan ended with).  Which one the tree uses is read from the source
   (gen/FlowDescGen.v: fd_pdi_sdf_in_scan). *)
From Coq Require Import List NArith Bool.
Import ListNotations.
Local Open Scope N_scope.

Inductive pdi_item := PSrcIf (v : N) | PSdf (k : N) | POther.

Definition access : N := 0.

Definition final_srcif (l : list pdi_item) : N :=
  fold_left (fun acc x => match x with PSrcIf v => v | _ => acc end) l 0.

Fixpoint sdf_swaps_scan (l : list pdi_item) (cur : N) : list (N * bool) :=
  match l with
  | [] => []
  | PSrcIf v :: r => sdf_swaps_scan r v
  | PSdf k :: r => (k, N.eqb cur access) :: sdf_swaps_scan r cur
  | POther :: r => sdf_swaps_scan r cur
  end.

Definition sdf_ids (l : list pdi_item) : list N :=
  flat_map (fun x => match x with PSdf k => [k] | _ => [] end) l.

Definition sdf_swaps_after (l : list pdi_item) : list (N * bool) :=
  map (fun k => (k, N.eqb (final_srcif l) access)) (sdf_ids l).

Definition pdi_sdf_swaps (in_scan : bool) (l : list pdi_item) : list (N * bool) :=
  if in_scan then sdf_swaps_scan l 0 else sdf_swaps_after l.

Definition no_srcif (l : list pdi_item) : Prop :=
  forall x, In x l -> match x with PSrcIf _ => False | _ => True end.
