(* Model of internal/forwarder/flowdesc.go (ParseFlowDesc, ParseFlowDescIPNet,
   ParseFlowDescPorts) and of gtp5g.go:176-254 (newFlowDesc, convertSlice), together with the
   fragments of Go's strings/strconv/net packages they call, on octet lists.
   Definitions only; validated against the real code by the correspondence run of checks/c16.py.

   Modelled library behaviour (Go 1.23):
     strings.Fields      for ASCII input: split around runs of 9..13 and 32, no empty fields
     strings.Split(s,c)  one-octet separator: always >= 1 piece
     strings.SplitN(s,c,2)  cut at the first separator
     strconv.ParseUint(s,10,bits)  non-empty, digits only (leading zeros fine), value < 2^bits
     net.ParseCIDR / net.ParseIP   dotted IPv4 only: 4 fields, digits, no leading zero, <= 255;
                         mask length: non-empty digits (leading zeros fine), <= 32
   Outside the modelled fragment (result Unmodelled): any octet >= 0x80 anywhere in the string
   (unicode.IsSpace), a ':' in an address token (IPv6). *)
From Coq Require Import List NArith Bool String.
From GoUpf Require Import FlowTypes.
Import ListNotations.
Local Open Scope N_scope.

(* ---------------------------------------------------------------- strings *)

Definition is_space (c : N) : bool := ((9 <=? c) && (c <=? 13)) || (c =? 32).

(* pieces between separator octets (empty pieces included): strings.Split for one octet *)
Fixpoint splitp (p : N -> bool) (l : text) : list text :=
  match l with
  | [] => [[]]
  | c :: r =>
    if p c then [] :: splitp p r
    else match splitp p r with h :: t => (c :: h) :: t | [] => [[c]] end
  end.

Definition is_nil (t : text) : bool := match t with [] => true | _ => false end.

(* strings.Fields *)
Definition fields (l : text) : list text := filter (fun t => negb (is_nil t)) (splitp is_space l).

(* strings.SplitN(s, sep, 2): None = separator absent (one piece) *)
Fixpoint split1 (sep : N) (l : text) : option (text * text) :=
  match l with
  | [] => None
  | c :: r =>
    if c =? sep then Some ([], r)
    else match split1 sep r with Some (a, b) => Some (c :: a, b) | None => None end
  end.

(* ---------------------------------------------------------------- numbers *)

Definition is_digit (c : N) : bool := (48 <=? c) && (c <=? 57).

Fixpoint pd (acc : N) (l : text) : option N :=
  match l with
  | [] => Some acc
  | c :: r => if is_digit c then pd (acc * 10 + (c - 48)) r else None
  end.

(* unbounded decimal numeral, at least one digit *)
Definition parse_dec (l : text) : option N := match l with [] => None | _ => pd 0 l end.

(* strconv.ParseUint(s, 10, bits): syntax error and range error are both "error" *)
Definition parse_uint (bits : N) (l : text) : option N :=
  match parse_dec l with
  | Some v => if v <? 2 ^ bits then Some v else None
  | None => None
  end.

(* ---------------------------------------------------------------- addresses *)

(* one field of netip.parseIPv4Fields: a second digit after a leading 0 is refused, > 255 is refused *)
Definition parse_octet (l : text) : option N :=
  match l with
  | c :: _ :: _ => if c =? 48 then None else
                   match parse_dec l with Some v => if v <=? 255 then Some v else None | None => None end
  | _ => match parse_dec l with Some v => if v <=? 255 then Some v else None | None => None end
  end.

Definition parse_ipv4 (l : text) : option (list N) :=
  match splitp (N.eqb 46) l with
  | [a; b; c; d] =>
    match parse_octet a, parse_octet b, parse_octet c, parse_octet d with
    | Some a', Some b', Some c', Some d' => Some [a'; b'; c'; d']
    | _, _, _, _ => None
    end
  | _ => None
  end.

(* net.CIDRMask(n, 32) *)
Fixpoint cidr_mask_aux (k : nat) (n : N) : list N :=
  match k with
  | O => []
  | S k' => if 8 <=? n then 255 :: cidr_mask_aux k' (n - 8)
            else (255 - 255 / 2 ^ n) :: cidr_mask_aux k' 0
  end.
Definition cidr_mask (n : N) : list N := cidr_mask_aux 4 n.

(* IP.Mask *)
Fixpoint mask_ip (ip m : list N) : list N :=
  match ip, m with
  | a :: ip', b :: m' => N.land a b :: mask_ip ip' m'
  | _, _ => []
  end.

(* net.ParseCIDR restricted to dotted IPv4: (network, mask) *)
Definition parse_cidr (addr mask : text) : option (list N * list N) :=
  match parse_ipv4 addr, parse_dec mask with
  | Some ip, Some n => if n <=? 32 then Some (mask_ip ip (cidr_mask n), cidr_mask n) else None
  | _, _ => None
  end.

Definition kw_permit := Eval cbv in txt "permit".
Definition kw_in := Eval cbv in txt "in".
Definition kw_out := Eval cbv in txt "out".
Definition kw_ip := Eval cbv in txt "ip".
Definition kw_from := Eval cbv in txt "from".
Definition kw_to := Eval cbv in txt "to".
Definition kw_any := Eval cbv in txt "any".
Definition kw_assigned := Eval cbv in txt "assigned".

Definition zero16 : list N := repeat 0 16.
Definition ones4 : list N := [255; 255; 255; 255].

(* ParseFlowDescIPNet *)
Definition parse_ipnet (t : text) : res (list N * list N) :=
  if N_list_eqb t kw_any || N_list_eqb t kw_assigned then Ok (zero16, zero16)
  else if existsb (N.eqb 58) t then Unmodelled
  else match split1 47 t with
       | Some (a, m) =>
         (* ParseCIDR decides; if it fails ParseIP fails too because of the '/' *)
         match parse_cidr a m with Some nm => Ok nm | None => Err end
       | None =>
         match parse_ipv4 t with Some ip => Ok (ip, ones4) | None => Err end
       end.

(* ---------------------------------------------------------------- ports *)

Definition parse_port_item (it : text) : option (list N) :=
  match split1 45 it with
  | None => match parse_uint 16 it with Some v => Some [v] | None => None end
  | Some (a, b) =>
    match parse_uint 16 a, parse_uint 16 b with
    | Some lo, Some hi => Some [lo; hi]
    | _, _ => None
    end
  end.

Fixpoint map_opt {A B} (f : A -> option B) (l : list A) : option (list B) :=
  match l with
  | [] => Some []
  | x :: r => match f x, map_opt f r with Some y, Some ys => Some (y :: ys) | _, _ => None end
  end.

(* ParseFlowDescPorts *)
Definition parse_ports (t : text) : option (list (list N)) :=
  map_opt parse_port_item (splitp (N.eqb 44) t).

(* ---------------------------------------------------------------- ParseFlowDesc *)

Definition parse_proto (t : text) : option N :=
  if N_list_eqb t kw_ip then Some 255
  else match parse_uint 8 t with Some v => Some (v mod 256) (* uint8(v) *) | None => None end.

Definition parse_tokens (tk : list text) : res fdesc :=
  match tk with
  | a :: d :: p :: fr :: src :: rest =>
    if negb (N_list_eqb a kw_permit) then Err else
    if negb (N_list_eqb d kw_in || N_list_eqb d kw_out) then Err else
    match parse_proto p with None => Err | Some proto =>
    if negb (N_list_eqb fr kw_from) then Err else
    match parse_ipnet src with Err => Err | Unmodelled => Unmodelled | Ok (sip, smask) =>
    match rest with [] => Err | x :: rest1 =>
      (* a token that is not a port list is not consumed *)
      let '(sports, rest2) := match parse_ports x with Some ps => (ps, rest1) | None => ([], rest) end in
      match rest2 with [] => Err | t :: rest3 =>
      if negb (N_list_eqb t kw_to) then Err else
      match rest3 with [] => Err | dst :: rest4 =>
      match parse_ipnet dst with Err => Err | Unmodelled => Unmodelled | Ok (dip, dmask) =>
      let dports := match rest4 with
                    | [] => []
                    | y :: _ => match parse_ports y with Some ps => ps | None => [] end
                    end in
      Ok {| f_action := a; f_dir := d; f_proto := proto;
            f_src_ip := sip; f_src_mask := smask; f_dst_ip := dip; f_dst_mask := dmask;
            f_sports := sports; f_dports := dports |}
      end end end end end end
  | _ => Err
  end.

Definition parse_flow_desc (s : text) : res fdesc :=
  if existsb (fun c => 128 <=? c) s then Unmodelled else parse_tokens (fields s).

(* ---------------------------------------------------------------- newFlowDesc *)

(* convertSlice: one native-endian (little-endian) uint32 per entry *)
Definition port_word (p : list N) : N :=
  match p with
  | [a] => N.lor (N.shiftl a 16) a
  | [a; b] => N.lor (N.shiftl a 16) b
  | _ => 0
  end.
Definition le32 (w : N) : list N :=
  [w mod 256; (w / 256) mod 256; (w / 65536) mod 256; (w / 16777216) mod 256].
Definition convert_slice (ports : list (list N)) : list N := flat_map (fun p => le32 (port_word p)) ports.

(* gtp5gnl.FLOW_DESCRIPTION_* = iota + 1 *)
Definition FD_ACTION := 1. Definition FD_DIRECTION := 2. Definition FD_PROTOCOL := 3.
Definition FD_SRC_IPV4 := 4. Definition FD_SRC_MASK := 5.
Definition FD_DEST_IPV4 := 6. Definition FD_DEST_MASK := 7.
Definition FD_SRC_PORT := 8. Definition FD_DEST_PORT := 9.
Definition SDF_PERMIT := 1. Definition SDF_IN := 1. Definition SDF_OUT := 2.

Definition swap_fdesc (f : fdesc) : fdesc :=
  {| f_action := f_action f; f_dir := f_dir f; f_proto := f_proto f;
     f_src_ip := f_dst_ip f; f_src_mask := f_dst_mask f; f_dst_ip := f_src_ip f; f_dst_mask := f_src_mask f;
     f_sports := f_dports f; f_dports := f_sports f |}.

Definition attrs_of (fd : fdesc) : option (list attr) :=
  if negb (N_list_eqb (f_action fd) kw_permit) then None else
  match (if N_list_eqb (f_dir fd) kw_in then Some SDF_IN
         else if N_list_eqb (f_dir fd) kw_out then Some SDF_OUT else None) with
  | None => None
  | Some dir =>
    Some [ (FD_ACTION, AU8 SDF_PERMIT); (FD_DIRECTION, AU8 dir); (FD_PROTOCOL, AU8 (f_proto fd));
           (FD_SRC_IPV4, ABytes (f_src_ip fd)); (FD_SRC_MASK, ABytes (f_src_mask fd));
           (FD_DEST_IPV4, ABytes (f_dst_ip fd)); (FD_DEST_MASK, ABytes (f_dst_mask fd));
           (FD_SRC_PORT, ABytes (convert_slice (f_sports fd)));
           (FD_DEST_PORT, ABytes (convert_slice (f_dports fd))) ]
  end.

Definition new_flow_desc (s : text) (swap : bool) : res (list attr) :=
  match parse_flow_desc s with
  | Err => Err
  | Unmodelled => Unmodelled
  | Ok fd =>
    let fd' := if swap then swap_fdesc fd else fd in
    match attrs_of fd' with Some al => Ok al | None => Err end
  end.
