(* Model of internal/report/report.go (flag words): ReportingTrigger.Unmarshal / ApplyAction.Unmarshal,
   ReportingTrigger.IE / UsageReportTrigger.IE, the bool accessors, UsageReportTrigger.SetReportingTrigger
   and VolumeMeasure.SetFlags.

   Everything that is a table or a constant comes from gen/FlagsGen.v, which tools/gen regenerates from
   /repo on every run: the constants, the mask of every accessor, the case table of SetReportingTrigger,
   the masks of SetFlags, and the shape parameters of the two Unmarshal functions (length guard, size of
   the zero-padded copy, width of the little-endian read) and of IE() (number of octets kept).
   The control flow around these tables is written by hand and tied to the code by the correspondence
   run of checks/c19.py.  Definitions only; proofs are in proofs/FlagsProofs.v. *)
From Coq Require Import String List NArith Bool.
From GoUpf Require Import Bytes FlagsGen.
Import ListNotations.
Local Open Scope N_scope.

(* outcome of Unmarshal: value stored in Flags | error returned | run-time panic *)
Inductive ures := UOk (flags : N) | UErr | UPanic.

(* length of the copy v:  make([]byte, len(b)+K)  is (0,K);  make([]byte, max(K, len(b)))  is (1,K) *)
Definition padded_len (pad : nat * nat) (n : nat) : nat :=
  match fst pad with O => (n + snd pad)%nat | S _ => Nat.max (snd pad) n end.

(* func (x *T) Unmarshal(b []byte) error {
     if len(b) < MIN { return error }
     v := make([]byte, <padded_len>); copy(v, b)
     x.Flags = binary.LittleEndian.Uint<W>(v)      // reads v[0 .. W/8-1]; panics if len(v) < W/8
     return nil } *)
Definition unmarshal (minlen : nat) (pad : nat * nat) (width : nat) (b : list N) : ures :=
  if Nat.ltb (length b) minlen then UErr else
  let v := b ++ repeat 0 (padded_len pad (length b) - length b) in
  let w := Nat.div width 8 in
  if Nat.ltb (length v) w then UPanic else UOk (le_val (firstn w v)).

Definition rt_unmarshal_res (b : list N) : ures := unmarshal rt_min_len rt_pad rt_width b.
Definition aa_unmarshal_res (b : list N) : ures := unmarshal aa_min_len aa_pad aa_width b.

Definition ures_value (r : ures) : option N := match r with UOk f => Some f | _ => None end.
Definition rt_unmarshal (b : list N) : option N := ures_value (rt_unmarshal_res b).
Definition aa_unmarshal (b : list N) : option N := ures_value (aa_unmarshal_res b).

(* b := make([]byte, 4); binary.LittleEndian.PutUint32(b, x.Flags); return ie.NewX(b[:K]...)
   PutUint32: b[i] = byte(v >> 8i).  Flags is a uint32 (N.land with 2^32-1); b[:K] panics when K > cap(b) = 4 (None). *)
Fixpoint put_le (n : nat) (v : N) : list N :=
  match n with O => [] | S k => N.land v 255 :: put_le k (N.shiftr v 8) end.
Definition ie_octets (k : nat) (flags : N) : option (list N) :=
  if Nat.leb k 4 then Some (firstn k (put_le 4 (N.land flags 4294967295))) else None.
Definition rt_ie (flags : N) : option (list N) := ie_octets rt_ie_octets flags.
Definition usar_ie (flags : N) : option (list N) := ie_octets usar_ie_octets flags.

(* func (x *T) NAME() bool { return x.Flags&MASK != 0 }   (MASK from the generated accessor table) *)
Definition accessor_mask (tbl : list (string * N)) (name : string) : option N :=
  match find (fun e => String.eqb (fst e) name) tbl with Some e => Some (snd e) | None => None end.
Definition accessor_m (m : option N) (flags : N) : bool :=
  match m with Some k => flag_of k flags | None => false end.
Definition accessor (tbl : list (string * N)) (name : string) (flags : N) : bool :=
  accessor_m (accessor_mask tbl name) flags.

(* answers of all accessors, in the order of [names], as a bit mask (bit i = answer of names[i]) *)
Fixpoint accmask_m (masks : list (option N)) (flags : N) : N :=
  match masks with
  | [] => 0
  | m :: r => (if accessor_m m flags then 1 else 0) + 2 * accmask_m r flags
  end.
Definition accmask (tbl : list (string * N)) (names : list string) (flags : N) : N :=
  accmask_m (map (accessor_mask tbl) names) flags.

(* switch r { case C1: t.Flags |= D1 ... }  — first matching label, no default *)
Definition set_reporting_trigger (flags r : N) : N :=
  match find (fun e => fst e =? r) set_reporting_trigger_table with
  | Some e => N.lor flags (snd e)
  | None => flags
  end.

(* m.Flags |= BASE; if mnop { m.Flags |= MNOP }     (Flags is a uint8; both masks are < 256) *)
Definition set_flags (flags : N) (mnop : bool) : N :=
  let f := N.lor flags setflags_base in
  (if mnop then N.lor f setflags_mnop else f) mod 256.
