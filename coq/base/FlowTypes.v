(* Types shared by the model of internal/forwarder/flowdesc.go (model/FlowDesc.v) and the
   specification side (monitor/FlowSpec.v).  Definitions only.
   A text is a list of octets (N < 256); every function is total on arbitrary N. *)
From Coq Require Import List NArith Bool String Ascii.
Import ListNotations.
Local Open Scope N_scope.

Definition text := list N.

(* ASCII literal -> octets (used for the keywords only) *)
Definition txt (s : string) : text := map N_of_ascii (list_ascii_of_string s).

(* mirror of forwarder.FlowDesc (flowdesc.go:24-32): Action/Dir are the tokens themselves,
   IP/Mask the octets of net.IPNet (4 or 16 of them), ports [][]uint16 *)
Record fdesc := {
  f_action : text; f_dir : text; f_proto : N;
  f_src_ip : list N; f_src_mask : list N;
  f_dst_ip : list N; f_dst_mask : list N;
  f_sports : list (list N); f_dports : list (list N) }.

(* what the data plane sees: u8 action/direction/protocol, IPv4 net+mask, port ranges lo..hi *)
Record dfilter := {
  d_action : N; d_dir : N; d_proto : N;
  d_src_ip : list N; d_src_mask : list N;
  d_dst_ip : list N; d_dst_mask : list N;
  d_sports : list (N * N); d_dports : list (N * N) }.

(* a netlink attribute as newFlowDesc builds it: nl.AttrU8 or nl.AttrBytes *)
Inductive aval := AU8 (v : N) | ABytes (l : list N).
Definition attr := (N * aval)%type.

(* outcome of a modelled Go function that may return an error; Unmodelled = input outside the
   modelled fragment of Go's libraries (non-ASCII octets, IPv6 literals) *)
Inductive res (A : Type) := Ok (a : A) | Err | Unmodelled.
Arguments Ok {A} a.
Arguments Err {A}.
Arguments Unmodelled {A}.

Definition N_list_eqb (a b : list N) : bool := if list_eq_dec N.eq_dec a b then true else false.
Definition NN_list_eqb (a b : list (list N)) : bool :=
  if list_eq_dec (list_eq_dec N.eq_dec) a b then true else false.

Definition fdesc_eqb (x y : fdesc) : bool :=
  N_list_eqb (f_action x) (f_action y) && N_list_eqb (f_dir x) (f_dir y) && (f_proto x =? f_proto y)
  && N_list_eqb (f_src_ip x) (f_src_ip y) && N_list_eqb (f_src_mask x) (f_src_mask y)
  && N_list_eqb (f_dst_ip x) (f_dst_ip y) && N_list_eqb (f_dst_mask x) (f_dst_mask y)
  && NN_list_eqb (f_sports x) (f_sports y) && NN_list_eqb (f_dports x) (f_dports y).

Definition pair_eqb (a b : N * N) : bool := (fst a =? fst b) && (snd a =? snd b).
Fixpoint pairs_eqb (a b : list (N * N)) : bool :=
  match a, b with
  | [], [] => true
  | x :: a', y :: b' => pair_eqb x y && pairs_eqb a' b'
  | _, _ => false
  end.

Definition dfilter_eqb (x y : dfilter) : bool :=
  (d_action x =? d_action y) && (d_dir x =? d_dir y) && (d_proto x =? d_proto y)
  && N_list_eqb (d_src_ip x) (d_src_ip y) && N_list_eqb (d_src_mask x) (d_src_mask y)
  && N_list_eqb (d_dst_ip x) (d_dst_ip y) && N_list_eqb (d_dst_mask x) (d_dst_mask y)
  && pairs_eqb (d_sports x) (d_sports y) && pairs_eqb (d_dports x) (d_dports y).

Definition aval_eqb (x y : aval) : bool :=
  match x, y with
  | AU8 a, AU8 b => a =? b
  | ABytes a, ABytes b => N_list_eqb a b
  | _, _ => false
  end.
Fixpoint attrs_eqb (a b : list attr) : bool :=
  match a, b with
  | [], [] => true
  | (t, v) :: a', (t', v') :: b' => (t =? t') && aval_eqb v v' && attrs_eqb a' b'
  | _, _ => false
  end.
