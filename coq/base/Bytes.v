(* Bytes and words as N; big/little-endian coding; bit lemmas.  Helpers only. *)
From Coq Require Import List NArith Bool Lia.
Import ListNotations.
Local Open Scope N_scope.

Definition byte_ok (b : N) : Prop := b < 256.
Definition bytes_ok (l : list N) : Prop := Forall byte_ok l.
Definition byte_okb (b : N) : bool := b <? 256.
Definition bytes_okb (l : list N) : bool := forallb byte_okb l.

Lemma bytes_okb_spec l : bytes_okb l = true <-> bytes_ok l.
Proof.
  unfold bytes_okb, bytes_ok. rewrite forallb_forall, Forall_forall.
  split; intros H x Hx; specialize (H x Hx); unfold byte_okb, byte_ok in *;
    [apply N.ltb_lt | apply N.ltb_lt]; assumption.
Qed.

(* big endian *)
Definition be16 (x : N) : list N := [(x / 256) mod 256; x mod 256].
Definition be32 (x : N) : list N :=
  [(x / 16777216) mod 256; (x / 65536) mod 256; (x / 256) mod 256; x mod 256].
Definition rd16 (a b : N) : N := a * 256 + b.
Definition rd32 (a b c d : N) : N := a * 16777216 + b * 65536 + c * 256 + d.

Lemma rd16_be16 x : x < 65536 ->
  match be16 x with [a; b] => rd16 a b = x | _ => False end.
Proof.
  intros H. unfold be16, rd16.
  rewrite (N.mod_small (x / 256)) by (apply N.div_lt_upper_bound; lia).
  rewrite (N.div_mod x 256) at 3 by lia. lia.
Qed.

Lemma rd32_be32 x : x < 4294967296 ->
  match be32 x with [a; b; c; d] => rd32 a b c d = x | _ => False end.
Proof.
  intros H. unfold be32, rd32.
  assert (E1 := N.div_mod x 256 ltac:(lia)).
  assert (E2 := N.div_mod (x / 256) 256 ltac:(lia)).
  assert (E3 := N.div_mod (x / 256 / 256) 256 ltac:(lia)).
  replace (x / 65536) with (x / 256 / 256) by (rewrite N.div_div by lia; reflexivity).
  replace (x / 16777216) with (x / 256 / 256 / 256) by (rewrite !N.div_div by lia; reflexivity).
  assert (x / 256 / 256 / 256 < 256) by (repeat apply N.div_lt_upper_bound; lia).
  rewrite (N.mod_small (x / 256 / 256 / 256)) by assumption. lia.
Qed.

(* little endian: value of a byte list *)
Fixpoint le_val (l : list N) : N :=
  match l with [] => 0 | b :: r => b + 256 * le_val r end.

(* n little-endian octets of x *)
Fixpoint le_bytes (n : nat) (x : N) : list N :=
  match n with O => [] | S k => x mod 256 :: le_bytes k (x / 256) end.

Lemma le_bytes_length n x : length (le_bytes n x) = n.
Proof. revert x; induction n; intros; cbn; auto. Qed.

Lemma le_val_le_bytes n x : le_val (le_bytes n x) = x mod 2 ^ (8 * N.of_nat n).
Proof.
  revert x. induction n as [|n IH]; intros x.
  - cbn. rewrite N.mod_1_r. reflexivity.
  - cbn [le_bytes le_val]. rewrite IH.
    replace (8 * N.of_nat (S n)) with (8 + 8 * N.of_nat n) by lia.
    rewrite N.pow_add_r. change (2 ^ 8) with 256.
    rewrite N.mod_mul_r by (try apply N.pow_nonzero; lia). reflexivity.
Qed.

Lemma le_val_bound l : bytes_ok l -> le_val l < 2 ^ (8 * N.of_nat (length l)).
Proof.
  induction 1 as [|b l Hb Hl IH]; cbn [le_val length].
  - cbn. lia.
  - replace (8 * N.of_nat (S (length l))) with (8 + 8 * N.of_nat (length l)) by lia.
    rewrite N.pow_add_r. change (2 ^ 8) with 256. unfold byte_ok in Hb.
    remember (2 ^ (8 * N.of_nat (length l))) as P. remember (le_val l) as v. lia.
Qed.

Lemma le_val_app a b : le_val (a ++ b) = le_val a + 2 ^ (8 * N.of_nat (length a)) * le_val b.
Proof.
  induction a as [|x a IH]; cbn [app le_val length].
  - change (N.of_nat 0) with 0. rewrite N.mul_0_r, N.pow_0_r. lia.
  - rewrite IH. replace (8 * N.of_nat (S (length a))) with (8 + 8 * N.of_nat (length a)) by lia.
    rewrite N.pow_add_r. change (2 ^ 8) with 256. lia.
Qed.

Lemma le_val_zeros n : le_val (repeat 0 n) = 0.
Proof. induction n; cbn; auto. rewrite IHn. reflexivity. Qed.

(* bits *)
Definition flag_of (mask x : N) : bool := negb (N.land x mask =? 0).

Lemma flag_pow2_testbit k x : flag_of (2 ^ k) x = N.testbit x k.
Proof.
  unfold flag_of. destruct (N.testbit x k) eqn:E.
  - destruct (N.eqb_spec (N.land x (2 ^ k)) 0) as [H|H]; [|reflexivity].
    exfalso. assert (T : N.testbit (N.land x (2 ^ k)) k = true).
    { rewrite N.land_spec, E, N.pow2_bits_true. reflexivity. }
    rewrite H in T. rewrite N.bits_0 in T. discriminate.
  - destruct (N.eqb_spec (N.land x (2 ^ k)) 0) as [H|H]; [reflexivity|].
    exfalso. apply H. apply N.bits_inj. intro n. rewrite N.land_spec, N.bits_0.
    destruct (N.eq_dec n k) as [->|Hn].
    + rewrite E. reflexivity.
    + rewrite N.pow2_bits_false by congruence. apply andb_false_r.
Qed.

Lemma testbit_add_mul_pow2_low a b n i :
  a < 2 ^ n -> i < n -> N.testbit (a + 2 ^ n * b) i = N.testbit a i.
Proof.
  intros Ha Hi. rewrite N.add_comm, N.mul_comm.
  rewrite <- (N.mod_small a (2 ^ n)) at 2 by assumption.
  rewrite <- (N.mod_add a b (2 ^ n)) by (apply N.pow_nonzero; discriminate).
  rewrite N.add_comm. symmetry. rewrite N.mod_pow2_bits_low by assumption. reflexivity.
Qed.

Lemma testbit_add_mul_pow2_high a b n i :
  a < 2 ^ n -> n <= i -> N.testbit (a + 2 ^ n * b) i = N.testbit b (i - n).
Proof.
  intros Ha Hi.
  assert (E : (a + 2 ^ n * b) / 2 ^ n = b).
  { rewrite N.add_comm, N.mul_comm. rewrite N.div_add_l by (apply N.pow_nonzero; discriminate).
    rewrite N.div_small by assumption. lia. }
  rewrite <- E at 2. rewrite N.div_pow2_bits. f_equal. lia.
Qed.

(* bit k of a little-endian value is bit (k mod 8) of octet (k / 8) *)
Lemma le_val_testbit l k : bytes_ok l ->
  N.testbit (le_val l) k = N.testbit (nth (N.to_nat (k / 8)) l 0) (k mod 8).
Proof.
  intros Hl. revert k. induction Hl as [|b l Hb Hl IH]; intros k.
  - cbn [le_val]. rewrite N.bits_0. destruct (N.to_nat (k / 8)); cbn [nth]; rewrite ?N.bits_0; reflexivity.
  - cbn [le_val]. change 256 with (2 ^ 8). unfold byte_ok in Hb. change 256 with (2 ^ 8) in Hb.
    destruct (N.ltb_spec k 8) as [Hk|Hk].
    + rewrite testbit_add_mul_pow2_low by assumption.
      rewrite N.div_small by assumption. rewrite N.mod_small by assumption. reflexivity.
    + rewrite testbit_add_mul_pow2_high by assumption. rewrite IH.
      assert (E : k = (k - 8) + 1 * 8) by lia.
      rewrite E at 3 4. rewrite N.div_add by lia. rewrite N.mod_add by lia.
      replace (N.to_nat ((k - 8) / 8 + 1)) with (S (N.to_nat ((k - 8) / 8))) by lia.
      reflexivity.
Qed.
