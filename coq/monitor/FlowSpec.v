(* Specification side of C16: the IPFilterRule grammar go-upf supports (TS 29.212 5.4.2 / RFC 6733
   IPFilterRule, restricted as in flowdesc.go:10-22), as an abstract syntax [rule] with a printer
   [render] (all admissible spacings and leading zeros) and its meaning [denote]; plus a reference
   decoder [decode_fd] of the netlink attributes handed to gtp5g.  Written from the grammar and
   from go-gtp5gnl's attribute layout, NOT from ParseFlowDesc/newFlowDesc.  Depends on base only. *)
From Coq Require Import List NArith Bool String.
From GoUpf Require Import FlowTypes.
Import ListNotations.
Local Open Scope N_scope.

(* ---------------------------------------------------------------- abstract syntax *)

Inductive addr := Any | Assigned | Host (a b c d : N) | Prefix (a b c d len : N).
Inductive port := Single (p : N) | Range (lo hi : N).
Inductive direction := DIn | DOut.

Record rule := {
  r_dir : direction;
  r_proto : option N;            (* None = the keyword ip *)
  r_src : addr; r_sports : list port;     (* [] = no port list *)
  r_dst : addr; r_dports : list port }.

Definition wf_addr (a : addr) : Prop :=
  match a with
  | Any | Assigned => True
  | Host a b c d => a < 256 /\ b < 256 /\ c < 256 /\ d < 256
  | Prefix a b c d len => a < 256 /\ b < 256 /\ c < 256 /\ d < 256 /\ len <= 32
  end.
Definition wf_port (p : port) : Prop :=
  match p with Single v => v < 65536 | Range lo hi => lo < 65536 /\ hi < 65536 end.
Definition wf_rule (r : rule) : Prop :=
  match r_proto r with Some p => p < 256 | None => True end
  /\ wf_addr (r_src r) /\ wf_addr (r_dst r)
  /\ Forall wf_port (r_sports r) /\ Forall wf_port (r_dports r).

Definition wf_addrb (a : addr) : bool :=
  match a with
  | Any | Assigned => true
  | Host a b c d => (a <? 256) && (b <? 256) && (c <? 256) && (d <? 256)
  | Prefix a b c d len => (a <? 256) && (b <? 256) && (c <? 256) && (d <? 256) && (len <=? 32)
  end.
Definition wf_portb (p : port) : bool :=
  match p with Single v => v <? 65536 | Range lo hi => (lo <? 65536) && (hi <? 65536) end.
Definition wf_ruleb (r : rule) : bool :=
  match r_proto r with Some p => p <? 256 | None => true end
  && wf_addrb (r_src r) && wf_addrb (r_dst r)
  && forallb wf_portb (r_sports r) && forallb wf_portb (r_dports r).

(* ---------------------------------------------------------------- concrete syntax *)

(* the six ASCII white-space characters *)
Inductive ws := WTab | WLF | WVT | WFF | WCR | WSP.
Definition ws_code (w : ws) : N :=
  match w with WTab => 9 | WLF => 10 | WVT => 11 | WFF => 12 | WCR => 13 | WSP => 32 end.

(* layout choices the grammar leaves open: optional white space before and after, at least one
   white-space character between two tokens (gap i follows token i), and the number of leading
   zeros in the numerals where they are admissible (protocol, prefix lengths, ports - not in
   address octets) *)
Record spacing := {
  sp_lead : list ws; sp_trail : list ws; sp_gap : nat -> ws * list ws;
  z_proto : nat; z_slen : nat; z_dlen : nat;
  z_sports : list (nat * nat); z_dports : list (nat * nat) }.

(* decimal numeral without leading zeros *)
Fixpoint dec_aux (fuel : nat) (n : N) (acc : text) : text :=
  match fuel with
  | O => acc
  | S k => let acc' := (48 + n mod 10) :: acc in
           if n <? 10 then acc' else dec_aux k (n / 10) acc'
  end.
Definition dec (n : N) : text := dec_aux (S (N.to_nat (N.size n))) n [].
Definition num (z : nat) (n : N) : text := (repeat 48 z ++ dec n)%list.

Definition dotted (a b c d : N) : text := (dec a ++ 46 :: dec b ++ 46 :: dec c ++ 46 :: dec d)%list.

Definition render_addr (a : addr) (zlen : nat) : text :=
  match a with
  | Any => txt "any"
  | Assigned => txt "assigned"
  | Host a b c d => dotted a b c d
  | Prefix a b c d len => (dotted a b c d ++ 47 :: num zlen len)%list
  end.

Definition render_port (p : port) (z : nat * nat) : text :=
  match p with
  | Single v => num (fst z) v
  | Range lo hi => (num (fst z) lo ++ 45 :: num (snd z) hi)%list
  end.

Fixpoint render_ports (ps : list port) (zs : list (nat * nat)) : text :=
  match ps with
  | [] => []
  | p :: rest =>
    (render_port p (hd (0%nat, 0%nat) zs)
     ++ match rest with [] => [] | _ => 44 :: render_ports rest (tl zs) end)%list
  end.

Definition opt_tok (ps : list port) (zs : list (nat * nat)) : list text :=
  match ps with [] => [] | _ => [render_ports ps zs] end.

Definition tokens (r : rule) (sp : spacing) : list text :=
  ([ txt "permit";
     match r_dir r with DIn => txt "in" | DOut => txt "out" end;
     match r_proto r with None => txt "ip" | Some p => num (z_proto sp) p end;
     txt "from";
     render_addr (r_src r) (z_slen sp) ]
   ++ opt_tok (r_sports r) (z_sports sp)
   ++ [ txt "to"; render_addr (r_dst r) (z_dlen sp) ]
   ++ opt_tok (r_dports r) (z_dports sp))%list.

Definition gap_text (g : ws * list ws) : text := ws_code (fst g) :: map ws_code (snd g).

Fixpoint join (toks : list text) (gap : nat -> ws * list ws) (i : nat) : text :=
  match toks with
  | [] => []
  | t :: rest =>
    (t ++ match rest with [] => [] | _ => gap_text (gap i) ++ join rest gap (S i) end)%list
  end.

Definition render (r : rule) (sp : spacing) : text :=
  (map ws_code (sp_lead sp) ++ join (tokens r sp) (sp_gap sp) 0 ++ map ws_code (sp_trail sp))%list.

(* ---------------------------------------------------------------- meaning *)

(* octet i (0..3) of the netmask of a /len prefix *)
Definition mask_octet (len : N) (i : N) : N := 256 - 2 ^ (8 - N.min 8 (len - 8 * i)).
Definition prefix_mask (len : N) : list N :=
  [mask_octet len 0; mask_octet len 1; mask_octet len 2; mask_octet len 3].

(* (network, mask) in the representation of Go's net.IPNet: any/assigned are the all-zero
   16-octet net ::/0 (net.IPv6zero, CIDRMask(0,128)); IPv4 nets have 4 octets *)
Definition denote_addr (a : addr) : list N * list N :=
  match a with
  | Any | Assigned => (repeat 0 16, repeat 0 16)
  | Host a b c d => ([a; b; c; d], [255; 255; 255; 255])
  | Prefix a b c d len =>
    let m := prefix_mask len in
    (match m with
     | [m0; m1; m2; m3] => [N.land a m0; N.land b m1; N.land c m2; N.land d m3]
     | _ => []
     end, m)
  end.

Definition denote_port (p : port) : list N :=
  match p with Single v => [v] | Range lo hi => [lo; hi] end.

Definition denote (r : rule) : fdesc :=
  {| f_action := txt "permit";
     f_dir := match r_dir r with DIn => txt "in" | DOut => txt "out" end;
     f_proto := match r_proto r with None => 255 | Some p => p end;
     f_src_ip := fst (denote_addr (r_src r)); f_src_mask := snd (denote_addr (r_src r));
     f_dst_ip := fst (denote_addr (r_dst r)); f_dst_mask := snd (denote_addr (r_dst r));
     f_sports := map denote_port (r_sports r); f_dports := map denote_port (r_dports r) |}.

(* the same rule as the data plane is to see it: IPv4 net and mask (any = 0.0.0.0/0), ports as
   inclusive ranges *)
Definition first4 (l : list N) : option (list N) :=
  match l with a :: b :: c :: d :: _ => Some [a; b; c; d] | _ => None end.

Definition dp_addr (a : addr) : list N * list N :=
  match a with
  | Any | Assigned => ([0; 0; 0; 0], [0; 0; 0; 0])
  | _ => denote_addr a
  end.
Definition dp_port (p : port) : N * N :=
  match p with Single v => (v, v) | Range lo hi => (lo, hi) end.

Definition denote_dp (r : rule) : dfilter :=
  {| d_action := 1;
     d_dir := match r_dir r with DIn => 1 | DOut => 2 end;
     d_proto := match r_proto r with None => 255 | Some p => p end;
     d_src_ip := fst (dp_addr (r_src r)); d_src_mask := snd (dp_addr (r_src r));
     d_dst_ip := fst (dp_addr (r_dst r)); d_dst_mask := snd (dp_addr (r_dst r));
     d_sports := map dp_port (r_sports r); d_dports := map dp_port (r_dports r) |}.

Definition swap_d (f : dfilter) : dfilter :=
  {| d_action := d_action f; d_dir := d_dir f; d_proto := d_proto f;
     d_src_ip := d_dst_ip f; d_src_mask := d_dst_mask f; d_dst_ip := d_src_ip f; d_dst_mask := d_src_mask f;
     d_sports := d_dports f; d_dports := d_sports f |}.
Definition swap_if (up : bool) (f : dfilter) : dfilter := if up then swap_d f else f.

(* data-plane reading of an arbitrary parsed FlowDesc (used as a monitor on every accepted
   string, grammar-derived or not) *)
Fixpoint map_o {A B} (f : A -> option B) (l : list A) : option (list B) :=
  match l with
  | [] => Some []
  | x :: r => match f x, map_o f r with Some y, Some ys => Some (y :: ys) | _, _ => None end
  end.

Definition dp_of (f : fdesc) : option dfilter :=
  let rng (p : list N) := match p with [v] => Some (v, v) | [lo; hi] => Some (lo, hi) | _ => None end in
  match (if N_list_eqb (f_dir f) (txt "in") then Some 1 else if N_list_eqb (f_dir f) (txt "out") then Some 2 else None),
        first4 (f_src_ip f), first4 (f_src_mask f), first4 (f_dst_ip f), first4 (f_dst_mask f),
        map_o rng (f_sports f), map_o rng (f_dports f) with
  | Some d, Some si, Some sm, Some di, Some dm, Some sp, Some dp =>
    if N_list_eqb (f_action f) (txt "permit") then
      Some {| d_action := 1; d_dir := d; d_proto := f_proto f;
              d_src_ip := si; d_src_mask := sm; d_dst_ip := di; d_dst_mask := dm;
              d_sports := sp; d_dports := dp |}
    else None
  | _, _, _, _, _, _, _ => None
  end.

(* ---------------------------------------------------------------- reference decoder *)

(* FLOW_DESCRIPTION_SRC_PORT/DEST_PORT payload: native-endian (little-endian) u32 words,
   low port in the upper half, high port in the lower half *)
Fixpoint unpack (bs : list N) : option (list (N * N)) :=
  match bs with
  | [] => Some []
  | b0 :: b1 :: b2 :: b3 :: r =>
    let w := b0 + 256 * b1 + 65536 * b2 + 16777216 * b3 in
    match unpack r with Some l => Some ((w / 65536, w mod 65536) :: l) | None => None end
  | _ => None
  end.

(* port lists in Go's representation: [p] or [lo; hi], all values 16-bit *)
Definition wf_entry (p : list N) : Prop :=
  match p with [a] => a < 65536 | [a; b] => a < 65536 /\ b < 65536 | _ => False end.
Definition entry_range (p : list N) : N * N :=
  match p with [a] => (a, a) | [a; b] => (a, b) | _ => (0, 0) end.

(* netlink semantics: the last attribute of a type wins *)
Fixpoint get_attr (t : N) (al : list attr) (cur : option aval) : option aval :=
  match al with
  | [] => cur
  | (t', v) :: r => get_attr t r (if t' =? t then Some v else cur)
  end.
Definition get_u8 (t : N) (al : list attr) : option N :=
  match get_attr t al None with Some (AU8 v) => Some v | _ => None end.
Definition get_bytes (t : N) (al : list attr) : option (list N) :=
  match get_attr t al None with Some (ABytes l) => Some l | _ => None end.
Definition bind {A B} (x : option A) (f : A -> option B) : option B :=
  match x with Some a => f a | None => None end.

Definition decode_fd (al : list attr) : option dfilter :=
  bind (get_u8 1 al) (fun act =>
  bind (get_u8 2 al) (fun dir =>
  bind (get_u8 3 al) (fun proto =>
  bind (bind (get_bytes 4 al) first4) (fun si =>
  bind (bind (get_bytes 5 al) first4) (fun sm =>
  bind (bind (get_bytes 6 al) first4) (fun di =>
  bind (bind (get_bytes 7 al) first4) (fun dm =>
  bind (bind (get_bytes 8 al) unpack) (fun sp =>
  bind (bind (get_bytes 9 al) unpack) (fun dp =>
  Some {| d_action := act; d_dir := dir; d_proto := proto;
          d_src_ip := si; d_src_mask := sm; d_dst_ip := di; d_dst_mask := dm;
          d_sports := sp; d_dports := dp |}))))))))).

(* ---------------------------------------------------------------- monitors (boolean) *)

Definition odf_eqb (a b : option dfilter) : bool :=
  match a, b with Some x, Some y => dfilter_eqb x y | _, _ => false end.

(* a grammar-derived string: what the implementation parsed and packed is what the rule denotes *)
Definition mon_rule (r : rule) (up : bool) (parsed : fdesc) (al : list attr) : bool :=
  fdesc_eqb parsed (denote r) && odf_eqb (decode_fd al) (Some (swap_if up (denote_dp r))).

(* any accepted string: the packed attributes decode to the parsed filter (exchanged if uplink) *)
Definition mon_pack (up : bool) (parsed : fdesc) (al : list attr) : bool :=
  odf_eqb (decode_fd al) (option_map (swap_if up) (dp_of parsed)).

(* any accepted ASCII string has the keyword skeleton of the grammar, and its protocol token is
   the keyword ip or a decimal numeral whose value (unbounded) is the protocol reported.
   Own tokenizer and numeral reader, independent of the model's. *)
Definition isws (c : N) : bool := existsb (N.eqb c) [9; 10; 11; 12; 13; 32].
Fixpoint toks_aux (l cur : text) : list text :=
  match l with
  | [] => match cur with [] => [] | _ => [rev cur] end
  | c :: r =>
    if isws c then match cur with [] => toks_aux r [] | _ => rev cur :: toks_aux r [] end
    else toks_aux r (c :: cur)
  end.
Definition toks (s : text) : list text := toks_aux s [].
Definition dval (l : text) : option N :=
  match l with
  | [] => None
  | _ => fold_left (fun acc c => match acc with
                                 | Some v => if (48 <=? c) && (c <=? 57) then Some (10 * v + (c - 48)) else None
                                 | None => None end) l (Some 0)
  end.

Definition mon_skeleton (s : text) (parsed : fdesc) : bool :=
  if existsb (fun c => 128 <=? c) s then true else
  match toks s with
  | a :: d :: p :: fr :: _ :: t5 :: rest =>
    N_list_eqb a (txt "permit") && N_list_eqb d (f_dir parsed)
    && (N_list_eqb d (txt "in") || N_list_eqb d (txt "out")) && N_list_eqb fr (txt "from")
    && (if N_list_eqb p (txt "ip") then f_proto parsed =? 255
        else match dval p with Some v => v =? f_proto parsed | None => false end)
    && match rest with
       | [] => false
       | t6 :: rest' => N_list_eqb t5 (txt "to")
                        || (N_list_eqb t6 (txt "to") && negb (match rest' with [] => true | _ => false end))
       end
  | _ => false
  end.
