(* C03 - specification side: strict reference decoders of the gtp5g netlink format for QER, URR and BAR requests
   (written from go-gtp5gnl's DecodeQER/DecodeMBR/DecodeGBR, DecodeURR/decodeVolumeThreshold/decodeVolumeQuota, DecodeBAR;
   integer attributes must have exactly their documented width, unknown attributes are rejected, the four parts of a bit
   rate must all be present), the order-free specification of what a Create/Update QER/URR/BAR grouped IE must produce,
   the boolean well-formedness predicates, and the specification of the periodic registration.
   Two attributes are decoded leniently and said so: URR_MEASUREMENT_INFO (the driver sends 8 octets, gtp5g and go-gtp5gnl read
   the first: accepted iff all further octets are 0, so that both readings agree) and URR_MEASUREMENT_PERIOD (any 4 octets;
   its value - a time.Duration squeezed into 32 bits, a TODO in the code - is not part of the property's list).
   Nothing here refers to model/RulesQerUrrBar.v except the data type of calls to the periodic server. *)
From Coq Require Import List NArith Bool.
From GoUpf Require Import Bytes Nlattr PfcpIe3 RulesGen FlagsGen RulesSpec.
Import ListNotations.
Local Open Scope N_scope.

Record dqer := { q_link : option N; q_id : option N; q_seid : option N; q_gate : option N;
                 q_mbr : option (N * N); q_gbr : option (N * N);      (* (uplink, downlink), 40-bit values *)
                 q_corr : option N; q_rqi : option N; q_qfi : option N; q_ppi : option N }.
Record dvol := { v_flags : option N; v_tot : option N; v_ul : option N; v_dl : option N }.
Record durr := { u_link : option N; u_id : option N; u_seid : option N; u_method : option N; u_trigger : option N;
                 u_info : option N; u_volthr : option dvol; u_volquota : option dvol }.
Record dbar := { b_link : option N; b_id : option N; b_seid : option N; b_delay : option N; b_count : option N }.

(* ---- QER ---- *)
Record drate := { ra_uh : option N; ra_ul : option N; ra_dh : option N; ra_dl : option N }.
Definition dec_rate_step (t1 t2 t3 t4 : N) (d : drate) (a : attr) : option drate :=
  let '(A t v) := a in
  if t =? t1 then bind (rd_uint 4 v) (fun x => Some {| ra_uh := Some x; ra_ul := ra_ul d; ra_dh := ra_dh d; ra_dl := ra_dl d |})
  else if t =? t2 then bind (rd_uint 1 v) (fun x => Some {| ra_uh := ra_uh d; ra_ul := Some x; ra_dh := ra_dh d; ra_dl := ra_dl d |})
  else if t =? t3 then bind (rd_uint 4 v) (fun x => Some {| ra_uh := ra_uh d; ra_ul := ra_ul d; ra_dh := Some x; ra_dl := ra_dl d |})
  else if t =? t4 then bind (rd_uint 1 v) (fun x => Some {| ra_uh := ra_uh d; ra_ul := ra_ul d; ra_dh := ra_dh d; ra_dl := Some x |})
  else None.
(* value = high32 * 256 + low8 per direction *)
Definition dec_rate (t1 t2 t3 t4 : N) (l : list attr) : option (N * N) :=
  bind (ofold (dec_rate_step t1 t2 t3 t4) l {| ra_uh := None; ra_ul := None; ra_dh := None; ra_dl := None |}) (fun d =>
    match ra_uh d, ra_ul d, ra_dh d, ra_dl d with
    | Some a, Some b, Some c, Some e => Some (a * 256 + b, c * 256 + e)
    | _, _, _, _ => None
    end).

Definition qer0 : dqer := {| q_link := None; q_id := None; q_seid := None; q_gate := None; q_mbr := None; q_gbr := None;
                             q_corr := None; q_rqi := None; q_qfi := None; q_ppi := None |}.
Definition dec_qer_step (d : dqer) (a : attr) : option dqer :=
  let '(A t v) := a in
  if t =? nl_LINK then bind (rd_uint 4 v) (fun x =>
    Some {| q_link := Some x; q_id := q_id d; q_seid := q_seid d; q_gate := q_gate d; q_mbr := q_mbr d; q_gbr := q_gbr d;
            q_corr := q_corr d; q_rqi := q_rqi d; q_qfi := q_qfi d; q_ppi := q_ppi d |})
  else if t =? nl_QER_ID then bind (rd_uint 4 v) (fun x =>
    Some {| q_link := q_link d; q_id := Some x; q_seid := q_seid d; q_gate := q_gate d; q_mbr := q_mbr d; q_gbr := q_gbr d;
            q_corr := q_corr d; q_rqi := q_rqi d; q_qfi := q_qfi d; q_ppi := q_ppi d |})
  else if t =? nl_QER_SEID then bind (rd_uint 8 v) (fun x =>
    Some {| q_link := q_link d; q_id := q_id d; q_seid := Some x; q_gate := q_gate d; q_mbr := q_mbr d; q_gbr := q_gbr d;
            q_corr := q_corr d; q_rqi := q_rqi d; q_qfi := q_qfi d; q_ppi := q_ppi d |})
  else if t =? nl_QER_GATE then bind (rd_uint 1 v) (fun x =>
    Some {| q_link := q_link d; q_id := q_id d; q_seid := q_seid d; q_gate := Some x; q_mbr := q_mbr d; q_gbr := q_gbr d;
            q_corr := q_corr d; q_rqi := q_rqi d; q_qfi := q_qfi d; q_ppi := q_ppi d |})
  else if t =? nl_QER_MBR then
    bind (bind (rd_nest v) (dec_rate nl_QER_MBR_UL_HIGH32 nl_QER_MBR_UL_LOW8 nl_QER_MBR_DL_HIGH32 nl_QER_MBR_DL_LOW8)) (fun x =>
    Some {| q_link := q_link d; q_id := q_id d; q_seid := q_seid d; q_gate := q_gate d; q_mbr := Some x; q_gbr := q_gbr d;
            q_corr := q_corr d; q_rqi := q_rqi d; q_qfi := q_qfi d; q_ppi := q_ppi d |})
  else if t =? nl_QER_GBR then
    bind (bind (rd_nest v) (dec_rate nl_QER_GBR_UL_HIGH32 nl_QER_GBR_UL_LOW8 nl_QER_GBR_DL_HIGH32 nl_QER_GBR_DL_LOW8)) (fun x =>
    Some {| q_link := q_link d; q_id := q_id d; q_seid := q_seid d; q_gate := q_gate d; q_mbr := q_mbr d; q_gbr := Some x;
            q_corr := q_corr d; q_rqi := q_rqi d; q_qfi := q_qfi d; q_ppi := q_ppi d |})
  else if t =? nl_QER_CORR_ID then bind (rd_uint 4 v) (fun x =>
    Some {| q_link := q_link d; q_id := q_id d; q_seid := q_seid d; q_gate := q_gate d; q_mbr := q_mbr d; q_gbr := q_gbr d;
            q_corr := Some x; q_rqi := q_rqi d; q_qfi := q_qfi d; q_ppi := q_ppi d |})
  else if t =? nl_QER_RQI then bind (rd_uint 1 v) (fun x =>
    Some {| q_link := q_link d; q_id := q_id d; q_seid := q_seid d; q_gate := q_gate d; q_mbr := q_mbr d; q_gbr := q_gbr d;
            q_corr := q_corr d; q_rqi := Some x; q_qfi := q_qfi d; q_ppi := q_ppi d |})
  else if t =? nl_QER_QFI then bind (rd_uint 1 v) (fun x =>
    Some {| q_link := q_link d; q_id := q_id d; q_seid := q_seid d; q_gate := q_gate d; q_mbr := q_mbr d; q_gbr := q_gbr d;
            q_corr := q_corr d; q_rqi := q_rqi d; q_qfi := Some x; q_ppi := q_ppi d |})
  else if t =? nl_QER_PPI then bind (rd_uint 1 v) (fun x =>
    Some {| q_link := q_link d; q_id := q_id d; q_seid := q_seid d; q_gate := q_gate d; q_mbr := q_mbr d; q_gbr := q_gbr d;
            q_corr := q_corr d; q_rqi := q_rqi d; q_qfi := q_qfi d; q_ppi := Some x |})
  else None.
Definition ref_decode_qer (l : list attr) : option dqer := ofold dec_qer_step l qer0.

(* ---- URR ---- *)
Definition dec_vol_step (t1 t2 t3 t4 : N) (d : dvol) (a : attr) : option dvol :=
  let '(A t v) := a in
  if t =? t1 then bind (rd_uint 1 v) (fun x => Some {| v_flags := Some x; v_tot := v_tot d; v_ul := v_ul d; v_dl := v_dl d |})
  else if t =? t2 then bind (rd_uint 8 v) (fun x => Some {| v_flags := v_flags d; v_tot := Some x; v_ul := v_ul d; v_dl := v_dl d |})
  else if t =? t3 then bind (rd_uint 8 v) (fun x => Some {| v_flags := v_flags d; v_tot := v_tot d; v_ul := Some x; v_dl := v_dl d |})
  else if t =? t4 then bind (rd_uint 8 v) (fun x => Some {| v_flags := v_flags d; v_tot := v_tot d; v_ul := v_ul d; v_dl := Some x |})
  else None.
Definition vol0 : dvol := {| v_flags := None; v_tot := None; v_ul := None; v_dl := None |}.
Definition dec_vol (t1 t2 t3 t4 : N) (l : list attr) : option dvol := ofold (dec_vol_step t1 t2 t3 t4) l vol0.

(* first octet, provided every further octet is 0 (then an 8-, 16-, 32- or 64-bit little-endian read gives the same) *)
Definition rd_first_octet (v : val) : option N :=
  if is_nest v then None else
  match payload v with
  | b :: r => if forallb (fun x => x =? 0) r then Some b else None
  | [] => None
  end.

Definition urr0 : durr := {| u_link := None; u_id := None; u_seid := None; u_method := None; u_trigger := None; u_info := None;
                             u_volthr := None; u_volquota := None |}.
Definition dec_urr_step (d : durr) (a : attr) : option durr :=
  let '(A t v) := a in
  if t =? nl_LINK then bind (rd_uint 4 v) (fun x =>
    Some {| u_link := Some x; u_id := u_id d; u_seid := u_seid d; u_method := u_method d; u_trigger := u_trigger d;
            u_info := u_info d; u_volthr := u_volthr d; u_volquota := u_volquota d |})
  else if t =? nl_URR_ID then bind (rd_uint 4 v) (fun x =>
    Some {| u_link := u_link d; u_id := Some x; u_seid := u_seid d; u_method := u_method d; u_trigger := u_trigger d;
            u_info := u_info d; u_volthr := u_volthr d; u_volquota := u_volquota d |})
  else if t =? nl_URR_SEID then bind (rd_uint 8 v) (fun x =>
    Some {| u_link := u_link d; u_id := u_id d; u_seid := Some x; u_method := u_method d; u_trigger := u_trigger d;
            u_info := u_info d; u_volthr := u_volthr d; u_volquota := u_volquota d |})
  else if t =? nl_URR_MEASUREMENT_METHOD then bind (rd_uint 1 v) (fun x =>
    Some {| u_link := u_link d; u_id := u_id d; u_seid := u_seid d; u_method := Some x; u_trigger := u_trigger d;
            u_info := u_info d; u_volthr := u_volthr d; u_volquota := u_volquota d |})
  else if t =? nl_URR_REPORTING_TRIGGER then bind (rd_uint 4 v) (fun x =>
    Some {| u_link := u_link d; u_id := u_id d; u_seid := u_seid d; u_method := u_method d; u_trigger := Some x;
            u_info := u_info d; u_volthr := u_volthr d; u_volquota := u_volquota d |})
  else if t =? nl_URR_MEASUREMENT_PERIOD then bind (rd_uint 4 v) (fun _ => Some d)
  else if t =? nl_URR_MEASUREMENT_INFO then bind (rd_first_octet v) (fun x =>
    Some {| u_link := u_link d; u_id := u_id d; u_seid := u_seid d; u_method := u_method d; u_trigger := u_trigger d;
            u_info := Some x; u_volthr := u_volthr d; u_volquota := u_volquota d |})
  else if t =? nl_URR_VOLUME_THRESHOLD then
    bind (bind (rd_nest v) (dec_vol nl_URR_VOLUME_THRESHOLD_FLAG nl_URR_VOLUME_THRESHOLD_TOVOL nl_URR_VOLUME_THRESHOLD_UVOL
                                    nl_URR_VOLUME_THRESHOLD_DVOL)) (fun x =>
    Some {| u_link := u_link d; u_id := u_id d; u_seid := u_seid d; u_method := u_method d; u_trigger := u_trigger d;
            u_info := u_info d; u_volthr := Some x; u_volquota := u_volquota d |})
  else if t =? nl_URR_VOLUME_QUOTA then
    bind (bind (rd_nest v) (dec_vol nl_URR_VOLUME_QUOTA_FLAG nl_URR_VOLUME_QUOTA_TOVOL nl_URR_VOLUME_QUOTA_UVOL
                                    nl_URR_VOLUME_QUOTA_DVOL)) (fun x =>
    Some {| u_link := u_link d; u_id := u_id d; u_seid := u_seid d; u_method := u_method d; u_trigger := u_trigger d;
            u_info := u_info d; u_volthr := u_volthr d; u_volquota := Some x |})
  else None.
Definition ref_decode_urr (l : list attr) : option durr := ofold dec_urr_step l urr0.

(* ---- BAR ---- *)
Definition bar0 : dbar := {| b_link := None; b_id := None; b_seid := None; b_delay := None; b_count := None |}.
Definition dec_bar_step (d : dbar) (a : attr) : option dbar :=
  let '(A t v) := a in
  if t =? nl_LINK then bind (rd_uint 4 v) (fun x =>
    Some {| b_link := Some x; b_id := b_id d; b_seid := b_seid d; b_delay := b_delay d; b_count := b_count d |})
  else if t =? nl_BAR_ID then bind (rd_uint 1 v) (fun x =>
    Some {| b_link := b_link d; b_id := Some x; b_seid := b_seid d; b_delay := b_delay d; b_count := b_count d |})
  else if t =? nl_BAR_SEID then bind (rd_uint 8 v) (fun x =>
    Some {| b_link := b_link d; b_id := b_id d; b_seid := Some x; b_delay := b_delay d; b_count := b_count d |})
  else if t =? nl_BAR_DOWNLINK_DATA_NOTIFICATION_DELAY then bind (rd_uint 1 v) (fun x =>
    Some {| b_link := b_link d; b_id := b_id d; b_seid := b_seid d; b_delay := Some x; b_count := b_count d |})
  else if t =? nl_BAR_BUFFERING_PACKETS_COUNT then bind (rd_uint 2 v) (fun x =>
    Some {| b_link := b_link d; b_id := b_id d; b_seid := b_seid d; b_delay := b_delay d; b_count := Some x |})
  else None.
Definition ref_decode_bar (l : list attr) : option dbar := ofold dec_bar_step l bar0.

Definition ref_decode_req {D : Type} (cmd0 : N) (dec : list attr -> option D) (cmd fl : N) (l : list attr) : option (bool * D) :=
  if cmd =? cmd0 then bind (op_of_flags fl) (fun c => option_map (pair c) (dec l)) else None.

(* ------------------------------------------------------------------ specification (order-free) *)
Definition selq {X : Type} (f : qie -> option X) (l : list qie) : list X := flat_map (fun x => o2l (f x)) l.
Definition theq {X : Type} (f : qie -> option X) (l : list qie) : option X := hd_error (selq f l).

Definition h_qerid i := match i with QQerId v => Some v | _ => None end.
Definition h_corr i := match i with QCorrId v => Some v | _ => None end.
Definition h_gate i := match i with QGate v => Some v | _ => None end.
Definition h_mbr i := match i with QMbr u d => Some (u, d) | _ => None end.
Definition h_gbr i := match i with QGbr u d => Some (u, d) | _ => None end.
Definition h_qfi i := match i with QQfi v => Some v | _ => None end.
Definition h_rqi i := match i with QRqi v => Some v | _ => None end.
Definition h_ppi i := match i with QPpi v => Some v | _ => None end.
Definition h_urrid i := match i with QUrrId v => Some v | _ => None end.
Definition h_method i := match i with QMethod v => Some v | _ => None end.
Definition h_trig i := match i with QTriggers b => Some b | _ => None end.
Definition h_period i := match i with QPeriod ns => Some ns | _ => None end.
Definition h_info i := match i with QInfo v => Some v | _ => None end.
Definition h_volthr i := match i with QVolThr f t u d => Some (f, t, u, d) | _ => None end.
Definition h_volquota i := match i with QVolQuota f t u d => Some (f, t, u, d) | _ => None end.
Definition h_barid i := match i with QBarId v => Some v | _ => None end.
Definition h_delay i := match i with QDelay ns => Some ns | _ => None end.
Definition h_count i := match i with QCount v => Some v | _ => None end.
Definition h_bad i := match i with QBad t => Some t | _ => None end.

Definition spec_qer (link seid : N) (ies : list qie) : dqer :=
  {| q_link := Some link; q_id := theq h_qerid ies; q_seid := Some seid; q_gate := theq h_gate ies;
     q_mbr := theq h_mbr ies; q_gbr := theq h_gbr ies; q_corr := theq h_corr ies;
     q_rqi := theq h_rqi ies; q_qfi := theq h_qfi ies; q_ppi := theq h_ppi ies |}.

(* reporting-trigger bits: octet 5 is bits 0-7 (PERIO = bit 0), octet 6 bits 8-15, octet 7 bits 16-23 (TS 29.244 8.2.19) *)
Definition spec_trigger (b : list N) : N :=
  match b with
  | [b0; b1] => b0 + 256 * b1
  | b0 :: b1 :: b2 :: _ => b0 + 256 * b1 + 65536 * b2
  | _ => 0
  end.
Definition spec_vol (x : N * N * N * N) : dvol :=
  let '(fl, tot, ul, dl) := x in
  {| v_flags := Some fl; v_tot := if N.testbit fl 0 then Some tot else None;
     v_ul := if N.testbit fl 1 then Some ul else None; v_dl := if N.testbit fl 2 then Some dl else None |}.
Definition spec_urr (link seid : N) (ies : list qie) : durr :=
  {| u_link := Some link; u_id := theq h_urrid ies; u_seid := Some seid; u_method := theq h_method ies;
     u_trigger := option_map spec_trigger (theq h_trig ies); u_info := theq h_info ies;
     u_volthr := option_map spec_vol (theq h_volthr ies); u_volquota := option_map spec_vol (theq h_volquota ies) |}.

(* the IE's delay value counts units of 50 ms; the accessor hands out nanoseconds *)
Definition spec_bar (link seid : N) (ies : list qie) : dbar :=
  {| b_link := Some link; b_id := theq h_barid ies; b_seid := Some seid;
     b_delay := option_map (fun ns => ns / 50000000) (theq h_delay ies); b_count := theq h_count ies |}.

(* ---- periodic registration: a URR is registered with period p iff its triggers include PERIO, and then p is its period ---- *)
Definition perio_bit (ies : list qie) : bool :=
  match theq h_trig ies with Some b => N.testbit (spec_trigger b) 0 | None => false end.

(* ------------------------------------------------------------------ well-formedness *)
Definition wf_qer (ies : list qie) : bool :=
  eq1 (selq h_qerid ies) && le1 (selq h_corr ies) && le1 (selq h_gate ies) && le1 (selq h_mbr ies) && le1 (selq h_gbr ies)
  && le1 (selq h_qfi ies) && le1 (selq h_rqi ies) && le1 (selq h_ppi ies)
  && all_lt 4294967296 (selq h_qerid ies) && all_lt 4294967296 (selq h_corr ies) && all_lt 256 (selq h_gate ies)
  && forallb (fun p => (fst p <? 1099511627776) && (snd p <? 1099511627776)) (selq h_mbr ies)
  && forallb (fun p => (fst p <? 1099511627776) && (snd p <? 1099511627776)) (selq h_gbr ies)
  && all_lt 256 (selq h_qfi ies) && all_lt 256 (selq h_rqi ies) && all_lt 256 (selq h_ppi ies)
  && match selq h_bad ies with [] => true | _ => false end.

Definition wf_vol (x : N * N * N * N) : bool :=
  let '(fl, tot, ul, dl) := x in
  (fl <? 256) && (tot <? 18446744073709551616) && (ul <? 18446744073709551616) && (dl <? 18446744073709551616).

(* create = true: Create URR (PERIO then needs a positive period) *)
Definition wf_urr (create : bool) (ies : list qie) : bool :=
  eq1 (selq h_urrid ies) && le1 (selq h_method ies) && le1 (selq h_trig ies) && le1 (selq h_period ies) && le1 (selq h_info ies)
  && le1 (selq h_volthr ies) && le1 (selq h_volquota ies)
  && all_lt 4294967296 (selq h_urrid ies) && all_lt 256 (selq h_method ies) && all_lt 256 (selq h_info ies)
  && forallb (fun b => Nat.leb 2 (length b) && Nat.leb (length b) 3 && all_lt 256 b) (selq h_trig ies)
  && forallb (fun ns => (0 <? ns) && (ns <? 4294967296 * 1000000000)) (selq h_period ies)
  && forallb wf_vol (selq h_volthr ies) && forallb wf_vol (selq h_volquota ies)
  && (if create && perio_bit ies then eq1 (selq h_period ies) else true)
  && match selq h_bad ies with [] => true | _ => false end.

Definition wf_bar (ies : list qie) : bool :=
  eq1 (selq h_barid ies) && le1 (selq h_delay ies) && le1 (selq h_count ies)
  && all_lt 256 (selq h_barid ies) && all_lt 256 (selq h_count ies)
  && forallb (fun ns => (ns mod 50000000 =? 0) && (ns / 50000000 <? 256)) (selq h_delay ies)
  && match selq h_bad ies with [] => true | _ => false end.

(* ------------------------------------------------------------------ boolean monitors over captured requests *)
Definition dqer_eqb (a b : dqer) : bool :=
  opt_eqb N.eqb (q_link a) (q_link b) && opt_eqb N.eqb (q_id a) (q_id b) && opt_eqb N.eqb (q_seid a) (q_seid b)
  && opt_eqb N.eqb (q_gate a) (q_gate b) && opt_eqb (pair_eqb N.eqb N.eqb) (q_mbr a) (q_mbr b)
  && opt_eqb (pair_eqb N.eqb N.eqb) (q_gbr a) (q_gbr b) && opt_eqb N.eqb (q_corr a) (q_corr b)
  && opt_eqb N.eqb (q_rqi a) (q_rqi b) && opt_eqb N.eqb (q_qfi a) (q_qfi b) && opt_eqb N.eqb (q_ppi a) (q_ppi b).
Definition dvol_eqb (a b : dvol) : bool :=
  opt_eqb N.eqb (v_flags a) (v_flags b) && opt_eqb N.eqb (v_tot a) (v_tot b) && opt_eqb N.eqb (v_ul a) (v_ul b)
  && opt_eqb N.eqb (v_dl a) (v_dl b).
Definition durr_eqb (a b : durr) : bool :=
  opt_eqb N.eqb (u_link a) (u_link b) && opt_eqb N.eqb (u_id a) (u_id b) && opt_eqb N.eqb (u_seid a) (u_seid b)
  && opt_eqb N.eqb (u_method a) (u_method b) && opt_eqb N.eqb (u_trigger a) (u_trigger b) && opt_eqb N.eqb (u_info a) (u_info b)
  && opt_eqb dvol_eqb (u_volthr a) (u_volthr b) && opt_eqb dvol_eqb (u_volquota a) (u_volquota b).
Definition dbar_eqb (a b : dbar) : bool :=
  opt_eqb N.eqb (b_link a) (b_link b) && opt_eqb N.eqb (b_id a) (b_id b) && opt_eqb N.eqb (b_seid a) (b_seid b)
  && opt_eqb N.eqb (b_delay a) (b_delay b) && opt_eqb N.eqb (b_count a) (b_count b).

Definition qer_req_ok (create : bool) (link seid : N) (ies : list qie) (cmd fl : N) (l : list attr) : bool :=
  match ref_decode_req nl_CMD_ADD_QER ref_decode_qer cmd fl l with
  | Some (c, d) => Bool.eqb c create && dqer_eqb d (spec_qer link seid ies)
  | None => false
  end.
Definition urr_req_ok (create : bool) (link seid : N) (ies : list qie) (cmd fl : N) (l : list attr) : bool :=
  match ref_decode_req nl_CMD_ADD_URR ref_decode_urr cmd fl l with
  | Some (c, d) => Bool.eqb c create && durr_eqb d (spec_urr link seid ies)
  | None => false
  end.
Definition bar_req_ok (create : bool) (link seid : N) (ies : list qie) (cmd fl : N) (l : list attr) : bool :=
  match ref_decode_req nl_CMD_ADD_BAR ref_decode_bar cmd fl l with
  | Some (c, d) => Bool.eqb c create && dbar_eqb d (spec_bar link seid ies)
  | None => false
  end.

(* ------------------------------------------------------------------ periodic registration: the specification as a state machine
   over the Create/Update/Remove URR operations of one session.  Per URR id: does it report periodically, and with which
   period (ns).  Update URR changes what its IEs carry and keeps the rest (TS 29.244 7.5.4.4). *)
Inductive uop : Type := UCreate (ies : list qie) | UUpdate (ies : list qie) | URemove (urr : N).
Definition sreg : Type := list (N * (bool * N)).
Definition sreg_del (u : N) (r : sreg) : sreg := filter (fun e => negb (fst e =? u)) r.
Definition sreg_set (u : N) (v : bool * N) (r : sreg) : sreg := (u, v) :: sreg_del u r.
Definition sreg_get (u : N) (r : sreg) : option (bool * N) :=
  match find (fun e => fst e =? u) r with Some e => Some (snd e) | None => None end.
Definition spec_reg_step (r : sreg) (o : uop) : sreg :=
  match o with
  | UCreate ies =>
      match theq h_urrid ies with
      | Some u => sreg_set u (perio_bit ies, match theq h_period ies with Some p => p | None => 0 end) r
      | None => r
      end
  | UUpdate ies =>
      match theq h_urrid ies with
      | Some u =>
          match sreg_get u r with
          | Some (pb, pp) =>
              sreg_set u (match theq h_trig ies with Some _ => perio_bit ies | None => pb end,
                          match theq h_period ies with Some p => p | None => pp end) r
          | None => r
          end
      | None => r
      end
  | URemove u => sreg_del u r
  end.
(* "a URR whose triggers include periodic reporting is registered for periodic querying with its measurement period,
   and a URR without that trigger is not": what a tick of `period` must ask for *)
Definition spec_query_set (seid period : N) (r : sreg) : list (N * N) :=
  flat_map (fun e => let '(u, (pb, pp)) := e in if pb && (pp =? period) then [(seid, u)] else []) r.

Definition pair_mem (x : N * N) (l : list (N * N)) : bool := existsb (pair_eqb N.eqb N.eqb x) l.
Definition same_set (a b : list (N * N)) : bool := forallb (fun x => pair_mem x b) a && forallb (fun x => pair_mem x a) b.
