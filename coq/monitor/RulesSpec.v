(* C02 - specification side.
   (1) Reference decoders of the gtp5g netlink rule format for PDR and FAR requests, written from
       go-gtp5gnl's DecodePDR/DecodePDI/DecodeFTEID/DecodeSDFFilter/DecodeFlowDesc and DecodeFAR/
       DecodeForwardParam/DecodeHeaderCreation (attribute numbers: gen/RulesGen.v = the go-gtp5gnl version in
       go.mod), but STRICTER than that library: every SDF filter / QER id / URR id is kept (the library keeps the
       last SDF filter only), integer attributes must have exactly their width, addresses exactly 4 octets
       (flow-description addresses: at least 4, the first 4 count - net.IPNet of "any" has 16), strings must be
       NUL-terminated, unknown attribute types are rejected, the envelope (LINK, id, SEID, PDR_UNIX_SOCKET_PATH)
       is decoded too.
   (2) The order-free specification spec_pdr / spec_far of what a Create/Update PDR/FAR grouped IE must
       produce (find-by-type), and the boolean well-formedness predicates that delimit the quantifier.
   Nothing here refers to model/RulesPdrFar.v. *)
From Coq Require Import List NArith Bool.
From GoUpf Require Import Bytes Nlattr PfcpIe RulesGen.
Import ListNotations.
Local Open Scope N_scope.

(* ------------------------------------------------------------------ decoded forms *)
Record dfd := { f_action : N; f_dir : N; f_proto : N;
                f_src_ip : list N; f_src_mask : list N; f_dst_ip : list N; f_dst_mask : list N;
                f_sports : list (N * N); f_dports : list (N * N) }.        (* port ranges (lo, hi) *)
Record dsdf := { s_fd : option dfd; s_ttc : option N; s_spi : option N; s_fl : option N; s_bid : option N }.
Record dpdi := { i_srcif : option N; i_ueaddr : option (list N); i_fteid : option (N * list N);
                 i_sdfs : list dsdf }.
Record dpdr := { p_link : option N; p_id : option N; p_seid : option N; p_prec : option N;
                 p_pdi : option dpdi; p_ohr : option N; p_farid : option N;
                 p_qerids : list N; p_urrids : list N; p_sock : option (list N) }.

Record dohc := { h_desc : option N; h_teid : option N; h_peer : option (list N); h_port : option N }.
Record dfp := { fp_ohc : option dohc; fp_policy : option (list N); fp_smreq : option N }.
Record dfar := { r_link : option N; r_id : option N; r_seid : option N; r_action : option N;
                 r_param : option dfp; r_barid : option N }.

(* ------------------------------------------------------------------ leaf readers *)
Definition rd_uint (w : nat) (v : val) : option N :=
  if is_nest v then None else
  if Nat.eqb (length (payload v)) w then Some (le_val (payload v)) else None.

Definition rd_bytes (w : nat) (v : val) : option (list N) :=
  if is_nest v then None else
  if Nat.eqb (length (payload v)) w then Some (payload v) else None.

Definition rd_prefix4 (v : val) : option (list N) :=
  if is_nest v then None else
  if Nat.leb 4 (length (payload v)) then Some (firstn 4 (payload v)) else None.

(* octets before the first NUL; None when there is no NUL *)
Fixpoint cstr (l : list N) : option (list N) :=
  match l with
  | [] => None
  | b :: r => if b =? 0 then Some [] else option_map (cons b) (cstr r)
  end.
Definition rd_str (v : val) : option (list N) := if is_nest v then None else cstr (payload v).

Fixpoint ports_of (fuel : nat) (l : list N) : option (list (N * N)) :=
  match l with
  | [] => Some []
  | b0 :: b1 :: b2 :: b3 :: r =>
    match fuel with
    | O => None
    | S k => let v := le_val [b0; b1; b2; b3] in
             option_map (cons (v / 65536, v mod 65536)) (ports_of k r)
    end
  | _ => None
  end.
Definition rd_ports (v : val) : option (list (N * N)) :=
  if is_nest v then None else ports_of (length (payload v)) (payload v).

Definition rd_nest (v : val) : option (list attr) := match v with VNest l => Some l | _ => None end.

(* fold with failure *)
Definition ofold {S : Type} (step : S -> attr -> option S) (l : list attr) (s : S) : option S :=
  fold_left (fun acc a => match acc with Some s' => step s' a | None => None end) l (Some s).

Definition bind {X Y : Type} (o : option X) (f : X -> option Y) : option Y :=
  match o with Some x => f x | None => None end.

(* ------------------------------------------------------------------ PDR decoder *)
Definition fd0 : dfd := {| f_action := 0; f_dir := 0; f_proto := 0; f_src_ip := []; f_src_mask := [];
                           f_dst_ip := []; f_dst_mask := []; f_sports := []; f_dports := [] |}.

Definition dec_fd_step (d : dfd) (a : attr) : option dfd :=
  let '(A t v) := a in
  if t =? nl_FLOW_DESCRIPTION_ACTION then bind (rd_uint 1 v) (fun x =>
    Some {| f_action := x; f_dir := f_dir d; f_proto := f_proto d; f_src_ip := f_src_ip d; f_src_mask := f_src_mask d;
            f_dst_ip := f_dst_ip d; f_dst_mask := f_dst_mask d; f_sports := f_sports d; f_dports := f_dports d |})
  else if t =? nl_FLOW_DESCRIPTION_DIRECTION then bind (rd_uint 1 v) (fun x =>
    Some {| f_action := f_action d; f_dir := x; f_proto := f_proto d; f_src_ip := f_src_ip d; f_src_mask := f_src_mask d;
            f_dst_ip := f_dst_ip d; f_dst_mask := f_dst_mask d; f_sports := f_sports d; f_dports := f_dports d |})
  else if t =? nl_FLOW_DESCRIPTION_PROTOCOL then bind (rd_uint 1 v) (fun x =>
    Some {| f_action := f_action d; f_dir := f_dir d; f_proto := x; f_src_ip := f_src_ip d; f_src_mask := f_src_mask d;
            f_dst_ip := f_dst_ip d; f_dst_mask := f_dst_mask d; f_sports := f_sports d; f_dports := f_dports d |})
  else if t =? nl_FLOW_DESCRIPTION_SRC_IPV4 then bind (rd_prefix4 v) (fun x =>
    Some {| f_action := f_action d; f_dir := f_dir d; f_proto := f_proto d; f_src_ip := x; f_src_mask := f_src_mask d;
            f_dst_ip := f_dst_ip d; f_dst_mask := f_dst_mask d; f_sports := f_sports d; f_dports := f_dports d |})
  else if t =? nl_FLOW_DESCRIPTION_SRC_MASK then bind (rd_prefix4 v) (fun x =>
    Some {| f_action := f_action d; f_dir := f_dir d; f_proto := f_proto d; f_src_ip := f_src_ip d; f_src_mask := x;
            f_dst_ip := f_dst_ip d; f_dst_mask := f_dst_mask d; f_sports := f_sports d; f_dports := f_dports d |})
  else if t =? nl_FLOW_DESCRIPTION_DEST_IPV4 then bind (rd_prefix4 v) (fun x =>
    Some {| f_action := f_action d; f_dir := f_dir d; f_proto := f_proto d; f_src_ip := f_src_ip d; f_src_mask := f_src_mask d;
            f_dst_ip := x; f_dst_mask := f_dst_mask d; f_sports := f_sports d; f_dports := f_dports d |})
  else if t =? nl_FLOW_DESCRIPTION_DEST_MASK then bind (rd_prefix4 v) (fun x =>
    Some {| f_action := f_action d; f_dir := f_dir d; f_proto := f_proto d; f_src_ip := f_src_ip d; f_src_mask := f_src_mask d;
            f_dst_ip := f_dst_ip d; f_dst_mask := x; f_sports := f_sports d; f_dports := f_dports d |})
  else if t =? nl_FLOW_DESCRIPTION_SRC_PORT then bind (rd_ports v) (fun x =>
    Some {| f_action := f_action d; f_dir := f_dir d; f_proto := f_proto d; f_src_ip := f_src_ip d; f_src_mask := f_src_mask d;
            f_dst_ip := f_dst_ip d; f_dst_mask := f_dst_mask d; f_sports := f_sports d ++ x; f_dports := f_dports d |})
  else if t =? nl_FLOW_DESCRIPTION_DEST_PORT then bind (rd_ports v) (fun x =>
    Some {| f_action := f_action d; f_dir := f_dir d; f_proto := f_proto d; f_src_ip := f_src_ip d; f_src_mask := f_src_mask d;
            f_dst_ip := f_dst_ip d; f_dst_mask := f_dst_mask d; f_sports := f_sports d; f_dports := f_dports d ++ x |})
  else None.
Definition dec_fd (l : list attr) : option dfd := ofold dec_fd_step l fd0.

Definition sdf0 : dsdf := {| s_fd := None; s_ttc := None; s_spi := None; s_fl := None; s_bid := None |}.
Definition dec_sdf_step (d : dsdf) (a : attr) : option dsdf :=
  let '(A t v) := a in
  if t =? nl_SDF_FILTER_FLOW_DESCRIPTION then bind (bind (rd_nest v) dec_fd) (fun x =>
    Some {| s_fd := Some x; s_ttc := s_ttc d; s_spi := s_spi d; s_fl := s_fl d; s_bid := s_bid d |})
  else if t =? nl_SDF_FILTER_TOS_TRAFFIC_CLASS then bind (rd_uint 2 v) (fun x =>
    Some {| s_fd := s_fd d; s_ttc := Some x; s_spi := s_spi d; s_fl := s_fl d; s_bid := s_bid d |})
  else if t =? nl_SDF_FILTER_SECURITY_PARAMETER_INDEX then bind (rd_uint 4 v) (fun x =>
    Some {| s_fd := s_fd d; s_ttc := s_ttc d; s_spi := Some x; s_fl := s_fl d; s_bid := s_bid d |})
  else if t =? nl_SDF_FILTER_FLOW_LABEL then bind (rd_uint 4 v) (fun x =>
    Some {| s_fd := s_fd d; s_ttc := s_ttc d; s_spi := s_spi d; s_fl := Some x; s_bid := s_bid d |})
  else if t =? nl_SDF_FILTER_SDF_FILTER_ID then bind (rd_uint 4 v) (fun x =>
    Some {| s_fd := s_fd d; s_ttc := s_ttc d; s_spi := s_spi d; s_fl := s_fl d; s_bid := Some x |})
  else None.
Definition dec_sdf (l : list attr) : option dsdf := ofold dec_sdf_step l sdf0.

Definition dec_fteid (l : list attr) : option (N * list N) :=
  ofold (fun (d : N * list N) a =>
    let '(A t v) := a in
    if t =? nl_F_TEID_I_TEID then bind (rd_uint 4 v) (fun x => Some (x, snd d))
    else if t =? nl_F_TEID_GTPU_ADDR_IPV4 then bind (rd_bytes 4 v) (fun x => Some (fst d, x))
    else None) l (0, []).

Definition pdi0 : dpdi := {| i_srcif := None; i_ueaddr := None; i_fteid := None; i_sdfs := [] |}.
Definition dec_pdi_step (d : dpdi) (a : attr) : option dpdi :=
  let '(A t v) := a in
  if t =? nl_PDI_UE_ADDR_IPV4 then bind (rd_bytes 4 v) (fun x =>
    Some {| i_srcif := i_srcif d; i_ueaddr := Some x; i_fteid := i_fteid d; i_sdfs := i_sdfs d |})
  else if t =? nl_PDI_F_TEID then bind (bind (rd_nest v) dec_fteid) (fun x =>
    Some {| i_srcif := i_srcif d; i_ueaddr := i_ueaddr d; i_fteid := Some x; i_sdfs := i_sdfs d |})
  else if t =? nl_PDI_SDF_FILTER then bind (bind (rd_nest v) dec_sdf) (fun x =>
    Some {| i_srcif := i_srcif d; i_ueaddr := i_ueaddr d; i_fteid := i_fteid d; i_sdfs := i_sdfs d ++ [x] |})
  else if t =? nl_PDI_SRC_INTF then bind (rd_uint 1 v) (fun x =>
    Some {| i_srcif := Some x; i_ueaddr := i_ueaddr d; i_fteid := i_fteid d; i_sdfs := i_sdfs d |})
  else None.
Definition dec_pdi (l : list attr) : option dpdi := ofold dec_pdi_step l pdi0.

Definition pdr0 : dpdr := {| p_link := None; p_id := None; p_seid := None; p_prec := None; p_pdi := None;
                             p_ohr := None; p_farid := None; p_qerids := []; p_urrids := []; p_sock := None |}.
Definition dec_pdr_step (d : dpdr) (a : attr) : option dpdr :=
  let '(A t v) := a in
  if t =? nl_LINK then bind (rd_uint 4 v) (fun x =>
    Some {| p_link := Some x; p_id := p_id d; p_seid := p_seid d; p_prec := p_prec d; p_pdi := p_pdi d; p_ohr := p_ohr d;
            p_farid := p_farid d; p_qerids := p_qerids d; p_urrids := p_urrids d; p_sock := p_sock d |})
  else if t =? nl_PDR_ID then bind (rd_uint 2 v) (fun x =>
    Some {| p_link := p_link d; p_id := Some x; p_seid := p_seid d; p_prec := p_prec d; p_pdi := p_pdi d; p_ohr := p_ohr d;
            p_farid := p_farid d; p_qerids := p_qerids d; p_urrids := p_urrids d; p_sock := p_sock d |})
  else if t =? nl_PDR_SEID then bind (rd_uint 8 v) (fun x =>
    Some {| p_link := p_link d; p_id := p_id d; p_seid := Some x; p_prec := p_prec d; p_pdi := p_pdi d; p_ohr := p_ohr d;
            p_farid := p_farid d; p_qerids := p_qerids d; p_urrids := p_urrids d; p_sock := p_sock d |})
  else if t =? nl_PDR_PRECEDENCE then bind (rd_uint 4 v) (fun x =>
    Some {| p_link := p_link d; p_id := p_id d; p_seid := p_seid d; p_prec := Some x; p_pdi := p_pdi d; p_ohr := p_ohr d;
            p_farid := p_farid d; p_qerids := p_qerids d; p_urrids := p_urrids d; p_sock := p_sock d |})
  else if t =? nl_PDR_PDI then bind (bind (rd_nest v) dec_pdi) (fun x =>
    Some {| p_link := p_link d; p_id := p_id d; p_seid := p_seid d; p_prec := p_prec d; p_pdi := Some x; p_ohr := p_ohr d;
            p_farid := p_farid d; p_qerids := p_qerids d; p_urrids := p_urrids d; p_sock := p_sock d |})
  else if t =? nl_PDR_OUTER_HEADER_REMOVAL then bind (rd_uint 1 v) (fun x =>
    Some {| p_link := p_link d; p_id := p_id d; p_seid := p_seid d; p_prec := p_prec d; p_pdi := p_pdi d; p_ohr := Some x;
            p_farid := p_farid d; p_qerids := p_qerids d; p_urrids := p_urrids d; p_sock := p_sock d |})
  else if t =? nl_PDR_FAR_ID then bind (rd_uint 4 v) (fun x =>
    Some {| p_link := p_link d; p_id := p_id d; p_seid := p_seid d; p_prec := p_prec d; p_pdi := p_pdi d; p_ohr := p_ohr d;
            p_farid := Some x; p_qerids := p_qerids d; p_urrids := p_urrids d; p_sock := p_sock d |})
  else if t =? nl_PDR_QER_ID then bind (rd_uint 4 v) (fun x =>
    Some {| p_link := p_link d; p_id := p_id d; p_seid := p_seid d; p_prec := p_prec d; p_pdi := p_pdi d; p_ohr := p_ohr d;
            p_farid := p_farid d; p_qerids := p_qerids d ++ [x]; p_urrids := p_urrids d; p_sock := p_sock d |})
  else if t =? nl_PDR_URR_ID then bind (rd_uint 4 v) (fun x =>
    Some {| p_link := p_link d; p_id := p_id d; p_seid := p_seid d; p_prec := p_prec d; p_pdi := p_pdi d; p_ohr := p_ohr d;
            p_farid := p_farid d; p_qerids := p_qerids d; p_urrids := p_urrids d ++ [x]; p_sock := p_sock d |})
  else if t =? nl_PDR_UNIX_SOCKET_PATH then bind (rd_str v) (fun x =>
    Some {| p_link := p_link d; p_id := p_id d; p_seid := p_seid d; p_prec := p_prec d; p_pdi := p_pdi d; p_ohr := p_ohr d;
            p_farid := p_farid d; p_qerids := p_qerids d; p_urrids := p_urrids d; p_sock := Some x |})
  else None.
Definition ref_decode_pdr (l : list attr) : option dpdr := ofold dec_pdr_step l pdr0.

(* ------------------------------------------------------------------ FAR decoder *)
Definition ohc0 : dohc := {| h_desc := None; h_teid := None; h_peer := None; h_port := None |}.
Definition dec_ohc_step (d : dohc) (a : attr) : option dohc :=
  let '(A t v) := a in
  if t =? nl_OUTER_HEADER_CREATION_DESCRIPTION then bind (rd_uint 2 v) (fun x =>
    Some {| h_desc := Some x; h_teid := h_teid d; h_peer := h_peer d; h_port := h_port d |})
  else if t =? nl_OUTER_HEADER_CREATION_O_TEID then bind (rd_uint 4 v) (fun x =>
    Some {| h_desc := h_desc d; h_teid := Some x; h_peer := h_peer d; h_port := h_port d |})
  else if t =? nl_OUTER_HEADER_CREATION_PEER_ADDR_IPV4 then bind (rd_bytes 4 v) (fun x =>
    Some {| h_desc := h_desc d; h_teid := h_teid d; h_peer := Some x; h_port := h_port d |})
  else if t =? nl_OUTER_HEADER_CREATION_PORT then bind (rd_uint 2 v) (fun x =>
    Some {| h_desc := h_desc d; h_teid := h_teid d; h_peer := h_peer d; h_port := Some x |})
  else None.
Definition dec_ohc (l : list attr) : option dohc := ofold dec_ohc_step l ohc0.

Definition fp0 : dfp := {| fp_ohc := None; fp_policy := None; fp_smreq := None |}.
Definition dec_fp_step (d : dfp) (a : attr) : option dfp :=
  let '(A t v) := a in
  if t =? nl_FORWARDING_PARAMETER_OUTER_HEADER_CREATION then bind (bind (rd_nest v) dec_ohc) (fun x =>
    Some {| fp_ohc := Some x; fp_policy := fp_policy d; fp_smreq := fp_smreq d |})
  else if t =? nl_FORWARDING_PARAMETER_FORWARDING_POLICY then bind (rd_str v) (fun x =>
    Some {| fp_ohc := fp_ohc d; fp_policy := Some x; fp_smreq := fp_smreq d |})
  else if t =? nl_FORWARDING_PARAMETER_PFCPSM_REQ_FLAGS then bind (rd_uint 1 v) (fun x =>
    Some {| fp_ohc := fp_ohc d; fp_policy := fp_policy d; fp_smreq := Some x |})
  else None.
Definition dec_fp (l : list attr) : option dfp := ofold dec_fp_step l fp0.

Definition far0 : dfar := {| r_link := None; r_id := None; r_seid := None; r_action := None; r_param := None; r_barid := None |}.
Definition dec_far_step (d : dfar) (a : attr) : option dfar :=
  let '(A t v) := a in
  if t =? nl_LINK then bind (rd_uint 4 v) (fun x =>
    Some {| r_link := Some x; r_id := r_id d; r_seid := r_seid d; r_action := r_action d; r_param := r_param d; r_barid := r_barid d |})
  else if t =? nl_FAR_ID then bind (rd_uint 4 v) (fun x =>
    Some {| r_link := r_link d; r_id := Some x; r_seid := r_seid d; r_action := r_action d; r_param := r_param d; r_barid := r_barid d |})
  else if t =? nl_FAR_SEID then bind (rd_uint 8 v) (fun x =>
    Some {| r_link := r_link d; r_id := r_id d; r_seid := Some x; r_action := r_action d; r_param := r_param d; r_barid := r_barid d |})
  else if t =? nl_FAR_APPLY_ACTION then bind (rd_uint 2 v) (fun x =>
    Some {| r_link := r_link d; r_id := r_id d; r_seid := r_seid d; r_action := Some x; r_param := r_param d; r_barid := r_barid d |})
  else if t =? nl_FAR_FORWARDING_PARAMETER then bind (bind (rd_nest v) dec_fp) (fun x =>
    Some {| r_link := r_link d; r_id := r_id d; r_seid := r_seid d; r_action := r_action d; r_param := Some x; r_barid := r_barid d |})
  else if t =? nl_FAR_BAR_ID then bind (rd_uint 1 v) (fun x =>
    Some {| r_link := r_link d; r_id := r_id d; r_seid := r_seid d; r_action := r_action d; r_param := r_param d; r_barid := Some x |})
  else None.
Definition ref_decode_far (l : list attr) : option dfar := ofold dec_far_step l far0.

(* request level: command and NLM_F flags say which operation it is (true = create) *)
Definition op_of_flags (fl : N) : option bool :=
  if fl =? NLM_F_REQUEST + NLM_F_EXCL + NLM_F_ACK then Some true
  else if fl =? NLM_F_REQUEST + NLM_F_REPLACE + NLM_F_ACK then Some false else None.

Definition ref_decode_pdr_req (cmd fl : N) (l : list attr) : option (bool * dpdr) :=
  if cmd =? nl_CMD_ADD_PDR then bind (op_of_flags fl) (fun c => option_map (pair c) (ref_decode_pdr l)) else None.
Definition ref_decode_far_req (cmd fl : N) (l : list attr) : option (bool * dfar) :=
  if cmd =? nl_CMD_ADD_FAR then bind (op_of_flags fl) (fun c => option_map (pair c) (ref_decode_far l)) else None.

(* ------------------------------------------------------------------ specification (order-free) *)
Definition o2l {X : Type} (o : option X) : list X := match o with Some x => [x] | None => [] end.
(* all children selected by f, in order; the k-th singleton IE is `the f` *)
Definition sel {X : Type} (f : ie -> option X) (l : list ie) : list X := flat_map (fun x => o2l (f x)) l.
Definition the {X : Type} (f : ie -> option X) (l : list ie) : option X := hd_error (sel f l).

Definition g_pdrid i := match i with IPdrId v => Some v | _ => None end.
Definition g_prec i := match i with IPrecedence v => Some v | _ => None end.
Definition g_pdi i := match i with IPdi c => Some c | _ => None end.
Definition g_srcif i := match i with ISrcIf v => Some v | _ => None end.
Definition g_fteid i := match i with IFteid t a => Some (t, a) | _ => None end.
Definition g_ueip i := match i with IUeIp a => Some a | _ => None end.
Definition g_sdf i := match i with ISdf _ _ _ _ _ _ _ _ => Some i | _ => None end.
Definition g_ohr i := match i with IOhr v => Some v | _ => None end.
Definition g_farid i := match i with IFarId v => Some v | _ => None end.
Definition g_qerid i := match i with IQerId v => Some v | _ => None end.
Definition g_urrid i := match i with IUrrId v => Some v | _ => None end.
Definition g_aa i := match i with IApplyAction b => Some b | _ => None end.
Definition g_fp (upd : bool) i :=
  match i with
  | IFwdParams c => if upd then None else Some c
  | IUpdFwdParams c => if upd then Some c else None
  | _ => None
  end.
Definition g_ohc i := match i with IOhc _ _ _ _ _ _ => Some i | _ => None end.
Definition g_fpol i := match i with IFwdPolicy s => Some s | _ => None end.
Definition g_smreq i := match i with ISmReqFlags v => Some v | _ => None end.
Definition g_barid i := match i with IBarId v => Some v | _ => None end.
Definition g_bad i := match i with IBad t => Some t | _ => None end.

Definition port_range (p : list N) : N * N :=
  match p with [a] => (a, a) | [a; b] => (a, b) | _ => (0, 0) end.

(* the filter the flow description denotes, as seen from the data plane: for an uplink PDR (source interface
   Access) the IPFilterRule's source is the packet's destination and vice versa (TS 29.244 5.2.1A.2A) *)
Definition spec_fd (swap : bool) (p : pfd) : dfd :=
  {| f_action := nl_SDF_FILTER_PERMIT;
     f_dir := if pf_dir p =? 1 then nl_SDF_FILTER_IN else nl_SDF_FILTER_OUT;
     f_proto := pf_proto p;
     f_src_ip := firstn 4 (if swap then pf_dst_ip p else pf_src_ip p);
     f_src_mask := firstn 4 (if swap then pf_dst_mask p else pf_src_mask p);
     f_dst_ip := firstn 4 (if swap then pf_src_ip p else pf_dst_ip p);
     f_dst_mask := firstn 4 (if swap then pf_src_mask p else pf_dst_mask p);
     f_sports := map port_range (if swap then pf_dports p else pf_sports p);
     f_dports := map port_range (if swap then pf_sports p else pf_dports p) |}.

Definition spec_sdf (swap : bool) (x : ie) : option dsdf :=
  match x with
  | ISdf has_fd _ _ _ has_bid _ fd bid =>
    if has_fd
    then match fd with
         | Some p => Some {| s_fd := Some (spec_fd swap p); s_ttc := None; s_spi := None; s_fl := None;
                             s_bid := if has_bid then Some bid else None |}
         | None => None
         end
    else Some {| s_fd := None; s_ttc := None; s_spi := None; s_fl := None;
                 s_bid := if has_bid then Some bid else None |}
  | _ => None
  end.

Definition uplink (c : list ie) : bool :=
  match the g_srcif c with Some v => v =? SrcInterfaceAccess | None => false end.

Definition spec_pdi (c : list ie) : dpdi :=
  {| i_srcif := the g_srcif c; i_ueaddr := the g_ueip c; i_fteid := the g_fteid c;
     i_sdfs := flat_map (fun x => o2l (spec_sdf (uplink c) x)) (sel g_sdf c) |}.

Definition spec_pdr (create : bool) (link seid : N) (ies : list ie) : dpdr :=
  {| p_link := Some link; p_id := the g_pdrid ies; p_seid := Some seid;
     p_prec := the g_prec ies; p_pdi := option_map spec_pdi (the g_pdi ies);
     p_ohr := the g_ohr ies; p_farid := the g_farid ies;
     p_qerids := sel g_qerid ies; p_urrids := sel g_urrid ies;
     p_sock := if create then Some [47] else None |}.       (* "/" : buffering socket, not from the IE *)

Definition spec_ohc (x : ie) : option dohc :=
  match x with
  | IOhc desc has_teid has_v4 teid v4 port =>
    Some {| h_desc := Some desc; h_teid := if has_teid then Some teid else None;
            h_peer := if has_v4 then Some v4 else None;
            h_port := Some (if has_teid then 2152 else port) |}   (* GTP-U: the registered port, TS 29.281 4.4.2 *)
  | _ => None
  end.

Definition spec_fp (c : list ie) : option dfp :=
  match the g_ohc c, the g_fpol c, the g_smreq c with
  | None, None, None => None
  | o, p, s => Some {| fp_ohc := bind o spec_ohc; fp_policy := p; fp_smreq := s |}
  end.

(* apply-action bits: octet 5 is bits 0-7, octet 6 bits 8-15 *)
Definition spec_action (b : list N) : N :=
  match b with [b0] => b0 | b0 :: b1 :: _ => b0 + 256 * b1 | [] => 0 end.

Definition spec_far (upd : bool) (link seid : N) (ies : list ie) : dfar :=
  {| r_link := Some link; r_id := the g_farid ies; r_seid := Some seid;
     r_action := option_map spec_action (the g_aa ies);
     r_param := bind (the (g_fp upd) ies) spec_fp;
     r_barid := the g_barid ies |}.

(* ------------------------------------------------------------------ well-formedness (boolean) *)
Definition le1 {X : Type} (l : list X) : bool := Nat.leb (length l) 1.
Definition eq1 {X : Type} (l : list X) : bool := Nat.eqb (length l) 1.
Definition all_lt (b : N) (l : list N) : bool := forallb (fun x => x <? b) l.
Definition is_ip4 (l : list N) : bool := Nat.eqb (length l) 4 && all_lt 256 l.
(* net.IPNet octets: 4, or the 16 zero octets of "any"/"assigned" *)
Definition is_fd_addr (l : list N) : bool :=
  is_ip4 l || (Nat.eqb (length l) 16 && forallb (fun x => x =? 0) l).
Definition is_port_entry (p : list N) : bool :=
  match p with [a] => a <? 65536 | [a; b] => (a <? 65536) && (b <? 65536) | _ => false end.

Definition wf_pfd (p : pfd) : bool :=
  (pf_action p =? 1) && ((pf_dir p =? 1) || (pf_dir p =? 2)) && (pf_proto p <? 256)
  && is_fd_addr (pf_src_ip p) && is_fd_addr (pf_src_mask p) && is_fd_addr (pf_dst_ip p) && is_fd_addr (pf_dst_mask p)
  && forallb is_port_entry (pf_sports p) && forallb is_port_entry (pf_dports p).

(* supported SDF filters: flow description and/or filter id; TTC/SPI/FL are placeholders in the driver *)
Definition wf_sdf (x : ie) : bool :=
  match x with
  | ISdf has_fd has_ttc has_spi has_fl has_bid _ fd bid =>
    negb has_ttc && negb has_spi && negb has_fl && (bid <? 4294967296)
    && (if has_fd then match fd with Some p => wf_pfd p | None => false end else true)
  | _ => false
  end.

Definition wf_pdi (c : list ie) : bool :=
  eq1 (sel g_srcif c) && le1 (sel g_fteid c) && le1 (sel g_ueip c)
  && all_lt 256 (sel g_srcif c)
  && forallb (fun ta => (fst ta <? 4294967296) && is_ip4 (snd ta)) (sel g_fteid c)
  && forallb is_ip4 (sel g_ueip c)
  && forallb wf_sdf (sel g_sdf c)
  && match sel g_bad c with [] => true | _ => false end.

Definition wf_pdr (ies : list ie) : bool :=
  eq1 (sel g_pdrid ies) && le1 (sel g_prec ies) && le1 (sel g_pdi ies) && le1 (sel g_ohr ies) && le1 (sel g_farid ies)
  && all_lt 65536 (sel g_pdrid ies) && all_lt 4294967296 (sel g_prec ies) && all_lt 256 (sel g_ohr ies)
  && all_lt 4294967296 (sel g_farid ies) && all_lt 4294967296 (sel g_qerid ies) && all_lt 4294967296 (sel g_urrid ies)
  && forallb wf_pdi (sel g_pdi ies)
  && match sel g_bad ies with [] => true | _ => false end.

Definition wf_ohc (x : ie) : bool :=
  match x with
  | IOhc desc has_teid has_v4 teid v4 port =>
    (desc <? 65536) && (teid <? 4294967296) && (port <? 65536)
    && (if has_v4 then is_ip4 v4 else true)
    && (if has_teid then port =? 0 else true)          (* a GTP-U outer header has no port field in the IE *)
  | _ => false
  end.

Definition wf_fp (c : list ie) : bool :=
  le1 (sel g_ohc c) && le1 (sel g_fpol c) && le1 (sel g_smreq c)
  && forallb wf_ohc (sel g_ohc c)
  && forallb (fun s => forallb (fun x => (0 <? x) && (x <? 256)) s) (sel g_fpol c)   (* identifier without NUL *)
  && all_lt 256 (sel g_smreq c)
  && match sel g_bad c with [] => true | _ => false end.

(* the same without the "no NUL octet in the policy identifier" clause: the property's own quantifier
   (the identifier is an OctetString).  Used to state the finding C02_far_policy_nul_refuted. *)
Definition wf_fp_full (c : list ie) : bool :=
  le1 (sel g_ohc c) && le1 (sel g_fpol c) && le1 (sel g_smreq c)
  && forallb wf_ohc (sel g_ohc c)
  && forallb (fun s => all_lt 256 s) (sel g_fpol c)
  && all_lt 256 (sel g_smreq c)
  && match sel g_bad c with [] => true | _ => false end.

Definition wf_far (upd : bool) (ies : list ie) : bool :=
  eq1 (sel g_farid ies) && le1 (sel g_aa ies) && le1 (sel (g_fp upd) ies) && le1 (sel g_barid ies)
  && all_lt 4294967296 (sel g_farid ies) && all_lt 256 (sel g_barid ies)
  && forallb (fun b => (Nat.leb 1 (length b)) && (Nat.leb (length b) 2) && all_lt 256 b) (sel g_aa ies)
  && forallb wf_fp (sel (g_fp upd) ies)
  && match sel g_bad ies with [] => true | _ => false end.

Definition wf_far_full (upd : bool) (ies : list ie) : bool :=
  eq1 (sel g_farid ies) && le1 (sel g_aa ies) && le1 (sel (g_fp upd) ies) && le1 (sel g_barid ies)
  && all_lt 4294967296 (sel g_farid ies) && all_lt 256 (sel g_barid ies)
  && forallb (fun b => (Nat.leb 1 (length b)) && (Nat.leb (length b) 2) && all_lt 256 b) (sel g_aa ies)
  && forallb wf_fp_full (sel (g_fp upd) ies)
  && match sel g_bad ies with [] => true | _ => false end.

(* ------------------------------------------------------------------ C02 as a boolean monitor over a captured request *)
Definition list_eqb {X : Type} (e : X -> X -> bool) : list X -> list X -> bool :=
  fix go a b := match a, b with
                | [], [] => true
                | x :: a', y :: b' => e x y && go a' b'
                | _, _ => false
                end.
Definition opt_eqb {X : Type} (e : X -> X -> bool) (a b : option X) : bool :=
  match a, b with Some x, Some y => e x y | None, None => true | _, _ => false end.
Definition pair_eqb {X Y : Type} (e1 : X -> X -> bool) (e2 : Y -> Y -> bool) (a b : X * Y) : bool :=
  e1 (fst a) (fst b) && e2 (snd a) (snd b).

Definition dfd_eqb (a b : dfd) : bool :=
  (f_action a =? f_action b) && (f_dir a =? f_dir b) && (f_proto a =? f_proto b)
  && list_N_eqb (f_src_ip a) (f_src_ip b) && list_N_eqb (f_src_mask a) (f_src_mask b)
  && list_N_eqb (f_dst_ip a) (f_dst_ip b) && list_N_eqb (f_dst_mask a) (f_dst_mask b)
  && list_eqb (pair_eqb N.eqb N.eqb) (f_sports a) (f_sports b)
  && list_eqb (pair_eqb N.eqb N.eqb) (f_dports a) (f_dports b).
Definition dsdf_eqb (a b : dsdf) : bool :=
  opt_eqb dfd_eqb (s_fd a) (s_fd b) && opt_eqb N.eqb (s_ttc a) (s_ttc b) && opt_eqb N.eqb (s_spi a) (s_spi b)
  && opt_eqb N.eqb (s_fl a) (s_fl b) && opt_eqb N.eqb (s_bid a) (s_bid b).
Definition dpdi_eqb (a b : dpdi) : bool :=
  opt_eqb N.eqb (i_srcif a) (i_srcif b) && opt_eqb list_N_eqb (i_ueaddr a) (i_ueaddr b)
  && opt_eqb (pair_eqb N.eqb list_N_eqb) (i_fteid a) (i_fteid b) && list_eqb dsdf_eqb (i_sdfs a) (i_sdfs b).
Definition dpdr_eqb (a b : dpdr) : bool :=
  opt_eqb N.eqb (p_link a) (p_link b) && opt_eqb N.eqb (p_id a) (p_id b) && opt_eqb N.eqb (p_seid a) (p_seid b)
  && opt_eqb N.eqb (p_prec a) (p_prec b) && opt_eqb dpdi_eqb (p_pdi a) (p_pdi b) && opt_eqb N.eqb (p_ohr a) (p_ohr b)
  && opt_eqb N.eqb (p_farid a) (p_farid b) && list_N_eqb (p_qerids a) (p_qerids b)
  && list_N_eqb (p_urrids a) (p_urrids b) && opt_eqb list_N_eqb (p_sock a) (p_sock b).
Definition dohc_eqb (a b : dohc) : bool :=
  opt_eqb N.eqb (h_desc a) (h_desc b) && opt_eqb N.eqb (h_teid a) (h_teid b)
  && opt_eqb list_N_eqb (h_peer a) (h_peer b) && opt_eqb N.eqb (h_port a) (h_port b).
Definition dfp_eqb (a b : dfp) : bool :=
  opt_eqb dohc_eqb (fp_ohc a) (fp_ohc b) && opt_eqb list_N_eqb (fp_policy a) (fp_policy b)
  && opt_eqb N.eqb (fp_smreq a) (fp_smreq b).
Definition dfar_eqb (a b : dfar) : bool :=
  opt_eqb N.eqb (r_link a) (r_link b) && opt_eqb N.eqb (r_id a) (r_id b) && opt_eqb N.eqb (r_seid a) (r_seid b)
  && opt_eqb N.eqb (r_action a) (r_action b) && opt_eqb dfp_eqb (r_param a) (r_param b)
  && opt_eqb N.eqb (r_barid a) (r_barid b).

(* the request (cmd, flags, attribute tree) captured from the implementation carries exactly the IE's content *)
Definition pdr_req_ok (create : bool) (link seid : N) (ies : list ie) (cmd fl : N) (l : list attr) : bool :=
  match ref_decode_pdr_req cmd fl l with
  | Some (c, d) => Bool.eqb c create && dpdr_eqb d (spec_pdr create link seid ies)
  | None => false
  end.
Definition far_req_ok (upd : bool) (link seid : N) (ies : list ie) (cmd fl : N) (l : list attr) : bool :=
  match ref_decode_far_req cmd fl l with
  | Some (c, d) => Bool.eqb c (negb upd) && dfar_eqb d (spec_far upd link seid ies)
  | None => false
  end.
