(* C19 — SPECIFICATION side: the flag octets of four PFCP information elements, transcribed by
   hand from 3GPP TS 29.244 (Release 16/17 figures), NOT from go-upf's report.go.

   A row is (flag name, octet index, bit index): octet index 0 is "octet 5" of the IE (the first
   octet after the 4-octet IE header), bit index 0 is "bit 1" (least significant) of that octet.

     8.2.19 Reporting Triggers     octet 5: bit1 PERIO VOLTH TIMTH QUHTI START STOPT DROTH LIUSA bit8
                                   octet 6: bit1 VOLQU TIMQU ENVCL MACAR EVETH EVEQU IPMJL QUVTI bit8
                                   octet 7: bit1 REEMR UPINT (bits 3-8 spare)
     8.2.41 Usage Report Trigger   octet 5: bit1 PERIO VOLTH TIMTH QUHTI START STOPT DROTH IMMER bit8
                                   octet 6: bit1 VOLQU TIMQU LIUSA TERMR MONIT ENVCL MACAR EVETH bit8
                                   octet 7: bit1 EVEQU TEBUR IPMJL QUVTI EMRRE UPINT (bits 7-8 spare)
     8.2.26 Apply Action           octet 5: bit1 DROP FORW BUFF NOCP DUPL IPMA IPMD DFRT bit8
                                   octet 6: bit1 EDRT BDPN DDPN FSSM MBSU (bits 6-8 spare)
     8.2.40 Volume Measurement     octet 5: bit1 TOVOL ULVOL DLVOL TONOP ULNOP DLNOP (bits 7-8 spare)

   Depends on base only.  The boolean monitors at the end are applied by checks/c19.py to what the
   real go-upf code returned. *)
From Coq Require Import String List NArith Bool.
From GoUpf Require Import Bytes.
Import ListNotations.
Local Open Scope N_scope.

Definition row := (string * nat * N)%type.
Definition row_name (r : row) : string := fst (fst r).
Definition row_octet (r : row) : nat := snd (fst r).
Definition row_bit (r : row) : N := snd r.

(* the names of one octet, listed from bit 1 (index 0) upwards, as in the figures of TS 29.244 *)
Fixpoint octet_from (o : nat) (b : N) (names : list string) : list row :=
  match names with [] => [] | n :: r => (n, o, b) :: octet_from o (b + 1) r end.
Definition octet (o : nat) (names : list string) : list row := octet_from o 0 names.

Local Open Scope string_scope.

Definition rt_spec : list row :=      (* 8.2.19 Reporting Triggers *)
 (octet 0 ["PERIO"; "VOLTH"; "TIMTH"; "QUHTI"; "START"; "STOPT"; "DROTH"; "LIUSA"] ++
  octet 1 ["VOLQU"; "TIMQU"; "ENVCL"; "MACAR"; "EVETH"; "EVEQU"; "IPMJL"; "QUVTI"] ++
  octet 2 ["REEMR"; "UPINT"])%list.

Definition usar_spec : list row :=    (* 8.2.41 Usage Report Trigger *)
 (octet 0 ["PERIO"; "VOLTH"; "TIMTH"; "QUHTI"; "START"; "STOPT"; "DROTH"; "IMMER"] ++
  octet 1 ["VOLQU"; "TIMQU"; "LIUSA"; "TERMR"; "MONIT"; "ENVCL"; "MACAR"; "EVETH"] ++
  octet 2 ["EVEQU"; "TEBUR"; "IPMJL"; "QUVTI"; "EMRRE"; "UPINT"])%list.

Definition aa_spec : list row :=      (* 8.2.26 Apply Action *)
 (octet 0 ["DROP"; "FORW"; "BUFF"; "NOCP"; "DUPL"; "IPMA"; "IPMD"; "DFRT"] ++
  octet 1 ["EDRT"; "BDPN"; "DDPN"; "FSSM"; "MBSU"])%list.

Definition vol_spec : list row :=     (* 8.2.40 Volume Measurement, flag octet *)
  octet 0 ["TOVOL"; "ULVOL"; "DLVOL"; "TONOP"; "ULNOP"; "DLNOP"].

(* 8.2.40: TOVOL/ULVOL/DLVOL announce the three volume fields; TONOP/ULNOP/DLNOP the three packet counts *)
Definition vol_always : list string := ["TOVOL"; "ULVOL"; "DLVOL"].
Definition vol_if_mnop : list string := ["TONOP"; "ULNOP"; "DLNOP"].

Local Close Scope string_scope.

(* permitted numbers of flag octets on the wire *)
Definition rt_lengths : list nat := [2; 3]%nat.     (* octet 7 is optional (added in a later release) *)
Definition aa_lengths : list nat := [1; 2]%nat.     (* octet 6 is optional *)

Definition find_row (t : list row) (name : string) : option (nat * N) :=
  match find (fun r => String.eqb (row_name r) name) t with
  | Some r => Some (row_octet r, row_bit r)
  | None => None
  end.

(* the flag [name] as the specification reads it from the octets (false when the octet is absent) *)
Definition spec_flag (t : list row) (name : string) (octets : list N) : bool :=
  match find_row t name with
  | Some (o, b) => N.testbit (nth o octets 0) b
  | None => false
  end.

(* Position of a row's flag when the flag octets are held in one unsigned integer whose least
   significant octet is octet 5 — the form in which go-upf hands the flags to the gtp5g kernel
   module (nl.AttrU16(act.Flags), nl.AttrU32(rptTrig.Flags)) and receives usage-report causes. *)
Definition row_pos (r : row) : N := 8 * N.of_nat (row_octet r) + row_bit r.
Definition row_mask (r : row) : N := 2 ^ row_pos r.

Definition names_of (t : list row) : list string := map row_name t.
Definition mask_of_names (t : list row) (names : list string) : N :=
  fold_right (fun n acc => match find_row t n with
                           | Some (o, b) => N.lor (2 ^ (8 * N.of_nat o + b)) acc
                           | None => acc end) 0 names.

(* ------------------------------------------------------------------ monitors *)

(* index of a name in the (sorted) accessor-name list the harness reports *)
Fixpoint index_of (n : string) (l : list string) (i : N) : option N :=
  match l with [] => None | x :: r => if String.eqb x n then Some i else index_of n r (i + 1) end.

(* the accessors the implementation offers are exactly the flags of the table *)
Definition names_mon (t : list row) (acc_names : list string) : bool :=
  forallb (fun r => match index_of (row_name r) acc_names 0 with Some _ => true | None => false end) t
  && Nat.eqb (length acc_names) (length t).

(* prepared table: (octet, bit, position of the accessor's answer in the reported bit mask) *)
Definition prep (t : list row) (acc_names : list string) : list (nat * N * N) :=
  map (fun r => (row_octet r, row_bit r,
                 match index_of (row_name r) acc_names 0 with Some i => i | None => 63 end)) t.

Inductive status := StOk | StErr | StPanic.
Definition status_eqb (a b : status) : bool :=
  match a, b with StOk, StOk | StErr, StErr | StPanic, StPanic => true | _, _ => false end.

(* Decoding: an octet string shorter than [minlen] must be refused with an error; otherwise every
   flag of the table, read from the octets as TS 29.244 lays them out, is what the accessor of that
   name answers AND is the bit at its wire position in the Flags word given to the data plane. *)
Definition decode_mon (p : list (nat * N * N)) (minlen : nat) (octets : list N)
                      (st : status) (flags accmask : N) : bool :=
  if Nat.ltb (length octets) minlen then status_eqb st StErr
  else status_eqb st StOk &&
       forallb (fun e => match e with (o, b, ai) =>
                  let s := N.testbit (nth o octets 0) b in
                  Bool.eqb (N.testbit accmask ai) s && Bool.eqb (N.testbit flags (8 * N.of_nat o + b)) s end) p.

(* Encoding: the octets produced carry, at the position TS 29.244 gives to each name, the answer of
   the accessor of that name, which is also the bit at the wire position of the Flags word. *)
Definition encode_mon (p : list (nat * N * N)) (flags accmask : N) (st : status) (payload : list N) : bool :=
  status_eqb st StOk && bytes_okb payload &&
  forallb (fun e => match e with (o, b, ai) =>
             let s := N.testbit (nth o payload 0) b in
             Bool.eqb (N.testbit accmask ai) s && Bool.eqb (N.testbit flags (8 * N.of_nat o + b)) s end) p.

(* exported constants: NAME = 2^(8*octet+bit) for every row, and nothing else in the group *)
Definition consts_mon (t : list row) (consts : list (string * N)) : bool :=
  forallb (fun r => match find (fun c => String.eqb (fst c) (row_name r)) consts with
                    | Some c => snd c =? row_mask r | None => false end) t
  && Nat.eqb (length consts) (length t).

(* SetReportingTrigger: a reporting-trigger cause [r] that is the single bit of a Reporting Triggers
   row sets the Usage Report Trigger flag of the SAME NAME and nothing else; any other [r]
   (no bit, several bits, or a name without a same-named usage-report trigger) changes nothing. *)
Definition srt_expected (f0 r : N) : N :=
  match find (fun x => row_mask x =? r) rt_spec with
  | Some x => match find_row usar_spec (row_name x) with
              | Some (o, b) => N.lor f0 (2 ^ (8 * N.of_nat o + b))
              | None => f0 end
  | None => f0
  end.
Definition srt_mon (f0 r : N) (st : status) (f1 : N) : bool := status_eqb st StOk && (f1 =? srt_expected f0 r).

(* VolumeMeasure.SetFlags: TOVOL, ULVOL, DLVOL are set; TONOP, ULNOP, DLNOP are set iff the URR
   measures the number of packets (MNOP); no other bit of the octet changes. *)
Definition sf_expected (f0 : N) (mnop : bool) : N :=
  N.lor f0 (mask_of_names vol_spec (vol_always ++ (if mnop then vol_if_mnop else []))%list).
Definition sf_mon (f0 : N) (mnop : bool) (st : status) (f1 : N) : bool := status_eqb st StOk && (f1 =? sf_expected f0 mnop).

(* 8.2.40: the flag octet is octet 5 of the Volume Measurement IE, i.e. the first payload octet *)
Definition vol_ie_mon (flags payload0 : N) : bool := payload0 =? flags.
