(* Independent reference decoder for GTPv1-U G-PDUs with an optional PDU Session
   Container, written from TS 29.281 clause 5 and TS 38.415 clause 5.5.2 — NOT from
   the Go encoder.  Used as the specification side of C14 and as the monitor applied
   to the bytes the implementation produced. *)
From Coq Require Import List NArith Bool.
From GoUpf Require Import Bytes.
Import ListNotations.
Local Open Scope N_scope.

Record gpdu := {
  g_version : N; g_pt : bool; g_type : N; g_len : N; g_teid : N;
  g_ext : option (N * N);   (* PDU type, QFI of a PDU Session Container *)
  g_payload : list N }.

Definition ref_parse (bs : list N) : option gpdu :=
  match bs with
  | fl :: ty :: l1 :: l2 :: t1 :: t2 :: t3 :: t4 :: rest =>
    let len := rd16 l1 l2 in
    if negb (len =? N.of_nat (length rest)) then None else   (* length = octets after the mandatory header *)
    let mk ext pl := Some {| g_version := fl / 32; g_pt := N.testbit fl 4; g_type := ty; g_len := len;
                             g_teid := rd32 t1 t2 t3 t4; g_ext := ext; g_payload := pl |} in
    if N.testbit fl 2 || N.testbit fl 1 || N.testbit fl 0 then
      (* optional fields present: seq(2) npdu(1) next-ext-type(1) *)
      match rest with
      | _s1 :: _s2 :: _np :: next :: rest' =>
        if negb (N.testbit fl 2) then mk None rest' else   (* E = 0: field present but not interpreted *)
        if next =? 0 then mk None rest'
        else if next =? 133 then                       (* 0x85: PDU Session Container *)
          match rest' with
          | elen :: c1 :: c2 :: next2 :: rest'' =>
            if negb (elen =? 1) then None else           (* one 4-octet unit *)
            if negb (next2 =? 0) then None else          (* chain terminated *)
            mk (Some (c1 / 16, c2 mod 64)) rest''
          | _ => None
          end
        else None
      | _ => None
      end
    else mk None rest
  | _ => None
  end.

(* C14 as a boolean monitor over emitted bytes *)
Definition gpdu_ok (teid : N) (ext : option (N * N)) (payload bs : list N) : bool :=
  match ref_parse bs with
  | Some g =>
    (g_version g =? 1) && g_pt g && (g_type g =? 255) && (g_teid g =? teid)
    && (g_len g + 8 =? N.of_nat (length bs))
    && (match ext, g_ext g with
        | None, None => true
        | Some (p, q), Some (p', q') => (p =? p') && (q =? q')
        | _, _ => false end)
    && (if list_eq_dec N.eq_dec (g_payload g) payload then true else false)
  | None => false
  end.
