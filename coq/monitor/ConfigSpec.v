(* C20 — specification side of the start-up checks.
   Shared vocabulary (YAML documents, the parsed configuration factory.Config) and the property's condition list
   as a BOOLEAN MONITOR that is applied to what the real ReadConfig returned.  Written from the property's text,
   independently of the tag table and of the model (model/Config.v).  Depends on the standard library only. *)
From Coq Require Import List NArith ZArith Bool String Ascii.
Import ListNotations.
Local Open Scope string_scope.

(* ================================================================ YAML documents (what the file can contain) *)

Inductive skind :=
| KNull                      (* ~, null, or an empty value *)
| KStr                       (* quoted, or plain text that resolves to a string *)
| KInt (z : Z)               (* plain integer *)
| KFloat (trunc : Z)         (* plain float; trunc = its value truncated toward zero (what Go's conversion yields) *)
| KBool (b : bool).          (* true/false/yes/no/on/off *)

Inductive yv :=
| YScalar (k : skind) (text : string)     (* text = the scalar as written (unquoted) *)
| YSeq (l : list yv)
| YMap (kvs : list (string * yv)).

(* yaml.v2 (non-strict Unmarshal) assigns the fields in document order: of a repeated key the LAST one stays *)
Fixpoint ylookup (k : string) (kvs : list (string * yv)) : option yv :=
  match kvs with
  | [] => None
  | (k', v) :: r => match ylookup k r with
                    | Some x => Some x
                    | None => if String.eqb k' k then Some v else None
                    end
  end.

Fixpoint str_mem (s : string) (l : list string) : bool :=
  match l with [] => false | h :: t => String.eqb s h || str_mem s t end.
Fixpoint str_nodup (l : list string) : bool :=
  match l with [] => true | h :: t => negb (str_mem h t) && str_nodup t end.

(* ================================================================ the parsed configuration (factory.Config) *)

Record pfcp := { p_addr : string; p_nodeid : string; p_retrans_timeout : Z; p_max_retrans : Z }.
Record ifinfo := { i_addr : string; i_type : string; i_name : string; i_ifname : string; i_mtu : Z }.
Record gtpu := { g_forwarder : string; g_iflist : list ifinfo }.
Record dnn := { d_dnn : string; d_cidr : string; d_natifname : string }.
Record logcfg := { l_enable : bool; l_level : string; l_report_caller : bool }.
Record config := {
  c_version : string; c_description : string;
  c_pfcp : option pfcp; c_gtpu : option gtpu; c_dnnlist : list dnn; c_logger : option logcfg }.


(* ================================================================ the property's conditions, as booleans *)

Definition zeqb := Z.eqb.
Definition ifinfo_eqb (a b : ifinfo) : bool :=
  String.eqb (i_addr a) (i_addr b) && String.eqb (i_type a) (i_type b) && String.eqb (i_name a) (i_name b)
  && String.eqb (i_ifname a) (i_ifname b) && zeqb (i_mtu a) (i_mtu b).
Definition dnn_eqb (a b : dnn) : bool :=
  String.eqb (d_dnn a) (d_dnn b) && String.eqb (d_cidr a) (d_cidr b) && String.eqb (d_natifname a) (d_natifname b).
Fixpoint list_eqb {A} (eqb : A -> A -> bool) (l m : list A) : bool :=
  match l, m with
  | [], [] => true
  | a :: l', b :: m' => eqb a b && list_eqb eqb l' m'
  | _, _ => false
  end.
Definition opt_eqb {A} (eqb : A -> A -> bool) (a b : option A) : bool :=
  match a, b with Some x, Some y => eqb x y | None, None => true | _, _ => false end.
Definition pfcp_eqb (a b : pfcp) : bool :=
  String.eqb (p_addr a) (p_addr b) && String.eqb (p_nodeid a) (p_nodeid b)
  && zeqb (p_retrans_timeout a) (p_retrans_timeout b) && zeqb (p_max_retrans a) (p_max_retrans b).
Definition gtpu_eqb (a b : gtpu) : bool :=
  String.eqb (g_forwarder a) (g_forwarder b) && list_eqb ifinfo_eqb (g_iflist a) (g_iflist b).
Definition logcfg_eqb (a b : logcfg) : bool :=
  Bool.eqb (l_enable a) (l_enable b) && String.eqb (l_level a) (l_level b) && Bool.eqb (l_report_caller a) (l_report_caller b).
Definition config_eqb (a b : config) : bool :=
  String.eqb (c_version a) (c_version b) && String.eqb (c_description a) (c_description b)
  && opt_eqb pfcp_eqb (c_pfcp a) (c_pfcp b) && opt_eqb gtpu_eqb (c_gtpu a) (c_gtpu b)
  && list_eqb dnn_eqb (c_dnnlist a) (c_dnnlist b) && opt_eqb logcfg_eqb (c_logger a) (c_logger b).

Definition supported_version : string := "1.0.3".
Definition levels : list string := ["trace"; "debug"; "info"; "warn"; "error"; "fatal"; "panic"].

Section Monitor.
  Variable is_host : string -> bool.       (* govalidator.IsHost *)
  Variable is_cidr : string -> bool.       (* net.ParseCIDR succeeds *)
  Variable resolvable : string -> bool.    (* net.ResolveIPAddr("ip4", .) succeeds *)

  (* "supported version, a PFCP listen address and resolvable node id, a retransmission timeout, the gtp5g
     forwarder with well-formed interface entries, DNN entries with valid CIDRs and a valid log level" *)
  Definition cond_okb (c : config) : bool :=
    String.eqb (c_version c) supported_version
    && match c_pfcp c with
       | Some p => is_host (p_addr p) && is_host (p_nodeid p) && resolvable (p_nodeid p)
                   && negb (zeqb (p_retrans_timeout p) 0)
       | None => false
       end
    && match c_gtpu c with
       | Some g => String.eqb (g_forwarder g) "gtp5g"
                   && match g_iflist g with [] => false | _ => true end
                   && forallb (fun i => is_host (i_addr i) && (String.eqb (i_type i) "N3" || String.eqb (i_type i) "N9")) (g_iflist g)
       | None => false
       end
    && match c_dnnlist c with [] => false | _ => true end
    && forallb (fun d => negb (String.eqb (d_dnn d) "") && is_cidr (d_cidr d)) (c_dnnlist c)
    && match c_logger c with Some l => str_mem (l_level l) levels | None => false end.

  (* "accepted values appear unchanged": a string scalar written at a path of the document is the value of the
     corresponding field (independent little lookups, not the model's decoder) *)
  Definition scalar_text (y : option yv) : option string :=
    match y with Some (YScalar KNull _) => None | Some (YScalar _ t) => Some t | _ => None end.
  Definition sub (k : string) (y : option yv) : option yv :=
    match y with Some (YMap kvs) => ylookup k kvs | _ => None end.
  Definition elems (y : option yv) : list yv := match y with Some (YSeq l) => l | _ => [] end.
  Definition as_written1 (y : option yv) (v : string) : bool :=
    match scalar_text y with Some t => String.eqb t v | None => true end.
  Fixpoint zip_ok {A} (f : yv -> A -> bool) (ys : list yv) (xs : list A) : bool :=
    match ys, xs with
    | [], [] => true
    | y :: ys', x :: xs' => f y x && zip_ok f ys' xs'
    | _, _ => false
    end.
  Definition as_written (doc : option yv) (c : config) : bool :=
    as_written1 (sub "version" doc) (c_version c)
    && as_written1 (sub "description" doc) (c_description c)
    && match c_pfcp c with
       | Some p => as_written1 (sub "addr" (sub "pfcp" doc)) (p_addr p) && as_written1 (sub "nodeID" (sub "pfcp" doc)) (p_nodeid p)
       | None => true end
    && match c_gtpu c with
       | Some g => as_written1 (sub "forwarder" (sub "gtpu" doc)) (g_forwarder g)
                   && zip_ok (fun y i => as_written1 (sub "addr" (Some y)) (i_addr i) && as_written1 (sub "type" (Some y)) (i_type i)
                                         && as_written1 (sub "name" (Some y)) (i_name i) && as_written1 (sub "ifname" (Some y)) (i_ifname i))
                             (elems (sub "ifList" (sub "gtpu" doc))) (g_iflist g)
       | None => true end
    && zip_ok (fun y d => as_written1 (sub "dnn" (Some y)) (d_dnn d) && as_written1 (sub "cidr" (Some y)) (d_cidr d)
                          && as_written1 (sub "natifname" (Some y)) (d_natifname d))
              (elems (sub "dnnList" doc)) (c_dnnlist c)
    && match c_logger c with Some l => as_written1 (sub "level" (sub "logger" doc)) (l_level l) | None => true end.

  (* what the implementation did with one document:
       ReadConfig's stage ("yaml" / "valid" / "resolve" / "ok"), whether it returned a nil *Config, the accepted
       configuration, what yaml.Unmarshal alone delivered, and whether NewDriver went on to open the forwarder *)
  Record impl_obs := {
    io_stage : string;
    io_cfg_nil : bool;
    io_cfg : option config;
    io_parsed : option config;
    io_driver_opens : bool
  }.

  (* C20 as a monitor on the implementation's outputs *)
  Definition mon_config (doc : option yv) (o : impl_obs) : bool :=
    if String.eqb (io_stage o) "ok" then
      match io_cfg o with
      | Some c =>
          negb (io_cfg_nil o)
          && opt_eqb config_eqb (io_parsed o) (Some c)          (* nothing rewritten after parsing *)
          && as_written doc c
          && (if io_driver_opens o then cond_okb c else true)   (* started => every listed condition *)
      | None => false
      end
    else io_cfg_nil o && negb (io_driver_opens o).               (* an error, and no partial configuration *)
End Monitor.

(* the version window 0.9.5 <= v < 0.10.0, written out *)
Definition in_window (v : N * N * N) : bool :=
  match v with (x, y, z) => (x =? 0)%N && (y =? 9)%N && (5 <=? z)%N end.
