(* C15 — specification side of the periodic-report server.
   Shared vocabulary (events, outputs, reports), the tiny SPEC the implementation model is shown to refine
   ("a set of (period, seid, urr)"), well-formedness of histories (the property's quantifier: a (seid,urr) is
   registered at most once at a time), and the boolean MONITORS that are applied to what the real Go code did.
   Depends on the standard library only: neither on the model (model/Perio.v) nor on generated tables. *)
From Coq Require Import List NArith Bool.
Import ListNotations.
Local Open Scope N_scope.

(* ---------------------------------------------------------------- vocabulary *)

(* a usage report as far as this property is concerned: the URR it is for, the trigger flags
   (report.UsageReportTrigger.Flags, a uint32) and an identity tag (carried in URSEQN by the harness) *)
Record report := { r_urr : N; r_flags : N; r_tag : N }.

(* the data plane's answer to one query: None = error, Some m = map SEID -> reports *)
Definition answer := option (list (N * list report)).

Inductive event :=
| Add (x u p : N)            (* AddPeriodReportTimer(lSeid, urrid, period) *)
| Del (x u : N)              (* DelPeriodReportTimer(lSeid, urrid) *)
| Tick (p : N) (a : answer)  (* TYPE_PERIO_TIMEOUT for period p; a = what queryURR will return if called *)
| Close.                     (* Server.Close *)

Inductive output :=
| Query (q : list (N * list N))          (* queryURR(map seid -> urr ids) *)
| Notify (x : N) (rs : list report)      (* handler.NotifySessReport{SEID, Reports} *)
| TickerStart (p : N)
| TickerStop (p : N)
| FaultSendOnClosed.                     (* the event was sent on the closed event channel: Go panics *)

(* TS 29.244 8.2.41: PERIO is bit 1 of octet 5 of the Usage Report Trigger, i.e. bit 0 of go-upf's
   little-endian Flags word *)
Definition PERIO_BIT : N := 0.
Definition is_periodic (r : report) : bool := N.testbit (r_flags r) PERIO_BIT.

(* ---------------------------------------------------------------- the spec *)

Definition reg := (N * (N * N))%type.     (* (period, (seid, urr)) *)

Definition reg_eqb (a b : reg) : bool :=
  (fst a =? fst b) && (fst (snd a) =? fst (snd b)) && (snd (snd a) =? snd (snd b)).
Definition pair_eqb (a b : N * N) : bool := (fst a =? fst b) && (snd a =? snd b).

Record spec := { regs : list reg; sopen : bool }.
Definition spec_init : spec := {| regs := []; sopen := true |}.

Definition spec_step (sp : spec) (e : event) : spec :=
  if sopen sp then
    match e with
    | Add x u p => if existsb (reg_eqb (p, (x, u))) (regs sp) then sp
                   else {| regs := regs sp ++ [(p, (x, u))]; sopen := true |}
    | Del x u => {| regs := filter (fun r => negb (pair_eqb (snd r) (x, u))) (regs sp); sopen := true |}
    | Tick _ _ => sp
    | Close => {| regs := []; sopen := false |}
    end
  else sp.

Definition spec_run (evs : list event) : spec := fold_left spec_step evs spec_init.

(* "each URR registered at most once at a time": an Add of (x,u) is admissible only if (x,u) is not
   currently registered under a DIFFERENT period (re-adding under the same period is idempotent) *)
Definition add_ok (sp : spec) (x u p : N) : Prop :=
  forall q, In (q, (x, u)) (regs sp) -> q = p.
Definition add_okb (sp : spec) (x u p : N) : bool :=
  forallb (fun r => negb (pair_eqb (snd r) (x, u)) || (fst r =? p)) (regs sp).

Definition ev_ok (sp : spec) (e : event) : Prop :=
  match e with Add x u p => add_ok sp x u p | _ => True end.
Definition ev_okb (sp : spec) (e : event) : bool :=
  match e with Add x u p => add_okb sp x u p | _ => true end.

Fixpoint wf_from (sp : spec) (evs : list event) : Prop :=
  match evs with [] => True | e :: r => ev_ok sp e /\ wf_from (spec_step sp e) r end.
Fixpoint wf_fromb (sp : spec) (evs : list event) : bool :=
  match evs with [] => true | e :: r => ev_okb sp e && wf_fromb (spec_step sp e) r end.
Definition wf_hist (evs : list event) : Prop := wf_from spec_init evs.
Definition wf_histb (evs : list event) : bool := wf_fromb spec_init evs.

(* the (seid,urr) pairs the spec holds for period p *)
Definition spec_pairs (sp : spec) (p : N) : list (N * N) :=
  map snd (filter (fun r => fst r =? p) (regs sp)).
Definition spec_periods (sp : spec) : list N := nodup N.eq_dec (map fst (regs sp)).

(* ---------------------------------------------------------------- helpers for the monitors *)

Definition flat_pairs (q : list (N * list N)) : list (N * N) :=
  flat_map (fun e => map (pair (fst e)) (snd e)) q.
Definition flat_regs (g : list (N * list (N * list N))) : list reg :=
  flat_map (fun e => map (pair (fst e)) (flat_pairs (snd e))) g.

Section SetB.
  Context {A : Type} (eqb : A -> A -> bool).
  Definition memb (a : A) (l : list A) : bool := existsb (eqb a) l.
  Definition inclb (l m : list A) : bool := forallb (fun a => memb a m) l.
  Fixpoint nodupb (l : list A) : bool :=
    match l with [] => true | a :: r => negb (memb a r) && nodupb r end.
  (* same set, and the first argument lists it without repetition *)
  Definition same_setb (l m : list A) : bool := inclb l m && inclb m l && nodupb l.
End SetB.

Definition report_eqb (a b : report) : bool :=
  (r_urr a =? r_urr b) && (r_flags a =? r_flags b) && (r_tag a =? r_tag b).
Fixpoint list_eqb {A} (eqb : A -> A -> bool) (l m : list A) : bool :=
  match l, m with
  | [], [] => true
  | a :: l', b :: m' => eqb a b && list_eqb eqb l' m'
  | _, _ => false
  end.

(* insertion sort of a SEID-keyed list (canonical order of a Go map with distinct keys) *)
Fixpoint ins_key {V} (e : N * V) (l : list (N * V)) : list (N * V) :=
  match l with
  | [] => [e]
  | h :: t => if fst e <=? fst h then e :: l else h :: ins_key e t
  end.
Definition sort_key {V} (l : list (N * V)) : list (N * V) := fold_right ins_key [] l.

(* what must be delivered for an answer: every returned report, PERIO set, under its SEID.
   [same_but_perio] compares a delivered report with a returned one: same URR, same identity, PERIO set. *)
Definition same_but_perio (d r : report) : bool :=
  (r_urr d =? r_urr r) && (r_tag d =? r_tag r) && is_periodic d.
Definition notify_matches (d r : N * list report) : bool :=
  (fst d =? fst r) && list_eqb same_but_perio (snd d) (snd r).

(* ---------------------------------------------------------------- observations and monitors *)

(* what was observed of the real server while it processed ONE event *)
Record obs := {
  o_queries : list (list (N * list N));      (* arguments of every queryURR call *)
  o_notifies : list (N * list report);       (* every NotifySessReport call *)
  o_groups : list (N * list (N * list N));   (* perioList afterwards: period -> seid -> urr ids *)
  o_tickers : N;                             (* live ticker goroutines afterwards *)
  o_fault : bool                             (* the injection panicked (send on closed channel) *)
}.

(* C15_tick_exact: a tick of period p queries exactly the pairs registered with p — one query, as a set,
   no duplicates; a stale tick (nothing registered with p) queries nothing; no other event queries *)
Definition mon_tick_exact (sp : spec) (e : event) (o : obs) : bool :=
  match e with
  | Tick p _ =>
      match spec_pairs sp p with
      | [] => match o_queries o with [] => true | _ => false end
      | want => match o_queries o with
                | [q] => same_setb pair_eqb (flat_pairs q) want
                         && forallb (fun e => match snd e with [] => false | _ => true end) q
                | _ => false
                end
      end
  | _ => match o_queries o with [] => true | _ => false end
  end.

(* C15_deliver: exactly the returned reports are notified, once, PERIO set, under the SEID they were returned
   for; nothing is notified on error / empty answer / stale tick / any other event *)
Definition mon_deliver (sp : spec) (e : event) (o : obs) : bool :=
  match e with
  | Tick p (Some (r :: rest)) =>
      match spec_pairs sp p with
      | [] => match o_notifies o with [] => true | _ => false end
      | _ => list_eqb notify_matches (sort_key (o_notifies o)) (sort_key (r :: rest))
      end
  | _ => match o_notifies o with [] => true | _ => false end
  end.

(* C15_tickers: the group table is the spec's set (no empty group, no empty entry, nothing twice),
   one live ticker per period that has a registration, none after Close *)
Definition mon_tickers (sp' : spec) (o : obs) : bool :=
  same_setb reg_eqb (flat_regs (o_groups o)) (regs sp')
  && forallb (fun g => match snd g with [] => false | _ => true end
                       && forallb (fun e => match snd e with [] => false | _ => true end) (snd g)) (o_groups o)
  && nodupb N.eqb (map fst (o_groups o))
  && (o_tickers o =? N.of_nat (length (spec_periods sp'))).

(* one event: [sp] = spec before, [spec_step sp e] after.  Once closed nothing happens any more - in particular a post
   after Close must not fault (it is dropped). *)
Definition mon_event (sp : spec) (e : event) (o : obs) : bool :=
  if sopen sp then
    negb (o_fault o) && mon_tick_exact sp e o && mon_deliver sp e o && mon_tickers (spec_step sp e) o
  else
    match o_queries o, o_notifies o, o_groups o with
    | [], [], [] => (o_tickers o =? 0) && negb (o_fault o)
    | _, _, _ => false
    end.

Fixpoint mon_from (sp : spec) (evs : list event) (os : list obs) : bool :=
  match evs, os with
  | [], [] => true
  | e :: r, o :: ro => mon_event sp e o && mon_from (spec_step sp e) r ro
  | _, _ => false
  end.
Definition monitor (evs : list event) (os : list obs) : bool := mon_from spec_init evs os.

(* index of the first event whose observation the monitor rejects (for replays) *)
Fixpoint mon_first_bad (sp : spec) (evs : list event) (os : list obs) (i : N) : option N :=
  match evs, os with
  | [], [] => None
  | e :: r, o :: ro => if mon_event sp e o then mon_first_bad (spec_step sp e) r ro (i + 1) else Some i
  | _, _ => Some i
  end.

(* batching: the requests partition the flattened list in order, each with 1..n elements *)
Definition mon_batches {A} (eqb : A -> A -> bool) (n : nat) (l : list A) (bs : list (list A)) : bool :=
  list_eqb eqb (concat bs) l
  && forallb (fun b => (Nat.leb 1 (length b)) && Nat.leb (length b) n) bs.
