(* DESIGN-PHASE SPIKE - not part of the verification machinery, no check uses it.
   Reduced session-table model (node.go:612-690 + record-before-call + data plane with failing creates)
   written to choose representations for coq/model/Node.v; see DESIGN.md Appendix A.
   coqc Spike_session_table.v : ~2.5 s, all three Print Assumptions say "Closed under the global context". *)
From Coq Require Import List NArith ZArith Bool Lia.
Import ListNotations.
Local Open Scope N_scope.

(* ---------- fault monad ---------- *)
Inductive why := IndexOutOfRange | NilDeref.
Inductive Res (A:Type) := Ok (a:A) | Fault (w:why).
Arguments Ok {A}. Arguments Fault {A}.

(* ---------- sessions (FAR only) ---------- *)
Record sess := { lid : N; rid : N; fars : list N }.

Record st := { slots : list (option sess); free : list N; dp : list (N*N) (* seid,farid *) }.

Definition init : st := {| slots := []; free := []; dp := [] |}.

Definition two63 : Z := 2^63.
Definition two64 : Z := 2^64.
(* Go: int(uint64) *)
Definition to_int64 (x:N) : Z :=
  let z := Z.of_N x in if (z <? two63)%Z then z else (z - two64)%Z.

Inductive lk := Found (s:sess) | NotFound.

(* fixed lookup: check before conversion *)
Definition lookup (s:st) (seid:N) : lk :=
  if seid =? 0 then NotFound else
  if N.of_nat (length (slots s)) <? seid then NotFound else
  match nth_error (slots s) (N.to_nat (seid-1)) with
  | Some (Some x) => Found x
  | _ => NotFound
  end.

(* legacy lookup as the code is today *)
Definition lookup_legacy (s:st) (seid:N) : Res lk :=
  if seid =? 0 then Ok NotFound else
  let i := (to_int64 seid - 1)%Z in
  if (Z.of_nat (length (slots s)) <=? i)%Z then Ok NotFound else
  if (i <? 0)%Z then Fault IndexOutOfRange else
  match nth_error (slots s) (Z.to_nat i) with
  | Some (Some x) => Ok (Found x)
  | _ => Ok NotFound
  end.

Example legacy_faults : lookup_legacy init (2^64-1) = Fault IndexOutOfRange.
Proof. vm_compute. reflexivity. Qed.

Fixpoint set_nth {A} (l:list A) (n:nat) (a:A) : list A :=
  match l, n with
  | [], _ => []
  | _::t, O => a::t
  | h::t, S n => h :: set_nth t n a
  end.

Definition new_sess (s:st) (r:N) : st * N :=
  match rev (free s) with
  | id :: rest =>
      let x := {| lid := id; rid := r; fars := [] |} in
      ({| slots := set_nth (slots s) (N.to_nat (id-1)) (Some x); free := rev rest; dp := dp s |}, id)
  | [] =>
      let id := N.of_nat (S (length (slots s))) in
      let x := {| lid := id; rid := r; fars := [] |} in
      ({| slots := slots s ++ [Some x]; free := free s; dp := dp s |}, id)
  end.

Definition upd_sess (s:st) (x:sess) : st :=
  {| slots := set_nth (slots s) (N.to_nat (lid x - 1)) (Some x); free := free s; dp := dp s |}.

Definition mem (a:N) (l:list N) : bool := existsb (N.eqb a) l.
Definition remove (a:N) (l:list N) : list N := filter (fun b => negb (N.eqb a b)) l.
Definition memp (a:N*N) (l:list (N*N)) : bool := existsb (fun b => (fst a =? fst b) && (snd a =? snd b)) l.
Definition removep (a:N*N) (l:list (N*N)) := filter (fun b => negb ((fst a =? fst b) && (snd a =? snd b))) l.

(* data plane: create may fail by oracle or because present; remove succeeds iff present *)
Definition dp_create (d:list (N*N)) (fail:bool) (k:N*N) : list (N*N) * bool :=
  if fail || memp k d then (d,false) else (k::d, true).
Definition dp_remove (d:list (N*N)) (k:N*N) : list (N*N) * bool :=
  if memp k d then (removep k d, true) else (d,false).

Definition create_far (s:st) (x:sess) (id:N) (fail:bool) : st :=
  let x' := {| lid := lid x; rid := rid x; fars := if mem id (fars x) then fars x else id :: fars x |} in
  let s1 := upd_sess s x' in
  let '(d,_) := dp_create (dp s1) fail (lid x, id) in
  {| slots := slots s1; free := free s1; dp := d |}.

Definition remove_far (s:st) (x:sess) (id:N) : st :=
  if mem id (fars x) then
    let '(d,ok) := dp_remove (dp s) (lid x, id) in
    if ok then
      let x' := {| lid := lid x; rid := rid x; fars := remove id (fars x) |} in
      let s1 := upd_sess s x' in {| slots := slots s1; free := free s1; dp := d |}
    else {| slots := slots s; free := free s; dp := d |}
  else s.

(* Close: remove every recorded far from dp (ignoring errors) *)
Definition close_dp (d:list (N*N)) (seid:N) (ids:list N) : list (N*N) :=
  fold_left (fun d id => fst (dp_remove d (seid,id))) ids d.

Definition delete_sess (s:st) (x:sess) : st :=
  {| slots := set_nth (slots s) (N.to_nat (lid x - 1)) None;
     free := free s ++ [lid x];
     dp := close_dp (dp s) (lid x) (fars x) |}.

Inductive ev :=
| Est (r:N)
| CFar (seid:N) (id:N) (fail:bool)
| RFar (seid:N) (id:N)
| Del (seid:N).

Definition step (s:st) (e:ev) : st :=
  match e with
  | Est r => fst (new_sess s r)
  | CFar seid id fail => match lookup s seid with Found x => create_far s x id fail | NotFound => s end
  | RFar seid id => match lookup s seid with Found x => remove_far s x id | NotFound => s end
  | Del seid => match lookup s seid with Found x => delete_sess s x | NotFound => s end
  end.

(* ---------- invariant ---------- *)
Definition live (s:st) (seid:N) : Prop := exists x, lookup s seid = Found x.

Record Inv (s:st) : Prop := {
  inv_lid : forall i x, nth_error (slots s) i = Some (Some x) -> lid x = N.of_nat (S i);
  inv_free_nodup : NoDup (free s);
  inv_free : forall id, In id (free s) <-> (1 <= id /\ id <= N.of_nat (length (slots s)) /\ nth_error (slots s) (N.to_nat (id-1)) = Some None);
  inv_dp : forall seid id, In (seid,id) (dp s) -> exists x, lookup s seid = Found x /\ In id (fars x)
}.

(* ---------- list helpers ---------- *)
Lemma set_nth_length {A} (l:list A) n a : length (set_nth l n a) = length l.
Proof. revert n; induction l as [|h t IH]; intros [|n]; simpl; auto. Qed.

Lemma nth_set_nth_eq {A} (l:list A) n a : (n < length l)%nat -> nth_error (set_nth l n a) n = Some a.
Proof. revert n; induction l as [|h t IH]; intros [|n] H; simpl in *; try lia; auto. apply IH; lia. Qed.

Lemma nth_set_nth_ne {A} (l:list A) n m a : n <> m -> nth_error (set_nth l n a) m = nth_error l m.
Proof. revert n m; induction l as [|h t IH]; intros [|n] [|m] H; simpl; auto; try congruence. Qed.

Lemma mem_In a l : mem a l = true <-> In a l.
Proof. unfold mem. rewrite existsb_exists. split.
  - intros [x [Hx E]]. apply N.eqb_eq in E. subst; auto.
  - intros H. exists a. split; auto. apply N.eqb_refl. Qed.

Lemma memp_In a l : memp a l = true <-> In a l.
Proof. unfold memp. rewrite existsb_exists. destruct a as [a1 a2]. split.
  - intros [[b1 b2] [Hx E]]. simpl in E. apply andb_true_iff in E as [E1 E2].
    apply N.eqb_eq in E1, E2. subst; auto.
  - intros H. exists (a1,a2). split; auto. simpl. rewrite !N.eqb_refl. reflexivity. Qed.

Lemma In_removep a b l : In b (removep a l) <-> In b l /\ b <> a.
Proof. unfold removep. rewrite filter_In. destruct a as [a1 a2], b as [b1 b2]. simpl.
  split; intros [H1 H2]; split; auto.
  - intro E. inversion E; subst. rewrite !N.eqb_refl in H2. discriminate.
  - destruct (a1 =? b1) eqn:E1; destruct (a2 =? b2) eqn:E2; simpl; auto.
    apply N.eqb_eq in E1, E2. subst. congruence. Qed.

Lemma In_remove a b l : In b (remove a l) <-> In b l /\ b <> a.
Proof. unfold remove. rewrite filter_In. split; intros [H1 H2]; split; auto.
  - intro E; subst. rewrite N.eqb_refl in H2. discriminate.
  - destruct (a =? b) eqn:E; auto. apply N.eqb_eq in E. congruence. Qed.

(* ---------- lookup characterisation ---------- *)
Lemma lookup_Found s seid x :
  lookup s seid = Found x <->
  (1 <= seid /\ nth_error (slots s) (N.to_nat (seid-1)) = Some (Some x)).
Proof.
  unfold lookup. destruct (N.eqb_spec seid 0) as [->|Hz].
  - split; [discriminate|]. intros [H _]. lia.
  - destruct (N.ltb_spec (N.of_nat (length (slots s))) seid) as [Hlt|Hge].
    + split; [discriminate|]. intros [_ H].
      assert (N.to_nat (seid-1) < length (slots s))%nat by (apply nth_error_Some; congruence). lia.
    + destruct (nth_error (slots s) (N.to_nat (seid-1))) as [[y|]|] eqn:E.
      * split; intros H.
        -- inversion H; subst. split; [lia|reflexivity].
        -- destruct H as [_ H]. inversion H; reflexivity.
      * split; [discriminate|]. intros [_ H]; discriminate.
      * split; [discriminate|]. intros [_ H]; discriminate.
Qed.

Lemma lookup_lid s (I:Inv s) seid x : lookup s seid = Found x -> lid x = seid.
Proof. intros H. apply lookup_Found in H as [H1 H2]. apply (inv_lid s I) in H2. lia. Qed.

(* ---------- Inv init ---------- *)
Lemma Inv_init : Inv init.
Proof. constructor; simpl.
  - intros i x H. destruct i; discriminate.
  - constructor.
  - intros id. split; [tauto|]. intros [H1 [H2 _]]. lia.
  - tauto. Qed.

(* lookup after updating slot j *)
Lemma lookup_set_same s j v fr d :
  (j < length (slots s))%nat ->
  lookup {| slots := set_nth (slots s) j v; free := fr; dp := d |} (N.of_nat (S j)) =
  match v with Some x => Found x | None => NotFound end.
Proof.
  intros Hj. unfold lookup; cbn [slots]. rewrite set_nth_length.
  destruct (N.eqb_spec (N.of_nat (S j)) 0); [lia|].
  destruct (N.ltb_spec (N.of_nat (length (slots s))) (N.of_nat (S j))); [lia|].
  replace (N.to_nat (N.of_nat (S j) - 1)) with j by lia.
  rewrite nth_set_nth_eq by assumption. destruct v; reflexivity.
Qed.

Lemma lookup_set_other s j v fr d seid :
  seid <> N.of_nat (S j) ->
  lookup {| slots := set_nth (slots s) j v; free := fr; dp := d |} seid = lookup s seid.
Proof.
  intros Hne. unfold lookup; cbn [slots]. rewrite set_nth_length.
  destruct (N.eqb_spec seid 0); [reflexivity|].
  destruct (N.of_nat (length (slots s)) <? seid); [reflexivity|].
  rewrite nth_set_nth_ne; [reflexivity|]. lia.
Qed.

(* generic: rewriting a live slot with a session of the same lid, keeping free, any dp satisfying containment *)
Lemma Inv_set_live s (I:Inv s) x x' d :
  lookup s (lid x) = Found x -> lid x' = lid x ->
  (forall seid id, In (seid,id) d ->
     (seid = lid x /\ In id (fars x')) \/ (seid <> lid x /\ exists y, lookup s seid = Found y /\ In id (fars y))) ->
  Inv {| slots := set_nth (slots s) (N.to_nat (lid x - 1)) (Some x'); free := free s; dp := d |}.
Proof.
  intros Hl Hlid Hd. pose proof Hl as Hl'. apply lookup_Found in Hl' as [H1 H2].
  assert (Hj : (N.to_nat (lid x - 1) < length (slots s))%nat) by (apply nth_error_Some; congruence).
  set (j := N.to_nat (lid x - 1)) in *.
  assert (Hseid : lid x = N.of_nat (S j)) by (unfold j; lia).
  constructor; simpl.
  - intros i y Hy. destruct (Nat.eq_dec j i) as [<-|Hne].
    + rewrite nth_set_nth_eq in Hy by assumption. inversion Hy; subst. lia.
    + rewrite nth_set_nth_ne in Hy by assumption. apply (inv_lid s I) in Hy. assumption.
  - apply (inv_free_nodup s I).
  - intros id. rewrite set_nth_length. rewrite (inv_free s I id).
    destruct (Nat.eq_dec j (N.to_nat (id-1))) as [E|Hne].
    + split; intros [Ha [Hb Hc]].
      * rewrite <- E in Hc. congruence.
      * rewrite <- E in Hc. rewrite nth_set_nth_eq in Hc by assumption. discriminate.
    + rewrite nth_set_nth_ne by assumption. tauto.
  - intros seid id Hin. destruct (Hd _ _ Hin) as [[-> Hf]|[Hne [y [Hy Hf]]]].
    + exists x'. split; [|assumption]. rewrite Hseid. rewrite lookup_set_same by assumption. reflexivity.
    + exists y. split; [|assumption]. rewrite lookup_set_other; [assumption|]. congruence.
Qed.

Lemma Inv_create_far s (I:Inv s) x id fail : lookup s (lid x) = Found x -> Inv (create_far s x id fail).
Proof.
  intros Hl. unfold create_far, upd_sess, dp_create; simpl.
  set (x' := {| lid := lid x; rid := rid x; fars := if mem id (fars x) then fars x else id :: fars x |}).
  assert (Hsub : forall i, In i (fars x) -> In i (fars x')).
  { intros i Hi. unfold x'; simpl. destruct (mem id (fars x)); simpl; auto. }
  assert (Hid : In id (fars x')).
  { unfold x'; simpl. destruct (mem id (fars x)) eqn:E; simpl; auto. apply mem_In; assumption. }
  destruct (fail || memp (lid x, id) (dp s)) eqn:E.
  - apply (Inv_set_live s I x x'); auto. intros seid i Hin.
    destruct (inv_dp s I _ _ Hin) as [y [Hy Hf]].
    destruct (N.eq_dec seid (lid x)) as [->|Hne].
    + left. split; auto. rewrite Hl in Hy. inversion Hy; subst. auto.
    + right. split; auto. exists y; auto.
  - apply (Inv_set_live s I x x'); auto. intros seid i [Hin|Hin].
    + inversion Hin; subst. left; auto.
    + destruct (inv_dp s I _ _ Hin) as [y [Hy Hf]].
      destruct (N.eq_dec seid (lid x)) as [->|Hne].
      * left. split; auto. rewrite Hl in Hy. inversion Hy; subst. auto.
      * right. split; auto. exists y; auto.
Qed.

Lemma Inv_dp_only s (I:Inv s) d :
  (forall k, In k d -> In k (dp s)) -> Inv {| slots := slots s; free := free s; dp := d |}.
Proof. intros H. destruct I as [A B C D]. constructor; simpl; auto.
  intros seid id Hin. destruct (D _ _ (H _ Hin)) as [y [Hy Hf]]. exists y. split; auto. Qed.

Lemma Inv_remove_far s (I:Inv s) x id : lookup s (lid x) = Found x -> Inv (remove_far s x id).
Proof.
  intros Hl. unfold remove_far. destruct (mem id (fars x)) eqn:Hm; [|assumption].
  unfold dp_remove. destruct (memp (lid x, id) (dp s)) eqn:Hp.
  - unfold upd_sess; simpl.
    set (x' := {| lid := lid x; rid := rid x; fars := remove id (fars x) |}).
    apply (Inv_set_live s I x x'); auto. intros seid i Hin.
    apply In_removep in Hin as [Hin Hne].
    destruct (inv_dp s I _ _ Hin) as [y [Hy Hf]].
    destruct (N.eq_dec seid (lid x)) as [->|Hn].
    + left. split; auto. rewrite Hl in Hy. inversion Hy; subst. unfold x'; simpl.
      apply In_remove. split; auto. congruence.
    + right. split; auto. exists y; auto.
  - destruct s; assumption.
Qed.

(* new_sess *)
Lemma Inv_new_sess s (I:Inv s) r : Inv (fst (new_sess s r)).
Proof.
  unfold new_sess. destruct (rev (free s)) as [|id rest] eqn:Hr; cbn [fst].
  - (* append *)
    assert (Hf : free s = []) by (destruct (free s); [reflexivity|]; apply (f_equal (@length N)) in Hr; rewrite rev_length in Hr; discriminate).
    constructor; cbn [slots free dp].
    + intros i x Hx. destruct (Nat.lt_ge_cases i (length (slots s))) as [Hlt|Hge].
      * rewrite nth_error_app1 in Hx by assumption. apply (inv_lid s I); assumption.
      * rewrite nth_error_app2 in Hx by assumption.
        destruct (i - length (slots s))%nat as [|k] eqn:E; cbn in Hx.
        -- inversion Hx; subst; cbn [lid]. replace i with (length (slots s)) by lia. reflexivity.
        -- destruct k; discriminate.
    + rewrite Hf; constructor.
    + intros id. rewrite Hf. split; [intros []|]. intros [H1 [H2 H3]].
      rewrite app_length in H2; cbn [length] in H2.
      destruct (Nat.lt_ge_cases (N.to_nat (id-1)) (length (slots s))) as [Hlt|Hge].
      * rewrite nth_error_app1 in H3 by assumption.
        assert (In id (free s)) by (apply (inv_free s I); repeat split; auto; lia).
        rewrite Hf in H; destruct H.
      * rewrite nth_error_app2 in H3 by assumption.
        destruct (N.to_nat (id-1) - length (slots s))%nat as [|k] eqn:E; cbn in H3; [discriminate|destruct k; discriminate].
    + intros seid i Hin. destruct (inv_dp s I _ _ Hin) as [y [Hy Hfy]]. exists y. split; auto.
      apply lookup_Found in Hy as [Hy1 Hy2]. apply lookup_Found. split; auto. cbn [slots].
      rewrite nth_error_app1; auto. apply nth_error_Some. congruence.
  - (* reuse last freed id *)
    assert (Hfr : free s = rev rest ++ [id]).
    { rewrite <- (rev_involutive (free s)), Hr. reflexivity. }
    assert (Hin : In id (free s)) by (rewrite Hfr; apply in_or_app; right; left; reflexivity).
    pose proof (proj1 (inv_free s I id) Hin) as [H1 [H2 H3]].
    assert (Hj : (N.to_nat (id-1) < length (slots s))%nat) by lia.
    set (j := N.to_nat (id-1)) in *.
    set (x := {| lid := id; rid := r; fars := [] |}).
    constructor; simpl.
    + intros i y Hy. destruct (Nat.eq_dec j i) as [<-|Hne].
      * rewrite nth_set_nth_eq in Hy by assumption. inversion Hy; subst; simpl. unfold j; lia.
      * rewrite nth_set_nth_ne in Hy by assumption. apply (inv_lid s I); assumption.
    + pose proof (inv_free_nodup s I) as Hnd. rewrite Hfr in Hnd.
      apply NoDup_remove_1 in Hnd. rewrite app_nil_r in Hnd. assumption.
    + intros id'. rewrite set_nth_length.
      pose proof (inv_free_nodup s I) as Hnd. rewrite Hfr in Hnd.
      apply NoDup_remove_2 in Hnd. rewrite app_nil_r in Hnd.
      destruct (N.eq_dec id' id) as [->|Hne].
      * split; [intros H; contradiction|]. intros [_ [_ H]]. fold j in H.
        rewrite nth_set_nth_eq in H by assumption. discriminate.
      * split.
        -- intros Hin'. assert (Hin2 : In id' (free s)) by (rewrite Hfr; apply in_or_app; left; assumption).
           apply (inv_free s I) in Hin2 as [Ha [Hb Hc]]. repeat split; auto.
           rewrite nth_set_nth_ne by (unfold j; lia). assumption.
        -- intros [Ha [Hb Hc]]. rewrite nth_set_nth_ne in Hc by (unfold j; lia).
           assert (Hin2 : In id' (free s)) by (apply (inv_free s I); auto).
           rewrite Hfr in Hin2. apply in_app_or in Hin2 as [Hin2|[Hin2|[]]]; auto. congruence.
    + intros seid i Hi. destruct (inv_dp s I _ _ Hi) as [y [Hy Hfy]]. exists y. split; auto.
      assert (seid <> N.of_nat (S j)).
      { intro E. apply lookup_Found in Hy as [Hy1 Hy2]. subst seid.
        replace (N.to_nat (N.of_nat (S j) - 1)) with j in Hy2 by lia. congruence. }
      rewrite lookup_set_other by assumption. assumption.
Qed.


Lemma NoDup_app_snoc {A} (l:list A) a : NoDup l -> ~ In a l -> NoDup (l ++ [a]).
Proof. induction l as [|h t IH]; intros Hnd Hn; simpl.
  - constructor; [intros []|constructor].
  - inversion Hnd; subst. constructor.
    + rewrite in_app_iff. simpl. intros [H|[H|[]]]; auto. subst. apply Hn; left; reflexivity.
    + apply IH; auto. intro; apply Hn; right; assumption. Qed.

(* close_dp only removes rules of seid, and removes all listed ids *)
Lemma close_dp_In d seid ids k : In k (close_dp d seid ids) <-> In k d /\ ~ (fst k = seid /\ In (snd k) ids).
Proof.
  unfold close_dp. revert d. induction ids as [|i ids IH]; intros d; simpl.
  - tauto.
  - rewrite IH. unfold dp_remove. destruct (memp (seid,i) d) eqn:E; simpl.
    + rewrite In_removep. destruct k as [a b]; simpl. split.
      * intros [[H1 H2] H3]. split; auto. intros [Ha [Hb|Hb]]; subst; auto.
      * intros [H1 H2]. split; [split; auto|].
        -- intro Ek; inversion Ek; subst. apply H2; auto.
        -- intros [Ha Hb]. apply H2; auto.
    + destruct k as [a b]; simpl. split.
      * intros [H1 H2]. split; auto. intros [Ha [Hb|Hb]]; subst; auto.
        assert (memp (seid,b) d = true) by (apply memp_In; assumption). congruence.
      * intros [H1 H2]. split; auto. intros [Ha Hb]. apply H2; auto.
Qed.

Lemma Inv_delete_sess s (I:Inv s) x : lookup s (lid x) = Found x -> Inv (delete_sess s x).
Proof.
  intros Hl. pose proof Hl as Hl'. apply lookup_Found in Hl' as [H1 H2].
  assert (Hj : (N.to_nat (lid x - 1) < length (slots s))%nat) by (apply nth_error_Some; congruence).
  set (j := N.to_nat (lid x - 1)) in *.
  assert (Hseid : lid x = N.of_nat (S j)) by (unfold j; lia).
  assert (Hnf : ~ In (lid x) (free s)).
  { intro Hin. apply (inv_free s I) in Hin as [_ [_ Hc]]. fold j in Hc. congruence. }
  unfold delete_sess. fold j. constructor; cbn [slots free dp].
  - intros i y Hy. destruct (Nat.eq_dec j i) as [<-|Hne].
    + rewrite nth_set_nth_eq in Hy by assumption. discriminate.
    + rewrite nth_set_nth_ne in Hy by assumption. apply (inv_lid s I); assumption.
  - apply NoDup_app_snoc; [apply (inv_free_nodup s I)|assumption].
  - intros id. rewrite set_nth_length, in_app_iff. cbn [In].
    destruct (N.eq_dec id (lid x)) as [->|Hne].
    + split; [intros _|auto]. repeat split; try lia. fold j. rewrite nth_set_nth_eq by assumption. reflexivity.
    + split.
      * intros [Hin|[E|[]]]; [|congruence]. apply (inv_free s I) in Hin as [Ha [Hb Hc]].
        repeat split; auto. rewrite nth_set_nth_ne by (unfold j; lia). assumption.
      * intros [Ha [Hb Hc]]. left. rewrite nth_set_nth_ne in Hc by (unfold j; lia).
        apply (inv_free s I); auto.
  - intros seid i Hin. apply close_dp_In in Hin as [Hin Hnot]. cbn [fst snd] in Hnot.
    destruct (inv_dp s I _ _ Hin) as [y [Hy Hfy]].
    assert (Hne : seid <> lid x).
    { intro E; subst seid. rewrite Hl in Hy. inversion Hy; subst. apply Hnot; auto. }
    exists y. split; auto. rewrite lookup_set_other by congruence. assumption.
Qed.

Lemma Inv_step s e : Inv s -> Inv (step s e).
Proof.
  intros I. destruct e as [r|seid id fail|seid id|seid]; cbn [step].
  - apply Inv_new_sess; assumption.
  - destruct (lookup s seid) as [x|] eqn:E; [|assumption].
    apply Inv_create_far; auto. rewrite (lookup_lid s I _ _ E). assumption.
  - destruct (lookup s seid) as [x|] eqn:E; [|assumption].
    apply Inv_remove_far; auto. rewrite (lookup_lid s I _ _ E). assumption.
  - destruct (lookup s seid) as [x|] eqn:E; [|assumption].
    apply Inv_delete_sess; auto. rewrite (lookup_lid s I _ _ E). assumption.
Qed.

Theorem Inv_run H : Inv (fold_left step H init).
Proof.
  assert (G : forall s, Inv s -> Inv (fold_left step H s)).
  { induction H as [|e H IH]; intros s I; cbn [fold_left]; auto. apply IH, Inv_step, I. }
  apply G, Inv_init.
Qed.

(* C01 containment for every history, every fault pattern (faults are inside events here) *)
Theorem containment H seid id :
  In (seid,id) (dp (fold_left step H init)) ->
  exists x, lookup (fold_left step H init) seid = Found x /\ In id (fars x).
Proof. apply (inv_dp _ (Inv_run H)). Qed.

(* C01 withdrawal: after Del of a live session no rule of that seid remains *)
Theorem withdrawal H seid x id :
  let s := fold_left step H init in
  lookup s seid = Found x -> ~ In (seid,id) (dp (step s (Del seid))).
Proof.
  intros s Hl Hin. cbn [step] in Hin. rewrite Hl in Hin. unfold delete_sess in Hin; cbn [dp] in Hin.
  pose proof (Inv_run H) as I. fold s in I.
  apply close_dp_In in Hin as [Hin Hnot]. cbn [fst snd] in Hnot.
  destruct (inv_dp s I _ _ Hin) as [y [Hy Hf]].
  rewrite Hl in Hy. inversion Hy; subst y. apply Hnot. split; auto.
  symmetry. apply (lookup_lid s I _ _ Hl).
Qed.

(* C04: unknown SEIDs change nothing; any N allowed (incl. >= 2^63) *)
Theorem notfound_noop s seid : lookup s seid = NotFound ->
  step s (Del seid) = s /\ (forall id f, step s (CFar seid id f) = s) /\ (forall id, step s (RFar seid id) = s).
Proof. intros E. cbn [step]. rewrite E. auto. Qed.

(* uniqueness of issued id *)
Theorem new_sess_fresh s (I:Inv s) r : let '(s',id) := new_sess s r in
  id <> 0 /\ lookup s id = NotFound /\ exists x, lookup s' id = Found x /\ rid x = r /\ fars x = [].
Proof.
  unfold new_sess. destruct (rev (free s)) as [|id rest] eqn:Hr.
  - split; [lia|]. split.
    + unfold lookup. destruct (N.eqb_spec (N.of_nat (S (length (slots s)))) 0); [reflexivity|].
      destruct (N.ltb_spec (N.of_nat (length (slots s))) (N.of_nat (S (length (slots s))))); [reflexivity|lia].
    + exists {| lid := N.of_nat (S (length (slots s))); rid := r; fars := [] |}. split; [|split; reflexivity]. apply lookup_Found. cbn [slots]. split; [lia|].
      replace (N.to_nat (N.of_nat (S (length (slots s))) - 1)) with (length (slots s)) by lia.
      rewrite nth_error_app2 by lia. rewrite Nat.sub_diag. reflexivity.
  - assert (Hfr : free s = rev rest ++ [id]) by (rewrite <- (rev_involutive (free s)), Hr; reflexivity).
    assert (Hin : In id (free s)) by (rewrite Hfr; apply in_or_app; right; left; reflexivity).
    pose proof (proj1 (inv_free s I id) Hin) as [H1 [H2 H3]].
    split; [lia|]. split.
    + destruct (lookup s id) as [y|] eqn:E; [|reflexivity]. apply lookup_Found in E as [_ E]. congruence.
    + exists {| lid := id; rid := r; fars := [] |}. split; [|split; reflexivity].
      pose proof (lookup_set_same s (N.to_nat (id-1)) (Some {| lid := id; rid := r; fars := [] |}) (rev rest) (dp s)) as L.
      replace (N.of_nat (S (N.to_nat (id-1)))) with id in L by lia. apply L. lia.
Qed.

Print Assumptions containment.
Print Assumptions withdrawal.
Print Assumptions new_sess_fresh.
