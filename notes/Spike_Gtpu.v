(* DESIGN-PHASE SPIKE - not part of the verification machinery, no check uses it. See DESIGN.md Appendix A. *)
From Coq Require Import List NArith Bool Lia.
Import ListNotations.
Local Open Scope N_scope.

Definition be16 (x:N) : list N := [ (x / 256) mod 256 ; x mod 256 ].
Definition be32 (x:N) : list N := [ (x / 16777216) mod 256 ; (x / 65536) mod 256 ; (x / 256) mod 256 ; x mod 256 ].
Definition rd16 (a b:N) : N := a*256 + b.
Definition rd32 (a b c d:N) : N := a*16777216 + b*65536 + c*256 + d.

Lemma rd16_be16 x : x < 65536 -> match be16 x with [a;b] => rd16 a b = x | _ => False end.
Proof. intros H. unfold be16, rd16. rewrite (N.mod_small (x/256)) by (apply N.div_lt_upper_bound; lia).
  rewrite (N.div_mod x 256) at 3 by lia. lia. Qed.

Lemma rd32_be32 x : x < 4294967296 -> match be32 x with [a;b;c;d] => rd32 a b c d = x | _ => False end.
Proof.
  intros H. unfold be32, rd32.
  assert (E1 := N.div_mod x 256 ltac:(lia)).
  assert (E2 := N.div_mod (x/256) 256 ltac:(lia)).
  assert (E3 := N.div_mod (x/256/256) 256 ltac:(lia)).
  replace (x / 65536) with (x/256/256) by (rewrite N.div_div by lia; reflexivity).
  replace (x / 16777216) with (x/256/256/256) by (rewrite !N.div_div by lia; reflexivity).
  assert (x/256/256/256 < 256) by (repeat apply N.div_lt_upper_bound; lia).
  rewrite (N.mod_small (x/256/256/256)) by assumption. lia.
Qed.

(* model of gtpv1.Message.Encode for Flags=0x34, one optional PSC ext; qmask = 63 after the fix *)
Definition qmask : N := 63.
Definition psc (pt qfi : N) : list N := [133; 1; (pt * 16) mod 256; N.land qfi qmask].

Definition msg_len (ext : option (N*N)) (payload : list N) : N :=
  11 + (match ext with Some _ => 4 | None => 0 end) + 1 + N.of_nat (length payload).

Definition encode (teid : N) (ext : option (N*N)) (payload : list N) : list N :=
  [52; 255] ++ be16 ((msg_len ext payload - 8) mod 65536) ++ be32 teid ++ [0;0;0] ++
  (match ext with Some (pt,qfi) => psc pt qfi | None => [] end) ++ [0] ++ payload.

Record gpdu := { g_teid : N; g_len : N; g_ext : option (N*N); g_payload : list N }.

(* independent reference parser: TS 29.281 5.1 + TS 38.415 5.5.2 *)
Definition ref_parse (bs : list N) : option gpdu :=
  match bs with
  | fl :: ty :: l1 :: l2 :: t1 :: t2 :: t3 :: t4 :: rest =>
    if negb (fl / 32 =? 1) then None else            (* version 1 *)
    if negb (N.testbit fl 4) then None else           (* PT = GTP *)
    if negb (ty =? 255) then None else
    let len := rd16 l1 l2 in
    if negb (len =? N.of_nat (length rest)) then None else
    let teid := rd32 t1 t2 t3 t4 in
    if N.testbit fl 2 || N.testbit fl 1 || N.testbit fl 0 then
      match rest with
      | _s1 :: _s2 :: _np :: next :: rest' =>
        if next =? 0 then Some {| g_teid := teid; g_len := len; g_ext := None; g_payload := rest' |}
        else if next =? 133 then
          match rest' with
          | elen :: c1 :: c2 :: next2 :: rest'' =>
            if negb (elen =? 1) then None else
            if negb (next2 =? 0) then None else
            Some {| g_teid := teid; g_len := len; g_ext := Some (c1 / 16, c2 mod 64); g_payload := rest'' |}
          | _ => None
          end
        else None
      | _ => None
      end
    else Some {| g_teid := teid; g_len := len; g_ext := None; g_payload := rest |}
  | _ => None
  end.

Theorem roundtrip teid ext payload :
  teid < 4294967296 ->
  (match ext with Some (pt,qfi) => pt < 16 /\ qfi < 64 | None => True end) ->
  msg_len ext payload - 8 < 65536 ->
  ref_parse (encode teid ext payload) =
    Some {| g_teid := teid; g_len := msg_len ext payload - 8; g_ext := ext; g_payload := payload |}.
Proof.
  intros Ht He Hl. unfold encode.
  pose proof (rd32_be32 teid Ht) as R32.
  pose proof (rd16_be16 ((msg_len ext payload - 8) mod 65536) ltac:(apply N.mod_lt; lia)) as R16.
  rewrite (N.mod_small _ _ Hl) in *.
  destruct (be32 teid) as [|a [|b [|c [|d [|? ?]]]]] eqn:E32; try contradiction.
  destruct (be16 (msg_len ext payload - 8)) as [|l1 [|l2 [|? ?]]] eqn:E16; try contradiction.
  cbn [app ref_parse].
  change (52 / 32 =? 1) with true. change (N.testbit 52 4) with true. change (255 =? 255) with true.
  change (N.testbit 52 2) with true. cbn [negb orb].
  rewrite R16, R32.
  destruct ext as [[pt qfi]|].
  - destruct He as [Hpt Hq]. unfold psc. cbn [app length].
    replace (msg_len (Some (pt, qfi)) payload - 8 =? N.of_nat (S (S (S (S (S (S (S (S (length payload))))))))))
      with true by (symmetry; apply N.eqb_eq; unfold msg_len; lia).
    cbn [negb]. change (133 =? 0) with false. change (133 =? 133) with true. change (1 =? 1) with true.
    change (0 =? 0) with true. cbn [negb].
    repeat f_equal.
    + rewrite N.mod_small by lia. rewrite N.div_mul by lia. reflexivity.
    + unfold qmask. change 63 with (N.ones 6). rewrite N.land_ones. change (2^6) with 64.
      rewrite N.mod_mod by lia. apply N.mod_small; assumption.
  - cbn [app length].
    replace (msg_len None payload - 8 =? N.of_nat (S (S (S (S (length payload))))))
      with true by (symmetry; apply N.eqb_eq; unfold msg_len; lia).
    cbn [negb]. change (0 =? 0) with true. reflexivity.
Qed.
Print Assumptions roundtrip.

(* the code as it is today (mask 15) loses QFI >= 16 *)
Example legacy_qfi_truncated : N.land 16 15 <> 16. Proof. vm_compute. discriminate. Qed.
