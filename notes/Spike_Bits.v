(* DESIGN-PHASE SPIKE - not part of the verification machinery, no check uses it. See DESIGN.md Appendix A. *)
From Coq Require Import List NArith Bool Lia.
Import ListNotations.
Local Open Scope N_scope.

(* bytes are N < 256 *)
Definition byte_ok (b:N) : Prop := b < 256.

(* LittleEndian.Uint32 of [b0;b1;b2;b3] *)
Definition le32 (b0 b1 b2 b3 : N) : N := b0 + 256*b1 + 65536*b2 + 16777216*b3.

(* report.ReportingTrigger.Unmarshal: len 2 or 3, widened with zeros *)
Definition rt_unmarshal (bs : list N) : option N :=
  match bs with
  | [b0;b1] => Some (le32 b0 b1 0 0)
  | [b0;b1;b2] => Some (le32 b0 b1 b2 0)
  | b0::b1::b2::b3::_ => Some (le32 b0 b1 b2 b3)
  | _ => None
  end.

Definition flag (k:N) (x:N) : bool := negb (N.land x (2^k) =? 0).

(* spec: flag number k (0-based) = bit (k mod 8) of octet (k / 8) *)
Definition nth_octet (bs:list N) (i:nat) : N := nth i bs 0.

Lemma flag_testbit k x : flag k x = N.testbit x k.
Proof.
  unfold flag. destruct (N.testbit x k) eqn:E.
  - destruct (N.eqb_spec (N.land x (2^k)) 0) as [H|H]; [|reflexivity].
    exfalso. assert (T: N.testbit (N.land x (2^k)) k = true).
    { rewrite N.land_spec, E, N.pow2_bits_true. reflexivity. }
    rewrite H in T. rewrite N.bits_0 in T. discriminate.
  - destruct (N.eqb_spec (N.land x (2^k)) 0) as [H|H]; [reflexivity|].
    exfalso. apply H. apply N.bits_inj. intro n. rewrite N.land_spec, N.bits_0.
    destruct (N.eq_dec n k) as [->|Hn].
    + rewrite E. reflexivity.
    + rewrite N.pow2_bits_false by congruence. apply andb_false_r.
Qed.

(* testbit of a + 2^n * b when a < 2^n *)
Lemma testbit_add_mul_pow2_low a b n i : a < 2^n -> i < n -> N.testbit (a + 2^n * b) i = N.testbit a i.
Proof.
  intros Ha Hi. rewrite N.add_comm, N.mul_comm.
  rewrite <- (N.mod_small a (2^n)) at 2 by assumption.
  rewrite <- (N.mod_add a b (2^n)) by (apply N.pow_nonzero; discriminate).
  rewrite N.add_comm. symmetry. rewrite N.mod_pow2_bits_low by assumption. reflexivity.
Qed.


Lemma testbit_add_mul_pow2_high a b n i : a < 2^n -> n <= i -> N.testbit (a + 2^n * b) i = N.testbit b (i - n).
Proof.
  intros Ha Hi.
  assert (E : (a + 2^n * b) / 2^n = b).
  { rewrite N.add_comm, N.mul_comm. rewrite N.div_add_l by (apply N.pow_nonzero; discriminate).
    rewrite N.div_small by assumption. lia. }
  rewrite <- E at 2. rewrite N.div_pow2_bits. f_equal. lia.
Qed.

(* the statement C19 needs, for the 2-octet form: bit k<8 is bit k of octet0, 8<=k<16 is bit k-8 of octet1, k>=16 false *)
Theorem rt2_bits b0 b1 k : b0 < 256 -> b1 < 256 ->
  forall x, rt_unmarshal [b0;b1] = Some x ->
  flag k x = if k <? 8 then N.testbit b0 k else if k <? 16 then N.testbit b1 (k-8) else false.
Proof.
  intros H0 H1 x E. inversion E; subst x; clear E. rewrite flag_testbit. unfold le32.
  replace (b0 + 256*b1 + 65536*0 + 16777216*0) with (b0 + 2^8 * b1) by (change (2^8) with 256; lia).
  destruct (N.ltb_spec k 8).
  - apply testbit_add_mul_pow2_low; [exact H0|assumption].
  - rewrite testbit_add_mul_pow2_high by (try exact H0; assumption).
    destruct (N.ltb_spec k 16); [reflexivity|].
    apply N.bits_above_log2. destruct (N.eq_dec b1 0) as [->|Hn]; [simpl; lia|].
    assert (N.log2 b1 < 8) by (apply N.log2_lt_pow2; [lia|exact H1]). lia.
Qed.
Print Assumptions rt2_bits.
