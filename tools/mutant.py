#!/usr/bin/env python3
"""Confirm a seeded mutant and run checks against it.
   mutant.py confirm <mutant-dir>            build + suite + demo fails with / passes without (scratch worktree of /repo)
   mutant.py check <mutant-dir> <PROP>...    run check.py PROP (quick) against a scratch copy of /repo with the patch applied"""
import json, os, re, shutil, subprocess, sys, glob

ENV = dict(os.environ, GOFLAGS="-mod=mod", GOPROXY="off", GOSUMDB="off", GOTOOLCHAIN="local")
KNOWN_FAIL = ("TestGtp5g_CreateRules", "TestNewFlowDesc", "internal/forwarder/buffnetlink", "pkg/app")

def sh(cmd, cwd=None, timeout=900):
    p = subprocess.run(cmd, shell=True, cwd=cwd, env=ENV, stdout=subprocess.PIPE, stderr=subprocess.STDOUT, text=True, timeout=timeout)
    return p.returncode, p.stdout

BASE_FAIL = {"github.com/free5gc/go-upf/internal/forwarder::TestGtp5g_CreateRules", "github.com/free5gc/go-upf/internal/forwarder::TestNewFlowDesc",
             "github.com/free5gc/go-upf/internal/forwarder/buffnetlink::TestServer"}

def failing_tests(d):
    rc, out = sh("go test -vet=off -count=1 -json ./internal/... ./pkg/factory/... ./cmd/... 2>/dev/null", cwd=d)
    bad = set()
    for l in out.splitlines():
        try:
            j = json.loads(l)
        except Exception:
            continue
        if j.get("Action") == "fail" and j.get("Test"):
            bad.add("%s::%s" % (j["Package"], j["Test"].split("/")[0]))
    return bad

def scratch(name):
    d = "/var/tmp/mutscratch-%s-%d" % (name, os.getpid())
    shutil.rmtree(d, ignore_errors=True)
    rc, out = sh("rsync -a --exclude .git --exclude MUTANTS /repo/ %s/" % d)
    assert rc == 0, out
    return d

def demo_files(mdir):
    return [f for f in glob.glob(os.path.join(mdir, "demo", "**"), recursive=True) if f.endswith(".go")]

def demo_target(mdir, f):
    meta = json.load(open(os.path.join(mdir, "meta.json")))
    cmd = meta.get("demo_cmd", "")
    m = re.search(r"\./(internal/[\w/]+|pkg/[\w/]+|cmd/[\w/]+)", cmd)
    pk = m.group(1) if m else "internal/pfcp"
    return pk

def run_demo(d, mdir):
    meta = json.load(open(os.path.join(mdir, "meta.json")))
    pk = None
    for f in demo_files(mdir):
        pk = demo_target(mdir, f)
        shutil.copy(f, os.path.join(d, pk, os.path.basename(f)))
    m = re.search(r"-run\s+'?\"?([\w^$|]+)", meta.get("demo_cmd", ""))
    run = m.group(1) if m else "TestMut"
    race = "-race " if "-race" in meta.get("demo_cmd", "") else ""
    rc, out = sh("go test %s-vet=off -count=1 -run '%s' ./%s" % (race, run, pk), cwd=d)
    for f in demo_files(mdir):
        os.unlink(os.path.join(d, pk, os.path.basename(f)))
    return rc, out

def confirm(mdir):
    name = os.path.basename(mdir.rstrip("/"))
    d = scratch(name)
    res = {}
    try:
        rc, out = run_demo(d, mdir)
        res["demo_passes_without"] = rc == 0
        if rc != 0: res["demo_without_log"] = out[-800:]
        rc, out = sh("git init -q . && git apply --whitespace=nowarn %s" % os.path.join(os.path.abspath(mdir), "patch.diff"), cwd=d)
        res["applies"] = rc == 0
        if rc != 0:
            res["apply_log"] = out[-500:]
            return res
        rc, out = sh("go build ./...", cwd=d)
        res["build"] = rc == 0
        bad = sorted(failing_tests(d) - BASE_FAIL)
        res["suite"] = not bad
        if bad: res["suite_log"] = bad
        rc, out = run_demo(d, mdir)
        res["demo_fails_with"] = rc != 0
    finally:
        shutil.rmtree(d, ignore_errors=True)
    return res

def check(mdir, props, tier="quick"):
    name = os.path.basename(mdir.rstrip("/"))
    d = scratch(name)
    out = {}
    try:
        rc, o = sh("git init -q . && git apply --whitespace=nowarn %s" % os.path.join(os.path.abspath(mdir), "patch.diff"), cwd=d)
        assert rc == 0, o
        shutil.rmtree(os.path.join(d, ".git"), ignore_errors=True)
        for p in props:
            env = dict(os.environ, VERIF_REPO=d)
            V = os.environ.get("MUT_VERIF", "/verif")   # a private copy of /verif keeps coq/gen of concurrent runs apart
            pr = subprocess.run(["python3", V + "/check.py", p, "--tier", tier], cwd=V, env=env, stdout=subprocess.PIPE, stderr=subprocess.STDOUT, text=True, timeout=3600)
            lines = [l for l in pr.stdout.splitlines() if l.startswith(("VIOLATION", "KNOWN-FINDING"))]
            first = None
            for l in lines:
                m = re.search(r"replay=(\S+)", l)
                if m and os.path.exists(m.group(1)):
                    try:
                        r = json.load(open(m.group(1)))
                        first = r.get("what") or r.get("broken_obligations") or r.get("correspondence") or r.get("broken")
                    except Exception:
                        pass
                    break
            out[p] = {"rc": pr.returncode, "lines": lines[:3], "first": str(first)[:300]}
    finally:
        shutil.rmtree(d, ignore_errors=True)
    return out

if __name__ == "__main__":
    if sys.argv[1] == "confirm":
        print(json.dumps(confirm(sys.argv[2]), indent=1))
    else:
        print(json.dumps(check(sys.argv[2], sys.argv[3:]), indent=1))
