package main

// UrrSeqGen.v (C11): the statements of (*Sess).URRSeq - the one place where a URR's UR-SEQN counter is read and
// advanced - and the declared type of URRInfo.SEQN.  The model (emit in model/Pfcp.v) hands out the stored counter
// and stores counter+1 mod 2^32; props/C11.v states that the source still has exactly that shape.

import (
	"go/ast"
	"go/printer"
	"path/filepath"
	"regexp"
	"strings"
)

func init() { extraGenerators = append(extraGenerators, genUrrSeq) }

var vnum = regexp.MustCompile(`\bv[0-9]+\b`)

// unnumber drops the numbers of canonical local names (v12 -> v): for statements of long functions, whose numbering
// would change with every local variable added before them
func unnumber(s string) string { return vnum.ReplaceAllString(s, "v") }

func oneLine(n ast.Node) string {
	var sb strings.Builder
	_ = printer.Fprint(&sb, fset, n)
	return strings.Join(strings.Fields(sb.String()), " ")
}

func genUrrSeq(root, outdir string) {
	const file = "internal/pfcp/node.go"
	f := parse(root, file)
	o := &out{}
	o.b.WriteString(header)
	o.p("(* source: %s *)", file)
	fd := mustFunc(f, file, "Sess", "URRSeq")
	canonLocals(fd, fd.Recv)
	var stmts []string
	for _, st := range fd.Body.List {
		stmts = append(stmts, coqStr(oneLine(st)))
	}
	o.p("Definition urrseq_body : list string := [%s].", strings.Join(stmts, "; "))
	typ := ""
	ast.Inspect(f, func(n ast.Node) bool {
		ts, ok := n.(*ast.TypeSpec)
		if !ok || ts.Name.Name != "URRInfo" {
			return true
		}
		if st, ok := ts.Type.(*ast.StructType); ok {
			for _, fl := range st.Fields.List {
				for _, nm := range fl.Names {
					if nm.Name == "SEQN" {
						typ = oneLine(fl.Type)
					}
				}
			}
		}
		return false
	})
	if typ == "" {
		die("%s: URRInfo.SEQN not found", file)
	}
	o.p("Definition urr_seqn_type : string := %s.", coqStr(typ))
	// every other assignment to a SEQN field in the package (there must be exactly the inheritance in CreateURR)
	var writes []string
	for _, name := range []string{"node.go", "session.go", "report.go", "association.go", "pfcp.go"} {
		g := parse(root, "internal/pfcp/"+name)
		for _, d := range g.Decls {
			fn, ok := d.(*ast.FuncDecl)
			if !ok || fn.Body == nil || fn.Name.Name == "URRSeq" {
				continue
			}
			canonLocals(fn, fn.Recv)
			ast.Inspect(fn.Body, func(n ast.Node) bool {
				switch x := n.(type) {
				case *ast.AssignStmt:
					for _, l := range x.Lhs {
						if s, ok := l.(*ast.SelectorExpr); ok && s.Sel.Name == "SEQN" {
							writes = append(writes, coqStr(fn.Name.Name+": "+unnumber(oneLine(x))))
						}
					}
				case *ast.IncDecStmt:
					if s, ok := x.X.(*ast.SelectorExpr); ok && s.Sel.Name == "SEQN" {
						writes = append(writes, coqStr(fn.Name.Name+": "+unnumber(oneLine(x))))
					}
				}
				return true
			})
		}
	}
	o.p("Definition urr_seqn_other_writes : list string := [%s].", strings.Join(writes, "; "))
	writeIfChanged(filepath.Join(outdir, "UrrSeqGen.v"), o.b.String())
}
