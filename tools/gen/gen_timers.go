package main

// TimerGen.v (C06 C09): where internal/pfcp/transaction.go arms, stops and fires its timers.
//   timer_callbacks  per startTimer method: (receiver type, duration expression, kind and id passed to NotifyTransTimeout)
//   timer_arms       every call of a startTimer method: (enclosing function, conditions of the enclosing ifs,
//                    statements whose error check can return before the call is reached)
//   timer_stops      every <x>.timer.Stop() call: enclosing function
//   rx_timeout_expr / tx_timeout_expr   how the two durations are computed from the configuration
//   timeout_dispatch  the main loop's dispatch of a time-out event: (kind test, map looked up, method called)
// model/Timed.v takes its parameters from these tables; props/C06.v / C09.v state the values the proofs need.

import (
	"go/ast"
	"path/filepath"
	"strings"
)

func init() { extraGenerators = append(extraGenerators, genTimers) }

func recvName(fd *ast.FuncDecl) string {
	if fd.Recv == nil || len(fd.Recv.List) == 0 {
		return ""
	}
	t := fd.Recv.List[0].Type
	if s, ok := t.(*ast.StarExpr); ok {
		t = s.X
	}
	if id, ok := t.(*ast.Ident); ok {
		return id.Name
	}
	return ""
}

func isStartTimerCall(n ast.Node) bool {
	c, ok := n.(*ast.CallExpr)
	if !ok {
		return false
	}
	s, ok := c.Fun.(*ast.SelectorExpr)
	return ok && s.Sel.Name == "startTimer"
}

func containsNode(root ast.Node, pred func(ast.Node) bool) bool {
	found := false
	ast.Inspect(root, func(n ast.Node) bool {
		if n != nil && pred(n) {
			found = true
		}
		return !found
	})
	return found
}

func hasReturn(n ast.Node) bool {
	return containsNode(n, func(m ast.Node) bool { _, ok := m.(*ast.ReturnStmt); return ok })
}

// armsIn walks a statement list; conds = conditions of the enclosing ifs, skips = statements before an
// `if ... { ... return }` met so far on the way (an early return that can skip what follows)
func armsIn(list []ast.Stmt, fn string, conds, skips []string, out *[]string) {
	skips = append([]string{}, skips...)
	for i, st := range list {
		switch x := st.(type) {
		case *ast.IfStmt:
			c := oneLine(x.Cond)
			armsIn(x.Body.List, fn, append(append([]string{}, conds...), c), skips, out)
			switch e := x.Else.(type) {
			case *ast.BlockStmt:
				armsIn(e.List, fn, append(append([]string{}, conds...), "not ("+c+")"), skips, out)
			case *ast.IfStmt:
				armsIn([]ast.Stmt{e}, fn, append(append([]string{}, conds...), "not ("+c+")"), skips, out)
			}
			if hasReturn(x.Body) {
				prev := "(start of block)"
				if x.Init != nil {
					prev = oneLine(x.Init)
				} else if i > 0 {
					prev = oneLine(list[i-1])
				}
				skips = append(skips, prev)
			}
		case *ast.BlockStmt:
			armsIn(x.List, fn, conds, skips, out)
		case *ast.ForStmt:
			armsIn(x.Body.List, fn, append(append([]string{}, conds...), "loop"), skips, out)
		case *ast.RangeStmt:
			armsIn(x.Body.List, fn, append(append([]string{}, conds...), "loop"), skips, out)
		default:
			if containsNode(st, isStartTimerCall) {
				*out = append(*out, "("+coqStr(fn)+", "+coqStrList(conds)+", "+coqStrList(skips)+")")
			}
		}
	}
}

// a statement that only logs (x.log.Xxx(...), or an if whose body only logs): left out of the branch listings so that
// an edited log line does not break an obligation
func logOnly(st ast.Stmt) bool {
	switch x := st.(type) {
	case *ast.ExprStmt:
		t := oneLine(x.X)
		return strings.Contains(t, ".log.") && !strings.Contains(t, "startTimer")
	case *ast.IfStmt:
		if x.Else != nil || hasReturn(x.Body) {
			return false
		}
		for _, b := range x.Body.List {
			if !logOnly(b) {
				return false
			}
		}
		return true
	}
	return false
}

func stmtLines(list []ast.Stmt) []string {
	var out []string
	for _, st := range list {
		if !logOnly(st) {
			out = append(out, oneLine(st))
		}
	}
	return out
}

func genTimers(root, outdir string) {
	const file = "internal/pfcp/transaction.go"
	f := parse(root, file)
	o := &out{}
	o.b.WriteString(header)
	o.p("(* source: %s *)", file)
	var cbs, arms, stops []string
	for _, d := range f.Decls {
		fd, ok := d.(*ast.FuncDecl)
		if !ok || fd.Body == nil {
			continue
		}
		name := fd.Name.Name
		if r := recvName(fd); r != "" {
			name = r + "." + name
		}
		canonLocals(fd, fd.Recv)
		if fd.Name.Name == "startTimer" {
			n := 0
			ast.Inspect(fd.Body, func(m ast.Node) bool {
				c, ok := m.(*ast.CallExpr)
				if !ok {
					return true
				}
				s, ok := c.Fun.(*ast.SelectorExpr)
				if !ok || s.Sel.Name != "AfterFunc" || len(c.Args) != 2 {
					return true
				}
				n++
				kind, id := "?", "?"
				ast.Inspect(c.Args[1], func(k ast.Node) bool {
					kc, ok := k.(*ast.CallExpr)
					if !ok {
						return true
					}
					if ks, ok := kc.Fun.(*ast.SelectorExpr); ok && ks.Sel.Name == "NotifyTransTimeout" && len(kc.Args) == 2 {
						kind, id = oneLine(kc.Args[0]), oneLine(kc.Args[1])
					}
					return true
				})
				cbs = append(cbs, "("+coqStr(recvName(fd))+", "+coqStr(oneLine(c.Args[0]))+", "+coqStr(kind)+", "+coqStr(id)+")")
				return true
			})
			if n != 1 {
				die("%s: %s: expected exactly one time.AfterFunc", file, name)
			}
			continue
		}
		armsIn(fd.Body.List, name, nil, nil, &arms)
		ast.Inspect(fd.Body, func(m ast.Node) bool {
			c, ok := m.(*ast.CallExpr)
			if !ok {
				return true
			}
			if s, ok := c.Fun.(*ast.SelectorExpr); ok && s.Sel.Name == "Stop" {
				if in, ok := s.X.(*ast.SelectorExpr); ok && in.Sel.Name == "timer" {
					stops = append(stops, coqStr(name))
				}
			}
			return true
		})
	}
	if len(cbs) == 0 || len(arms) == 0 {
		die("%s: no timer callbacks / arming sites found", file)
	}
	o.p("Definition timer_callbacks : list (string * string * string * string) := [%s].", strings.Join(cbs, "; "))
	o.p("Definition timer_arms : list (string * list string * list string) := [%s].", strings.Join(arms, "; "))
	o.p("Definition timer_stops : list string := [%s].", strings.Join(stops, "; "))
	// the two durations
	field := func(fn, fld string) string {
		fd := mustFunc(f, file, "", fn)
		res := ""
		ast.Inspect(fd.Body, func(m ast.Node) bool {
			kv, ok := m.(*ast.KeyValueExpr)
			if !ok {
				return true
			}
			if id, ok := kv.Key.(*ast.Ident); ok && id.Name == fld {
				res = oneLine(kv.Value)
			}
			return true
		})
		if res == "" {
			die("%s: %s: field %s not set in the literal", file, fn, fld)
		}
		return res
	}
	o.p("Definition tx_timeout_expr : string := %s.", coqStr(field("NewTxTransaction", "retransTimeout")))
	o.p("Definition tx_maxretrans_expr : string := %s.", coqStr(field("NewTxTransaction", "maxRetrans")))
	o.p("Definition rx_timeout_expr : string := %s.", coqStr(field("NewRxTransaction", "timeout")))
	// handleTimeout of the sender: the retry test, and what the two branches do (statements, one line each)
	ht := mustFunc(f, file, "TxTransaction", "handleTimeout")
	if len(ht.Body.List) != 1 {
		die("%s: TxTransaction.handleTimeout: expected a single if statement", file)
	}
	ifs, ok := ht.Body.List[0].(*ast.IfStmt)
	if !ok || ifs.Else == nil {
		die("%s: TxTransaction.handleTimeout: expected if/else", file)
	}
	o.p("Definition tx_retry_test : string := %s.", coqStr(oneLine(ifs.Cond)))
	thenS := stmtLines(ifs.Body.List)
	var elseS []string
	if eb, ok := ifs.Else.(*ast.BlockStmt); ok {
		elseS = stmtLines(eb.List)
	}
	o.p("Definition tx_retry_branch : list string := %s.", coqStrList(thenS))
	o.p("Definition tx_giveup_branch : list string := %s.", coqStrList(elseS))
	rh := mustFunc(f, file, "RxTransaction", "handleTimeout")
	rhS := stmtLines(rh.Body.List)
	o.p("Definition rx_timeout_body : list string := %s.", coqStrList(rhS))

	// the main loop's dispatch of a time-out event
	const pfile = "internal/pfcp/pfcp.go"
	pf := parse(root, pfile)
	o.p("")
	o.p("(* source: %s *)", pfile)
	mainFn := mustFunc(pf, pfile, "PfcpServer", "main")
	var disp []string
	ast.Inspect(mainFn.Body, func(m ast.Node) bool {
		cc, ok := m.(*ast.CommClause)
		if !ok || cc.Comm == nil || !strings.Contains(oneLine(cc.Comm), "trToCh") {
			return true
		}
		canonLocals(cc, mainFn.Recv)
		for _, st := range cc.Body {
			x, ok := st.(*ast.IfStmt)
			if !ok {
				continue
			}
			branch := func(cond string, body []ast.Stmt) {
				table, method := "?", "?"
				for _, b := range body {
					ast.Inspect(b, func(k ast.Node) bool {
						switch y := k.(type) {
						case *ast.IndexExpr:
							table = oneLine(y.X)
						case *ast.CallExpr:
							if s, ok := y.Fun.(*ast.SelectorExpr); ok && s.Sel.Name == "handleTimeout" {
								method = oneLine(y.Fun)
							}
						}
						return true
					})
				}
				disp = append(disp, "("+coqStr(cond)+", "+coqStr(table)+", "+coqStr(method)+")")
			}
			branch(oneLine(x.Cond), x.Body.List)
			if eb, ok := x.Else.(*ast.BlockStmt); ok {
				branch("not ("+oneLine(x.Cond)+")", eb.List)
			}
		}
		return false
	})
	if len(disp) != 2 {
		die("%s: main: time-out dispatch not recognised", pfile)
	}
	o.p("Definition timeout_dispatch : list (string * string * string) := [%s].", strings.Join(disp, "; "))
	writeIfChanged(filepath.Join(outdir, "TimerGen.v"), o.b.String())
}
