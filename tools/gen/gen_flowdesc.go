package main

// T-gen for C16: the constants of internal/forwarder/flowdesc.go and of newFlowDesc/convertSlice
// (gtp5g.go) that the hand-written model model/FlowDesc.v fixes: ParseUint bit sizes, keyword
// literals, separators, the value stored for "ip", the order and value kinds of the netlink
// attributes, the shift and stride of convertSlice.  props/C16.v states that they are still the
// ones the model was written for (C16_source_shape), so a change breaks an obligation.

import (
	"go/ast"
	"go/token"
	"path/filepath"
	"strconv"
	"strings"
)

func fdIsSel(e ast.Expr, pkg, name string) bool {
	s, ok := e.(*ast.SelectorExpr)
	if !ok || s.Sel.Name != name {
		return false
	}
	id, ok := s.X.(*ast.Ident)
	return ok && id.Name == pkg
}

func fdStrLit(e ast.Expr) (string, bool) {
	b, ok := e.(*ast.BasicLit)
	if !ok || b.Kind != token.STRING {
		return "", false
	}
	s, err := strconv.Unquote(b.Value)
	if err != nil {
		return "", false
	}
	return s, true
}

func fdIntLit(e ast.Expr) (int64, bool) {
	b, ok := e.(*ast.BasicLit)
	if !ok || b.Kind != token.INT {
		return 0, false
	}
	v, err := strconv.ParseInt(b.Value, 0, 64)
	if err != nil {
		return 0, false
	}
	return v, true
}

// bit sizes of every strconv.ParseUint(_, 10, bits) call, in source order
func fdParseUintBits(fd *ast.FuncDecl, file string) []int64 {
	var res []int64
	ast.Inspect(fd.Body, func(n ast.Node) bool {
		c, ok := n.(*ast.CallExpr)
		if !ok || !fdIsSel(c.Fun, "strconv", "ParseUint") {
			return true
		}
		if len(c.Args) != 3 {
			die("%s: %s: ParseUint with %d arguments", file, fd.Name.Name, len(c.Args))
		}
		base, ok1 := fdIntLit(c.Args[1])
		bits, ok2 := fdIntLit(c.Args[2])
		if !ok1 || !ok2 || base != 10 {
			die("%s: %s: ParseUint base/bit size is not a literal (base 10)", file, fd.Name.Name)
		}
		res = append(res, bits)
		return true
	})
	return res
}

// string literals a token is compared with (case clauses, == and !=), in source order
func fdCompared(fd *ast.FuncDecl) []string {
	var res []string
	ast.Inspect(fd.Body, func(n ast.Node) bool {
		switch x := n.(type) {
		case *ast.CaseClause:
			for _, e := range x.List {
				if s, ok := fdStrLit(e); ok {
					res = append(res, s)
				}
			}
		case *ast.BinaryExpr:
			if x.Op == token.EQL || x.Op == token.NEQ {
				if s, ok := fdStrLit(x.Y); ok {
					res = append(res, s)
				}
			}
		}
		return true
	})
	return res
}

func fdStrList(l []string) string {
	q := make([]string, len(l))
	for i, s := range l {
		q[i] = coqStr(s)
	}
	return "[" + strings.Join(q, "; ") + "]"
}

func fdNList(l []int64) string {
	q := make([]string, len(l))
	for i, v := range l {
		q[i] = strconv.FormatInt(v, 10)
	}
	return "[" + strings.Join(q, "; ") + "]"
}

func genFlowDesc(root, outdir string) {
	o := &out{}
	o.b.WriteString(header)
	const file = "internal/forwarder/flowdesc.go"
	f := parse(root, file)
	o.p("(* source: %s *)", file)
	pfd := mustFunc(f, file, "", "ParseFlowDesc")
	bits := fdParseUintBits(pfd, file)
	if len(bits) == 0 {
		die("%s: ParseFlowDesc: no strconv.ParseUint call", file)
	}
	o.p("Definition fd_proto_bits : list N := %s.", fdNList(bits))
	o.p("Definition fd_keywords : list string := %s.", fdStrList(fdCompared(pfd)))
	// fd.Proto = <literal> (the value stored for the keyword ip)
	var ipv []int64
	usesFields := false
	ast.Inspect(pfd.Body, func(n ast.Node) bool {
		switch x := n.(type) {
		case *ast.AssignStmt:
			if len(x.Lhs) == 1 && len(x.Rhs) == 1 {
				if s, ok := x.Lhs[0].(*ast.SelectorExpr); ok && s.Sel.Name == "Proto" {
					if v, ok := fdIntLit(x.Rhs[0]); ok {
						ipv = append(ipv, v)
					}
				}
			}
		case *ast.CallExpr:
			if fdIsSel(x.Fun, "strings", "Fields") {
				usesFields = true
			}
		}
		return true
	})
	if len(ipv) != 1 {
		die("%s: ParseFlowDesc: expected exactly one `fd.Proto = <literal>`", file)
	}
	if !usesFields {
		die("%s: ParseFlowDesc: strings.Fields not found", file)
	}
	o.p("Definition fd_ip_proto : N := %d.", ipv[0])

	pnet := mustFunc(f, file, "", "ParseFlowDescIPNet")
	o.p("Definition fd_addr_keywords : list string := %s.", fdStrList(fdCompared(pnet)))
	var cidrArgs []int64
	ast.Inspect(pnet.Body, func(n ast.Node) bool {
		if c, ok := n.(*ast.CallExpr); ok && fdIsSel(c.Fun, "net", "CIDRMask") {
			for _, a := range c.Args {
				if v, ok := fdIntLit(a); ok {
					cidrArgs = append(cidrArgs, v)
				} else {
					cidrArgs = append(cidrArgs, -1)
				}
			}
		}
		return true
	})
	for i, v := range cidrArgs {
		if v < 0 {
			cidrArgs[i] = 999999 // a non-literal argument (CIDRMask(n, n) of the host case)
		}
	}
	o.p("Definition fd_cidrmask_args : list N := %s.", fdNList(cidrArgs))

	pports := mustFunc(f, file, "", "ParseFlowDescPorts")
	pb := fdParseUintBits(pports, file)
	if len(pb) == 0 {
		die("%s: ParseFlowDescPorts: no strconv.ParseUint call", file)
	}
	o.p("Definition fd_port_bits : list N := %s.", fdNList(pb))
	var seps []string
	var splitn []int64
	ast.Inspect(pports.Body, func(n ast.Node) bool {
		c, ok := n.(*ast.CallExpr)
		if !ok {
			return true
		}
		if fdIsSel(c.Fun, "strings", "Split") && len(c.Args) == 2 {
			if s, ok := fdStrLit(c.Args[1]); ok {
				seps = append(seps, s)
			}
		}
		if fdIsSel(c.Fun, "strings", "SplitN") && len(c.Args) == 3 {
			if s, ok := fdStrLit(c.Args[1]); ok {
				seps = append(seps, s)
			}
			if v, ok := fdIntLit(c.Args[2]); ok {
				splitn = append(splitn, v)
			}
		}
		return true
	})
	if len(seps) != 2 || len(splitn) != 1 {
		die("%s: ParseFlowDescPorts: expected strings.Split(_, lit) and strings.SplitN(_, lit, n)", file)
	}
	o.p("Definition fd_port_separators : list string := %s.", fdStrList(seps))
	o.p("Definition fd_splitn : N := %d.", splitn[0])

	const gfile = "internal/forwarder/gtp5g.go"
	g := parse(root, gfile)
	o.p("")
	o.p("(* source: %s *)", gfile)
	nfd := mustFunc(g, gfile, "Gtp5g", "newFlowDesc")
	var types, kinds []string
	ast.Inspect(nfd.Body, func(n ast.Node) bool {
		cl, ok := n.(*ast.CompositeLit)
		if !ok || !fdIsSel(cl.Type, "nl", "Attr") {
			return true
		}
		t, k := "", ""
		for _, el := range cl.Elts {
			kv, ok := el.(*ast.KeyValueExpr)
			if !ok {
				continue
			}
			key, _ := kv.Key.(*ast.Ident)
			if key == nil {
				continue
			}
			switch key.Name {
			case "Type":
				if s, ok := kv.Value.(*ast.SelectorExpr); ok {
					t = s.Sel.Name
				}
			case "Value":
				if c, ok := kv.Value.(*ast.CallExpr); ok {
					if s, ok := c.Fun.(*ast.SelectorExpr); ok {
						k = s.Sel.Name
						if len(c.Args) == 1 {
							if a, ok := c.Args[0].(*ast.SelectorExpr); ok {
								if id, ok := a.X.(*ast.Ident); ok && id.Name == "gtp5gnl" {
									k += " " + a.Sel.Name
								}
							}
						}
					}
				}
			}
		}
		if t == "" || k == "" {
			die("%s: newFlowDesc: nl.Attr literal without recognisable Type/Value", gfile)
		}
		types = append(types, t)
		kinds = append(kinds, k)
		return true
	})
	if len(types) == 0 {
		die("%s: newFlowDesc: no nl.Attr literals", gfile)
	}
	o.p("Definition fd_attr_types : list string := %s.", fdStrList(types))
	o.p("Definition fd_attr_values : list string := %s.", fdStrList(kinds))
	o.p("Definition fd_action_dir_keywords : list string := %s.", fdStrList(fdCompared(nfd)))

	// newPdi: is a filter packed while the PDI is still being scanned (with the Source Interface seen so far), or after the
	// scan (with the PDI's Source Interface)?  in-scan = the call to newSdfFilter sits in a loop that also assigns the
	// variable passed as its interface argument.
	npdi := mustFunc(g, gfile, "Gtp5g", "newPdi")
	var loops []ast.Node
	calls, inScan := 0, 0
	assigns := func(n ast.Node, name string) bool {
		found := false
		ast.Inspect(n, func(m ast.Node) bool {
			if a, ok := m.(*ast.AssignStmt); ok {
				for _, l := range a.Lhs {
					if id, ok := l.(*ast.Ident); ok && id.Name == name {
						found = true
					}
				}
			}
			return true
		})
		return found
	}
	var walk func(n ast.Node)
	walk = func(n ast.Node) {
		ast.Inspect(n, func(m ast.Node) bool {
			if m == nil || m == n {
				return true
			}
			switch x := m.(type) {
			case *ast.RangeStmt, *ast.ForStmt:
				loops = append(loops, x)
				walk(x)
				loops = loops[:len(loops)-1]
				return false
			case *ast.CallExpr:
				if sel, ok := x.Fun.(*ast.SelectorExpr); ok && sel.Sel.Name == "newSdfFilter" {
					if len(x.Args) != 2 {
						die("%s: newPdi: newSdfFilter call with %d arguments", gfile, len(x.Args))
					}
					id, ok := x.Args[1].(*ast.Ident)
					if !ok {
						die("%s: newPdi: interface argument of newSdfFilter is not a variable", gfile)
					}
					calls++
					for _, l := range loops {
						if assigns(l, id.Name) {
							inScan++
							break
						}
					}
				}
			}
			return true
		})
	}
	walk(npdi.Body)
	if calls == 0 {
		die("%s: newPdi: no call of newSdfFilter", gfile)
	}
	o.p("Definition fd_pdi_sdf_calls : N := %d.", calls)
	o.p("Definition fd_pdi_sdf_in_scan : bool := %v.", inScan > 0)
	// newSdfFilter: the expression deciding the exchange of source and destination
	nsf := mustFunc(g, gfile, "Gtp5g", "newSdfFilter")
	var swapExprs []string
	ast.Inspect(nsf.Body, func(n ast.Node) bool {
		c, ok := n.(*ast.CallExpr)
		if !ok {
			return true
		}
		if sel, ok := c.Fun.(*ast.SelectorExpr); ok && sel.Sel.Name == "newFlowDesc" && len(c.Args) == 2 {
			e := c.Args[1]
			if id, ok := e.(*ast.Ident); ok {
				ast.Inspect(nsf.Body, func(m ast.Node) bool {
					if a, ok := m.(*ast.AssignStmt); ok && len(a.Lhs) == 1 && len(a.Rhs) == 1 {
						if l, ok := a.Lhs[0].(*ast.Ident); ok && l.Name == id.Name {
							e = a.Rhs[0]
						}
					}
					return true
				})
			}
			for {
				pe, ok := e.(*ast.ParenExpr)
				if !ok {
					break
				}
				e = pe.X
			}
			swapExprs = append(swapExprs, exprString(e))
		}
		return true
	})
	if len(swapExprs) != 1 {
		die("%s: newSdfFilter: expected exactly one newFlowDesc call", gfile)
	}
	o.p("Definition fd_sdf_swap_when : string := %s.", coqStr(swapExprs[0]))

	cs := mustFunc(g, gfile, "", "convertSlice")
	var shifts, strides []int64
	ast.Inspect(cs.Body, func(n ast.Node) bool {
		switch x := n.(type) {
		case *ast.BinaryExpr:
			if x.Op == token.SHL {
				if v, ok := fdIntLit(x.Y); ok {
					shifts = append(shifts, v)
				}
			}
			if x.Op == token.MUL {
				if v, ok := fdIntLit(x.Y); ok {
					strides = append(strides, v)
				}
			}
		case *ast.AssignStmt:
			if x.Tok == token.ADD_ASSIGN && len(x.Rhs) == 1 {
				if v, ok := fdIntLit(x.Rhs[0]); ok {
					strides = append(strides, v)
				}
			}
		}
		return true
	})
	if len(shifts) == 0 || len(strides) == 0 {
		die("%s: convertSlice: shift / stride literals not found", gfile)
	}
	o.p("Definition fd_word_shifts : list N := %s.", fdNList(shifts))
	o.p("Definition fd_word_strides : list N := %s.", fdNList(strides))
	writeIfChanged(filepath.Join(outdir, "FlowDescGen.v"), o.b.String())
}

func init() {
	extraGenerators = append(extraGenerators, genFlowDesc)
}
