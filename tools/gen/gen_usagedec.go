package main

// UsageDecGen.v (C10, kernel side):
// (1) usagedec_sites - for each of the five places where go-upf turns the usage reports decoded by go-gtp5gnl
//     (gtp5gnl.USAReport) into report.USAReport values (buffnetlink.ServeMsg; Gtp5g.UpdateURR, RemoveURR, queryURR,
//     queryMultiURR) the loop `for _, r := range <xs> { usar := report.USAReport{...}; ...; <sink> = append(<sink>, usar) }`
//     as a table: the key/value pairs of the report.USAReport literal, those of the report.VolumeMeasure literal, how the
//     trigger is set, where the value is appended.  model/UsageDec.v INTERPRETS this table (conv_site), so the model's
//     conversion is the code's; the theorems of proofs/UsageDecProofs.v are proved about that interpretation.
//     Any statement of another form in such a loop makes the generator fail (closed).
// (2) usagedec_decoder / usagedec_voldecoder - the case clauses of go-gtp5gnl's decodeUSAReport / decodeVolumeMeasurement
//     (label, statements), pinned by an Example in the proofs file against the hand-written decoder model.

import (
	"fmt"
	"go/ast"
	"go/parser"
	"go/token"
	"path/filepath"
	"strings"
)

func init() { extraGenerators = append(extraGenerators, genUsageDec) }

type usageSite struct {
	name, over, trig, sink string
	fields, vol            [][2]string
}

func kvPairs(cl *ast.CompositeLit, where string) [][2]string {
	var out [][2]string
	for _, e := range cl.Elts {
		kv, ok := e.(*ast.KeyValueExpr)
		if !ok {
			die("%s: positional composite literal", where)
		}
		k, ok := kv.Key.(*ast.Ident)
		if !ok {
			die("%s: composite literal key", where)
		}
		out = append(out, [2]string{k.Name, render(kv.Value)})
	}
	return out
}

func litOfType(e ast.Expr, pkg, typ string) *ast.CompositeLit {
	cl, ok := e.(*ast.CompositeLit)
	if !ok {
		return nil
	}
	se, ok := cl.Type.(*ast.SelectorExpr)
	if !ok || se.Sel.Name != typ {
		return nil
	}
	if id, ok := se.X.(*ast.Ident); !ok || id.Name != pkg {
		return nil
	}
	return cl
}

func usageSiteOf(fd *ast.FuncDecl, where string) usageSite {
	var loops []*ast.RangeStmt
	ast.Inspect(fd.Body, func(n ast.Node) bool {
		rs, ok := n.(*ast.RangeStmt)
		if !ok {
			return true
		}
		for _, st := range rs.Body.List {
			if as, ok := st.(*ast.AssignStmt); ok && as.Tok == token.DEFINE && len(as.Rhs) == 1 && litOfType(as.Rhs[0], "report", "USAReport") != nil {
				loops = append(loops, rs)
				break
			}
		}
		return true
	})
	if len(loops) != 1 {
		die("%s: expected exactly one loop building report.USAReport values, found %d", where, len(loops))
	}
	rs := loops[0]
	if k, ok := rs.Key.(*ast.Ident); !ok || k.Name != "_" {
		die("%s: range key shape", where)
	}
	if v, ok := rs.Value.(*ast.Ident); !ok || v.Name != "r" {
		die("%s: range value is not r", where)
	}
	s := usageSite{name: where, over: render(rs.X)}
	seenLit, seenVol := false, false
	for _, st := range rs.Body.List {
		switch x := st.(type) {
		case *ast.AssignStmt:
			if len(x.Lhs) != 1 || len(x.Rhs) != 1 {
				die("%s: unexpected statement in the conversion loop: %s", where, render(st))
			}
			lhs := render(x.Lhs[0])
			switch {
			case x.Tok == token.DEFINE && lhs == "usar" && litOfType(x.Rhs[0], "report", "USAReport") != nil && !seenLit:
				s.fields = kvPairs(litOfType(x.Rhs[0], "report", "USAReport"), where)
				seenLit = true
			case x.Tok == token.ASSIGN && lhs == "usar.VolumMeasure" && litOfType(x.Rhs[0], "report", "VolumeMeasure") != nil && !seenVol:
				s.vol = kvPairs(litOfType(x.Rhs[0], "report", "VolumeMeasure"), where)
				seenVol = true
			case x.Tok == token.ASSIGN && lhs == "usar.USARTrigger.Flags" && s.trig == "":
				s.trig = "Flags=" + render(x.Rhs[0])
			case x.Tok == token.ASSIGN && s.sink == "" && render(x.Rhs[0]) == "append("+lhs+", usar)":
				s.sink = lhs
			default:
				die("%s: unexpected statement in the conversion loop: %s", where, render(st))
			}
		case *ast.ExprStmt:
			c, ok := x.X.(*ast.CallExpr)
			if !ok || len(c.Args) != 1 || render(c.Fun) != "usar.USARTrigger.SetReportingTrigger" || s.trig != "" {
				die("%s: unexpected statement in the conversion loop: %s", where, render(st))
			}
			s.trig = "SetReportingTrigger(" + render(c.Args[0]) + ")"
		default:
			die("%s: unexpected statement in the conversion loop: %s", where, render(st))
		}
	}
	if !seenLit || s.sink == "" {
		die("%s: conversion loop without literal or sink", where)
	}
	return s
}

func coqPairs(l [][2]string) string {
	var q []string
	for _, p := range l {
		q = append(q, "("+coqStr(p[0])+", "+coqStr(p[1])+")")
	}
	return "[" + strings.Join(q, "; ") + "]"
}

// (label, statements) of the switch on hdr.MaskedType() in a decoder of go-gtp5gnl
func decoderClauses(f *ast.File, fn, where string) [][2]string {
	fd := findFunc(f, "", fn)
	if fd == nil || fd.Body == nil {
		die("%s: function %s not found", where, fn)
	}
	var sw *ast.SwitchStmt
	ast.Inspect(fd.Body, func(n ast.Node) bool {
		if s, ok := n.(*ast.SwitchStmt); ok && sw == nil && s.Tag != nil && render(s.Tag) == "hdr.MaskedType()" {
			sw = s
		}
		return true
	})
	if sw == nil {
		die("%s: %s: no switch on hdr.MaskedType()", where, fn)
	}
	var out [][2]string
	for _, st := range sw.Body.List {
		cc := st.(*ast.CaseClause)
		var labels, body []string
		for _, e := range cc.List {
			labels = append(labels, render(e))
		}
		if cc.List == nil {
			labels = []string{"default"}
		}
		for _, b := range cc.Body {
			body = append(body, render(b))
		}
		out = append(out, [2]string{strings.Join(labels, ","), strings.Join(body, "; ")})
	}
	return out
}

func genUsageDec(root, outdir string) {
	o := &out{}
	o.b.WriteString(header)
	var sites []usageSite
	const bf = "internal/forwarder/buffnetlink/server.go"
	sites = append(sites, usageSiteOf(mustFunc(parse(root, bf), bf, "Server", "ServeMsg"), "ServeMsg"))
	const gf = "internal/forwarder/gtp5g.go"
	g := parse(root, gf)
	for _, fn := range []string{"UpdateURR", "RemoveURR", "queryURR", "queryMultiURR"} {
		sites = append(sites, usageSiteOf(mustFunc(g, gf, "Gtp5g", fn), fn))
	}
	o.p("(* source: %s, %s - (site, (report.USAReport literal, report.VolumeMeasure literal, trigger statement, sink)) *)", bf, gf)
	var items []string
	for _, s := range sites {
		items = append(items, fmt.Sprintf("(%s, (%s,\n     %s,\n     %s, %s))", coqStr(s.name), coqPairs(s.fields), coqPairs(s.vol), coqStr(s.trig), coqStr(s.sink)))
	}
	o.p("Definition usagedec_sites : list (string * (list (string * string) * list (string * string) * string * string)) :=\n  [%s].",
		strings.Join(items, ";\n   "))
	var overs []string
	for _, s := range sites {
		overs = append(overs, "("+coqStr(s.name)+", "+coqStr(s.over)+")")
	}
	o.p("Definition usagedec_ranges : list (string * string) := [%s].", strings.Join(overs, "; "))
	o.p("")

	dir := gtp5gnlDir(root)
	const af = "attr_report.go"
	f, err := parser.ParseFile(fset, filepath.Join(dir, af), nil, 0)
	if err != nil {
		die("parse go-gtp5gnl/%s: %v", af, err)
	}
	o.p("(* source: %s/%s - case clauses of the decoders *)", strings.Replace(dir, modCache(), "$GOMODCACHE", 1), af)
	for _, d := range [][2]string{{"decodeUSAReport", "usagedec_decoder"}, {"decodeVolumeMeasurement", "usagedec_voldecoder"}, {"DecodeAllUSAReports", "usagedec_alldecoder"}} {
		o.p("Definition %s : list (string * string) :=\n  %s.", d[1], strings.Replace(coqPairs(decoderClauses(f, d[0], af)), "; (", ";\n   (", -1))
	}
	writeIfChanged(filepath.Join(outdir, "UsageDecGen.v"), o.b.String())
}
