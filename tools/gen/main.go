// Command gen is the T-gen translator: it reads go-upf's source tree and
// regenerates the table/constant part of the Coq model (coq/gen/*.v).
//
// It only *reads* a fixed set of syntactic shapes.  Whenever a shape it
// expects is not found it exits non-zero ("fails closed"); check.py reports
// that as a broken proof obligation.
//
// Usage: gen <repo-root> <out-dir>
package main

import (
	"fmt"
	"go/ast"
	"go/parser"
	"go/token"
	"os"
	"path/filepath"
	"reflect"
	"runtime"
	"sort"
	"strconv"
	"strings"
)

var fset = token.NewFileSet()

// a generator that does not recognise the source gives up with die(); the generators are independent of each other:
// the one that failed leaves a file that does not compile (and no stale .vo), the others still run, so that only the
// properties whose theorems depend on the failed table lose their obligations
type genFailure struct{ msg string }

func die(format string, a ...interface{}) {
	panic(genFailure{fmt.Sprintf(format, a...)})
}

func parse(root, rel string) *ast.File {
	f, err := parser.ParseFile(fset, filepath.Join(root, rel), nil, parser.ParseComments)
	if err != nil {
		die("parse %s: %v", rel, err)
	}
	return f
}

// ---------------------------------------------------------------- constants

type constEnv map[string]int64

func evalConst(e ast.Expr, env constEnv, iota int64) (int64, bool) {
	switch x := e.(type) {
	case *ast.BasicLit:
		switch x.Kind {
		case token.INT:
			v, err := strconv.ParseInt(x.Value, 0, 64)
			if err != nil {
				return 0, false
			}
			return v, true
		case token.CHAR:
			s, err := strconv.Unquote(x.Value)
			if err != nil || len(s) != 1 {
				return 0, false
			}
			return int64(s[0]), true
		}
		return 0, false
	case *ast.Ident:
		if x.Name == "iota" {
			return iota, true
		}
		v, ok := env[x.Name]
		return v, ok
	case *ast.ParenExpr:
		return evalConst(x.X, env, iota)
	case *ast.CallExpr: // conversions such as uint8(3)
		if len(x.Args) == 1 {
			if id, ok := x.Fun.(*ast.Ident); ok {
				switch id.Name {
				case "uint8", "uint16", "uint32", "uint64", "int", "int64", "uint":
					return evalConst(x.Args[0], env, iota)
				}
			}
		}
		return 0, false
	case *ast.BinaryExpr:
		a, ok1 := evalConst(x.X, env, iota)
		b, ok2 := evalConst(x.Y, env, iota)
		if !ok1 || !ok2 {
			return 0, false
		}
		switch x.Op {
		case token.SHL:
			return a << uint(b), true
		case token.SHR:
			return a >> uint(b), true
		case token.OR:
			return a | b, true
		case token.AND:
			return a & b, true
		case token.ADD:
			return a + b, true
		case token.SUB:
			return a - b, true
		case token.MUL:
			return a * b, true
		case token.AND_NOT:
			return a &^ b, true
		}
	}
	return 0, false
}

// collectConsts evaluates all integer constants of a file (in order).
func collectConsts(f *ast.File, env constEnv) []string {
	var order []string
	for _, d := range f.Decls {
		gd, ok := d.(*ast.GenDecl)
		if !ok || gd.Tok != token.CONST {
			continue
		}
		var lastVals []ast.Expr
		for i, s := range gd.Specs {
			vs := s.(*ast.ValueSpec)
			vals := vs.Values
			if len(vals) == 0 {
				vals = lastVals
			} else {
				lastVals = vals
			}
			for j, n := range vs.Names {
				if j >= len(vals) {
					continue
				}
				if v, ok := evalConst(vals[j], env, int64(i)); ok {
					env[n.Name] = v
					order = append(order, n.Name)
				}
			}
		}
	}
	return order
}

func stringConsts(f *ast.File) map[string]string {
	out := map[string]string{}
	for _, d := range f.Decls {
		gd, ok := d.(*ast.GenDecl)
		if !ok || gd.Tok != token.CONST {
			continue
		}
		for _, s := range gd.Specs {
			vs := s.(*ast.ValueSpec)
			for j, n := range vs.Names {
				if j < len(vs.Values) {
					if bl, ok := vs.Values[j].(*ast.BasicLit); ok && bl.Kind == token.STRING {
						if v, err := strconv.Unquote(bl.Value); err == nil {
							out[n.Name] = v
						}
					}
				}
			}
		}
	}
	return out
}

// ---------------------------------------------------------------- helpers

func recvTypeName(fd *ast.FuncDecl) string {
	if fd.Recv == nil || len(fd.Recv.List) == 0 {
		return ""
	}
	t := fd.Recv.List[0].Type
	if st, ok := t.(*ast.StarExpr); ok {
		t = st.X
	}
	if id, ok := t.(*ast.Ident); ok {
		return id.Name
	}
	return ""
}

func findFunc(f *ast.File, recv, name string) *ast.FuncDecl {
	for _, d := range f.Decls {
		if fd, ok := d.(*ast.FuncDecl); ok && fd.Name.Name == name && recvTypeName(fd) == recv {
			return fd
		}
	}
	return nil
}

func mustFunc(f *ast.File, file, recv, name string) *ast.FuncDecl {
	fd := findFunc(f, recv, name)
	if fd == nil || fd.Body == nil {
		die("%s: function %s.%s not found", file, recv, name)
	}
	return fd
}

func coqStr(s string) string {
	return "\"" + strings.ReplaceAll(s, "\"", "\"\"") + "\""
}

type out struct{ b strings.Builder }

func (o *out) p(format string, a ...interface{}) { fmt.Fprintf(&o.b, format+"\n", a...) }

func writeIfChanged(path, content string) {
	old, err := os.ReadFile(path)
	if err == nil && string(old) == content {
		return
	}
	if err := os.WriteFile(path, []byte(content), 0o644); err != nil {
		die("write %s: %v", path, err)
	}
}

const header = "(* GENERATED by /verif/tools/gen from /repo's working tree on every run. DO NOT EDIT. *)\n" +
	"From Coq Require Import List NArith ZArith String.\nImport ListNotations.\nLocal Open Scope N_scope.\nLocal Open Scope string_scope.\n\n"

// ---------------------------------------------------------------- FlagsGen

// accessor of shape: func (r *T) NAME() bool { return r.Flags&CONST != 0 }
func accessorMask(fd *ast.FuncDecl, env constEnv) (int64, bool) {
	if len(fd.Body.List) != 1 {
		return 0, false
	}
	rs, ok := fd.Body.List[0].(*ast.ReturnStmt)
	if !ok || len(rs.Results) != 1 {
		return 0, false
	}
	be, ok := rs.Results[0].(*ast.BinaryExpr)
	if !ok || be.Op != token.NEQ {
		return 0, false
	}
	if z, ok := evalConst(be.Y, env, 0); !ok || z != 0 {
		return 0, false
	}
	and, ok := be.X.(*ast.BinaryExpr)
	if !ok || and.Op != token.AND {
		return 0, false
	}
	sel, ok := and.X.(*ast.SelectorExpr)
	if !ok || sel.Sel.Name != "Flags" {
		return 0, false
	}
	return evalConst(and.Y, env, 0)
}

func genFlags(root, outdir string) {
	const file = "internal/report/report.go"
	f := parse(root, file)
	env := constEnv{}
	order := collectConsts(f, env)
	o := &out{}
	o.b.WriteString(header)
	o.p("(* source: %s *)", file)
	groups := map[string][]string{}
	for _, n := range order {
		switch {
		case strings.HasPrefix(n, "RPT_TRIG_"):
			groups["rpt"] = append(groups["rpt"], n)
		case strings.HasPrefix(n, "USAR_TRIG_"):
			groups["usar"] = append(groups["usar"], n)
		case strings.HasPrefix(n, "APPLY_ACT_"):
			groups["act"] = append(groups["act"], n)
		case n == "TOVOL" || n == "ULVOL" || n == "DLVOL" || n == "TONOP" || n == "ULNOP" || n == "DLNOP":
			groups["vol"] = append(groups["vol"], n)
		}
	}
	for _, g := range []struct{ key, def, prefix string }{
		{"rpt", "rpt_consts", "RPT_TRIG_"}, {"usar", "usar_consts", "USAR_TRIG_"},
		{"act", "act_consts", "APPLY_ACT_"}, {"vol", "vol_consts", ""},
	} {
		if len(groups[g.key]) == 0 {
			die("%s: no constants of group %s", file, g.key)
		}
		for _, n := range groups[g.key] {
			o.p("Definition %s : N := %d.", n, env[n])
		}
		var items []string
		for _, n := range groups[g.key] {
			items = append(items, fmt.Sprintf("(%s, %d)", coqStr(strings.TrimPrefix(n, g.prefix)), env[n]))
		}
		o.p("Definition %s : list (string * N) := [%s].\n", g.def, strings.Join(items, "; "))
	}
	// accessors
	for _, t := range []struct{ typ, def string }{
		{"ReportingTrigger", "rpt_accessors"}, {"UsageReportTrigger", "usar_accessors"}, {"ApplyAction", "act_accessors"},
	} {
		var items []string
		for _, d := range f.Decls {
			fd, ok := d.(*ast.FuncDecl)
			if !ok || recvTypeName(fd) != t.typ || fd.Body == nil {
				continue
			}
			if fd.Type.Results == nil || len(fd.Type.Results.List) != 1 || len(fd.Type.Params.List) != 0 {
				continue
			}
			if id, ok := fd.Type.Results.List[0].Type.(*ast.Ident); !ok || id.Name != "bool" {
				continue
			}
			m, ok := accessorMask(fd, env)
			if !ok {
				die("%s: accessor %s.%s is not of shape 'return x.Flags&C != 0'", file, t.typ, fd.Name.Name)
			}
			items = append(items, fmt.Sprintf("(%s, %d)", coqStr(fd.Name.Name), m))
		}
		if len(items) == 0 {
			die("%s: no accessors for %s", file, t.typ)
		}
		o.p("Definition %s : list (string * N) := [%s].\n", t.def, strings.Join(items, "; "))
	}
	// SetReportingTrigger: switch r { case C: t.Flags |= D ... }
	{
		fd := mustFunc(f, file, "UsageReportTrigger", "SetReportingTrigger")
		if len(fd.Body.List) != 1 {
			die("%s: SetReportingTrigger: unexpected body", file)
		}
		sw, ok := fd.Body.List[0].(*ast.SwitchStmt)
		if !ok {
			die("%s: SetReportingTrigger: no switch", file)
		}
		var items []string
		for _, c := range sw.Body.List {
			cc := c.(*ast.CaseClause)
			if cc.List == nil {
				if len(cc.Body) != 0 {
					die("%s: SetReportingTrigger: default clause with body", file)
				}
				continue
			}
			if len(cc.Body) != 1 {
				die("%s: SetReportingTrigger: case body not a single statement", file)
			}
			as, ok := cc.Body[0].(*ast.AssignStmt)
			if !ok || as.Tok != token.OR_ASSIGN || len(as.Rhs) != 1 {
				die("%s: SetReportingTrigger: case body not 't.Flags |= C'", file)
			}
			if sel, ok := as.Lhs[0].(*ast.SelectorExpr); !ok || sel.Sel.Name != "Flags" {
				die("%s: SetReportingTrigger: assignment target is not Flags", file)
			}
			rhs, ok := evalConst(as.Rhs[0], env, 0)
			if !ok {
				die("%s: SetReportingTrigger: rhs not constant", file)
			}
			for _, ce := range cc.List {
				v, ok := evalConst(ce, env, 0)
				if !ok {
					die("%s: SetReportingTrigger: case label not constant", file)
				}
				items = append(items, fmt.Sprintf("(%d, %d)", v, rhs))
			}
		}
		o.p("(* SetReportingTrigger: (case label, bits or-ed into Flags); first match wins, no match = no change *)")
		o.p("Definition set_reporting_trigger_table : list (N * N) := [%s].\n", strings.Join(items, "; "))
	}
	// SetFlags
	{
		fd := mustFunc(f, file, "VolumeMeasure", "SetFlags")
		base, mnop := int64(-1), int64(-1)
		for _, st := range fd.Body.List {
			switch s := st.(type) {
			case *ast.AssignStmt:
				if s.Tok == token.OR_ASSIGN {
					if v, ok := evalConst(s.Rhs[0], env, 0); ok {
						base = v
					}
				}
			case *ast.IfStmt:
				if id, ok := s.Cond.(*ast.Ident); ok && id.Name == "mnop" && len(s.Body.List) == 1 && s.Else == nil {
					if as, ok := s.Body.List[0].(*ast.AssignStmt); ok && as.Tok == token.OR_ASSIGN {
						if v, ok := evalConst(as.Rhs[0], env, 0); ok {
							mnop = v
						}
					}
				}
			default:
				die("%s: SetFlags: unexpected statement", file)
			}
		}
		if base < 0 || mnop < 0 || len(fd.Body.List) != 2 {
			die("%s: SetFlags: shape not recognised", file)
		}
		o.p("Definition setflags_base : N := %d.\nDefinition setflags_mnop : N := %d.\n", base, mnop)
	}
	// Unmarshal shapes
	{
		rt := mustFunc(f, file, "ReportingTrigger", "Unmarshal")
		aa := mustFunc(f, file, "ApplyAction", "Unmarshal")
		rtMin, rtPad, rtW := unmarshalShape(rt, file)
		aaMin, aaPad, aaW := unmarshalShape(aa, file)
		o.p("(* Unmarshal: error iff len < min; buffer = input padded with zeros to (pad_kind); value = little-endian read of width bits *)")
		o.p("Definition rt_min_len : nat := %d.\nDefinition rt_pad : nat * nat := %s.\nDefinition rt_width : nat := %d.", rtMin, rtPad, rtW)
		o.p("Definition aa_min_len : nat := %d.\nDefinition aa_pad : nat * nat := %s.\nDefinition aa_width : nat := %d.", aaMin, aaPad, aaW)
		o.p("Definition rt_ie_octets : nat := %d.\nDefinition usar_ie_octets : nat := %d.\n",
			ieShape(mustFunc(f, file, "ReportingTrigger", "IE"), file), ieShape(mustFunc(f, file, "UsageReportTrigger", "IE"), file))
	}
	writeIfChanged(filepath.Join(outdir, "FlagsGen.v"), o.b.String())
}

// unmarshalShape recognises
//
//	if len(b) < MIN { return err }
//	v := make([]byte, len(b)+K)   (pad = (0,K): len+K)   or   make([]byte, max(K, len(b)))  (pad = (1,K): max K len)
//	copy(v, b)
//	x.Flags = binary.LittleEndian.UintW(v)
func unmarshalShape(fd *ast.FuncDecl, file string) (int, string, int) {
	min, width := -1, -1
	pad := ""
	for _, st := range fd.Body.List {
		switch s := st.(type) {
		case *ast.IfStmt:
			be, ok := s.Cond.(*ast.BinaryExpr)
			if !ok || be.Op != token.LSS {
				die("%s: %s: length guard not 'len(b) < N'", file, fd.Name.Name)
			}
			v, ok := evalConst(be.Y, constEnv{}, 0)
			if !ok {
				die("%s: %s: length guard bound", file, fd.Name.Name)
			}
			min = int(v)
		case *ast.AssignStmt:
			if ce, ok := s.Rhs[0].(*ast.CallExpr); ok {
				if id, ok := ce.Fun.(*ast.Ident); ok && id.Name == "make" && len(ce.Args) == 2 {
					switch a := ce.Args[1].(type) {
					case *ast.BinaryExpr: // len(b)+K
						if a.Op != token.ADD {
							die("%s: make size", file)
						}
						k, ok := evalConst(a.Y, constEnv{}, 0)
						if !ok {
							die("%s: make size const", file)
						}
						pad = fmt.Sprintf("(0%%nat, %d%%nat)", k)
					case *ast.CallExpr: // max(K, len(b))
						if id, ok := a.Fun.(*ast.Ident); !ok || id.Name != "max" {
							die("%s: make size call", file)
						}
						k, ok := evalConst(a.Args[0], constEnv{}, 0)
						if !ok {
							die("%s: make size max const", file)
						}
						pad = fmt.Sprintf("(1%%nat, %d%%nat)", k)
					default:
						die("%s: make size shape", file)
					}
					continue
				}
				if sel, ok := ce.Fun.(*ast.SelectorExpr); ok {
					if inner, ok := sel.X.(*ast.SelectorExpr); ok && inner.Sel.Name == "LittleEndian" {
						switch sel.Sel.Name {
						case "Uint16":
							width = 16
						case "Uint32":
							width = 32
						default:
							die("%s: unexpected read %s", file, sel.Sel.Name)
						}
						continue
					}
					die("%s: %s: byte order is not LittleEndian", file, fd.Name.Name)
				}
			}
		case *ast.ExprStmt, *ast.ReturnStmt:
		default:
			die("%s: %s: unexpected statement", file, fd.Name.Name)
		}
	}
	if min < 0 || width < 0 || pad == "" {
		die("%s: %s: shape not recognised", file, fd.Name.Name)
	}
	return min, pad, width
}

// ieShape recognises  b := make([]byte,4); binary.LittleEndian.PutUint32(b, x.Flags); return ie.NewX(b[:K]...)
func ieShape(fd *ast.FuncDecl, file string) int {
	k := -1
	le := false
	ast.Inspect(fd.Body, func(n ast.Node) bool {
		switch x := n.(type) {
		case *ast.SliceExpr:
			if x.High != nil && x.Low == nil {
				if v, ok := evalConst(x.High, constEnv{}, 0); ok {
					k = int(v)
				}
			}
		case *ast.SelectorExpr:
			if x.Sel.Name == "PutUint32" {
				if inner, ok := x.X.(*ast.SelectorExpr); ok && inner.Sel.Name == "LittleEndian" {
					le = true
				}
			}
		}
		return true
	})
	if k < 0 || !le {
		die("%s: %s.IE: shape not recognised", file, recvTypeName(fd))
	}
	return k
}

// ---------------------------------------------------------------- byte-expression translation (gtpv1)

// byteExpr translates an expression over uint8 fields of the receiver to Gallina over N (with uint8 wrap).
func byteExpr(e ast.Expr, recv string, file string) string {
	switch x := e.(type) {
	case *ast.BasicLit:
		v, ok := evalConst(x, constEnv{}, 0)
		if !ok {
			die("%s: literal", file)
		}
		return fmt.Sprintf("%d", v)
	case *ast.ParenExpr:
		return byteExpr(x.X, recv, file)
	case *ast.SelectorExpr:
		if id, ok := x.X.(*ast.Ident); ok && id.Name == recv {
			return "f_" + x.Sel.Name
		}
	case *ast.BinaryExpr:
		a := byteExpr(x.X, recv, file)
		b := byteExpr(x.Y, recv, file)
		switch x.Op {
		case token.AND:
			return fmt.Sprintf("(N.land %s %s)", a, b)
		case token.OR:
			return fmt.Sprintf("(N.lor %s %s)", a, b)
		case token.SHL:
			return fmt.Sprintf("((N.shiftl %s %s) mod 256)", a, b)
		case token.SHR:
			return fmt.Sprintf("(N.shiftr %s %s)", a, b)
		case token.ADD:
			return fmt.Sprintf("((%s + %s) mod 256)", a, b)
		}
	}
	die("%s: byte expression not in the supported subset", file)
	return ""
}

func genGtpu(root, outdir string) {
	const file = "internal/gtpv1/msg.go"
	f := parse(root, file)
	env := constEnv{}
	collectConsts(f, env)
	o := &out{}
	o.b.WriteString(header)
	o.p("(* source: %s *)", file)
	if v, ok := env["MsgTypeTPDU"]; ok {
		o.p("Definition MsgTypeTPDU : N := %d.", v)
	} else {
		die("%s: MsgTypeTPDU not found", file)
	}
	// PDUSessionContainer.Len
	lf := mustFunc(f, file, "PDUSessionContainer", "Len")
	if rs, ok := lf.Body.List[0].(*ast.ReturnStmt); ok && len(lf.Body.List) == 1 {
		v, ok := evalConst(rs.Results[0], env, 0)
		if !ok {
			die("%s: PDUSessionContainer.Len not constant", file)
		}
		o.p("Definition psc_len : nat := %d.", v)
	} else {
		die("%s: PDUSessionContainer.Len shape", file)
	}
	// PDUSessionContainer.Encode: b[i] = expr ... ; return e.Len(), nil
	ef := mustFunc(f, file, "PDUSessionContainer", "Encode")
	recv := ef.Recv.List[0].Names[0].Name
	exprs := map[int]string{}
	for _, st := range ef.Body.List {
		switch s := st.(type) {
		case *ast.AssignStmt:
			ix, ok := s.Lhs[0].(*ast.IndexExpr)
			if !ok || s.Tok != token.ASSIGN {
				die("%s: PDUSessionContainer.Encode: statement not 'b[i] = e'", file)
			}
			i, ok := evalConst(ix.Index, env, 0)
			if !ok {
				die("%s: PDUSessionContainer.Encode: index", file)
			}
			exprs[int(i)] = byteExpr(s.Rhs[0], recv, file)
		case *ast.ReturnStmt:
		default:
			die("%s: PDUSessionContainer.Encode: unexpected statement", file)
		}
	}
	var items []string
	for i := 0; i < len(exprs); i++ {
		e, ok := exprs[i]
		if !ok {
			die("%s: PDUSessionContainer.Encode: byte %d not assigned", file, i)
		}
		items = append(items, e)
	}
	o.p("(* PDUSessionContainer.Encode, translated expression by expression (uint8 arithmetic) *)")
	o.p("Definition psc_bytes (f_PDUType f_QoSFlowID : N) : list N := [%s].", strings.Join(items, "; "))
	// flag masks used by HasSequence / HasNPDUNumber
	for _, nm := range []string{"HasSequence", "HasNPDUNumber"} {
		fd := mustFunc(f, file, "Message", nm)
		m, ok := accessorMask(fd, env)
		if !ok {
			die("%s: %s shape", file, nm)
		}
		o.p("Definition mask_%s : N := %d.", nm, m)
	}
	writeIfChanged(filepath.Join(outdir, "GtpuGen.v"), o.b.String())
}

// ---------------------------------------------------------------- ConstsGen

func genConsts(root, outdir string) {
	o := &out{}
	o.b.WriteString(header)
	add := func(file string, names ...string) {
		f := parse(root, file)
		env := constEnv{}
		collectConsts(f, env)
		o.p("(* source: %s *)", file)
		for _, n := range names {
			v, ok := env[n]
			if !ok {
				die("%s: constant %s not found", file, n)
			}
			o.p("Definition %s : N := %d.", n, v)
		}
	}
	add("internal/pfcp/pfcp.go", "RECEIVE_CHANNEL_LEN", "REPORT_CHANNEL_LEN", "TRANS_TIMEOUT_CHANNEL_LEN", "MAX_PFCP_MSG_LEN")
	add("internal/pfcp/node.go", "BUFFQ_LEN")
	add("pkg/factory/config.go", "UpfPfcpDefaultPort", "UpfGtpDefaultPort")
	{
		const file = "internal/forwarder/gtp5g.go"
		sc := stringConsts(parse(root, file))
		for _, n := range []string{"expectedMinGtp5gVersion", "expectedMaxGtp5gVersion"} {
			v, ok := sc[n]
			if !ok {
				die("%s: %s not found", file, n)
			}
			parts := strings.Split(v, ".")
			if len(parts) != 3 {
				die("%s: %s is not x.y.z", file, n)
			}
			var nums []string
			for _, p := range parts {
				if _, err := strconv.Atoi(p); err != nil {
					die("%s: %s component", file, n)
				}
				nums = append(nums, p)
			}
			o.p("Definition %s : N * N * N := (%s, %s, %s).", n, nums[0], nums[1], nums[2])
		}
		// the comparison in checkVersion: nowVer.LessThan(min) || nowVer.GreaterThanOrEqual(max)
		f := parse(root, file)
		fd := mustFunc(f, file, "Gtp5g", "checkVersion")
		var lo, hi string
		ast.Inspect(fd.Body, func(n ast.Node) bool {
			if ifs, ok := n.(*ast.IfStmt); ok {
				if be, ok := ifs.Cond.(*ast.BinaryExpr); ok && be.Op == token.LOR {
					l, ok1 := be.X.(*ast.CallExpr)
					r, ok2 := be.Y.(*ast.CallExpr)
					if ok1 && ok2 {
						ls, ok3 := l.Fun.(*ast.SelectorExpr)
						rs, ok4 := r.Fun.(*ast.SelectorExpr)
						if ok3 && ok4 {
							lo = ls.Sel.Name + ":" + exprName(l.Args[0])
							hi = rs.Sel.Name + ":" + exprName(r.Args[0])
						}
					}
				}
			}
			return true
		})
		if lo == "" {
			die("%s: checkVersion comparison not found", file)
		}
		o.p("(* reject iff  now.<lo-cmp>(lo-arg) || now.<hi-cmp>(hi-arg) *)")
		o.p("Definition version_reject_lo : string := %s.", coqStr(lo))
		o.p("Definition version_reject_hi : string := %s.", coqStr(hi))
	}
	writeIfChanged(filepath.Join(outdir, "ConstsGen.v"), o.b.String())
}

func exprName(e ast.Expr) string {
	if id, ok := e.(*ast.Ident); ok {
		return id.Name
	}
	return "?"
}

// ---------------------------------------------------------------- HandlerGen

// rangeOrder lists, in source order, the session methods called on the elements of req.X
// (for _, i := range req.X { sess.M(i) }  and  if req.X != nil { sess.M(req.X) }).
func rangeOrder(fd *ast.FuncDecl) []string {
	var res []string
	for _, st := range fd.Body.List {
		switch s := st.(type) {
		case *ast.RangeStmt:
			if sel, ok := s.X.(*ast.SelectorExpr); ok {
				if id, ok := sel.X.(*ast.Ident); ok && id.Name == "req" {
					if m := firstSessCall(s.Body); m != "" {
						res = append(res, sel.Sel.Name+":"+m)
					}
				}
			}
		case *ast.IfStmt:
			if be, ok := s.Cond.(*ast.BinaryExpr); ok && be.Op == token.NEQ {
				if sel, ok := be.X.(*ast.SelectorExpr); ok {
					if id, ok := sel.X.(*ast.Ident); ok && id.Name == "req" {
						if m := firstSessCall(s.Body); m != "" {
							res = append(res, sel.Sel.Name+":"+m)
						}
					}
				}
			}
		}
	}
	return res
}

func firstSessCall(b *ast.BlockStmt) string {
	name := ""
	ast.Inspect(b, func(n ast.Node) bool {
		if name != "" {
			return false
		}
		if ce, ok := n.(*ast.CallExpr); ok {
			if sel, ok := ce.Fun.(*ast.SelectorExpr); ok {
				if id, ok := sel.X.(*ast.Ident); ok && id.Name == "sess" {
					name = sel.Sel.Name
					return false
				}
			}
		}
		return true
	})
	return name
}

func closeOrder(fd *ast.FuncDecl) []string {
	var res []string
	for _, st := range fd.Body.List {
		if s, ok := st.(*ast.RangeStmt); ok {
			if sel, ok := s.X.(*ast.SelectorExpr); ok {
				m := ""
				ast.Inspect(s.Body, func(n ast.Node) bool {
					if ce, ok := n.(*ast.CallExpr); ok {
						if s2, ok := ce.Fun.(*ast.SelectorExpr); ok {
							if id, ok := s2.X.(*ast.Ident); ok && id.Name == "s" && strings.HasPrefix(s2.Sel.Name, "Remove") {
								m = s2.Sel.Name
							}
						}
					}
					return true
				})
				if m != "" {
					res = append(res, sel.Sel.Name+":"+m)
				}
			}
		}
	}
	return res
}

func genHandlers(root, outdir string) {
	o := &out{}
	o.b.WriteString(header)
	const sfile = "internal/pfcp/session.go"
	sf := parse(root, sfile)
	lst := func(xs []string) string {
		var q []string
		for _, x := range xs {
			q = append(q, coqStr(x))
		}
		return "[" + strings.Join(q, "; ") + "]"
	}
	est := rangeOrder(mustFunc(sf, sfile, "PfcpServer", "handleSessionEstablishmentRequest"))
	mod := rangeOrder(mustFunc(sf, sfile, "PfcpServer", "handleSessionModificationRequest"))
	if len(est) == 0 || len(mod) == 0 {
		die("%s: handler loops not found", sfile)
	}
	o.p("(* source: %s — order of the per-category loops (request field : session method) *)", sfile)
	o.p("Definition est_order : list string := %s.", lst(est))
	o.p("Definition mod_order : list string := %s.", lst(mod))
	const nfile = "internal/pfcp/node.go"
	nf := parse(root, nfile)
	cl := closeOrder(mustFunc(nf, nfile, "Sess", "Close"))
	if len(cl) == 0 {
		die("%s: Sess.Close loops not found", nfile)
	}
	o.p("(* source: %s — Sess.Close *)", nfile)
	o.p("Definition close_order : list string := %s.", lst(cl))
	writeIfChanged(filepath.Join(outdir, "HandlerGen.v"), o.b.String())
}

// ---------------------------------------------------------------- ConfigGen

func genConfig(root, outdir string) {
	const file = "pkg/factory/config.go"
	f := parse(root, file)
	o := &out{}
	o.b.WriteString(header)
	o.p("(* source: %s — struct tags: (struct, field, go type, yaml name, valid tag items) *)", file)
	var rows []string
	for _, d := range f.Decls {
		gd, ok := d.(*ast.GenDecl)
		if !ok || gd.Tok != token.TYPE {
			continue
		}
		for _, s := range gd.Specs {
			ts := s.(*ast.TypeSpec)
			st, ok := ts.Type.(*ast.StructType)
			if !ok {
				continue
			}
			for _, fl := range st.Fields.List {
				if fl.Tag == nil || len(fl.Names) != 1 {
					continue
				}
				tag, _ := strconv.Unquote(fl.Tag.Value)
				yaml := tagValue(tag, "yaml")
				valid := tagValue(tag, "valid")
				var items []string
				for _, it := range splitValid(valid) {
					items = append(items, coqStr(it))
				}
				rows = append(rows, fmt.Sprintf("  (%s, %s, %s, %s, [%s])", coqStr(ts.Name.Name), coqStr(fl.Names[0].Name),
					coqStr(typeString(fl.Type)), coqStr(yaml), strings.Join(items, "; ")))
			}
		}
	}
	if len(rows) == 0 {
		die("%s: no tagged struct fields", file)
	}
	sort.Strings(rows)
	o.p("Definition config_tags : list (string * string * string * string * list string) := [\n%s\n].", strings.Join(rows, ";\n"))
	writeIfChanged(filepath.Join(outdir, "ConfigGen.v"), o.b.String())
}

func typeString(e ast.Expr) string {
	switch x := e.(type) {
	case *ast.Ident:
		return x.Name
	case *ast.StarExpr:
		return "*" + typeString(x.X)
	case *ast.ArrayType:
		return "[]" + typeString(x.Elt)
	case *ast.SelectorExpr:
		return typeString(x.X) + "." + x.Sel.Name
	}
	return "?"
}

func tagValue(tag, key string) string {
	i := strings.Index(tag, key+":\"")
	if i < 0 {
		return ""
	}
	rest := tag[i+len(key)+2:]
	j := strings.Index(rest, "\"")
	if j < 0 {
		return ""
	}
	return rest[:j]
}

// splitValid splits "required,in(a|b)" at top-level commas.
func splitValid(s string) []string {
	var res []string
	depth, start := 0, 0
	for i, c := range s {
		switch c {
		case '(':
			depth++
		case ')':
			depth--
		case ',':
			if depth == 0 {
				res = append(res, s[start:i])
				start = i + 1
			}
		}
	}
	if start < len(s) {
		res = append(res, s[start:])
	}
	return res
}

func main() {
	if len(os.Args) != 3 {
		die("usage: gen <repo-root> <out-dir>")
	}
	root, outdir := os.Args[1], os.Args[2]
	if err := os.MkdirAll(outdir, 0o755); err != nil {
		die("%v", err)
	}
	type gen struct {
		name  string
		files []string
		run   func(root, outdir string)
	}
	gens := []gen{
		{"genFlags", []string{"FlagsGen.v"}, genFlags}, {"genGtpu", []string{"GtpuGen.v"}, genGtpu},
		{"genConsts", []string{"ConstsGen.v"}, genConsts}, {"genHandlers", []string{"HandlerGen.v"}, genHandlers},
		{"genConfig", []string{"ConfigGen.v"}, genConfig},
	}
	// further generators live in their own files (gen_*.go) and register themselves in init()
	for _, g := range extraGenerators {
		full := runtime.FuncForPC(reflect.ValueOf(g).Pointer()).Name()
		name := full[strings.LastIndex(full, ".")+1:]
		files, ok := genOutputs[name]
		if !ok {
			fmt.Fprintf(os.Stderr, "gen: generator %s has no entry in genOutputs\n", name)
			os.Exit(4)
		}
		gens = append(gens, gen{name, files, g})
	}
	failed := 0
	for _, g := range gens {
		func() {
			defer func() {
				if p := recover(); p != nil {
					gf, ok := p.(genFailure)
					if !ok {
						gf = genFailure{fmt.Sprintf("internal error: %v", p)}
					}
					failed++
					fmt.Fprintf(os.Stderr, "gen: %s (%s): %s\n", g.name, strings.Join(g.files, ", "), gf.msg)
					for _, f := range g.files {
						poison := "(* GENERATION FAILED: " + strings.ReplaceAll(gf.msg, "*)", "* )") + " *)\nThis file does not compile on purpose.\n"
						_ = os.WriteFile(filepath.Join(outdir, f), []byte(poison), 0o644)
						for _, ext := range []string{"o", "os", "ok"} {
							_ = os.Remove(filepath.Join(outdir, f+ext))
						}
					}
				}
			}()
			g.run(root, outdir)
		}()
	}
	if failed > 0 {
		os.Exit(3)
	}
}

// which files each self-registered generator writes
var genOutputs = map[string][]string{
	"genConc": {"ConcGen.v"}, "genPerioConc": {"PerioConcGen.v"}, "genFlowDesc": {"FlowDescGen.v"}, "genPerio": {"PerioGen.v"},
	"genRules": {"RulesGen.v"}, "genTimers": {"TimerGen.v"}, "genTxKey": {"TxKeyGen.v"}, "genUrrSeq": {"UrrSeqGen.v"},
	"genUsageDec": {"UsageDecGen.v"}, "genBuffDec": {"BuffDecGen.v"}, "genLookup": {"LookupGen.v"},
}

var extraGenerators []func(root, outdir string)
