package main

// ConcGen.v: the concurrency skeleton of internal/pfcp, extracted syntactically:
//   - for every goroutine entry point that does NOT run on the event-loop goroutine (the receiver, the
//     transaction-timer closures, the Notify* / Stop API used by foreign goroutines): the set of struct fields
//     it can touch, transitively through same-package calls;
//   - every channel operation (send / send inside select / receive / close) with the function it occurs in;
//   - the `go` statements.
// Types are resolved with a small resolver over the package's own struct declarations (receiver, parameters
// and field chains such as tx.server.conn); anything it cannot resolve inside an off-loop entry point is
// reported as "?.<name>" and therefore fails the confinement lemma (fail closed).

import (
	"fmt"
	"go/ast"
	"go/token"
	"path/filepath"
	"sort"
	"strings"
)

type concFunc struct {
	name   string // Type.method or func name; closures: parent$N
	fields map[string]bool
	calls  map[string]bool
	chops  [][2]string // (channel field, mode)
	gos    []string
	// channels sent to inside a select that has a default clause (cannot block)
	nbsends []string
	recvs   [][2]string     // every channel receive: (channel, "blocking" | "select" | "nonblocking" = select with default)
	gocalls map[string]bool // callees of go statements (they run on another goroutine)
}

type concPkg struct {
	structs map[string]map[string]string // type -> field -> type name ("" if not a package struct)
	funcs   map[string]*concFunc
	methods map[string]bool
}

func typeName(e ast.Expr) string {
	switch x := e.(type) {
	case *ast.Ident:
		return x.Name
	case *ast.StarExpr:
		return typeName(x.X)
	}
	return ""
}

func (p *concPkg) resolve(e ast.Expr, env map[string]string) string {
	switch x := e.(type) {
	case *ast.Ident:
		return env[x.Name]
	case *ast.ParenExpr:
		return p.resolve(x.X, env)
	case *ast.StarExpr:
		return p.resolve(x.X, env)
	case *ast.UnaryExpr:
		if x.Op == token.AND {
			return p.resolve(x.X, env)
		}
	case *ast.SelectorExpr:
		t := p.resolve(x.X, env)
		if t != "" {
			if ft, ok := p.structs[t][x.Sel.Name]; ok {
				return ft
			}
		}
	}
	return ""
}

func (p *concPkg) analyse(name string, body *ast.BlockStmt, env map[string]string) {
	cf := &concFunc{name: name, fields: map[string]bool{}, calls: map[string]bool{}, gocalls: map[string]bool{}}
	p.funcs[name] = cf
	nclos := 0
	inSelect := map[ast.Node]bool{}
	inSelectDefault := map[ast.Node]bool{}
	recvMode := map[*ast.UnaryExpr]string{}
	goCall := map[ast.Node]bool{}
	var visit func(n ast.Node) bool
	visit = func(n ast.Node) bool {
		switch x := n.(type) {
		case *ast.FuncLit:
			nclos++
			p.analyse(fmt.Sprintf("%s$%d", name, nclos), x.Body, env)
			cf.calls[fmt.Sprintf("%s$%d", name, nclos)+"?closure"] = true
			return false
		case *ast.SelectStmt:
			hasDefault := false
			for _, c := range x.Body.List {
				if cc, ok := c.(*ast.CommClause); ok && cc.Comm == nil {
					hasDefault = true
				}
			}
			for _, c := range x.Body.List {
				if cc, ok := c.(*ast.CommClause); ok && cc.Comm != nil {
					inSelect[cc.Comm] = true
					if hasDefault {
						inSelectDefault[cc.Comm] = true
					}
					ast.Inspect(cc.Comm, func(m ast.Node) bool {
						if u, ok := m.(*ast.UnaryExpr); ok && u.Op == token.ARROW {
							if hasDefault {
								recvMode[u] = "nonblocking"
							} else {
								recvMode[u] = "select"
							}
						}
						return true
					})
				}
			}
		case *ast.SendStmt:
			mode := "send"
			if inSelect[x] {
				mode = "send-select"
			}
			if inSelectDefault[x] {
				cf.nbsends = append(cf.nbsends, p.chanName(x.Chan, env))
			}
			cf.chops = append(cf.chops, [2]string{p.chanName(x.Chan, env), mode})
		case *ast.UnaryExpr:
			if x.Op == token.ARROW {
				cf.chops = append(cf.chops, [2]string{p.chanName(x.X, env), "recv"})
				m := recvMode[x]
				if m == "" {
					m = "blocking"
				}
				cf.recvs = append(cf.recvs, [2]string{p.chanName(x.X, env), m})
			}
		case *ast.RangeStmt:
			if t := p.chanName(x.X, env); strings.HasSuffix(strings.ToLower(t), "ch") {
				cf.chops = append(cf.chops, [2]string{t, "recv"})
				cf.recvs = append(cf.recvs, [2]string{t, "blocking"})
			}
		case *ast.GoStmt:
			cf.gos = append(cf.gos, p.callName(x.Call, env))
			goCall[x.Call] = true
		case *ast.CallExpr:
			if id, ok := x.Fun.(*ast.Ident); ok && id.Name == "close" && len(x.Args) == 1 {
				cf.chops = append(cf.chops, [2]string{p.chanName(x.Args[0], env), "close"})
			}
			if goCall[x] {
				cf.gocalls[p.callName(x, env)] = true
			} else {
				cf.calls[p.callName(x, env)] = true
			}
		case *ast.SelectorExpr:
			t := p.resolve(x.X, env)
			if t != "" {
				if _, isField := p.structs[t][x.Sel.Name]; isField {
					cf.fields[t+"."+x.Sel.Name] = true
				}
			}
		}
		return true
	}
	ast.Inspect(body, visit)
}

func (p *concPkg) chanName(e ast.Expr, env map[string]string) string {
	if se, ok := e.(*ast.SelectorExpr); ok {
		t := p.resolve(se.X, env)
		if t != "" {
			return t + "." + se.Sel.Name
		}
		return "?." + se.Sel.Name
	}
	if id, ok := e.(*ast.Ident); ok {
		return "local." + id.Name
	}
	return "?"
}

func (p *concPkg) callName(c *ast.CallExpr, env map[string]string) string {
	switch f := c.Fun.(type) {
	case *ast.Ident:
		return f.Name
	case *ast.SelectorExpr:
		t := p.resolve(f.X, env)
		if t != "" {
			return t + "." + f.Sel.Name
		}
		if id, ok := f.X.(*ast.Ident); ok {
			return id.Name + "." + f.Sel.Name // package-qualified or unresolved
		}
		return "?." + f.Sel.Name
	}
	return "?"
}

func (p *concPkg) load(parsed []*ast.File) {
	for _, f := range parsed {
		for _, d := range f.Decls {
			gd, ok := d.(*ast.GenDecl)
			if !ok || gd.Tok != token.TYPE {
				continue
			}
			for _, s := range gd.Specs {
				ts := s.(*ast.TypeSpec)
				st, ok := ts.Type.(*ast.StructType)
				if !ok {
					continue
				}
				m := map[string]string{}
				for _, fl := range st.Fields.List {
					for _, n := range fl.Names {
						m[n.Name] = typeName(fl.Type)
					}
				}
				p.structs[ts.Name.Name] = m
			}
		}
	}
	// field types that are not package structs resolve to ""
	for _, m := range p.structs {
		for f, t := range m {
			if _, ok := p.structs[t]; !ok {
				m[f] = ""
			}
		}
	}
	for _, f := range parsed {
		for _, d := range f.Decls {
			fd, ok := d.(*ast.FuncDecl)
			if !ok || fd.Body == nil {
				continue
			}
			env := map[string]string{}
			name := fd.Name.Name
			if fd.Recv != nil && len(fd.Recv.List) == 1 {
				t := typeName(fd.Recv.List[0].Type)
				name = t + "." + name
				if len(fd.Recv.List[0].Names) == 1 {
					env[fd.Recv.List[0].Names[0].Name] = t
				}
			}
			for _, prm := range fd.Type.Params.List {
				t := typeName(prm.Type)
				if _, ok := p.structs[t]; ok {
					for _, n := range prm.Names {
						env[n.Name] = t
					}
				}
			}
			// locals of shape  x := &T{...} / x := NewT(...) are not tracked: conservative "" (unresolved)
			p.analyse(name, fd.Body, env)
		}
	}
}

func (p *concPkg) closure(entry string) (fields []string, chops [][3]string) {
	seen := map[string]bool{}
	fs := map[string]bool{}
	var walk func(n string)
	walk = func(n string) {
		if seen[n] {
			return
		}
		seen[n] = true
		cf := p.funcs[n]
		if cf == nil {
			return
		}
		for f := range cf.fields {
			fs[f] = true
		}
		for _, c := range cf.chops {
			chops = append(chops, [3]string{n, c[0], c[1]})
		}
		for c := range cf.calls {
			c = strings.TrimSuffix(c, "?closure")
			walk(c)
		}
	}
	walk(entry)
	for f := range fs {
		fields = append(fields, f)
	}
	sort.Strings(fields)
	sort.Slice(chops, func(i, j int) bool { return fmt.Sprint(chops[i]) < fmt.Sprint(chops[j]) })
	return
}

func loadConcPkg(root, dir string, files []string) *concPkg {
	p := &concPkg{structs: map[string]map[string]string{}, funcs: map[string]*concFunc{}, methods: map[string]bool{}}
	var parsed []*ast.File
	for _, f := range files {
		parsed = append(parsed, parse(root, filepath.Join(dir, f)))
	}
	p.load(parsed)
	return p
}

// genPerioConc: every channel operation of the periodic-report server with its blocking mode (C18)
func genPerioConc(root, outdir string) {
	p := loadConcPkg(root, "internal/forwarder/perio", []string{"server.go"})
	o := &out{}
	o.b.WriteString(header)
	o.p("(* source: internal/forwarder/perio/server.go - channel operations: (function, channel, mode) *)")
	var names []string
	for n := range p.funcs {
		names = append(names, n)
	}
	sort.Strings(names)
	var rows []string
	for _, n := range names {
		ops := append([][2]string{}, p.funcs[n].chops...)
		sort.Slice(ops, func(i, j int) bool { return fmt.Sprint(ops[i]) < fmt.Sprint(ops[j]) })
		for _, op := range ops {
			rows = append(rows, fmt.Sprintf("  (%s, %s, %s)", coqStr(n), coqStr(op[0]), coqStr(op[1])))
		}
	}
	if len(rows) == 0 {
		die("internal/forwarder/perio/server.go: no channel operations found")
	}
	o.p("Definition perio_chanops : list (string * string * string) := [\n%s\n].\n", strings.Join(rows, ";\n"))
	o.p("(* calls: (function, callee) - unresolved receivers appear as ?.Method *)")
	rows = nil
	for _, n := range names {
		var cs []string
		for c := range p.funcs[n].calls {
			cs = append(cs, strings.TrimSuffix(c, "?closure"))
		}
		sort.Strings(cs)
		for _, c := range cs {
			rows = append(rows, fmt.Sprintf("  (%s, %s)", coqStr(n), coqStr(c)))
		}
	}
	o.p("Definition perio_calls : list (string * string) := [\n%s\n].\n", strings.Join(rows, ";\n"))
	o.p("(* struct fields each function touches *)")
	rows = nil
	for _, n := range names {
		var fs []string
		for f := range p.funcs[n].fields {
			fs = append(fs, coqStr(f))
		}
		sort.Strings(fs)
		rows = append(rows, fmt.Sprintf("  (%s, [%s])", coqStr(n), strings.Join(fs, "; ")))
	}
	o.p("Definition perio_access : list (string * list string) := [\n%s\n].\n", strings.Join(rows, ";\n"))
	// the event queue's protocol: calls of put in SOURCE ORDER (the wake-up must come after the append, under the lock), and
	// whether get re-checks its condition in a loop around Wait
	order, waitInLoop := queueProtocol(root)
	var qo []string
	for _, c := range order {
		qo = append(qo, coqStr(c))
	}
	o.p("(* eventQueue.put: its calls in source order; eventQueue.get: Wait stands inside a for loop *)")
	o.p("Definition perio_put_order : list string := [%s].", strings.Join(qo, "; "))
	o.p("Definition perio_get_wait_in_loop : bool := %v.", waitInLoop)
	writeIfChanged(filepath.Join(outdir, "PerioConcGen.v"), o.b.String())
}

func genConc(root, outdir string) {
	files := []string{"pfcp.go", "transaction.go", "node.go", "session.go", "report.go", "association.go", "heartbeat.go", "dispacher.go"}
	p := loadConcPkg(root, "internal/pfcp", files)
	need := []string{"PfcpServer.main", "PfcpServer.receiver", "PfcpServer.NotifySessReport", "PfcpServer.NotifyTransTimeout",
		"PfcpServer.Stop", "TxTransaction.startTimer$1", "RxTransaction.startTimer$1"}
	for _, n := range need {
		if p.funcs[n] == nil {
			die("internal/pfcp: goroutine entry point %s not found", n)
		}
	}
	// the timer closures must really be the AfterFunc callbacks
	for _, n := range []string{"TxTransaction.startTimer", "RxTransaction.startTimer"} {
		if !p.funcs[n].calls["time.AfterFunc"] {
			die("internal/pfcp: %s no longer uses time.AfterFunc", n)
		}
	}
	o := &out{}
	o.b.WriteString(header)
	o.p("(* source: internal/pfcp/*.go — entry points that run OFF the event-loop goroutine and every struct field they can reach *)")
	var rows []string
	off := []string{"PfcpServer.receiver", "PfcpServer.NotifySessReport", "PfcpServer.NotifyTransTimeout", "PfcpServer.Stop",
		"TxTransaction.startTimer$1", "RxTransaction.startTimer$1"}
	var allops [][3]string
	for _, e := range off {
		fields, ops := p.closure(e)
		var q []string
		for _, f := range fields {
			q = append(q, coqStr(f))
		}
		rows = append(rows, fmt.Sprintf("  (%s, [%s])", coqStr(e), strings.Join(q, "; ")))
		for _, op := range ops {
			allops = append(allops, [3]string{e, op[1], op[2]})
		}
	}
	o.p("Definition offloop_access : list (string * list string) := [\n%s\n].\n", strings.Join(rows, ";\n"))
	o.p("(* channel operations reachable from the off-loop entry points: (entry, channel, mode) *)")
	rows = nil
	for _, op := range allops {
		rows = append(rows, fmt.Sprintf("  (%s, %s, %s)", coqStr(op[0]), coqStr(op[1]), coqStr(op[2])))
	}
	o.p("Definition offloop_chanops : list (string * string * string) := [\n%s\n].\n", strings.Join(rows, ";\n"))
	o.p("(* channel operations written directly in the loop function PfcpServer.main (incl. its deferred clean-up): (channel, mode) *)")
	rows = nil
	var mainops [][2]string
	for n, cf := range p.funcs {
		if n == "PfcpServer.main" || strings.HasPrefix(n, "PfcpServer.main$") {
			mainops = append(mainops, cf.chops...)
		}
	}
	sort.Slice(mainops, func(i, j int) bool { return fmt.Sprint(mainops[i]) < fmt.Sprint(mainops[j]) })
	for _, op := range mainops {
		rows = append(rows, fmt.Sprintf("  (%s, %s)", coqStr(op[0]), coqStr(op[1])))
	}
	o.p("Definition main_chanops : list (string * string) := [\n%s\n].\n", strings.Join(rows, ";\n"))
	o.p("(* every channel close in the package: (function, channel) *)")
	rows = nil
	var names []string
	for n := range p.funcs {
		names = append(names, n)
	}
	sort.Strings(names)
	for _, n := range names {
		for _, op := range p.funcs[n].chops {
			if op[1] == "close" {
				rows = append(rows, fmt.Sprintf("  (%s, %s)", coqStr(n), coqStr(op[0])))
			}
		}
	}
	o.p("Definition chan_closes : list (string * string) := [\n%s\n].\n", strings.Join(rows, ";\n"))
	o.p("(* go statements: (function, callee) *)")
	rows = nil
	for _, n := range names {
		for _, g := range p.funcs[n].gos {
			rows = append(rows, fmt.Sprintf("  (%s, %s)", coqStr(n), coqStr(g)))
		}
	}
	o.p("Definition go_stmts : list (string * string) := [\n%s\n].\n", strings.Join(rows, ";\n"))
	o.p("(* every channel SEND the event-loop goroutine can execute inside package pfcp (PfcpServer.main and everything it calls,")
	o.p("   go statements excluded): (function, channel, \"nonblocking\" = inside a select with a default clause | \"blocking\") *)")
	rows = nil
	var recvRows []string
	{
		seen := map[string]bool{}
		var walk func(n string)
		walk = func(n string) {
			if seen[n] {
				return
			}
			seen[n] = true
			cf := p.funcs[n]
			if cf == nil {
				return
			}
			nb := map[string]int{}
			for _, c := range cf.nbsends {
				nb[c]++
			}
			for _, c := range cf.recvs {
				recvRows = append(recvRows, fmt.Sprintf("  (%s, %s, %s)", coqStr(n), coqStr(c[0]), coqStr(c[1])))
			}
			for _, c := range cf.chops {
				if c[1] == "send" || c[1] == "send-select" {
					m := "blocking"
					if c[1] == "send-select" && nb[c[0]] > 0 {
						nb[c[0]]--
						m = "nonblocking"
					}
					rows = append(rows, fmt.Sprintf("  (%s, %s, %s)", coqStr(n), coqStr(c[0]), coqStr(m)))
				}
			}
			var cs []string
			for c := range cf.calls {
				cs = append(cs, strings.TrimSuffix(c, "?closure"))
			}
			sort.Strings(cs)
			for _, c := range cs {
				if p.funcs[c] != nil {
					walk(c)
					continue
				}
				// receiver type not resolved syntactically (a local variable): every method of that name, any type
				if i := strings.LastIndex(c, "."); i >= 0 {
					var ms []string
					for n := range p.funcs {
						if strings.HasSuffix(n, c[i:]) && !strings.Contains(n, "$") {
							ms = append(ms, n)
						}
					}
					sort.Strings(ms)
					for _, m := range ms {
						walk(m)
					}
				}
			}
		}
		walk("PfcpServer.main")
		// the driver calls back into the server on the loop's goroutine (release of buffered packets)
		walk("PfcpServer.PopBufPkt")
		sort.Strings(rows)
		sort.Strings(recvRows)
	}
	o.p("Definition loop_sends : list (string * string * string) := [\n%s\n].\n", strings.Join(rows, ";\n"))
	o.p("(* every channel RECEIVE the event-loop goroutine can execute inside package pfcp: (function, channel, \"blocking\" |")
	o.p("   \"select\" = a case of a select without default | \"nonblocking\" = a case of a select with a default clause) *)")
	o.p("Definition loop_recvs : list (string * string * string) := [\n%s\n].\n", strings.Join(recvRows, ";\n"))
	o.p("(* every make(chan T, N): (function, target, capacity expression) *)")
	rows = chanMakes(root, "internal/pfcp", files)
	rows = append(rows, chanMakes(root, "internal/forwarder/perio", []string{"server.go"})...)
	if len(rows) < 4 {
		die("channel constructions not found (%d)", len(rows))
	}
	o.p("Definition chan_makes : list (string * string * string) := [\n%s\n].", strings.Join(rows, ";\n"))
	writeIfChanged(filepath.Join(outdir, "ConcGen.v"), o.b.String())
}

// queueProtocol reads eventQueue.put / eventQueue.get of perio/server.go (absent in trees whose event queue is a channel)
func queueProtocol(root string) (order []string, waitInLoop bool) {
	af := parse(root, "internal/forwarder/perio/server.go")
	for _, d := range af.Decls {
		fd, ok := d.(*ast.FuncDecl)
		if !ok || fd.Body == nil || fd.Recv == nil || len(fd.Recv.List) != 1 || typeName(fd.Recv.List[0].Type) != "eventQueue" {
			continue
		}
		switch fd.Name.Name {
		case "put":
			ast.Inspect(fd.Body, func(n ast.Node) bool {
				if c, ok := n.(*ast.CallExpr); ok {
					switch f := c.Fun.(type) {
					case *ast.SelectorExpr:
						order = append(order, f.Sel.Name)
					case *ast.Ident:
						order = append(order, f.Name)
					}
				}
				return true
			})
		case "get":
			ast.Inspect(fd.Body, func(n ast.Node) bool {
				if fs, ok := n.(*ast.ForStmt); ok {
					ast.Inspect(fs.Body, func(m ast.Node) bool {
						if c, ok := m.(*ast.CallExpr); ok {
							if se, ok := c.Fun.(*ast.SelectorExpr); ok && se.Sel.Name == "Wait" {
								waitInLoop = true
							}
						}
						return true
					})
				}
				return true
			})
		}
	}
	return
}

// chanMakes lists every make(chan T, N) with the field / variable it initialises and its capacity expression
func chanMakes(root, dir string, files []string) []string {
	var rows []string
	isMakeChan := func(e ast.Expr) (string, bool) {
		c, ok := e.(*ast.CallExpr)
		if !ok || len(c.Args) == 0 {
			return "", false
		}
		if id, ok := c.Fun.(*ast.Ident); !ok || id.Name != "make" {
			return "", false
		}
		if _, ok := c.Args[0].(*ast.ChanType); !ok {
			return "", false
		}
		if len(c.Args) == 1 {
			return "0", true
		}
		return exprString(c.Args[1]), true
	}
	for _, f := range files {
		af := parse(root, filepath.Join(dir, f))
		for _, d := range af.Decls {
			fd, ok := d.(*ast.FuncDecl)
			if !ok || fd.Body == nil {
				continue
			}
			ast.Inspect(fd.Body, func(n ast.Node) bool {
				switch x := n.(type) {
				case *ast.KeyValueExpr:
					if capx, ok := isMakeChan(x.Value); ok {
						rows = append(rows, fmt.Sprintf("  (%s, %s, %s)", coqStr(fd.Name.Name), coqStr(exprString(x.Key)), coqStr(capx)))
					}
				case *ast.AssignStmt:
					for i, r := range x.Rhs {
						if capx, ok := isMakeChan(r); ok && i < len(x.Lhs) {
							rows = append(rows, fmt.Sprintf("  (%s, %s, %s)", coqStr(fd.Name.Name), coqStr(exprString(x.Lhs[i])), coqStr(capx)))
						}
					}
				}
				return true
			})
		}
	}
	return rows
}

func init() { extraGenerators = append(extraGenerators, genConc, genPerioConc) }
