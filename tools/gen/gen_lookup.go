package main

// LookupGen.v (C04 C05 C09): small shapes of internal/pfcp that the model takes for granted -
//   remote_sess_cond   the test by which LocalNode.RemoteSess (SEID-0 report responses) recognises the session:
//                      the peer's SEID AND the full address string of the association
//   sendreq_body       the statements of PfcpServer.sendReqTo: the transaction takes the counter, the counter advances
//                      (mod 2^24), the transaction is registered, and only then is the request written
// with local names printed canonically.

import (
	"go/ast"
	"path/filepath"
)

func init() { extraGenerators = append(extraGenerators, genLookup) }

func genLookup(root, outdir string) {
	o := &out{}
	o.b.WriteString(header)
	const nfile = "internal/pfcp/node.go"
	nf := parse(root, nfile)
	o.p("(* source: %s *)", nfile)
	rs := mustFunc(nf, nfile, "LocalNode", "RemoteSess")
	canonLocals(rs, rs.Recv)
	var conds []string
	ast.Inspect(rs.Body, func(n ast.Node) bool {
		ifs, ok := n.(*ast.IfStmt)
		if !ok {
			return true
		}
		if hasReturn(ifs.Body) {
			conds = append(conds, oneLine(ifs.Cond))
		}
		return true
	})
	o.p("Definition remote_sess_conds : list string := %s.", coqStrList(conds))
	const pfile = "internal/pfcp/pfcp.go"
	pf := parse(root, pfile)
	o.p("")
	o.p("(* source: %s *)", pfile)
	sr := mustFunc(pf, pfile, "PfcpServer", "sendReqTo")
	canonLocals(sr, sr.Recv)
	o.p("Definition sendreq_body : list string := %s.", coqStrList(stmtLines(sr.Body.List)))
	writeIfChanged(filepath.Join(outdir, "LookupGen.v"), o.b.String())
}
