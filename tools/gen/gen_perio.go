// PerioGen.v: the syntactic facts of perio/server.go and queryMultiURR that the C15 model takes as data:
//   - the constant OR-ed into every report's USARTrigger.Flags in the TYPE_PERIO_TIMEOUT case,
//   - the event-type constants,
//   - the shape of queryMultiURR's chunking loop (limit source, flush condition, reset statements, tail condition).
package main

import (
	"bytes"
	"go/ast"
	"go/printer"
	"go/token"
	"path/filepath"
	"strings"
)

func render(n ast.Node) string {
	var b bytes.Buffer
	if err := printer.Fprint(&b, fset, n); err != nil {
		die("render: %v", err)
	}
	return strings.Join(strings.Fields(b.String()), " ")
}

// caseClauseOf finds `case NAME:` in the type switch of Serve
func caseClauseOf(fd *ast.FuncDecl, name string) *ast.CaseClause {
	var res *ast.CaseClause
	ast.Inspect(fd.Body, func(n ast.Node) bool {
		if cc, ok := n.(*ast.CaseClause); ok {
			for _, e := range cc.List {
				if id, ok := e.(*ast.Ident); ok && id.Name == name {
					res = cc
				}
			}
		}
		return true
	})
	return res
}

func genPerio(root, outdir string) {
	o := &out{}
	o.b.WriteString(header)

	const sfile = "internal/forwarder/perio/server.go"
	sf := parse(root, sfile)
	env := constEnv{}
	collectConsts(sf, env)
	o.p("(* source: %s *)", sfile)
	for _, n := range []string{"TYPE_PERIO_ADD", "TYPE_PERIO_DEL", "TYPE_PERIO_TIMEOUT", "TYPE_SERVER_CLOSE"} {
		v, ok := env[n]
		if !ok {
			die("%s: constant %s not found", sfile, n)
		}
		o.p("Definition %s : N := %d.", n, v)
	}
	serve := mustFunc(sf, sfile, "Server", "Serve")
	for _, n := range []string{"TYPE_PERIO_ADD", "TYPE_PERIO_DEL", "TYPE_PERIO_TIMEOUT", "TYPE_SERVER_CLOSE"} {
		if caseClauseOf(serve, n) == nil {
			die("%s: Serve has no case %s", sfile, n)
		}
	}
	// the flag OR-ed into each report in the TIMEOUT case:  usars[i].USARTrigger.Flags |= report.C
	to := caseClauseOf(serve, "TYPE_PERIO_TIMEOUT")
	var marks []string
	for _, st := range to.Body {
		ast.Inspect(st, func(n ast.Node) bool {
			as, ok := n.(*ast.AssignStmt)
			if !ok || len(as.Lhs) != 1 || len(as.Rhs) != 1 {
				return true
			}
			sel, ok := as.Lhs[0].(*ast.SelectorExpr)
			if !ok || sel.Sel.Name != "Flags" {
				return true
			}
			if as.Tok != token.OR_ASSIGN {
				die("%s: TIMEOUT case assigns Flags with %s, expected |=", sfile, as.Tok)
			}
			rs, ok := as.Rhs[0].(*ast.SelectorExpr)
			if !ok {
				die("%s: TIMEOUT case: flag operand is not report.CONST", sfile)
			}
			marks = append(marks, rs.Sel.Name)
			return true
		})
	}
	if len(marks) != 1 {
		die("%s: TIMEOUT case: expected exactly one 'Flags |= report.C' statement, found %d", sfile, len(marks))
	}
	renv := constEnv{}
	collectConsts(parse(root, "internal/report/report.go"), renv)
	mv, ok := renv[marks[0]]
	if !ok {
		die("internal/report/report.go: constant %s not found", marks[0])
	}
	o.p("(* TYPE_PERIO_TIMEOUT: usars[i].USARTrigger.Flags |= report.%s *)", marks[0])
	o.p("Definition perio_mark_name : string := %s.", coqStr(marks[0]))
	o.p("Definition perio_mark_flag : N := %d.", mv)
	// number of NotifySessReport call sites in the TIMEOUT case and of queryURR calls
	nNotify, nQuery := 0, 0
	for _, st := range to.Body {
		ast.Inspect(st, func(n ast.Node) bool {
			if ce, ok := n.(*ast.CallExpr); ok {
				if sel, ok := ce.Fun.(*ast.SelectorExpr); ok {
					switch sel.Sel.Name {
					case "NotifySessReport":
						nNotify++
					case "queryURR":
						nQuery++
					}
				}
			}
			return true
		})
	}
	o.p("Definition perio_timeout_call_sites : N * N := (%d, %d). (* queryURR, NotifySessReport *)", nQuery, nNotify)

	// queryMultiURR's chunking loop
	const gfile = "internal/forwarder/gtp5g.go"
	gf := parse(root, gfile)
	q := mustFunc(gf, gfile, "Gtp5g", "queryMultiURR")
	var limitSrc, flushCond, tailCond string
	var resets []string
	var flushCall, tailCall string
	for _, st := range q.Body.List {
		switch s := st.(type) {
		case *ast.AssignStmt:
			if len(s.Lhs) == 1 && len(s.Rhs) == 1 {
				if id, ok := s.Lhs[0].(*ast.Ident); ok && id.Name == "queryNumOnce" {
					limitSrc = render(s.Rhs[0])
				}
			}
		case *ast.RangeStmt: // for seid, urrIds := range lSeidUrridsMap { for _, urrId := range urrIds { ... if COND { flush } } }
			ast.Inspect(s.Body, func(n ast.Node) bool {
				ifs, ok := n.(*ast.IfStmt)
				if !ok {
					return true
				}
				be, ok := ifs.Cond.(*ast.BinaryExpr)
				if !ok {
					return true
				}
				if x, ok := be.X.(*ast.Ident); !ok || x.Name != "queryNum" {
					return true
				}
				flushCond = render(ifs.Cond)
				for _, b := range ifs.Body.List {
					if as, ok := b.(*ast.AssignStmt); ok {
						if as.Tok == token.ASSIGN {
							resets = append(resets, render(as))
						} else if len(as.Rhs) == 1 {
							if ce, ok := as.Rhs[0].(*ast.CallExpr); ok {
								flushCall = render(ce)
							}
						}
					}
				}
				return false
			})
		case *ast.IfStmt:
			if be, ok := s.Cond.(*ast.BinaryExpr); ok {
				if ce, ok := be.X.(*ast.CallExpr); ok {
					if id, ok := ce.Fun.(*ast.Ident); ok && id.Name == "len" && len(ce.Args) == 1 && render(ce.Args[0]) == "oids" {
						tailCond = render(s.Cond)
						for _, b := range s.Body.List {
							if as, ok := b.(*ast.AssignStmt); ok && as.Tok == token.DEFINE && len(as.Rhs) == 1 {
								if c2, ok := as.Rhs[0].(*ast.CallExpr); ok {
									tailCall = render(c2)
								}
							}
						}
					}
				}
			}
		}
	}
	if limitSrc == "" || flushCond == "" || tailCond == "" || flushCall == "" || tailCall == "" {
		die("%s: queryMultiURR: chunking loop shape not recognised (limit %q, flush %q, tail %q)", gfile, limitSrc, flushCond, tailCond)
	}
	var rs []string
	for _, r := range resets {
		rs = append(rs, coqStr(r))
	}
	o.p("(* source: %s — queryMultiURR chunking loop *)", gfile)
	o.p("Definition batch_limit_src : string := %s.", coqStr(limitSrc))
	o.p("Definition batch_flush_cond : string := %s.", coqStr(flushCond))
	o.p("Definition batch_flush_call : string := %s.", coqStr(flushCall))
	o.p("Definition batch_flush_resets : list string := [%s].", strings.Join(rs, "; "))
	o.p("Definition batch_tail_cond : string := %s.", coqStr(tailCond))
	o.p("Definition batch_tail_call : string := %s.", coqStr(tailCall))
	writeIfChanged(filepath.Join(outdir, "PerioGen.v"), o.b.String())
}

func init() { extraGenerators = append(extraGenerators, genPerio) }
