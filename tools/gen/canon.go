package main

// Canonical names for local identifiers, so that renaming a local variable, a parameter or the receiver does not
// change what a generator prints: inside `scope` every identifier that the parser resolved to a variable declared
// inside `scope` is renamed - the receiver to "recv", the others to v1, v2, ... in the order of their declarations.
// The AST is modified in place (every generator parses its own copy).

import (
	"fmt"
	"go/ast"
	"go/token"
	"sort"
)

func declPos(o *ast.Object) token.Pos {
	switch d := o.Decl.(type) {
	case *ast.Field:
		for _, n := range d.Names {
			if n.Name == o.Name {
				return n.Pos()
			}
		}
		return d.Pos()
	case *ast.AssignStmt:
		for _, l := range d.Lhs {
			if id, ok := l.(*ast.Ident); ok && id.Name == o.Name {
				return id.Pos()
			}
		}
		return d.Pos()
	case *ast.ValueSpec:
		for _, n := range d.Names {
			if n.Name == o.Name {
				return n.Pos()
			}
		}
		return d.Pos()
	case ast.Node:
		return d.Pos()
	}
	return token.NoPos
}

func canonLocals(scope ast.Node, recv *ast.FieldList) {
	objs := map[*ast.Object]token.Pos{}
	var recvObj *ast.Object
	if recv != nil && len(recv.List) == 1 && len(recv.List[0].Names) == 1 {
		recvObj = recv.List[0].Names[0].Obj
	}
	collect := func(n ast.Node) {
		ast.Inspect(n, func(m ast.Node) bool {
			id, ok := m.(*ast.Ident)
			if !ok || id.Name == "_" || id.Obj == nil || id.Obj.Kind != ast.Var || id.Obj == recvObj {
				return true
			}
			p := declPos(id.Obj)
			if p >= scope.Pos() && p <= scope.End() {
				objs[id.Obj] = p
			}
			return true
		})
	}
	collect(scope)
	type op struct {
		o *ast.Object
		p token.Pos
	}
	var l []op
	for o, p := range objs {
		l = append(l, op{o, p})
	}
	sort.Slice(l, func(i, j int) bool { return l[i].p < l[j].p })
	names := map[*ast.Object]string{}
	for i, x := range l {
		names[x.o] = fmt.Sprintf("v%d", i+1)
	}
	if recvObj != nil {
		names[recvObj] = "recv"
	}
	rename := func(n ast.Node) {
		ast.Inspect(n, func(m ast.Node) bool {
			if id, ok := m.(*ast.Ident); ok && id.Obj != nil {
				if nm, ok := names[id.Obj]; ok {
					id.Name = nm
				}
			}
			return true
		})
	}
	rename(scope)
	if recv != nil {
		rename(recv)
	}
}
