package main

// BuffDecGen.v (C13): the shape of buffnetlink.decodbuffer - the loop condition, one row per case of its type switch
// (attribute constants, the assignment it makes) and the statement that advances to the next attribute - with local
// names printed canonically.  model/BuffDec.v is the octet-level model of exactly this walk.

import (
	"go/ast"
	"path/filepath"
	"strings"
)

func init() { extraGenerators = append(extraGenerators, genBuffDec) }

func genBuffDec(root, outdir string) {
	const file = "internal/forwarder/buffnetlink/server.go"
	f := parse(root, file)
	o := &out{}
	o.b.WriteString(header)
	o.p("(* source: %s *)", file)
	fd := mustFunc(f, file, "", "decodbuffer")
	canonLocals(fd, fd.Recv)
	var loop *ast.ForStmt
	for _, st := range fd.Body.List {
		if fs, ok := st.(*ast.ForStmt); ok {
			if loop != nil {
				die("%s: decodbuffer: more than one loop", file)
			}
			loop = fs
		}
	}
	if loop == nil || loop.Cond == nil || loop.Init != nil || loop.Post != nil {
		die("%s: decodbuffer: expected one `for <cond> { ... }`", file)
	}
	o.p("Definition buffdec_loop_cond : string := %s.", coqStr(oneLine(loop.Cond)))
	var hdrStmts, after []string
	var cases []string
	seenSwitch := false
	for _, st := range loop.Body.List {
		if logOnly(st) {
			continue
		}
		if sw, ok := st.(*ast.SwitchStmt); ok {
			if seenSwitch {
				die("%s: decodbuffer: more than one switch in the loop", file)
			}
			seenSwitch = true
			hdrStmts = append(hdrStmts, "switch "+oneLine(sw.Tag))
			for _, c := range sw.Body.List {
				cc := c.(*ast.CaseClause)
				var consts []string
				for _, e := range cc.List {
					if s, ok := e.(*ast.SelectorExpr); ok {
						consts = append(consts, s.Sel.Name)
					} else {
						consts = append(consts, oneLine(e))
					}
				}
				if cc.List == nil {
					consts = []string{"default"}
				}
				cases = append(cases, "("+coqStrList(consts)+", "+coqStrList(stmtLines(cc.Body))+")")
			}
			continue
		}
		if seenSwitch {
			after = append(after, oneLine(st))
		} else {
			hdrStmts = append(hdrStmts, oneLine(st))
		}
	}
	if !seenSwitch {
		die("%s: decodbuffer: no type switch in the loop", file)
	}
	o.p("Definition buffdec_before_switch : list string := %s.", coqStrList(hdrStmts))
	o.p("Definition buffdec_cases : list (list string * list string) := [%s].", strings.Join(cases, "; "))
	o.p("Definition buffdec_after_switch : list string := %s.", coqStrList(after))
	last := fd.Body.List[len(fd.Body.List)-1]
	if _, ok := last.(*ast.ReturnStmt); !ok {
		die("%s: decodbuffer: does not end with a return", file)
	}
	o.p("Definition buffdec_return : string := %s.", coqStr(oneLine(last)))
	// ServeMsg: the notification is passed on only when a packet attribute was present
	sm := mustFunc(f, file, "Server", "ServeMsg")
	canonLocals(sm, sm.Recv)
	var guards []string
	ast.Inspect(sm.Body, func(n ast.Node) bool {
		ifs, ok := n.(*ast.IfStmt)
		if !ok {
			return true
		}
		if containsNode(ifs.Body, func(m ast.Node) bool {
			c, ok := m.(*ast.CompositeLit)
			return ok && strings.HasSuffix(oneLine(c.Type), "DLDReport")
		}) {
			guards = append(guards, oneLine(ifs.Cond))
		}
		return true
	})
	o.p("Definition buffdec_notify_guard : list string := %s.", coqStrList(guards))
	writeIfChanged(filepath.Join(outdir, "BuffDecGen.v"), o.b.String())
}
