package main

// RulesGen.v (C02/C03): (1) every integer constant of the go-gtp5gnl version pinned in /repo/go.mod
// (attribute types, commands, ...) as nl_<NAME>, plus PdrAddrForNetlink; (2) for every rule-translation
// function of internal/forwarder/gtp5g.go the *shape* of each `case ie.X:` clause: the gtp5gnl attribute
// types it writes, the nl.AttrXX encoders it uses and how an accessor error is handled (break / return),
// in source order.  The hand-written model (model/RulesPdrFar.v) is pinned to these shapes by
// `Example`s in proofs/RulesPdrFarProofs.v, so a re-typed attribute, a changed width or a changed error
// path breaks a proof obligation even before the correspondence run.

import (
	"bufio"
	"fmt"
	"go/ast"
	"go/parser"
	"go/token"
	"os"
	"os/exec"
	"path/filepath"
	"sort"
	"strings"
)

func init() { extraGenerators = append(extraGenerators, genRules) }

func gtp5gnlDir(root string) string {
	const mod = "github.com/free5gc/go-gtp5gnl"
	f, err := os.Open(filepath.Join(root, "go.mod"))
	if err != nil {
		die("go.mod: %v", err)
	}
	defer f.Close()
	ver, repl := "", ""
	sc := bufio.NewScanner(f)
	for sc.Scan() {
		fs := strings.Fields(sc.Text())
		for i, w := range fs {
			if w == mod && i+1 < len(fs) {
				if i+2 < len(fs) && fs[i+1] == "=>" {
					repl = strings.Join(fs[i+2:], "@")
				} else if fs[i+1] != "=>" && ver == "" {
					ver = fs[i+1]
				}
			}
		}
	}
	if repl != "" {
		if strings.HasPrefix(repl, ".") || strings.HasPrefix(repl, "/") {
			p := strings.Split(repl, "@")[0]
			if !filepath.IsAbs(p) {
				p = filepath.Join(root, p)
			}
			return p
		}
		ver = ""
		parts := strings.Split(repl, "@")
		if len(parts) == 2 {
			return filepath.Join(modCache(), parts[0]+"@"+parts[1])
		}
	}
	if ver == "" {
		die("go.mod: %s not required", mod)
	}
	return filepath.Join(modCache(), mod+"@"+ver)
}

func modCache() string {
	if v := os.Getenv("GOMODCACHE"); v != "" {
		return v
	}
	if out, err := exec.Command("go", "env", "GOMODCACHE").Output(); err == nil {
		if s := strings.TrimSpace(string(out)); s != "" {
			return s
		}
	}
	home, _ := os.UserHomeDir()
	return filepath.Join(home, "go", "pkg", "mod")
}

type clauseShape struct {
	ie      string
	attrs   []string
	encs    []string
	onerr   []string
	calls   []string // g.newXxx helpers called
	guarded bool     // contains `if v != nil`
}

// shapes of `switch <x>.Type { case ie.A: ... }` in a function body (first such switch)
func clauseShapes(fd *ast.FuncDecl, file string) []clauseShape {
	var sw *ast.SwitchStmt
	ast.Inspect(fd.Body, func(n ast.Node) bool {
		if sw != nil {
			return false
		}
		if s, ok := n.(*ast.SwitchStmt); ok {
			if se, ok := s.Tag.(*ast.SelectorExpr); ok && se.Sel.Name == "Type" {
				sw = s
				return false
			}
		}
		return true
	})
	if sw == nil {
		die("%s: %s: no switch on .Type", file, fd.Name.Name)
	}
	var out []clauseShape
	for _, st := range sw.Body.List {
		cc := st.(*ast.CaseClause)
		for _, e := range cc.List {
			se, ok := e.(*ast.SelectorExpr)
			if !ok {
				die("%s: %s: case label shape", file, fd.Name.Name)
			}
			c := clauseShape{ie: se.Sel.Name}
			for _, b := range cc.Body {
				ast.Inspect(b, func(n ast.Node) bool {
					switch x := n.(type) {
					case *ast.KeyValueExpr:
						if k, ok := x.Key.(*ast.Ident); ok && k.Name == "Type" {
							if v, ok := x.Value.(*ast.SelectorExpr); ok {
								c.attrs = append(c.attrs, v.Sel.Name)
							} else {
								die("%s: %s: attribute type is not a gtp5gnl constant", file, fd.Name.Name)
							}
						}
					case *ast.CallExpr:
						if s, ok := x.Fun.(*ast.SelectorExpr); ok {
							if p, ok := s.X.(*ast.Ident); ok {
								if p.Name == "nl" && strings.HasPrefix(s.Sel.Name, "Attr") {
									arg := ""
									if len(x.Args) == 1 {
										arg = exprText(x.Args[0])
									}
									c.encs = append(c.encs, s.Sel.Name+"("+arg+")")
								}
								if p.Name == "g" {
									c.calls = append(c.calls, s.Sel.Name)
								}
							}
						}
					case *ast.IfStmt:
						if be, ok := x.Cond.(*ast.BinaryExpr); ok && be.Op == token.NEQ {
							if id, ok := be.X.(*ast.Ident); ok && isNil(be.Y) {
								if strings.HasPrefix(id.Name, "err") {
									for _, s := range x.Body.List {
										switch s.(type) {
										case *ast.BranchStmt:
											c.onerr = append(c.onerr, "break")
										case *ast.ReturnStmt:
											c.onerr = append(c.onerr, "return")
										}
									}
								} else {
									c.guarded = true
								}
							}
						}
					}
					return true
				})
			}
			out = append(out, c)
		}
	}
	return out
}

func isNil(e ast.Expr) bool {
	id, ok := e.(*ast.Ident)
	return ok && id.Name == "nil"
}

func exprText(e ast.Expr) string {
	switch x := e.(type) {
	case *ast.Ident:
		return x.Name
	case *ast.SelectorExpr:
		return exprText(x.X) + "." + x.Sel.Name
	case *ast.BinaryExpr:
		return exprText(x.X) + x.Op.String() + exprText(x.Y)
	case *ast.BasicLit:
		return x.Value
	case *ast.CallExpr:
		var as []string
		for _, a := range x.Args {
			as = append(as, exprText(a))
		}
		return exprText(x.Fun) + "(" + strings.Join(as, ",") + ")"
	case *ast.ParenExpr:
		return "(" + exprText(x.X) + ")"
	}
	return "?"
}

func coqStrList(l []string) string {
	var q []string
	for _, s := range l {
		q = append(q, coqStr(s))
	}
	return "[" + strings.Join(q, "; ") + "]"
}

func genRules(root, outdir string) {
	o := &out{}
	o.b.WriteString(header)

	dir := gtp5gnlDir(root)
	ents, err := os.ReadDir(dir)
	if err != nil {
		die("go-gtp5gnl source not found at %s: %v", dir, err)
	}
	o.p("(* source: %s *)", strings.Replace(dir, modCache(), "$GOMODCACHE", 1))
	env := constEnv{}
	seen := map[string]bool{}
	var files []string
	for _, e := range ents {
		n := e.Name()
		if strings.HasSuffix(n, ".go") && !strings.HasSuffix(n, "_test.go") {
			files = append(files, n)
		}
	}
	sort.Strings(files)
	strs := map[string]string{}
	for _, n := range files {
		f, err := parser.ParseFile(fset, filepath.Join(dir, n), nil, 0)
		if err != nil {
			die("parse %s: %v", n, err)
		}
		fenv := constEnv{}
		for _, name := range collectConsts(f, fenv) {
			if seen[name] {
				continue
			}
			seen[name] = true
			env[name] = fenv[name]
			o.p("Definition nl_%s : N := %d.", name, fenv[name])
		}
		for k, v := range stringConsts(f) {
			strs[k] = v
		}
	}
	for _, must := range []string{"LINK", "PDR_ID", "PDR_SEID", "PDR_PDI", "PDI_SDF_FILTER", "FAR_SEID", "FAR_FORWARDING_PARAMETER",
		"OUTER_HEADER_CREATION_PORT", "CMD_ADD_PDR", "CMD_ADD_FAR", "SDF_FILTER_PERMIT", "SDF_FILTER_IN", "SDF_FILTER_OUT"} {
		if !seen[must] {
			die("go-gtp5gnl: constant %s not found", must)
		}
	}
	sp, ok := strs["PdrAddrForNetlink"]
	if !ok {
		die("go-gtp5gnl: PdrAddrForNetlink not found")
	}
	var bs []string
	for _, c := range []byte(sp) {
		bs = append(bs, fmt.Sprint(int(c)))
	}
	o.p("Definition nl_PdrAddrForNetlink : list N := [%s].", strings.Join(bs, "; "))
	o.p("")

	const file = "internal/forwarder/gtp5g.go"
	f := parse(root, file)
	o.p("(* source: %s - clause shapes: (ie type, attribute types written, encoders, error handling, helpers called, `if v != nil` guard) *)", file)
	for _, fn := range []string{"newPdi", "CreatePDR", "UpdatePDR", "newForwardingParameter", "CreateFAR", "UpdateFAR",
		"CreateQER", "UpdateQER", "CreateURR", "UpdateURR", "CreateBAR", "UpdateBAR"} {
		fd := mustFunc(f, file, "Gtp5g", fn)
		var items []string
		for _, c := range clauseShapes(fd, file) {
			g := "false"
			if c.guarded {
				g = "true"
			}
			items = append(items, fmt.Sprintf("(%s, %s, %s, %s, %s, %s)", coqStr(c.ie), coqStrList(c.attrs), coqStrList(c.encs),
				coqStrList(c.onerr), coqStrList(c.calls), g))
		}
		o.p("Definition shape_%s : list (string * list string * list string * list string * list string * bool) :=\n  [%s].",
			fn, strings.Join(items, ";\n   "))
	}
	// helpers without a type switch: flattened sequence of attribute types / encoders / conditions
	for _, fn := range []string{"newFlowDesc", "newSdfFilter"} {
		fd := mustFunc(f, file, "Gtp5g", fn)
		var attrs, encs, conds []string
		ast.Inspect(fd.Body, func(n ast.Node) bool {
			switch x := n.(type) {
			case *ast.KeyValueExpr:
				if k, ok := x.Key.(*ast.Ident); ok && k.Name == "Type" {
					attrs = append(attrs, exprText(x.Value))
				}
			case *ast.CallExpr:
				if s, ok := x.Fun.(*ast.SelectorExpr); ok {
					if p, ok := s.X.(*ast.Ident); ok && p.Name == "nl" && strings.HasPrefix(s.Sel.Name, "Attr") && len(x.Args) == 1 {
						encs = append(encs, s.Sel.Name+"("+exprText(x.Args[0])+")")
					}
				}
			case *ast.IfStmt:
				conds = append(conds, exprText(x.Cond))
			case *ast.AssignStmt:
				// x := uint16(29); swapSrcDst := (srcIf == ie.SrcInterfaceAccess); fd.Src, fd.Dst = fd.Dst, fd.Src
				if len(x.Lhs) == len(x.Rhs) && (x.Tok == token.DEFINE || len(x.Lhs) == 2) {
					var l, r []string
					for i := range x.Lhs {
						l = append(l, exprText(x.Lhs[i]))
						r = append(r, exprText(x.Rhs[i]))
					}
					if !(len(l) == 1 && strings.HasPrefix(r[0], "append(")) {
						conds = append(conds, strings.Join(l, ",")+x.Tok.String()+strings.Join(r, ","))
					}
				}
			}
			return true
		})
		o.p("Definition shape_%s : list string * list string * list string :=\n  (%s,\n   %s,\n   %s).", fn, coqStrList(attrs), coqStrList(encs), coqStrList(conds))
	}
	writeIfChanged(filepath.Join(outdir, "RulesGen.v"), o.b.String())
}
