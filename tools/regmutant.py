import json, os, shutil, sys
src, detected = sys.argv[1], sys.argv[2]
name = os.path.basename(src.rstrip('/'))
dst = '/verif/seeded/' + name
shutil.rmtree(dst, ignore_errors=True)
os.makedirs(dst)
shutil.copy(os.path.join(src, 'patch.diff'), dst)
shutil.copytree(os.path.join(src, 'demo'), os.path.join(dst, 'demo'))
m = json.load(open(os.path.join(src, 'meta.json')))
m['confirmed_by_me'] = {"how": "tools/mutant.py confirm: scratch copy of /repo, demo passes without the patch, patch applies, go build ./..., "
   "go test (failing set = the 3 kernel-dependent tests only), demo fails with the patch", "result": "all true"}
m['ran'] = "python3 tools/mutant.py check <dir> <PROP>  (quick tier, seed 1, scratch copy of /repo with the patch applied, VERIF_REPO)"
m['detected_by'] = json.loads(detected)
json.dump(m, open(os.path.join(dst, 'meta.json'), 'w'), indent=1)
print(name, 'registered')
