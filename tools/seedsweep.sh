#!/bin/bash
# runs every registered quick check with several seeds; prints one line per run
python3 check.py --setup > /dev/null 2>&1
for s in ${SEEDS:-2 3 4 5}; do
  for p in $(python3 -c "import json;print(' '.join(c['property_id'] for c in json.load(open('MANIFEST.json'))['checks']))"); do
    out=$(VERIF_SEED=$s python3 check.py $p 2>&1); rc=$?
    echo "seed=$s $p rc=$rc $(echo "$out" | grep -c VIOLATION) violations; $(echo "$out" | grep -m1 VIOLATION)"
  done
done
