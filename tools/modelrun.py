#!/usr/bin/env python3
"""Debug aid: modelrun.py <replay.json> [event index] - prints what the MODEL sends / calls at one event of a history
(the implementation's side is in the replay file)."""
import json, os, sys
sys.path.insert(0, os.path.dirname(os.path.dirname(os.path.abspath(__file__))))
from lib import common, pfcp

r = json.load(open(sys.argv[1]))
fd = r.get("first_disagreement") or r
case = fd["case"]
idx = int(sys.argv[2]) if len(sys.argv) > 2 else fd.get("event_index", len(case["events"]) - 1)
ctx = common.Ctx("C10", "quick", 1)
h = common.build_harness()
res, log = common.run_harness(ctx, h, "pfcp", [case], timeout=600)
prefix, impl = res["prefix"], res["cases"]
body = "Definition c : pcase := " + pfcp.c_case(case, impl[0], prefix) + """.
Fixpoint outs_at (w : world) (l : list (event * obs)) (i : nat) : option (list out) :=
  match l with
  | [] => None
  | (ev, o) :: r => match step w ev with
                    | Fault _ => None
                    | Ok (w1, outs) => match i with O => Some outs | S j => outs_at w1 r j end
                    end
  end.
Definition outs := Eval vm_compute in outs_at (init (pc_txseq0 c) (pc_maxretrans c)) (pc_hist c) %d.
""" % idx
out, clog = common.run_coq_cases(ctx, "modelrun", body, pfcp.REQUIRES, ["outs"])
print(out["outs"] if out else clog[-3000:])
print("IMPL:", json.dumps({k: impl[0][idx][k] for k in ("drv", "sends")})[:3000])
ctx.cleanup()
