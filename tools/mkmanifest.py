#!/usr/bin/env python3
"""Regenerates /verif/MANIFEST.json from the table below (kept valid at all times)."""
import json
import os

VERIF = os.path.dirname(os.path.dirname(os.path.abspath(__file__)))
ALL = [json.loads(l)["id"] for l in open(os.path.join(VERIF, "properties.jsonl"))]

COMMON_NOTE = ("Trusted: Coq 8.16.1 kernel + vm_compute; tools/gen translator (regenerates coq/gen/*.v from /repo each run); "
               "the correspondence harness (scratch copy of /repo + harness/overlay, -tags verif) that runs the real code and "
               "the Coq model's executable definitions on the same cases; Go toolchain and third-party libraries. "
               "No axioms declared; Print Assumptions output per theorem is in the evidence file. ")

import importlib
import sys
sys.path.insert(0, VERIF)

# every checks/cXX.py carries its own MANIFEST dict (text, note, technique, design[, partial])
DISABLED = {}
CHECKS = {}
for pid in ALL:
    if pid in DISABLED:
        continue
    if os.path.exists(os.path.join(VERIF, "checks", pid.lower() + ".py")):
        mod = importlib.import_module("checks." + pid.lower())
        if getattr(mod, "MANIFEST", None):
            c = dict(mod.MANIFEST)
            c["note"] = COMMON_NOTE + c.get("note", "")
            CHECKS[pid] = c

NA_REASON = "check not built yet (work in progress; see DESIGN.md section 4)"


def main():
    m = {
        "version": 1,
        "setup_cmd": "python3 check.py --setup",
        "hooks": {
            "guard": "verif",
            "enable": "checks rsync /repo's working tree to a scratch directory under /var/tmp, copy harness/overlay (add-only files, "
                      "all '//go:build verif') into it and build ./cmd/vharness with -tags verif; nothing is committed to /repo",
            "baseline_off_cmd": "cd /repo && GOFLAGS=-mod=mod GOPROXY=off GOSUMDB=off go test -vet=off -count=1 ./...",
            "source_commits": [],
            "add_only": True,
        },
        "engines": [{"name": "coq-goupf", "path": "coq/", "serves_properties": sorted(CHECKS),
                     "kind_free_text": "Coq 8.16 development: generated tables (coq/gen), executable model, proofs, property theorems; "
                                       "cases evaluated by vm_compute inside coqc"}],
        "checks": [],
        "not_applicable": [],
        "notes": "Every check: python3 check.py <ID> [--tier quick|thorough]; see DESIGN.md.",
    }
    for pid in ALL:
        if pid in CHECKS:
            c = CHECKS[pid]
            m["checks"].append({
                "property_id": pid,
                "quick_cmd": "python3 check.py %s --tier quick" % pid,
                "thorough_cmd": "python3 check.py %s --tier thorough" % pid,
                "evidence_file": "evidence/%s.json" % pid,
                "replay_cmd_template": "python3 check.py %s --replay {path}" % pid,
                "engine": "coq-goupf",
                "level_claimed": {"category": "proof", "text": c["text"], "design_ref": c["design"]},
                "level_note": c["note"],
                "technique": c["technique"],
            })
        else:
            m["not_applicable"].append({"property_id": pid, "reason": DISABLED.get(pid, NA_REASON)})
    json.dump(m, open(os.path.join(VERIF, "MANIFEST.json"), "w"), indent=1)


if __name__ == "__main__":
    main()
