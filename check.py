#!/usr/bin/env python3
"""Entry point of every check:  check.py <ID> [--tier quick|thorough] [--replay <path>]
                                check.py --setup
Exit 0: property held on everything explored.  Exit 1 + 'VIOLATION property=<id> replay=<path>'.
Exit 2: /repo does not compile (no verdict)."""
import argparse
import importlib
import os
import sys

sys.path.insert(0, os.path.dirname(os.path.abspath(__file__)))
from lib import common  # noqa: E402


def setup():
    common.ensure_gen_tool()
    ok, log = common.run_gen()
    if not ok:
        print("gen failed:\n" + log)
    ok, log = common.coq_make()
    print(log[-3000:])
    try:
        common.build_harness()
    except Exception as e:  # noqa: BLE001
        print("harness build: %s" % e)
    print("setup done (coq build %s)" % ("ok" if ok else "INCOMPLETE"))
    return 0


def main():
    ap = argparse.ArgumentParser()
    ap.add_argument("prop", nargs="?")
    ap.add_argument("--setup", action="store_true")
    ap.add_argument("--tier", default=os.environ.get("VERIF_TIER", "quick"))
    ap.add_argument("--replay")
    a = ap.parse_args()
    if a.setup:
        sys.exit(setup())
    if not a.prop:
        ap.error("property id required")
    seed = int(os.environ.get("VERIF_SEED", "1"))
    mod = importlib.import_module("checks." + a.prop.lower())
    ctx = common.Ctx(a.prop, a.tier if a.tier in ("quick", "thorough") else "quick", seed)
    try:
        rc = mod.run(ctx, replay=a.replay)
    except SystemExit:
        raise
    except BaseException:
        ctx.cleanup()
        raise
    sys.exit(rc)


if __name__ == "__main__":
    main()
