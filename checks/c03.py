"""C03 - QER, URR and BAR reach the kernel exactly as the SMF specified them (+ periodic registration)."""
import itertools
import json
import random
from concurrent.futures import ThreadPoolExecutor

from lib import common
from lib.common import clist
from checks.c02 import cb, cbytes, coq_attr, hx, B8, B16, B32, SEIDS, LINK

MANIFEST = dict(
    text="Kernel-checked decoder-of-encoder theorems for Create/Update QER, Create/Update URR and Create/Update BAR: for ALL 64-bit "
         "SEIDs and ALL well-formed grouped IEs a strict reference decoder of the gtp5g netlink format applied to the model of "
         "gtp5g.go:764-1459 (+ go-gtp5gnl's envelopes) returns the order-free specification of the IE: ids, SEID, gate status, "
         "40-bit UL/DL MBR and GBR (hi32*256+lo8 = value proved for every value < 2^40), QFI, RQI, PPI, correlation id; measurement "
         "method and information, reporting-trigger bits, volume threshold/quota flags and the volumes the flags select; BAR "
         "suggested packet count; invariant under permutation of child IEs. Periodic registration: proved for Create URR (registered "
         "with period p iff PERIO is in the triggers, and then p is the IE's period; Remove URR unregisters). One part of the property "
         "is REFUTED with a witness and proved only under the excluding hypothesis: the registration after Update URR (never touched; "
         "recorded finding). The BAR delay defect found by this check was repaired in go-upf 08f4372 and the model follows the "
         "repaired clause. The model is tied to the source "
         "on every run by regenerated constants/clause shapes (T-gen) and by running the REAL Gtp5g methods and the REAL periodic "
         "server over SimKernel on generated IEs and histories (requests compared inside Coq at tree and octet level; query sets of "
         "injected ticks compared with the model's registration table; reference decoder and registration spec applied as monitors).",
    note="Modelled, not verified: go-pfcp accessors, go-nl serialisation, the periodic server's ticker goroutines (ticks are injected "
         "through its event channel). Not in the property's list and decoded leniently: URR_MEASUREMENT_PERIOD (Duration squeezed into "
         "u32, TODO in the code); URR_MEASUREMENT_INFO is sent as 8 octets and read as 1 (equal on little-endian hosts only). "
         "Finding (known_findings.txt): perio_update.",
    technique="Coq proof (decoder-of-encoder, order-freeness, registration iff PERIO) + refutation witnesses + generated tables/clauses + "
              "differential run of the real driver and periodic server over SimKernel vs vm_compute model + monitors",
    design="4/C03",
    partial="periodic registration after Update URR is refuted (C03_perio_update_refuted); the registration theorem is proved for "
            "Create/Remove URR only (C03_perio_create_partial, C03_perio_create_remove)")

REQUIRES = ["Bytes", "Nlattr", "PfcpIe3", "RulesGen", "RulesSpec", "RulesSpec3", "RulesPdrFar", "RulesQerUrrBar"]
OPS = ["create_qer", "update_qer", "create_urr", "update_urr", "remove_urr", "create_bar", "update_bar"]
ADD_CMD = {"create_qer": 3, "update_qer": 3, "create_urr": 10, "update_urr": 10, "remove_urr": 12, "create_bar": 11, "update_bar": 11}
CHUNK = 300
B40 = [0, 1, 255, 256, 2**32 - 1, 2**32, 2**40 - 2, 2**40 - 1]
B64 = [0, 1, 2**32, 2**63, 2**64 - 2, 2**64 - 1]
PERIODS = [1, 2, 60, 3600, 86399, 2**32 - 1]


class Gen:
    def __init__(self, rnd):
        self.r = rnd

    def pick(self, bounds, bits):
        return self.r.choice(bounds) if self.r.random() < 0.55 else self.r.randrange(2 ** bits)

    def seid(self):
        return self.r.choice(SEIDS) if self.r.random() < 0.6 else self.r.randrange(2 ** 64)

    def qer(self, op, wf=True):
        ies = [{"k": "qerid", "v": self.pick(B32, 32)}]
        if self.r.random() < 0.8:
            ies.append({"k": "gate", "v": self.pick([0, 1, 4, 5, 10, 15, 255], 8)})
        if self.r.random() < 0.8:
            ies.append({"k": "mbr", "ul": self.pick(B40, 40), "dl": self.pick(B40, 40)})
        if self.r.random() < 0.6:
            ies.append({"k": "gbr", "ul": self.pick(B40, 40), "dl": self.pick(B40, 40)})
        if self.r.random() < 0.7:
            ies.append({"k": "qfi", "v": self.pick([0, 1, 9, 63, 64, 255], 8)})
        if self.r.random() < 0.4:
            ies.append({"k": "rqi", "v": self.pick([0, 1, 255], 8)})
        if self.r.random() < 0.4:
            ies.append({"k": "ppi", "v": self.pick([0, 1, 7, 8, 255], 8)})
        if self.r.random() < 0.4:
            ies.append({"k": "corrid", "v": self.pick(B32, 32)})
        if self.r.random() < 0.15:
            ies.append({"k": "raw", "type": 30, "hex": "00"})         # Transport Level Marking: no case in the switch
        if not wf:
            m = self.r.randrange(5)
            if m == 0:
                ies = [x for x in ies if x["k"] != "qerid"]
            elif m == 1:
                ies.append({"k": self.r.choice(["qerid", "corrid"]), "v": self.r.randrange(2 ** 32)})
            elif m == 2:
                ies.append({"k": "mbr", "ul": 7, "dl": 8})
            elif m == 3:
                ies.append({"k": "raw", "type": self.r.choice([109, 25, 26, 27, 28, 124, 123, 158]), "hex": ""})
            elif m == 4:
                ies.append({"k": "gate", "v": 3})
        self.r.shuffle(ies)
        return {"op": op, "ies": ies}

    def trig(self, perio=None):
        n = self.r.choice([2, 2, 3])
        c = self.r.random()
        if c < 0.4:
            v = 1 << self.r.randrange(8 * n)
        elif c < 0.6:
            v = self.r.choice([0, 2 ** (8 * n) - 1])
        else:
            v = self.r.randrange(2 ** (8 * n))
        if perio is True:
            v |= 1
        elif perio is False:
            v &= ~1
        return {"k": "trig", "hex": hx(v.to_bytes(n, "little"))}

    def vol(self, k):
        fl = self.r.choice([1, 2, 3, 4, 5, 6, 7]) | (self.r.choice([0, 0, 0, 8, 0xf8]))
        return {"k": k, "flags": fl, "tot": self.pick(B64, 64), "ul": self.pick(B64, 64), "dl": self.pick(B64, 64)}

    def urr(self, op, wf=True, perio=None, period=None, urrid=None, with_trig=True):
        ies = [{"k": "urrid", "v": self.pick(B32, 32) if urrid is None else urrid}]
        if self.r.random() < 0.8:
            ies.append({"k": "method", "v": self.pick([0, 1, 2, 4, 7, 255], 8)})
        t = None
        if with_trig and (self.r.random() < 0.85 or perio is not None):
            t = self.trig(perio)
            ies.append(t)
        has_perio = t is not None and bytes.fromhex(t["hex"])[0] & 1
        if period is not None or has_perio or (with_trig and self.r.random() < 0.4):
            ies.append({"k": "period", "v": period if period is not None else self.r.choice(PERIODS)})
        if self.r.random() < 0.5:
            ies.append({"k": "info", "v": self.pick(B8, 8)})
        if self.r.random() < 0.6:
            ies.append(self.vol("volthr"))
        if self.r.random() < 0.5:
            ies.append(self.vol("volquota"))
        if self.r.random() < 0.15:
            ies.append({"k": "raw", "type": 32, "hex": "00000001"})   # Time Threshold: no case in the switch
        if not wf:
            m = self.r.randrange(8)
            if m == 0:
                ies = [x for x in ies if x["k"] != "urrid"]
            elif m == 1:
                ies.append({"k": "urrid", "v": self.r.randrange(2 ** 32)})
            elif m == 2:
                ies.append({"k": "raw", "type": self.r.choice([81, 62, 37, 64, 100, 31, 73]), "hex": self.r.choice(["", "00"])})
            elif m == 3:
                ies.append({"k": "trig", "hex": hx(self.r.randrange(256) for _ in range(self.r.choice([4, 5])))})
            elif m == 4:
                ies.append({"k": "period", "v": 0})
            elif m == 5:
                ies = [x for x in ies if x["k"] != "period"]
            elif m == 6:
                ies.append(self.vol("volthr"))
            elif m == 7:
                ies.append({"k": "volquota", "flags": 0, "tot": 1, "ul": 2, "dl": 3})
        self.r.shuffle(ies)
        return {"op": op, "ies": ies}

    def bar(self, op, wf=True, delay=None):
        ies = [{"k": "barid", "v": self.pick(B8, 8)}]
        if delay is not None or self.r.random() < 0.7:
            ies.append({"k": "delay", "v": self.pick([0, 1, 2, 127, 128, 255], 8) if delay is None else delay})
        if self.r.random() < 0.7:
            ies.append({"k": "count", "v": self.pick(B8, 8)})
        if not wf:
            m = self.r.randrange(4)
            if m == 0:
                ies = [x for x in ies if x["k"] != "barid"]
            elif m == 1:
                ies.append({"k": "barid", "v": 9})
            elif m == 2:
                ies.append({"k": "raw", "type": self.r.choice([88, 46, 140]), "hex": ""})
            elif m == 3:
                ies.append({"k": "count", "v": 1})
        self.r.shuffle(ies)
        return {"op": op, "ies": ies}


def gen_cases(ctx):
    rnd = random.Random(ctx.seed)
    g = Gen(rnd)
    thorough = ctx.tier != "quick"
    cases = []

    def single(step, wf, full=None, ticks=()):
        step = dict(step, want_wf=wf, full=full)
        cases.append({"seid": g.seid(), "steps": [step], "ticks": list(ticks), "perio_mon": False})

    # sweeps: every bit-rate boundary in each of the four positions; all flag subsets; all trigger bits; all delays
    for v in B40:
        for pos in range(4):
            r = [5, 6, 7, 8]
            r[pos] = v
            single({"op": "create_qer", "ies": [{"k": "qerid", "v": 1}, {"k": "mbr", "ul": r[0], "dl": r[1]}, {"k": "gbr", "ul": r[2], "dl": r[3]}]}, True)
    for fl in range(8):
        for k in ("volthr", "volquota"):
            ies = [{"k": "urrid", "v": 1}, {"k": "method", "v": 2}]
            if fl:
                ies.append({"k": k, "flags": fl, "tot": 2**64 - 1, "ul": 2**63, "dl": 1})
            single({"op": "update_urr", "ies": ies}, True)
    for b in range(24):
        v = 1 << b
        n = 3 if b >= 16 else rnd.choice([2, 3])
        ies = [{"k": "urrid", "v": 2}, {"k": "trig", "hex": hx(v.to_bytes(n, "little"))}]
        if b == 0:
            ies.append({"k": "period", "v": 10})
        single({"op": "create_urr", "ies": ies}, True, ticks=[10] if b == 0 else [])
    for d in range(256) if thorough else [0, 1, 2, 3, 127, 128, 129, 254, 255]:
        st = {"op": rnd.choice(["create_bar", "update_bar"]), "ies": [{"k": "barid", "v": 1}, {"k": "delay", "v": d}, {"k": "count", "v": d}]}
        single(st, True)
    for s in SEIDS:
        single({"op": "create_qer", "ies": [{"k": "qerid", "v": 1}, {"k": "qfi", "v": 9}]}, True)
        single({"op": "update_urr", "ies": [{"k": "urrid", "v": 1}, {"k": "info", "v": 1}]}, True)
        single({"op": "create_bar", "ies": [{"k": "barid", "v": 1}, {"k": "count", "v": 3}]}, True)
        for c in cases[-3:]:
            c["seid"] = s
    # all child orders of samples
    for rep in range(2 if thorough else 1):
        q = [{"k": "qerid", "v": g.pick(B32, 32)}, {"k": "gate", "v": 5}, {"k": "mbr", "ul": g.pick(B40, 40), "dl": g.pick(B40, 40)},
             {"k": "qfi", "v": 9}, {"k": "corrid", "v": g.pick(B32, 32)}]
        for p in itertools.permutations(q):
            single({"op": rnd.choice(["create_qer", "update_qer"]), "ies": list(p)}, True)
        u = [{"k": "urrid", "v": g.pick(B32, 32)}, {"k": "method", "v": 2}, {"k": "trig", "hex": "0300"}, {"k": "period", "v": 60}, g.vol("volthr")]
        for p in itertools.permutations(u):
            single({"op": "create_urr", "ies": list(p)}, True, ticks=[60])
        b = [{"k": "barid", "v": g.pick(B8, 8)}, {"k": "delay", "v": 0}, {"k": "count", "v": g.pick(B8, 8)}]
        for p in itertools.permutations(b):
            single({"op": rnd.choice(["create_bar", "update_bar"]), "ies": list(p)}, True)
    # random single operations
    n = 20000 if thorough else 1600
    for i in range(n):
        op = ["create_qer", "update_qer", "create_urr", "update_urr", "create_bar", "update_bar"][i % 6]
        wf = rnd.random() < 0.75
        if op.endswith("qer"):
            single(g.qer(op, wf), wf)
        elif op.endswith("urr"):
            st = g.urr(op, wf)
            per = [x["v"] for x in st["ies"] if x["k"] == "period"]
            single(st, wf, ticks=per[:1])
        else:
            single(g.bar(op, wf), wf)
    # histories on the periodic registration (all steps well-formed)
    def hist(steps, ticks, sig=None):
        for st in steps:
            st.setdefault("want_wf", st["op"] != "remove_urr")
            st.setdefault("full", None)
        cases.append({"seid": g.seid(), "steps": steps, "ticks": ticks, "perio_mon": True, "perio_sig": sig})
    for rep in range(60 if thorough else 8):
        P, P2 = rnd.sample(PERIODS, 2)
        u = g.pick(B32, 32)
        hist([g.urr("create_urr", True, perio=True, period=P, urrid=u)], [P, P2])
        hist([g.urr("create_urr", True, perio=False, period=rnd.choice([None, P]), urrid=u)], [P])
        hist([g.urr("create_urr", True, perio=True, period=P, urrid=u), {"op": "remove_urr", "v": u, "ies": []}], [P])
        hist([g.urr("create_urr", True, perio=True, period=P, urrid=u), g.urr("update_urr", True, urrid=u, with_trig=False)], [P])
        hist([g.urr("create_urr", True, perio=True, period=P, urrid=u), g.urr("create_urr", True, perio=False, urrid=u + 1 if u < 2**32 - 1 else 0)], [P])
        # Update URR changing the periodic trigger / the period: the registration must follow
        hist([g.urr("create_urr", True, perio=True, period=P, urrid=u), g.urr("update_urr", True, perio=False, urrid=u)], [P], sig="perio_update")
        hist([g.urr("create_urr", True, perio=False, urrid=u), g.urr("update_urr", True, perio=True, period=P, urrid=u)], [P], sig="perio_update")
        hist([g.urr("create_urr", True, perio=True, period=P, urrid=u), g.urr("update_urr", True, perio=True, period=P2, urrid=u)], [P, P2], sig="perio_update")
    return cases


# ---------------------------------------------------------------- Coq terms

def coq_qie(a):
    k = a["k"]
    simple = {"qerid": "QQerId", "corrid": "QCorrId", "gate": "QGate", "qfi": "QQfi", "rqi": "QRqi", "ppi": "QPpi", "urrid": "QUrrId",
              "method": "QMethod", "info": "QInfo", "barid": "QBarId", "count": "QCount"}
    if k in simple:
        return "(%s %d)" % (simple[k], a["v"])
    if k in ("mbr", "gbr"):
        return "(%s %d %d)" % ("QMbr" if k == "mbr" else "QGbr", a["ul"], a["dl"])
    if k == "trig":
        return "(QTriggers %s)" % cbytes(a["b"])
    if k in ("period", "delay"):
        if a["ns"] < 0:
            raise ValueError("negative duration")
        return "(%s %d)" % ("QPeriod" if k == "period" else "QDelay", a["ns"])
    if k in ("volthr", "volquota"):
        return "(%s %d %d %d %d)" % ("QVolThr" if k == "volthr" else "QVolQuota", a["flags"], a["tot"], a["ul"], a["dl"])
    if k == "bad":
        return "(QBad %d)" % a["type"]
    if k == "other":
        return "(QOther %d)" % a["type"]
    # IE kinds of the PDR/FAR vocabulary have no case in these switches
    return "(QOther 0)"


def main_request(step, r):
    adds = [q for q in r["reqs"] if q["cmd"] == ADD_CMD[step["op"]] and q["conn"] == "main"]
    return (adds[-1] if adds else None), len(adds)


def coq_step(step, r):
    q, _ = main_request(step, r)
    impl = "None" if q is None else "(Some (%d, %d, %s))" % (q["cmd"], q["flags"], clist([coq_attr(a) for a in q["attrs"]]))
    raw = "[]" if q is None else cbytes(q["raw"])
    ies = clist([coq_qie(a) for a in (r["abs"] or [])]) if step["op"] != "remove_urr" else "[]"
    return "(%d, %s, %d, %s, %s, %s, %s)" % (OPS.index(step["op"]), ies, step.get("v", 0), impl, cb(step.get("want_wf", False)),
                                             cb(bool(step.get("full"))), raw)


def coq_case(c, r):
    steps = clist([coq_step(s, o) for s, o in zip(c["steps"], r["steps"])])
    ticks = clist(["(%d, %s)" % (t["secs"], clist(["(%d, %d)" % (o["seid"], o["id"]) for o in t["oids"]])) for t in r["ticks"]])
    return "(%d, %s, %s, %s)" % (c["seid"], steps, ticks, cb(c.get("perio_mon", False)))


PRELUDE = r"""
Definition link : N := %d.
(* op code, abstract IEs, urr id (remove), implementation's request, generated as wf?, full-strength candidate?, octets *)
Definition tstep : Type := (N * list qie * N * option (N * N * list attr) * bool * bool * list N)%%type.
(* SEID, steps, observed query sets per injected tick (seconds, pairs), registration spec monitored? *)
Definition tcase : Type := (N * list tstep * list (N * list (N * N)) * bool)%%type.

Definition model_of (seid : N) (s : tstep) : result (list pcall * request) :=
  let '(op, ies, v, _, _, _, _) := s in
  let lift (r : result request) := match r with Ok q => Ok ([], q) | Err => Err end in
  if op =? 0 then lift (create_qer link seid ies) else if op =? 1 then lift (update_qer link seid ies)
  else if op =? 2 then create_urr link seid ies else if op =? 3 then update_urr link seid ies
  else if op =? 4 then Ok (remove_urr link seid v)
  else if op =? 5 then lift (create_bar link seid ies) else lift (update_bar link seid ies).

Definition step_agrees (seid : N) (s : tstep) : bool :=
  let '(_, _, _, impl, _, _, raw) := s in
  match model_of seid s, impl with
  | Ok (_, (cmd, fl, _, attrs)), Some (cmd', fl', attrs') =>
      (cmd =? cmd') && (fl =? fl') && attrs_eqb (map norm attrs) attrs'
      && list_N_eqb (ser_list attrs) raw
      && match parse (S (List.length raw)) raw with Some t => attrs_eqb t attrs' | None => false end
  | Err, None => true
  | _, _ => false
  end.
Definition step_wf (s : tstep) : bool :=
  let '(op, ies, _, _, _, _, _) := s in
  if op <? 2 then wf_qer ies else if op =? 2 then wf_urr true ies else if op =? 3 then wf_urr false ies
  else if op =? 4 then true else wf_bar ies.
Definition step_req_ok (seid : N) (s : tstep) : bool :=
  let '(op, ies, _, impl, _, _, _) := s in
  match impl with
  | Some (cmd, fl, attrs) =>
      if op <? 2 then qer_req_ok (op =? 0) link seid ies cmd fl attrs
      else if op <? 4 then urr_req_ok (op =? 2) link seid ies cmd fl attrs
      else if op =? 4 then true
      else bar_req_ok (op =? 5) link seid ies cmd fl attrs
  | None => false
  end.
Definition step_monitor (seid : N) (s : tstep) : bool := if step_wf s then step_req_ok seid s else true.
Definition step_full (seid : N) (s : tstep) : bool := let '(_, _, _, _, _, full, _) := s in if full then step_req_ok seid s else true.
Definition step_wanted (s : tstep) : bool := let '(_, _, _, _, w, _, _) := s in if w then step_wf s else true.

(* registration table of the model after the history, and of the specification *)
Definition model_reg (seid : N) (steps : list tstep) : preg :=
  fold_left (fun r s => match model_of seid s with Ok (calls, _) => fold_left perio_apply calls r | Err => r end) steps [].
Definition uop_of (s : tstep) : uop :=
  let '(op, ies, v, _, _, _, _) := s in if op =? 2 then UCreate ies else if op =? 3 then UUpdate ies else URemove v.
Definition is_urr_step (s : tstep) : bool := let '(op, _, _, _, _, _, _) := s in (2 <=? op) && (op <=? 4).
Definition spec_reg (steps : list tstep) : sreg := fold_left spec_reg_step (map uop_of (filter is_urr_step steps)) [].

Definition case_agrees (c : tcase) : bool :=
  let '(seid, steps, ticks, _) := c in
  forallb (step_agrees seid) steps
  && forallb (fun t => same_set (query_set (fst t * 1000000000) (model_reg seid steps)) (snd t)) ticks.
Definition case_monitor (c : tcase) : bool :=
  let '(seid, steps, _, _) := c in forallb (step_monitor seid) steps.
Definition case_full (c : tcase) : bool :=
  let '(seid, steps, _, _) := c in forallb (step_full seid) steps.
(* the registration half of the property, applied to the periodic server's observed query sets *)
Definition case_perio (c : tcase) : bool :=
  let '(seid, steps, ticks, mon) := c in
  if mon && forallb step_wf steps
  then forallb (fun t => same_set (spec_query_set seid (fst t * 1000000000) (spec_reg steps)) (snd t)) ticks
  else true.
Definition case_wanted (c : tcase) : bool := let '(_, steps, _, _) := c in forallb step_wanted steps.
Definition case_nwf (c : tcase) : N := let '(_, steps, _, _) := c in N.of_nat (List.length (filter step_wf steps)).
Fixpoint bad_idx {X} (f : X -> bool) (l : list X) (i : N) : list N :=
  match l with [] => [] | x :: r => (if f x then [] else [i]) ++ bad_idx f r (i + 1) end.
""" % LINK


def evaluate_chunk(ctx, name, items):
    body = PRELUDE + "Definition cases : list tcase := \n" + clist(items) + ".\n"
    for nm, f in (("mism", "case_agrees"), ("monf", "case_monitor"), ("fullf", "case_full"), ("periof", "case_perio"), ("wfdiff", "case_wanted")):
        body += "Definition %s := Eval vm_compute in bad_idx %s cases 0.\n" % (nm, f)
    body += "Definition nwf := Eval vm_compute in fold_left N.add (map case_nwf cases) 0.\n"
    res, log = common.run_coq_cases(ctx, name, body, REQUIRES, ["mism", "monf", "fullf", "periof", "wfdiff", "nwf"])
    if res is None:
        return None, log
    return {k: common.parse_N_list(v) for k, v in res.items()}, log


def evaluate(ctx, idx, cases, impl):
    chunks = [idx[i:i + CHUNK] for i in range(0, len(idx), CHUNK)]

    def one(k):
        return evaluate_chunk(ctx, "cases_c03_%d" % k, [coq_case(cases[i], impl[i]) for i in chunks[k]])
    with ThreadPoolExecutor(max_workers=12) as ex:
        results = list(ex.map(one, range(len(chunks))))
    tot = {"mism": [], "monf": [], "fullf": [], "periof": [], "wfdiff": [], "nwf": 0}
    for ch, (res, log) in zip(chunks, results):
        if res is None:
            return None, log
        for k in ("mism", "monf", "fullf", "periof", "wfdiff"):
            tot[k] += [ch[j] for j in res[k]]
        tot["nwf"] += res["nwf"][0] if res["nwf"] else 0
    return tot, ""


def strip(c):
    return {"seid": c["seid"], "steps": [{k: v for k, v in s.items() if k in ("op", "ies", "v")} for s in c["steps"]], "ticks": c["ticks"]}


def libdec_ok(step, seid, r):
    """go-gtp5gnl's own decoder on the implementation's octets, for steps generated as well-formed (Python rendering of the IE)"""
    d = r.get("dec")
    if step["op"] == "remove_urr":
        return True, ""
    if not isinstance(d, dict):
        return False, "decoder said %r" % (d,)
    first = lambda k: next((x for x in step["ies"] if x["k"] == k), None)
    val = lambda k: (first(k) or {}).get("v")
    if d.get("seid") != seid:
        return False, "seid: decoded %r" % d.get("seid")
    if step["op"].endswith("qer"):
        w = {"id": val("qerid"), "gate": val("gate") or 0, "corr": val("corrid") or 0, "rqi": val("rqi") or 0, "qfi": val("qfi") or 0,
             "ppi": (val("ppi") or 0) & 7,
             "mbr_ul": (first("mbr") or {}).get("ul", 0), "mbr_dl": (first("mbr") or {}).get("dl", 0),
             "gbr_ul": (first("gbr") or {}).get("ul", 0), "gbr_dl": (first("gbr") or {}).get("dl", 0)}
    elif step["op"].endswith("urr"):
        t = first("trig")
        w = {"id": val("urrid"), "method": val("method") or 0, "info": val("info"),
             "trigger": int.from_bytes(bytes.fromhex(t["hex"]), "little") if t else 0}
    else:
        w = {"id": val("barid"), "count": val("count"), "delay": val("delay")}
    for k, v in w.items():
        if d.get(k) != v:
            return False, "%s: decoded %r, IE has %r" % (k, d.get(k), v)
    return True, ""


def run(ctx, replay=None):
    info = common.prepare(ctx)
    obl = info["obl"]
    broken = []
    if not info["gen_ok"]:
        broken.append("T-gen translator no longer recognises the source: " + info["gen_log"][-500:])
    if not obl["compiled"]:
        broken.append("props/C03.v (theorems %s) no longer compiles" % ", ".join(obl["theorems"]))
    if info["forbidden"]:
        broken.append("forbidden constructs: %s" % info["forbidden"])
    cases = gen_cases(ctx)
    if replay:
        cases = json.load(open(replay))["cases"]
        for c in cases:
            c.setdefault("perio_mon", len(c["steps"]) > 0 and all(s["op"].endswith("urr") for s in c["steps"]) and bool(c["ticks"]))
            for s in c["steps"]:
                s.setdefault("full", None)
    coverage = {"obligations": len(obl["theorems"]), "discharged": len(obl["theorems"]) if obl["compiled"] else 0,
                "checker_cmd": "make -f Makefile.coq (coqc 8.16.1, full .vo build) + coqc props/C03.v (Print Assumptions)",
                "trusted_base": common.TRUSTED_BASE + ["SimKernel (harness/overlay/internal/forwarder/verif_sim.go) and perio.VerifTick (tick injection)"],
                "axioms": obl["axioms"], "theorems": obl["theorems"], "evaluations": 0, "distinct_nontrivial": 0, "exhaustive": False}
    if info["tie_broken"]:
        ctx.violation({"broken": "correspondence harness no longer builds against the tree", "log": info["tie_broken"]}, no_input=True)
        return ctx.finish(coverage, [])
    impl, log = common.run_harness(ctx, info["harness"], "gtp5g3", [strip(c) for c in cases])
    if impl is None:
        ctx.violation({"broken": "harness run failed", "log": log[-2000:]}, no_input=True)
        return ctx.finish(coverage, [])

    viol, idx, unbuildable = [], [], 0
    for i, (c, r) in enumerate(zip(cases, impl)):
        if r["err"]:
            viol.append((i, "history could not be run: " + r["err"]))
            continue
        ok = True
        for s, o in zip(c["steps"], r["steps"]):
            if o["err"].startswith("panic:"):
                if "badcase: constructing the IE" in o["err"] and not s.get("want_wf"):
                    unbuildable += 1
                elif "badcase" in o["err"]:
                    raise RuntimeError("generator produced a case the harness cannot build: %r %s" % (s, o["err"]))
                else:
                    viol.append((i, "the driver panicked: " + o["err"]))
                ok = False
                break
            q, nadd = main_request(s, o)
            if nadd > 1:
                viol.append((i, "more than one request for one rule operation"))
                ok = False
                break
            if o["top_err"] or o.get("abs_panic"):
                if q is not None or not o["err"]:
                    viol.append((i, "unparsable grouped IE reached the kernel"))
                ok = False
                break
            if (q is None) != bool(o["err"]):
                viol.append((i, "driver result %r but %s request was sent" % (o["err"], "no" if q is None else "a")))
                ok = False
                break
        if ok:
            idx.append(i)
    tot, clog = evaluate(ctx, idx, cases, impl)
    if tot is None:
        broken.append("model/RulesQerUrrBar.v, monitor/RulesSpec3.v or the cases file no longer compiles: " + clog[-1500:])
        tot = {"mism": [], "monf": [], "fullf": [], "periof": [], "wfdiff": [], "nwf": 0}
    if tot["wfdiff"]:
        i = tot["wfdiff"][0]
        raise RuntimeError("a step generated as well-formed is rejected by wf_qer/wf_urr/wf_bar: case %d: %r" % (i, cases[i]))

    libf = []
    for i in idx:
        for s, o in zip(cases[i]["steps"], impl[i]["steps"]):
            if s.get("want_wf"):
                ok, why = libdec_ok(s, cases[i]["seid"], o)
                if not ok:
                    libf.append((i, why))

    known = {k["sig"]: k["what"] for k in common.known_findings("C03")}
    hits = {}
    for i in tot["fullf"]:
        sigs = {s.get("full") for s in cases[i]["steps"] if s.get("full")}
        sig = next(iter(sigs), None)
        if sig in known:
            ctx.known("sig=%s %s" % (sig, known[sig]))
            hits[sig] = hits.get(sig, 0) + 1
        else:
            viol.append((i, "full-strength monitor false (%s): the reference decoder does not read back the IE's content" % sig))
    for i in tot["periof"]:
        sig = cases[i].get("perio_sig")
        if sig in known:
            ctx.known("sig=%s %s" % (sig, known[sig]))
            hits[sig] = hits.get(sig, 0) + 1
        else:
            viol.append((i, "periodic registration differs from the specification: a tick's query set is not {URRs whose triggers include "
                            "PERIO, with that period} (%s)" % sig))

    wfset = [i for i in idx if all(s.get("want_wf") for s in cases[i]["steps"])]
    coverage["evaluations"] = len(cases) - unbuildable
    coverage["distinct_nontrivial"] = len({json.dumps(strip(cases[i]), sort_keys=True) for i in wfset})
    coverage["well_formed_steps_monitored"] = tot["nwf"]
    coverage["histories_with_ticks"] = sum(1 for c in cases if c["ticks"])
    coverage["rule"] = ("case = (SEID, history of rule operations, injected ticks); sweeps: every 40-bit boundary in each MBR/GBR position, all 8 "
                        "volume-flag subsets for threshold and quota, all 24 single trigger bits, all SEID classes, BAR delays; all child orders of "
                        "5-child QER / 5-child URR / 3-child BAR samples; random single operations (75% well-formed, 25% perturbed: duplicates, "
                        "missing ids, malformed IEs, 1- and 4-octet triggers, zero period) and URR histories create / create+update / "
                        "create+remove with ticks of the registered and another period; non-trivial = every step well-formed by "
                        "wf_qer/wf_urr/wf_bar (computed in Coq); distinct by full case content")
    coverage["per_op"] = {op: sum(1 for c in cases for s in c["steps"] if s["op"] == op) for op in OPS}
    coverage["samples"] = [dict(strip(c), impl_requests=[main_request(s, o)[0] for s, o in zip(c["steps"], r["steps"])], ticks_seen=r["ticks"])
                           for c, r in list(zip(cases, impl))[-3:-1]]
    coverage["model_impl_mismatches"] = len(tot["mism"])
    coverage["monitor_failures"] = len(tot["monf"])
    coverage["libdecoder_failures"] = len(libf)
    coverage["known_finding_hits"] = hits

    for i in tot["monf"][:2]:
        ctx.violation({"property": "C03", "what": "the reference decoder applied to the request the real driver sent does not return the IE's content",
                       "cases": [strip(cases[i])], "impl": impl[i], "replay_cmd": "python3 check.py C03 --replay <this file>"})
    for i, why in viol[:3]:
        ctx.violation({"property": "C03", "what": why, "cases": [strip(cases[i])], "impl": impl[i],
                       "replay_cmd": "python3 check.py C03 --replay <this file>"})
    if not tot["monf"] and not viol:
        for i, why in libf[:2]:
            ctx.violation({"property": "C03", "what": "go-gtp5gnl's decoder does not read back the IE's content: " + why,
                           "cases": [strip(cases[i])], "impl": impl[i], "replay_cmd": "python3 check.py C03 --replay <this file>"})
    if not tot["monf"] and not viol and not libf and (tot["mism"] or broken):
        ctx.violation({"property": "C03", "broken_obligations": broken,
                       "correspondence": "model request / registration <> implementation" if tot["mism"] else None,
                       "cases": [strip(cases[i]) for i in tot["mism"][:3]], "impl": [impl[i] for i in tot["mism"][:3]],
                       "make_log": info.get("make_log", "")[-1500:]}, no_input=True)
    return ctx.finish(coverage, ["IE field values are sampled (boundaries + random); go-pfcp accessor results are inputs of the model",
                                 "ticker goroutines of the periodic server are not exercised: ticks are injected through its event channel",
                                 "the simulated kernel accepts every request (lenient mode)"])
