"""C18 - the control loop cannot be wedged by bursts of reports or rule changes."""
import json
import os
import random
import subprocess

from lib import common

MANIFEST = dict(
    text="Kernel-checked over a model of the two queues between the PFCP event loop and the periodic-report server (blocking "
         "mode of every operation regenerated from pfcp.go and perio/server.go on every run; the event queue is the unbounded "
         "FIFO the code has since fix 'periodic server: unbounded event queue', the report queue is bounded): the loop is never "
         "blocked posting a timer event (C18_loop_post_never_blocks), so a turn touching k URRs completes in exactly k steps of "
         "the loop whatever the periodic server waits for (C18_turn_completes); no reachable state is a deadlock - either "
         "everything has been served or one of the two servers can move (C18_no_deadlock); every server step lowers a work "
         "measure, so without new input the system reaches quiescence (C18_server_steps_lower_work); every queue is made with "
         "the capacity constant the model uses (C18_capacities) and no send the loop can reach inside package pfcp can block "
         "(C18_loop_sends_cannot_block). The OLD code (event channel of 512) is kept as a second model in which the wedge is "
         "reachable and permanent (C18_old_code_wedge_reachable) - the regression witness. Tie / search: full-stack probes (real "
         "PfcpServer + real Gtp5g driver over the simulated gtp5g kernel + real periodic server): sessions x URRs on both sides "
         "of 512 posted events and 128 reported sessions, the thresholds apart and together (700 / 1000 sessions, the history "
         "that wedged the old code), tick held in its query during a bulk removal by re-association, packet-queue overrun "
         "bursts; after each the UPF must answer a heartbeat within the deadline.",
    note="Partial only in that fairness of the Go scheduler is assumed and liveness is stated as 'some server step is enabled and "
         "lowers the work measure'; data-plane call latency is simulated by holding the tick's netlink query. ",
    technique="Coq: deadlock-freedom and bounded-progress theorems over a queue model with generated blocking modes; full-stack hang probes",
    design="4/C18")

SIG = "evt-sr-cycle"


def probe(ctx, harness, case, k):
    inp = os.path.join(ctx.workdir, "wedge-in-%d.json" % k)
    outp = os.path.join(ctx.workdir, "wedge-out-%d.json" % k)
    json.dump(case, open(inp, "w"))
    try:
        p = subprocess.run([harness, "wedge", inp, outp], capture_output=True, text=True, env=common.GOENV, timeout=180)
    except subprocess.TimeoutExpired:
        return {"error": "probe process hung"}
    if p.returncode != 0 or not os.path.exists(outp):
        return {"error": "probe failed: " + p.stderr[-800:]}
    return json.load(open(outp))


def run(ctx, replay=None):
    info = common.prepare(ctx)
    obl = info["obl"]
    broken = []
    if not info["gen_ok"]:
        broken.append("T-gen no longer recognises the source: " + info["gen_log"][-400:])
    if not obl["compiled"]:
        broken.append("props/C18.v (theorems %s) no longer compiles - capacities or blocking modes changed" % ", ".join(obl["theorems"]))
    if info["forbidden"]:
        broken.append("forbidden constructs: %s" % info["forbidden"])
    coverage = {"obligations": len(obl["theorems"]), "discharged": len(obl["theorems"]) if obl["compiled"] else 0,
                "checker_cmd": "make -f Makefile.coq + coqc props/C18.v (Print Assumptions)", "trusted_base": common.TRUSTED_BASE +
                ["SimKernel (simulated gtp5g netlink endpoint, harness/overlay/internal/forwarder/verif_sim.go)"],
                "axioms": obl["axioms"], "theorems": obl["theorems"], "evaluations": 0, "distinct_nontrivial": 0,
                "rule": "probes = (sessions with one periodic URR each, tick held in its query, bulk removal by re-association); "
                        "non-trivial = at least 100 sessions"}
    if info["tie_broken"]:
        ctx.violation({"property": "C18", "broken": "probe harness no longer builds against the tree", "log": info["tie_broken"][-2000:]}, no_input=True)
        return ctx.finish(coverage, [])
    rnd = random.Random(ctx.seed)
    cap_evt, cap_sr = 512, 128
    below = [{"sessions": n, "hold_tick": True, "reassoc": True, "deadline_ms": 4000}
             for n in ([rnd.randint(20, 120), rnd.randint(130, 500), cap_evt - 1] if ctx.tier == "quick"
                       else [5, 64, 127, 128, 129, 300, 450, 500, 511, 512])]
    below += [{"sessions": rnd.randint(550, 700), "hold_tick": False, "reassoc": False, "deadline_ms": 4000}]   # tick alone
    # the two thresholds apart: MORE timer events in one turn than the event queue holds (sessions x urrs > 512) while the
    # tick reports FEWER sessions than the report queue holds (< 128): the periodic server never blocks, so no wedge
    below += [{"sessions": n, "urrs": u, "hold_tick": True, "reassoc": True, "deadline_ms": 5000}
              for n, u in ([(rnd.randint(100, 127), 6), (rnd.randint(66, 99), 8)] if ctx.tier == "quick"
                           else [(65, 8), (66, 8), (90, 6), (100, 6), (120, 5), (127, 5), (127, 9)])]
    # one PDR's packet queue overrun (its surplus is dropped): the loop must not block on a queue only it drains
    below += [{"sessions": 1, "burst": b, "deadline_ms": 4000} for b in ([rnd.randint(513, 900)] if ctx.tier == "quick" else [511, 512, 513, 600, 2000])]
    # both thresholds crossed at once: the history that wedged the code before the event queue became unbounded
    below += [{"sessions": n, "hold_tick": True, "reassoc": True, "deadline_ms": 6000}
              for n in ([rnd.randint(530, 800)] if ctx.tier == "quick" else [513, 600, 1000])]
    # the same with SEVERAL THOUSAND timer events posted in the one turn (sessions x urrs well beyond any plausible bound
    # of the event queue) while the tick reports more sessions than the report queue holds
    below += [{"sessions": n, "urrs": u, "hold_tick": True, "reassoc": True, "deadline_ms": 12000}
              for n, u in ([(rnd.randint(520, 600), 8)] if ctx.tier == "quick" else [(520, 8), (600, 8), (700, 12)])]
    # the loop held in the middle of the bulk removal while the periodic server fills the report channel and waits: the
    # rest of the loop's turn must not need the periodic server (a lock shared between posting and reporting would wedge)
    below += [{"sessions": n, "hold_tick": True, "reassoc": True, "hold_loop": True, "deadline_ms": 6000}
              for n in ([rnd.randint(200, 400)] if ctx.tier == "quick" else [129, 140, 300, 700])]
    # a session with packets queued (a few, a full queue) is deleted: the loop must get through closing its queues
    below += [{"sessions": 1, "burst": b, "delete_after_burst": True, "deadline_ms": 4000}
              for b in ([rnd.randint(1, 5), rnd.randint(513, 700)] if ctx.tier == "quick" else [1, 2, 511, 512, 513])]
    above = []
    if replay:
        r = json.load(open(replay))
        below, above = [r["case"]], []
    results = []
    k = 0
    for c in below:
        k += 1
        o = probe(ctx, info["harness"], c, k)
        results.append({"case": c, "result": o, "expected": "answered"})
        if o.get("error") or not o.get("answered") or o.get("established") != c["sessions"]:
            ctx.violation({"property": "C18", "what": "UPF unresponsive (or probe failed): %s" % o,
                           "case": c, "result": o, "replay_cmd": "python3 check.py C18 --replay <this file>"})
            break
    known = common.known_findings("C18")
    for c in above:
        k += 1
        o = probe(ctx, info["harness"], c, k)
        results.append({"case": c, "result": o, "expected": "known wedge"})
        if o.get("error"):
            ctx.violation({"property": "C18", "what": "probe failed: %s" % o, "case": c, "result": o})
        elif not o.get("answered"):
            sites = " ".join(o.get("blocked") or [])
            if "NotifySessReport" in sites and "PeriodReportTimer" in sites and any(x["sig"] == SIG for x in known):
                ctx.known("sig=%s %s" % (SIG, [x for x in known if x["sig"] == SIG][0]["what"]))
            else:
                ctx.violation({"property": "C18", "what": "UPF unresponsive with an unknown blocking pattern: %s" % sites, "case": c, "result": o})
    # one event at a time to the real periodic server, nothing else until it has been served: a lost wake-up shows as a stall
    rounds = 40000 if ctx.tier == "quick" else 600000
    pp, plog = common.run_harness(ctx, info["harness"], "perio_pingpong", {"rounds": rounds, "timeout_ms": 1500}, timeout=600, tag="-pp")
    if pp is None:
        ctx.violation({"property": "C18", "broken": "ping-pong probe failed: " + plog[-800:]}, no_input=True)
    else:
        results.append({"case": {"sessions": 0, "pingpong_rounds": rounds}, "result": pp, "expected": "all rounds served"})
        coverage["pingpong_rounds"] = pp.get("rounds")
        if pp.get("error") or pp.get("stuck_at", -1) >= 0:
            ctx.violation({"property": "C18", "what": "the periodic server did not serve an event that was queued for it (round %s of a one-event-at-a-time "
                           "exchange, %s event(s) waiting, nothing else posted): it sleeps with work pending" % (pp.get("stuck_at"), pp.get("queued")),
                           "case": {"mode": "perio_pingpong", "rounds": rounds, "timeout_ms": 1500}, "result": pp})
    coverage["evaluations"] = len(results)
    coverage["hold_loop_probes"] = [{"sessions": r["case"]["sessions"], "reports_waiting_when_loop_released": r["result"].get("sr_len_at_release"),
                                     "answered": r["result"].get("answered")} for r in results if r["case"].get("hold_loop")]
    coverage["delete_after_burst_probes"] = [{"burst": r["case"]["burst"], "answered": r["result"].get("answered")}
                                             for r in results if r["case"].get("delete_after_burst")]
    coverage["distinct_nontrivial"] = len({r["case"]["sessions"] for r in results if r["case"]["sessions"] >= 100})
    coverage["samples"] = results[:3]
    if not ctx.violations and broken:
        ctx.violation({"property": "C18", "broken_obligations": broken, "make_log": info.get("make_log", "")[-1500:]}, no_input=True)
    return ctx.finish(coverage, ["data-plane latency is simulated by holding the tick's netlink query until the bulk removal runs",
                                 "deadline 4 s for the heartbeat after the burst"])
