"""C10 - see MANIFEST below."""
from checks import pfcp_common as pc

MANIFEST = dict(
    text="Kernel-checked: the usage-report IE built for a report carries URR id, UR-SEQN, the trigger (24 bits), start/end time unless START/STOPT/MACAR, the volume measurement iff VOLUM with flags TOVOL|ULVOL|DLVOL (+packet counts iff MNOP) and the six counters UNCHANGED for all values, the duration iff DURAT (mk_usage_ie_fields/volume); a report for a live session yields exactly one Session Report Request to the node object owning the session with the peer's SEID (serve_report_route); reports for a non-live SEID change nothing; unknown URRs in a batch are skipped without disturbing the others (emit_skips_unknown, emit_false_ies). PARTIAL: the kernel-side decoding (buffnetlink REPORT multicast, gtp5g result conversion) is outside the PFCP model - covered by the full-stack run when SimKernel is present. Tie: differential run with scripted reports; field-by-field monitor on the decoded IEs.",
    note="Partial: netlink report decoding and go-pfcp's IE encoders are not modelled. A SessReport mixing buffer and usage items (never produced by go-upf's own producers) loses the usage items when a buffer item lacks NOCP - recorded as an observation. ",
    technique="Coq lemmas on the emission / queue / reference-count functions + differential run + trace monitor",
    design='4/C10')

RULE = 'reports for live/dead sessions and known/unknown URRs, counters at 0 / 2^32 / 2^63 / 2^64-1 / random, every single-cause trigger, all method / MNOP combinations, 1-3 reports per batch'
GEN = dict(usage_share=0.6, weights=dict(usa=30, est=16, mod=18, dele=6, asr=6, srr=6, dld=2), big_seids=False)
N_QUICK, N_THOROUGH = 110, 3000


def run(ctx, replay=None):
    return pc.run_property(ctx, "C10", pc.mon_c10, GEN, N_QUICK, N_THOROUGH, replay=replay, rule=RULE,
                           assumptions=[pc.PFCP_NOTE], finding_sig=None, directed=None)
