"""C10 - see MANIFEST below."""
import json

from checks import pfcp_common as pc
from checks import usage_fullstack

MANIFEST = dict(
    text="Kernel-checked, PFCP layer: the usage-report IE built for a report carries URR id, UR-SEQN, the trigger (24 bits), start/end time unless START/STOPT/MACAR, the volume measurement iff VOLUM with flags TOVOL|ULVOL|DLVOL (+packet counts iff MNOP) and the six counters UNCHANGED for all values, the duration iff DURAT (mk_usage_ie_fields/volume); a report for a live session yields exactly one Session Report Request to the node object owning the session with the peer's SEID (serve_report_route); reports for a non-live SEID change nothing; unknown URRs in a batch are skipped without disturbing the others (emit_skips_unknown, emit_false_ies). Kernel-checked, kernel side (model/UsageDec.v): the attribute tree of a gtp5g usage report, go-gtp5gnl's decoder (clauses pinned to the library source by T-gen) and go-upf's five conversion sites (buffnetlink.ServeMsg, Gtp5g.UpdateURR / RemoveURR / queryURR / queryMultiURR - the model INTERPRETS the field tables T-gen extracts from their loops): for ALL 32-bit ids and trigger words, ALL 64-bit counters and time stamps, ALL presence masks and every site, decoding + converting the tree of a report yields exactly that report's fields (no truncation, no swapped counter, nanosecond times preserved; C10_kernel_report_converted, C10_kernel_sites_agree), a REPORT multicast for any mixture of sessions hands each SEID exactly its own reports (C10_kernel_mcast_groups), and composed with mk_usage_ie the IE carries the kernel's values selected by the URR's method / MNOP (C10_kernel_report_ie). Tie: differential run with scripted reports on ModelDP and field-by-field monitor on the decoded IEs; FULL-STACK phase (real PfcpServer + real Gtp5g over the simulated kernel, fake SMF sockets): REPORT multicasts with 1..9 reports for several sessions of several nodes incl. unknown sessions (also live SEID + 2^32) and unknown URRs, scripted replies to Remove / Update / Query URR and to session deletion, injected periodic ticks through the real periodic server and queryMultiURR, counters at 0 / 1 / 2^32 / 2^63 / 2^64-1 / random, every single-cause trigger, all method / MNOP combinations - monitored end to end at the SMF sockets against what the kernel produced; driver-level phase: the five sites' report.USAReport values compared with the kernel's values (Python) and, inside Coq, with model/UsageDec.v run on the bytes the kernel sent.",
    note="Partial: go-pfcp's IE encoders and go-gtp5gnl/go-nl are modelled, not verified; the gtp5g kernel module is replaced by SimKernel (its report layout is the one go-gtp5gnl decodes; the meaning of the trigger word per message kind is an interface assumption stated in checks/usage_fullstack.py). Observations: go-gtp5gnl does not decode UR_QUERY_URR_REFERENCE (QueryUrrRef is always 0; not sent to the SMF) and its decodeVolumeMeasurement stops at the first unknown attribute (a UR_VOLUME_MEASUREMENT_FLAGS attribute placed first would zero all counters; gtp5g and SimKernel do not send one). When every report of a multicast group for a live session names an unknown URR, the reports are dropped but a Session Report Request with Report Type USAR and no Usage Report IE is still sent to the SMF (tolerated by the monitor, counted in the evidence). A SessReport mixing buffer and usage items (never produced by go-upf's own producers) loses the usage items when a buffer item lacks NOCP. ",
    technique="Coq lemmas on the emission / queue / reference-count functions and on the kernel-report decoder/conversion (T-gen interpreted tables) + differential run + trace monitor + full-stack run over the simulated kernel",
    design='4/C10')

RULE = 'reports for live/dead sessions and known/unknown URRs, counters at 0 / 2^32 / 2^63 / 2^64-1 / random, every single-cause trigger, all method / MNOP combinations, 1-3 reports per batch; full stack: multicasts of 1-9 kernel reports over several sessions/nodes, scripted query/update/remove/deletion replies, periodic ticks'
GEN = dict(usage_share=0.6, weights=dict(usa=30, est=16, mod=18, dele=6, asr=6, srr=6, dld=2), big_seids=False)
N_QUICK, N_THOROUGH = 110, 3000


def run(ctx, replay=None):
    if replay:
        try:
            mode = json.load(open(replay)).get("mode")
        except (OSError, ValueError):
            mode = None
        if mode in ("usagefs", "usagedec"):
            return usage_fullstack.replay(ctx, replay)
    return pc.run_property(ctx, "C10", pc.mon_c10, GEN, N_QUICK, N_THOROUGH, replay=replay, rule=RULE,
                           assumptions=[pc.PFCP_NOTE, usage_fullstack.KERNEL_NOTE], finding_sig=None, directed=pc.directed_c10,
                           extra_phase=usage_fullstack.phase)
