"""C07 - see MANIFEST below and DESIGN.md section 4/C07."""
import random

from checks import pfcp_common as pc

MANIFEST = dict(
    text='Kernel-checked for ALL histories of parsed messages, reports and timer events and all oracles: no step faults (no slice index out of range, no nil slot dereference), the world invariant is preserved, and a Heartbeat Request that is not a retransmission is answered in every state. PARTIAL: the byte->message step (go-pfcp message.Parse) and the IE accessors are third-party code, covered only by the correspondence / mutation stream (validation, not proof): structure-aware IE-tree mutation and a systematic sweep of every leaf IE (flag octets, inner length fields, tail length) through the model data plane AND the real gtp5g driver over the simulated kernel, heartbeat after every datagram, a session of another node must stay intact. Tie: differential run incl. every SEID class and missing/undecodable IEs; fatal-exit hook and heartbeat probe after every event.',
    note="Partial: go-pfcp's parser and accessors and the gtp5g driver's IE decoding are outside the model. Panics inside go-pfcp accessors reached through the gtp5g driver (Outer Header Creation with spare bits, SDF Filter length overrun - found by the byte-level phase) used to exit the UPF; since fix 242a7e8 they cost one message (the datagrams are a regression corpus run first). What a handler had installed before such a panic stays (not modelled). ",
    technique='Coq no-fault theorem over all histories + differential run with fatal-exit hook and heartbeat liveness probe',
    design='4/C07')

RULE = 'histories with extreme SEIDs, absent/undecodable Node ID and F-SEID IEs, unknown message types, reports for dead sessions'

GEN = dict(weights=dict(mod=24, dele=12, srr=10, usa=10, dld=8, otherreq=6, otherrsp=6, hb=8), big_seids=True, p_panic=0.25, p_wfail=0.1)
N_QUICK, N_THOROUGH = 90, 3000


def run(ctx, replay=None):
    from checks import fuzz_phase, wfail_phase
    return pc.run_property(ctx, "C07", pc.mon_c07, GEN, N_QUICK, N_THOROUGH, replay=replay, rule=RULE,
                           assumptions=[pc.PFCP_NOTE, "byte-level stream: structure-aware mutations (every leaf IE x flag octet x "
                                        "boundary value x tail length systematically, plus random ones) of valid messages, each with its "
                                        "own sequence number, after a valid prefix, against the model data plane and against the REAL gtp5g "
                                        "driver over the simulated kernel; validation, not proof", "write-failure phase: Session Report Requests whose first transmission fails in the socket, followed by responses / time-outs with that sequence number and a Heartbeat; model event EvReportWF (theorem C07_failed_write_then_any_event), compared with the model and judged by trace rules"],
                           extra_phase=wfail_phase.both(wfail_phase.phase("C07"), fuzz_phase.phase), directed=lambda rnd: pc.directed_c05(rnd) + wfail_phase.cases(random.Random(rnd.randrange(1 << 30)), 10))
