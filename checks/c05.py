"""C05 - see MANIFEST below."""
from checks import pfcp_common as pc

MANIFEST = dict(
    text="Kernel-checked frame theorems: a Modification / Deletion changes only the addressed session - every other session value (rule ids, URR counters, packet queues) is identical, rules of other SEIDs in the data plane are untouched, every driver call carries the addressed SEID; re-association removes exactly the sessions of the node object registered under the id (for every Reset order) and withdraws their rules; a SEID-0 report response removes at most the one session matching CP SEID and peer address; node session sets are disjoint. A takeover (Modification with a new Node ID) onto an id that has its own association moves exactly that session to the owning node and displaces nothing (C05_takeover_does_not_displace; the former finding takeover-collision, fixed in 8b22329, is a regression history run first); onto an unused id it re-keys the session's node as before. Tie: differential run + per-event diff of all sessions not addressed.",
    note="Partial: takeover collision is a known finding (design-level repair). Establishment frame is part of C08's theorem. ",
    technique='Coq frame lemmas (per handler) + refutation witness for the finding + differential run + trace monitor',
    design='4/C05')

RULE = 'histories with equal rule ids and equal CP SEIDs across sessions and peers, SEID re-use, takeover to fresh and to existing node ids, re-association, SEID-0 responses'
GEN = dict(weights=dict(est=18, mod=24, dele=8, asr=12, srr=8, usa=8, dld=6), big_seids=False, p_alias=0.06)
N_QUICK, N_THOROUGH = 120, 3000


def run(ctx, replay=None):
    return pc.run_property(ctx, "C05", pc.mon_c05, GEN, N_QUICK, N_THOROUGH, replay=replay, rule=RULE,
                           assumptions=[pc.PFCP_NOTE], finding_sig=pc.sig_c05, directed=pc.directed_c05)
