"""C17 - state is race-free under concurrent peers, reports and timers; Stop stops."""
import json
import os
import random
import subprocess

from lib import common

MANIFEST = dict(
    text="PARTIAL (the Go scheduler and memory model are outside any Gallina model). Kernel-checked: (1) confinement - the access "
         "table regenerated from internal/pfcp/*.go on every run (every goroutine entry point that does not run on the event "
         "loop, with every struct field it can reach through same-package calls, every channel operation, every close, every go "
         "statement) satisfies: off-loop code touches only the three input channels, the done channel, the mutex-guarded socket "
         "and immutable fields; sends on srCh/trToCh are select-guarded by done; only done and rcvCh are ever closed; (2) "
         "ownership => no conflicting accesses on state cells, for every access trace; (3) an interleaving model of producers, "
         "timer callbacks, receiver, Stop and the loop over bounded FIFO channels (capacities from T-gen): no execution sends on "
         "a closed channel, what the loop processed plus what is queued is a permutation of what was handed over (exactly once "
         "at quiescence), after the loop stopped every producer's select can complete; (4) shutdown composition (event loop, Stop, "
         "the driver Close that follows it, the periodic server's CLOSE handling, ticker goroutines; protocol parameters read off "
         "the generated tables): for any number of tickers and every schedule nobody sends on the closed event channel and the "
         "periodic server is never stuck in stopTicker; since the event queue drops what is posted after it was closed (fix d3c5a50) no "
         "schedule at all can fault; for an event CHANNEL each protocol element is shown necessary by a failing schedule. "
         "Validation and failing-schedule search: "
         "race-detector stress (vharness built with -race): 3 SMFs with duplicates, 4 report producers, 5 ms transaction timers, "
         "unanswered requests, Stop at a random point - race reports, panics, fatal exit, wait-group completion, exactly-once "
         "delivery of uniquely tagged reports.",
    note="Partial: scheduler / memory model / timers are runtime behaviour. Half of the stress schedules include the real "
         "periodic-report server (millisecond tickers, registration churn, driver Close right after Stop as pkg/app does); the "
         "netlink listener goroutine (buffnetlink.ServeMsg: multicast batches naming several sessions) runs under the race detector "
         "in the listener phase, with the exactly-once / intact rule of the full-stack usage monitor. ",
    technique="Coq: generated confinement table + interleaving model proofs; Go race detector stress as validation / search",
    design="4/C17")


def gen_cases(ctx):
    rnd = random.Random(ctx.seed)
    n = 10 if ctx.tier == "quick" else 300
    cases = []
    for i in range(n):
        stop = 0 if i % 2 == 0 else rnd.randint(5, 80)
        cases.append({"seed": rnd.randrange(1 << 30), "smfs": rnd.choice([2, 3, 4]), "producers": rnd.choice([2, 4, 8]),
                      "run_ms": rnd.choice([120, 200]) if stop == 0 else rnd.choice([40, 80]), "stop_in_ms": stop,
                      "retrans_ms": rnd.choice([2, 5, 10]), "maxretrans": rnd.choice([0, 1, 2, 3]), "perio": i % 4 < 2})
    return cases


def run(ctx, replay=None):
    info = common.prepare(ctx, need_harness=True, race=True)
    obl = info["obl"]
    broken = []
    if not info["gen_ok"]:
        broken.append("T-gen (ConcGen) no longer recognises the source: " + info["gen_log"][-400:])
    if not obl["compiled"]:
        broken.append("props/C17.v (theorems %s) no longer compiles - the generated access / channel table violates confinement, "
                      "or the model changed" % ", ".join(obl["theorems"]))
    if info["forbidden"]:
        broken.append("forbidden constructs: %s" % info["forbidden"])
    coverage = {"obligations": len(obl["theorems"]), "discharged": len(obl["theorems"]) if obl["compiled"] else 0,
                "checker_cmd": "make -f Makefile.coq + coqc props/C17.v (Print Assumptions)", "trusted_base": common.TRUSTED_BASE +
                ["Go race detector (validation only)"], "axioms": obl["axioms"], "theorems": obl["theorems"],
                "evaluations": 0, "distinct_nontrivial": 0,
                "rule": "stress schedules: (seed, #SMFs, #producers, timer period, retry count, stop point); non-trivial = at least 100 "
                        "notifications handed over or a Stop with traffic in flight"}
    if info["tie_broken"]:
        ctx.violation({"property": "C17", "broken": "stress harness no longer builds against the tree", "log": info["tie_broken"][-2000:]}, no_input=True)
        return ctx.finish(coverage, [])
    rp = json.load(open(replay)) if replay else None
    fs_replay = [rp["case"]] if rp and str(rp.get("mode", "")).startswith("usagefs") and "case" in rp else None
    cases = ([] if fs_replay else rp["cases"]) if replay else gen_cases(ctx)
    inp = os.path.join(ctx.workdir, "stress-in.json")
    outp = os.path.join(ctx.workdir, "stress-out.json")
    found = False
    results = []
    nontrivial = set()
    # one process per small batch so that a crash (unrecovered panic in a timer goroutine) identifies its schedule
    for k in range(0, len(cases), 2):
        batch = cases[k:k + 2]
        json.dump(batch, open(inp, "w"))
        if os.path.exists(outp):
            os.unlink(outp)
        env = dict(common.GOENV, GORACE="halt_on_error=0 exitcode=66")
        try:
            p = subprocess.run([info["harness"], "stress", inp, outp], capture_output=True, text=True, env=env, timeout=300)
            rc, err = p.returncode, p.stderr
        except subprocess.TimeoutExpired:
            rc, err = -9, "timeout (hang)"
        outs = json.load(open(outp)) if os.path.exists(outp) else []
        results += outs
        problems = []
        if "DATA RACE" in err:
            problems.append("data race reported by the race detector")
        if rc not in (0, 66):
            problems.append("stress process died (rc %s): %s" % (rc, err[-600:]))
        for c, o in zip(batch, outs):
            if o["sent"] >= 100 or c["stop_in_ms"]:
                nontrivial.add(json.dumps(c, sort_keys=True))
            if o["producer_panics"]:
                problems.append("producer panicked: %s" % o["panic_msgs"])
            if o["fatal"]:
                problems.append("fatal: " + o["fatal"])
            if not o["wg_done"]:
                problems.append("goroutines did not terminate after Stop")
            if o["producers_blocked"]:
                problems.append("%d producers still blocked after Stop" % o["producers_blocked"])
            if c["stop_in_ms"] == 0 and (o["missing"] or o["duplicated"]):
                problems.append("notifications not processed exactly once: %d missing, %d duplicated" % (o["missing"], o["duplicated"]))
        if problems and not found:
            found = True
            ctx.violation({"property": "C17", "what": problems[0], "all": problems[:6], "cases": batch, "results": outs,
                           "race_report": err[-3000:] if "DATA RACE" in err or rc not in (0, 66) else "",
                           "replay_cmd": "python3 check.py C17 --replay <this file>"})
    # Start immediately followed by Stop, the pause sweeping the whole start-up of the server
    if not replay:
        rounds = 1500 if ctx.tier == "quick" else 40000
        inp2 = os.path.join(ctx.workdir, "ss-in.json")
        outp2 = os.path.join(ctx.workdir, "ss-out.json")
        json.dump({"seed": ctx.seed, "rounds": rounds}, open(inp2, "w"))
        env = dict(common.GOENV, GORACE="halt_on_error=0 exitcode=66")
        try:
            p = subprocess.run([info["harness"], "startstop", inp2, outp2], capture_output=True, text=True, env=env, timeout=900)
            rc, err = p.returncode, p.stderr
        except subprocess.TimeoutExpired:
            rc, err = -9, "timeout"
        ss = json.load(open(outp2)) if os.path.exists(outp2) else None
        coverage["startstop_rounds"] = (ss or {}).get("rounds")
        if not found:
            if "DATA RACE" in err:
                ctx.violation({"property": "C17", "what": "data race reported by the race detector (Start/Stop rounds)", "mode": "startstop",
                               "case": {"seed": ctx.seed, "rounds": rounds}, "race_report": err[-3000:]})
            elif ss is None or rc not in (0, 66):
                ctx.violation({"property": "C17", "what": "Start/Stop rounds: harness process died (rc %s): %s" % (rc, err[-600:]), "mode": "startstop",
                               "case": {"seed": ctx.seed, "rounds": rounds}})
            elif ss.get("stuck_at", -1) >= 0:
                ctx.violation({"property": "C17", "what": "Start followed %s microseconds later by Stop: %s (round %s)" % (
                    ss.get("pause_us"), ss.get("what") or ("fatal: " + ss.get("fatal", "")), ss.get("stuck_at")), "mode": "startstop",
                    "case": {"seed": ctx.seed, "rounds": rounds}, "result": ss})
    # the netlink listener goroutine under the race detector: multicast report batches naming several sessions at once go
    # through the REAL buffnetlink.ServeMsg -> NotifySessReport -> event loop -> Session Report Requests, the loop serving
    # other traffic meanwhile; every kernel report must arrive exactly once at the owning SMF (usage_fullstack.monitor)
    if not replay or fs_replay:
        from checks import usage_fullstack as uf
        stats = uf.new_stats()
        rnd2 = random.Random(ctx.seed + 1717)
        fs_cases = fs_replay or (uf.directed() + [uf.gen_case(rnd2, stats) for _ in range(40 if ctx.tier == "quick" else 600)])
        inp3 = os.path.join(ctx.workdir, "fs-in.json")
        outp3 = os.path.join(ctx.workdir, "fs-out.json")
        json.dump(fs_cases, open(inp3, "w"))
        env = dict(common.GOENV, GORACE="halt_on_error=0 exitcode=66")
        try:
            p = subprocess.run([info["harness"], "usagefs", inp3, outp3], capture_output=True, text=True, env=env, timeout=900)
            rc, err = p.returncode, p.stderr
        except subprocess.TimeoutExpired:
            rc, err = -9, "timeout (hang)"
        fs = json.load(open(outp3))["cases"] if os.path.exists(outp3) else None
        coverage["listener_cases_under_race_detector"] = len(fs_cases)
        coverage["listener_multicast_reports"] = stats["reports_injected"]
        if not found:
            bad = None
            if fs is not None:
                for c, o in zip(fs_cases, fs):
                    f = uf.monitor(c, o)
                    if f:
                        bad = (c, o, f)
                        break
            if bad:
                found = True
                ctx.violation({"property": "C17", "what": "kernel reports handed to the listener are not delivered exactly once, intact: step %d: %s" % bad[2][0],
                               "mode": "usagefs (race build)", "case": bad[0], "implementation_trace": bad[1],
                               "race_report": err[-3000:] if "DATA RACE" in err else "",
                               "replay_cmd": "python3 check.py C17 --replay <this file>"})
            elif "DATA RACE" in err:
                found = True
                ctx.violation({"property": "C17", "what": "data race reported by the race detector (netlink listener -> event loop)", "mode": "usagefs (race build)",
                               "cases_seed": ctx.seed + 1717, "race_report": err[-3000:]})
            elif fs is None or rc not in (0, 66):
                ctx.violation({"property": "C17", "broken": "listener phase did not run (rc %s): %s" % (rc, err[-800:])}, no_input=True)
    coverage["slowest_shutdown_ms"] = max([o.get("shutdown_ms", 0) for o in results] or [0])
    coverage["evaluations"] = len(cases)
    coverage["distinct_nontrivial"] = len(nontrivial)
    coverage["samples"] = [{"case": c, "result": o} for c, o in list(zip(cases, results))[:2]]
    coverage["notifications_handed_over"] = sum(o["sent"] for o in results)
    if not ctx.violations and broken:
        ctx.violation({"property": "C17", "broken_obligations": broken, "make_log": info.get("make_log", "")[-1500:]}, no_input=True)
    return ctx.finish(coverage, ["race detector finds only races that occur in the explored schedules",
                                 "the UDP barrier of the harness is not a happens-before edge for the detector"])
