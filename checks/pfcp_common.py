"""Shared runner and monitors of the PFCP-layer checks (C01 C04 C05 C06 C07 C08 C09 C10 C11 C12 C13).

A monitor is the executable reading of a property on the IMPLEMENTATION's trace (events + what the real
server did: driver calls, datagrams, state dump).  It returns a list of (event index, message).
The same statements are proved about the model in coq/props; the correspondence run ties model and code."""
import copy
import json
import os
import random

from lib import common, pfcp

KIDX = {"pdr": 0, "far": 1, "qer": 2, "urr": 3, "bar": 4}


# ---------------------------------------------------------------- helpers on dumps

def live(dump, seid):
    sl = (dump or {}).get("slots") or []
    if 1 <= seid <= len(sl):
        return sl[seid - 1]
    return None


def recorded(sess, kind):
    if kind == "pdr":
        return {p["id"] for p in (sess["pdrs"] or [])}
    if kind == "urr":
        return {u["id"] for u in (sess["urrs"] or [])}
    return set(sess[kind + "s"] or [])


def addr_of(prefix, peer):
    """peers 4..7 are the harness's alias sockets: the address of peer k-4, source port 9805"""
    return "%s%d:%d" % (prefix, 10 + peer % 4, 8805 if peer < 4 else 9805)


def key_of(prefix, peer, seq):
    return "%s-%d" % (addr_of(prefix, peer), seq)


def rx_entry(dump, key):
    for e in (dump or {}).get("rx") or []:
        if e["key"] == key:
            return e
    return None


def tx_entry(dump, key):
    for e in (dump or {}).get("tx") or []:
        if e["key"] == key:
            return e
    return None


def norm(x, in_slots=False):
    """null lists/maps of the Go dump are empty; a null slot stays null"""
    if x is None:
        return None if in_slots else []
    if isinstance(x, dict):
        return {k: (norm(v, False) if k != "slots" else [norm(e, True) for e in (v or [])]) for k, v in x.items()}
    if isinstance(x, list):
        return [norm(e, False) for e in x]
    return x


def core(dump, dp):
    """everything but the receive-transaction table"""
    d = {k: v for k, v in norm(dump or {}).items() if k not in ("rx",)}
    d["nodes"] = sorted(d.get("nodes") or [], key=lambda n: n["obj"])      # Go map order is free
    return json.dumps([d, norm(dp)], sort_keys=True)


def strip_barrier(dump, prefix):
    if dump:
        dump = dict(dump)
        dump["rx"] = [e for e in (dump.get("rx") or []) if not e["key"].startswith(prefix + "2:")]
    return dump


EMPTY_DUMP = {"slots": [], "free": [], "nodes": [], "rnodes": {}, "rx": [], "tx": [], "txseq": 0}


def walk(case, obs, prefix):
    """yields (i, event, obs, prev_dump, prev_dp, is_dup) with barrier bookkeeping removed"""
    prev, prev_dp = dict(EMPTY_DUMP, txseq=case["txseq0"]), []
    for i, (ev, o) in enumerate(zip(case["events"], obs)):
        o = dict(o)
        o["dump"] = strip_barrier(o.get("dump"), prefix)
        dup = False
        if ev["t"] == "recv" and ev["msg"]["k"] not in ("srr", "otherrsp"):
            dup = rx_entry(prev, key_of(prefix, ev["peer"], ev["seq"])) is not None
        yield i, ev, o, prev, prev_dp, dup
        if o.get("fault"):
            return
        prev, prev_dp = o["dump"], o["dp"] or []


# ---------------------------------------------------------------- monitors

def mon_no_fault(case, obs, prefix):
    return [(i, "the server faulted: " + o["fault"]) for i, (ev, o) in enumerate(zip(case["events"], obs)) if o.get("fault")]


def mon_c04(case, obs, prefix):
    bad = []
    deleted = set()    # ghost: SEIDs whose Deletion Request was accepted and which no establishment has been given since
    limbo = set()      # SEIDs whose deletion was aborted by a scripted driver panic: outside the rule
    pending = {}       # (peer, sequence number) -> UP SEID the Session Report Request sent there was about
    for i, ev, o, prev, prev_dp, dup in walk(case, obs, prefix):
        if ev["t"] == "recv" and not dup and o.get("panicked") and ev["msg"]["k"] == "est":
            deleted.clear()     # an establishment aborted by a panic may have taken a released SEID without ever answering
        if ev["t"] == "recv" and not dup and o.get("panicked") and ev["msg"]["k"] == "del":
            limbo.add(ev["msg"]["seid"])    # a deletion aborted half-way by a panic: what the session is afterwards is undefined
        if ev["t"] == "recv" and not dup and not o.get("fault") and not o.get("panicked") and ev["msg"]["k"] in ("mod", "del", "est"):
            sd = o["sends"] or []
            if ev["msg"]["k"] in ("mod", "del") and ev["msg"]["seid"] in deleted:
                if not any(x["type"] in ("modrsp", "delrsp") and x["cause"] == 65 and x["seid"] == 0 for x in sd):
                    bad.append((i, "SEID %d was released (its Deletion Request was accepted) and has not been issued again, yet a request "
                                   "addressed to it is not answered 'session context not found'" % ev["msg"]["seid"]))
            if ev["msg"]["k"] == "del" and any(x["type"] == "delrsp" and x["cause"] == 1 for x in sd) and ev["msg"]["seid"] not in limbo:
                deleted.add(ev["msg"]["seid"])
            if ev["msg"]["k"] == "est":
                for x in sd:
                    if x["type"] == "estrsp" and x["cause"] == 1:
                        deleted.discard(x["fseid"])
                        limbo.discard(x["fseid"])
        if o.get("fault"):
            bad.append((i, "fault: " + o["fault"]))
            break
        d = o["dump"]
        slots, free = d["slots"] or [], d["free"] or []
        if len(set(free)) != len(free):
            bad.append((i, "free list holds an id twice: %s" % free))
        for f in free:
            if not (1 <= f <= len(slots)) or slots[f - 1] is not None:
                bad.append((i, "freed id %d is not a released slot" % f))
        for idx, s in enumerate(slots):
            if s is None and (idx + 1) not in free:
                bad.append((i, "released slot %d is not on the free list" % (idx + 1)))
            if s is not None and s["lid"] != idx + 1:
                bad.append((i, "slot %d holds session with SEID %d" % (idx + 1, s["lid"])))
        # a live SEID stops resolving only at an event that ends ITS session: a Deletion Request addressed to it, a
        # re-association (C05 judges which sessions that may be), or a SEID-0 answer to the report that was about it
        if ev["t"] == "report":
            s0 = live(prev, ev["seid"])
            for x in o["sends"] or []:
                if x["type"] == "srreq" and s0 is not None:
                    pending[(x["dst"], x["seq"])] = (ev["seid"], s0["rid"])
        vanished = [idx + 1 for idx, s in enumerate(prev.get("slots") or []) if s is not None and live(d, idx + 1) is None]
        if vanished and not o.get("panicked"):
            k = ev["msg"]["k"] if ev["t"] == "recv" else None
            if k == "del":
                allowed = {ev["msg"]["seid"]}
            elif k == "asr":
                # re-association of node id X ends the sessions of the node object registered under X (which sessions
                # ought to be under X is C05's matter; here: no session of ANOTHER node object may go)
                v = (ev["msg"].get("nid") or {}).get("v")
                if v is None:
                    allowed = set()
                elif v >= 1000:
                    allowed = None
                else:
                    obj = (prev.get("rnodes") or {}).get(peer_ip(prefix, v))
                    allowed = {x["lid"] for x in (prev.get("slots") or []) if x is not None and obj is not None and x["node"] == obj}
            elif k == "srr" and ev["msg"].get("hdr") == 0:
                about, rid0 = pending.get((ev["peer"], ev["seq"]), (None, None))
                s0 = live(prev, about) if about is not None else None
                if s0 is not None and s0["rid"] != rid0:
                    s0 = None       # the SEID was released and issued again since: which session the answer ends is C05's matter
                twin = s0 is not None and any(x is not None and x["lid"] != about and x["rid"] == s0["rid"] and x["node"] == s0["node"]
                                              for x in (prev.get("slots") or []))
                allowed = None if (s0 is None or twin) else {about}
            else:
                allowed = set()
            for g in vanished:
                if allowed is not None and g not in allowed:
                    bad.append((i, "live SEID %d stopped resolving at an event that does not end its session (%s)"
                                   % (g, "SEID-0 answer to the report about session %s" % sorted(allowed) if k == "srr" else (k or ev["t"]))))
        if ev["t"] != "recv" or dup:
            continue
        m = ev["msg"]
        sends = o["sends"] or []
        if m["k"] == "est":
            for s in sends:
                if s["type"] == "estrsp" and s["cause"] == 1:
                    f = s["fseid"]
                    if f == 0:
                        bad.append((i, "established session got UP SEID 0"))
                    if live(prev, f) is not None:
                        bad.append((i, "UP SEID %d issued while a live session holds it" % f))
                    ns = live(d, f)
                    if ns is None:
                        bad.append((i, "UP SEID %d in the response does not address a session" % f))
                    elif m.get("fseid", {}).get("v") is not None and ns["rid"] != m["fseid"]["v"]:
                        bad.append((i, "UP SEID %d addresses a session of another CP SEID" % f))
                    if any(r[0] == f for r in prev_dp):
                        bad.append((i, "UP SEID %d re-issued while rules of its previous session are still installed" % f))
        if m["k"] in ("mod", "del") and not o.get("panicked"):
            target = live(prev, m["seid"])
            bad_nid = m["k"] == "mod" and (m.get("nid") or {}).get("bad")
            want = "modrsp" if m["k"] == "mod" else "delrsp"
            rs = [s for s in sends if s["type"] == want]
            if target is None:
                if len(rs) != 1 or rs[0]["cause"] != 65 or rs[0]["seid"] != 0:
                    bad.append((i, "request for SEID %d (not live) not answered 'context not found' with SEID 0" % m["seid"]))
                if o["drv"]:
                    bad.append((i, "request for SEID %d (not live) reached the data plane" % m["seid"]))
                if core(prev, prev_dp) != core(d, o["dp"] or []):
                    bad.append((i, "request for SEID %d (not live) changed state" % m["seid"]))
            elif not bad_nid:
                if len(rs) != 1 or rs[0]["cause"] != 1 or rs[0]["seid"] != target["rid"]:
                    bad.append((i, "request for live SEID %d not answered with the session's CP SEID" % m["seid"]))
                for c in o["drv"] or []:
                    if c["seid"] != m["seid"]:
                        bad.append((i, "request for SEID %d acted on SEID %d" % (m["seid"], c["seid"])))
    return bad


def srr_must_end(case, obs, prefix):
    """a Session Report Response with header SEID 0 from the peer a report was sent to, for a request that is still
    outstanding, ends the session the report was about - whatever cause it carries: afterwards that session is gone and
    the data plane holds none of its rules.  (Which session a request was about is tracked from the report events.)"""
    bad = []
    pending = {}      # (peer, seq) -> UP SEID the outstanding Session Report Request was sent for
    for i, ev, o, prev, prev_dp, dup in walk(case, obs, prefix):
        if o.get("fault"):
            break
        # a session that ended takes its outstanding reports' meaning with it (its SEID may be issued again)
        for k in [k for k, (lid_, rid_) in pending.items() if live(prev, lid_) is None or live(prev, lid_)["rid"] != rid_]:
            del pending[k]
        if ev["t"] == "report":
            s0 = live(prev, ev["seid"])
            for x in o["sends"] or []:
                if x["type"] == "srreq" and s0 is not None:
                    pending[(x["dst"], x["seq"])] = (ev["seid"], s0["rid"])
        elif ev["t"] == "recv" and ev["msg"]["k"] == "srr":
            k = (ev["peer"], ev["seq"])
            if tx_entry(prev, key_of(prefix, ev["peer"], ev["seq"])) is not None and k in pending:
                lid, _rid = pending.pop(k)
                s = live(prev, lid)
                twins = [x for x in (prev.get("slots") or []) if x is not None and x["lid"] != lid and s is not None
                         and x["rid"] == s["rid"] and x["node"] == s["node"]]      # the same peer gave two sessions one SEID: ambiguous
                # "peer" as the implementation matches it: the address the session's association was set up from (after a
                # re-keying takeover the node id names another peer than that address: outside this rule)
                node = [n for n in (prev.get("nodes") or []) if s is not None and n["obj"] == s["node"]]
                same_addr = bool(node) and node[0]["addr"] == addr_of(prefix, ev["peer"])
                if ev["msg"]["hdr"] == 0 and s is not None and not twins and same_addr and _owner_peer(prev, s, prefix) == ev["peer"]:
                    if live(o["dump"], lid) is not None:
                        bad.append((i, "peer %d answered the report about session %d with SEID 0: the session is still there" % (ev["peer"], lid)))
                    elif any(r[0] == lid for r in (o["dp"] or [])):
                        bad.append((i, "session %d ended by a SEID-0 report response, rules left in the data plane" % lid))
    return bad


def mon_c01(case, obs, prefix):
    bad = []
    under = {}      # ghost: UP SEID -> node id the session is established under (tracked from the requests)
    for i, ev, o, prev, prev_dp, dup in walk(case, obs, prefix):
        if o.get("fault"):
            bad.append((i, "fault: " + o["fault"]))
            break
        d, dp = o["dump"], o["dp"] or []
        kinds = ["pdr", "far", "qer", "urr", "bar"]
        m = ev.get("msg") or {}
        if ev["t"] == "recv" and not dup:
            if m["k"] == "est":
                for x in (o["sends"] or []):
                    if x["type"] == "estrsp" and x["cause"] == 1:
                        under[x["fseid"]] = (m.get("nid") or {}).get("v")
            elif m["k"] == "mod" and (m.get("nid") or {}).get("v") is not None and live(prev, m["seid"]) is not None:
                obj = live(prev, m["seid"])["node"]
                other = (prev.get("rnodes") or {}).get(peer_ip(prefix, m["nid"]["v"]))
                if other is not None and other != obj:
                    under[m["seid"]] = m["nid"]["v"]        # the new id has its own association: only this session moves
                else:
                    for idx, s_ in enumerate(prev.get("slots") or []):
                        if s_ is not None and s_["node"] == obj:
                            under[idx + 1] = m["nid"]["v"]
            elif m["k"] == "asr" and (m.get("nid") or {}).get("v") is not None:
                # re-association ends every session established under that node id: none may stay, none of its rules may stay
                nid = m["nid"]["v"]
                for lid in sorted(l for l, n in under.items() if n == nid and live(prev, l) is not None):
                    left = [r for r in dp if r[0] == lid]
                    if live(d, lid) is not None or left:
                        bad.append((i, "re-association of node %d: session %d established under it is still there (rules left in the data plane: %s)"
                                    % (nid, lid, left)))
        for seid, k, rid in dp:
            s = live(d, seid)
            if s is None:
                bad.append((i, "data plane holds %s %d of SEID %d which is not live" % (kinds[k], rid, seid)))
            elif rid not in recorded(s, kinds[k]):
                bad.append((i, "data plane holds %s %d of SEID %d which the session has not recorded" % (kinds[k], rid, seid)))
        created = set()
        for c in o["drv"] or []:
            if c["op"] == "create":
                created.add((c["seid"], c["kind"], c["id"]))
                continue
            s = live(prev, c["seid"])
            ok = s is not None and c["id"] in recorded(s, c["kind"])
            if not ok and (c["seid"], c["kind"], c["id"]) not in created:
                # ids recorded earlier in the same message (URR created and queried in one request ...)
                s2 = live(d, c["seid"])
                if not (s2 is not None and c["id"] in recorded(s2, c["kind"])):
                    bad.append((i, "%s %s %d of SEID %d reached the driver although the session never created it"
                                % (c["op"], c["kind"], c["id"], c["seid"])))
        for idx, s in enumerate(prev.get("slots") or []):
            if s is None:
                continue
            now = live(d, idx + 1)
            ended = now is None or now["rid"] != s["rid"] or now["node"] != s["node"]
            if ended and now is None and any(r[0] == idx + 1 for r in dp):
                bad.append((i, "session %d ended but rules of it remain in the data plane: %s"
                            % (idx + 1, [r for r in dp if r[0] == idx + 1])))
        for lid in list(under):
            if live(d, lid) is None:
                del under[lid]
    if not bad:
        bad += srr_must_end(case, obs, prefix)
    return bad


def mon_c06(case, obs, prefix):
    bad = []
    lost = set()       # keys whose original response failed in the socket (wfail events)
    ndatagrams = 0
    for i, ev, o, prev, prev_dp, dup in walk(case, obs, prefix):
        sends = o["sends"] or []
        first_idx = ndatagrams
        ndatagrams += len(sends)
        if o.get("fault"):
            bad.append((i, "fault: " + o["fault"]))
            break
        d = o["dump"]
        if ev["t"] == "timeout" and not ev["tx"]:
            if rx_entry(d, key_of(prefix, ev["peer"], ev["seq"])) is not None:
                bad.append((i, "retention expiry did not release the receive transaction"))
        for e in d.get("rx") or []:
            if not e.get("timer", True):
                bad.append((i, "receive transaction %s has no retention timer: its bookkeeping is never released" % e["key"]))
                break
        if ev["t"] != "recv" or ev["msg"]["k"] in ("srr", "otherrsp"):
            continue
        key = key_of(prefix, ev["peer"], ev["seq"])
        if dup:
            if o["drv"]:
                bad.append((i, "retransmitted request reached the data plane again"))
            if core(prev, prev_dp) != core(d, o["dp"] or []) or json.dumps(norm(prev["rx"]), sort_keys=True) != json.dumps(norm(d["rx"]), sort_keys=True):
                bad.append((i, "retransmitted request changed state"))
            cached = rx_entry(prev, key)["cached"]
            if cached:
                if ev.get("wfail") and not sends:
                    pass        # the re-send failed in the socket as well
                elif len(sends) != 1 or sends[0]["dst"] != ev["peer"] or (sends[0]["class"] >= first_idx and key not in lost):
                    bad.append((i, "retransmitted request not answered with a byte-identical copy of the original response"))
                if sends:
                    lost.discard(key)
            elif sends:
                bad.append((i, "retransmitted request without stored response was answered"))
        else:
            lost.discard(key)
            if ev.get("wfail") and not sends:
                lost.add(key)       # the original response never left the UPF: the first copy the peer sees defines "identical"
            if rx_entry(d, key) is None:
                bad.append((i, "first copy of a request left no receive transaction"))
    return bad


def mon_c07(case, obs, prefix):
    bad = mon_no_fault(case, obs, prefix)
    for i, ev, o, prev, prev_dp, dup in walk(case, obs, prefix):
        if o.get("fault"):
            break
        if ev["t"] == "recv" and ev["msg"]["k"] == "hb" and not dup and not ev.get("wfail"):
            s = o["sends"] or []
            if len(s) != 1 or s[0]["type"] != "hbrsp" or s[0]["seq"] != ev["seq"] or s[0]["dst"] != ev["peer"]:
                bad.append((i, "Heartbeat Request not answered"))
    # "sessions not addressed by the offending messages are intact": the frame rules of C05 (histories without a scripted
    # driver panic: an aborted request is judged by the model comparison)
    if not bad and not any(ev.get("panic") for ev in case["events"]):
        bad += [(i, "sessions not addressed must stay intact: " + m) for i, m in mon_c05(case, obs, prefix)]
    return bad


def mon_c08x(case, obs, prefix):
    """C08 plus: the UP F-SEID returned by a successful establishment addresses that session from then on - nothing but its
    own deletion, its node's re-association or its own peer's SEID-0 report response may end it (the frame rules of C05)"""
    bad = mon_c08(case, obs, prefix)
    if not bad:
        bad += [(i, "the F-SEID must go on addressing its session: " + m) for i, m in mon_c05(case, obs, prefix)]
    return bad


def mon_c09(case, obs, prefix):
    bad = []
    ndatagrams = 0
    lost = set()       # requests whose first transmission failed in the socket (wfail events): nothing to be identical to yet
    for i, ev, o, prev, prev_dp, dup in walk(case, obs, prefix):
        sends = o["sends"] or []
        if ev["t"] == "report" and ev.get("wfail") and not sends and not o.get("fault"):
            lost |= {e["key"] for e in (o["dump"].get("tx") or [])} - {e["key"] for e in (prev.get("tx") or [])}
        first_idx = ndatagrams
        ndatagrams += len(sends)
        if o.get("fault"):
            bad.append((i, "fault: " + o["fault"]))
            break
        d = o["dump"]
        for e in d.get("tx") or []:
            if not e.get("timer", True):
                bad.append((i, "outstanding request %s has no retransmission timer: it is neither retried nor abandoned" % e["key"]))
                break
        outstanding = {e["key"] for e in prev.get("tx") or []}
        fresh = [s for s in sends if s["type"] == "srreq" and not (ev["t"] == "timeout" and ev["tx"])]
        seen = set()
        for s in fresh:
            if s["seq"] >= 2 ** 24:
                bad.append((i, "Session Report Request sequence number %d outside the 24-bit space" % s["seq"]))
            k = key_of(prefix, s["dst"], s["seq"])
            if k in outstanding or k in seen:
                bad.append((i, "new Session Report Request re-uses the sequence number of an outstanding one"))
            seen.add(k)
            if tx_entry(d, k) is None:
                bad.append((i, "Session Report Request with sequence %d is not registered under that number" % s["seq"]))
        if ev["t"] == "timeout" and ev["tx"]:
            k = key_of(prefix, ev["peer"], ev["seq"])
            e0 = tx_entry(prev, k)
            if e0 is None:
                if sends or core(prev, prev_dp) != core(d, o["dp"] or []):
                    bad.append((i, "expiry for an unknown transmit transaction had an effect"))
            elif e0["count"] < case["maxretrans"]:
                e1 = tx_entry(d, k)
                if ev.get("wfail") and not sends:
                    pass        # the retransmission failed in the socket: counted all the same (below)
                elif len(sends) != 1 or (sends[0]["class"] >= first_idx and k not in lost) or sends[0]["seq"] != ev["seq"]:
                    bad.append((i, "expiry did not retransmit the request byte-identically"))
                if sends:
                    lost.discard(k)
                if e1 is None or e1["count"] != e0["count"] + 1:
                    bad.append((i, "retry counter not advanced by one"))
            else:
                if sends or tx_entry(d, k) is not None:
                    bad.append((i, "request not abandoned after the last retry"))
        if ev["t"] == "recv" and ev["msg"]["k"] in ("srr", "otherrsp"):
            k = key_of(prefix, ev["peer"], ev["seq"])
            if tx_entry(prev, k) is None:
                if sends or o["drv"] or core(prev, prev_dp) != core(d, o["dp"] or []):
                    bad.append((i, "response matching no outstanding request had an effect"))
            else:
                if tx_entry(d, k) is not None:
                    bad.append((i, "matching response did not release the transmit transaction"))
                if any(s["type"] == "srreq" for s in sends):
                    bad.append((i, "a request was sent while handling its response"))
    return bad


def _slot_json(s):
    return json.dumps(norm(s, True), sort_keys=True)


def mon_c05(case, obs, prefix):
    bad = []
    under = {}      # ghost: UP SEID -> node id the session is established under (as the property words it)
    for i, ev, o, prev, prev_dp, dup in walk(case, obs, prefix):
        if o.get("fault"):
            bad.append((i, "fault: " + o["fault"]))
            break
        d, dp = o["dump"], o["dp"] or []
        pslots, slots = prev.get("slots") or [], d["slots"] or []
        addressed = None         # the SEIDs this event may touch
        m = ev.get("msg") or {}
        if ev["t"] == "recv" and not dup:
            if m["k"] == "est":
                new = [s["fseid"] for s in (o["sends"] or []) if s["type"] == "estrsp" and s["cause"] == 1]
                addressed = set(new)
                for f in new:
                    if live(prev, f) is not None:
                        bad.append((i, "establishment was given user-plane SEID %d, which belongs to a live session: that session is overwritten" % f))
                nid = (m.get("nid") or {}).get("v")
                for f in new:
                    under[f] = nid
            elif m["k"] in ("mod", "del"):
                addressed = {m["seid"]}
                if m["k"] == "mod" and (m.get("nid") or {}).get("v") is not None and live(prev, m["seid"]) is not None:
                    # takeover: if the new id has an association of its own, this session moves to it; otherwise the
                    # session's node is re-keyed and all its sessions are from now on under the new id
                    obj = live(prev, m["seid"])["node"]
                    other = (prev.get("rnodes") or {}).get(peer_ip(prefix, m["nid"]["v"]))
                    if other is not None and other != obj:
                        under[m["seid"]] = m["nid"]["v"]
                    else:
                        for idx, s in enumerate(pslots):
                            if s is not None and s["node"] == obj:
                                under[idx + 1] = m["nid"]["v"]
            elif m["k"] == "asr":
                nid = (m.get("nid") or {}).get("v")
                if nid is not None:
                    # judged on the ghost alone: whether the implementation still knows the node is part of what is checked
                    addressed = {lid for lid, n in under.items() if n == nid and live(prev, lid) is not None}
                    for lid in sorted(addressed):
                        if live(d, lid) is not None and _slot_json(live(d, lid)) == _slot_json(live(prev, lid)):
                            bad.append((i, "re-association of node %d left session %d, established under that node id, in place" % (nid, lid)))
                else:
                    addressed = set()
            elif m["k"] == "srr":
                if m["hdr"] == 0 and tx_entry(prev, key_of(prefix, ev["peer"], ev["seq"])) is not None:
                    gone = [idx + 1 for idx, s in enumerate(pslots) if s is not None and live(d, idx + 1) is None]
                    if len(gone) > 1:
                        bad.append((i, "SEID-0 report response removed %d sessions" % len(gone)))
                    for g in gone:
                        node = [n for n in prev["nodes"] or [] if n["obj"] == pslots[g - 1]["node"]]
                        if not node or node[0]["addr"] != addr_of(prefix, ev["peer"]):
                            bad.append((i, "SEID-0 report response from peer %d removed session %d of another peer" % (ev["peer"], g)))
                    addressed = set(gone)
                else:
                    addressed = set()
            else:
                addressed = set()
        elif ev["t"] == "report":
            addressed = {ev["seid"]}
        else:
            addressed = set()
        for idx in range(max(len(pslots), len(slots))):
            lid = idx + 1
            if lid in addressed:
                continue
            a = pslots[idx] if idx < len(pslots) else None
            b = slots[idx] if idx < len(slots) else None
            if _slot_json(a) != _slot_json(b):
                bad.append((i, "session %d changed although the event does not address it" % lid))
        pr = sorted(tuple(r) for r in prev_dp if r[0] not in addressed)
        nr = sorted(tuple(r) for r in dp if r[0] not in addressed)
        if pr != nr:
            bad.append((i, "data-plane rules of sessions not addressed by the event changed"))
        for c in o["drv"] or []:
            if c["seid"] not in addressed:
                bad.append((i, "driver call tagged with SEID %d which the event does not address" % c["seid"]))
        for lid in list(under):
            if live(d, lid) is None:
                del under[lid]
    if not bad:
        bad += srr_must_end(case, obs, prefix)
        # "buffered packets ... untouched": what a session holds is what was handed up for it, byte for byte, also after the
        # producer has re-used its buffer (the harness scribbles over every packet buffer once the loop has taken the report)
        bad += [(i_, "buffered packets: " + m_) for i_, m_ in mon_c13(case, obs, prefix) if m_.startswith("packet queues")]
    return bad


def peer_ip(prefix, k):
    return "%s%d" % (prefix, 10 + k)


def sig_c05(case, failures):
    """takeover-collision: the history contains a Modification carrying a Node ID that is, at that moment, the id
    of another association (which the re-keying overwrites)"""
    if not any("established under that node id" in m or "changed although" in m or "established under it is still there" in m for _, m in failures):
        return None
    assoc = {}       # node id -> owner token, simulated from the events alone
    sess_node = {}
    nsess = 0
    tok = 0
    for ev in case["events"]:
        if ev["t"] != "recv":
            continue
        m = ev["msg"]
        if m["k"] == "asr" and (m.get("nid") or {}).get("v") is not None:
            tok += 1
            assoc[m["nid"]["v"]] = tok
        if m["k"] == "est" and (m.get("nid") or {}).get("v") in assoc and (m.get("fseid") or {}).get("v") is not None:
            nsess += 1
            sess_node[nsess] = assoc[m["nid"]["v"]]
        if m["k"] == "mod" and (m.get("nid") or {}).get("v") is not None:
            new = m["nid"]["v"]
            cur = sess_node.get(m["seid"])
            if cur is not None and new in assoc and assoc[new] != cur:
                return "takeover-collision"
    return None


def mon_c08(case, obs, prefix):
    bad = []
    rts = set()
    upf = prefix + "1"
    for i, ev, o, prev, prev_dp, dup in walk(case, obs, prefix):
        if o.get("fault"):
            bad.append((i, "fault: " + o["fault"]))
            break
        d = o["dump"]
        sends = o["sends"] or []
        for s in sends:
            if s["type"] in ("hbrsp", "asrsp"):
                rts.add(s["rts"])
        if ev["t"] != "recv" or ev["msg"]["k"] in ("srr", "otherrsp"):
            continue
        m = ev["msg"]
        for s in sends:
            if s["type"] in ("hbrsp", "asrsp", "estrsp", "modrsp", "delrsp"):
                if s["dst"] != ev["peer"]:
                    bad.append((i, "response sent to peer %d, request came from peer %d" % (s["dst"], ev["peer"])))
                if s["seq"] != ev["seq"]:
                    bad.append((i, "response carries sequence %d, request had %d" % (s["seq"], ev["seq"])))
        if dup:
            continue
        rsp = [s for s in sends if s["type"] in ("hbrsp", "asrsp", "estrsp", "modrsp", "delrsp")]
        accepted = any(s["type"] in ("hbrsp",) or s["cause"] == 1 for s in rsp)
        if m["k"] in ("mod", "del"):
            tgt = live(prev, m["seid"])
            for s in rsp:
                if tgt is None and not (s["seid"] == 0 and s["cause"] == 65):
                    bad.append((i, "response for a non-existent session must carry SEID 0 and cause 65"))
                if tgt is not None and s["seid"] != tgt["rid"]:
                    bad.append((i, "response header SEID %d is not the session's CP SEID %d" % (s["seid"], tgt["rid"])))
        if m["k"] == "est":
            for s in rsp:
                if s["cause"] == 1:
                    if s["nodeid"] != upf:
                        bad.append((i, "Establishment Response carries node id %r" % s["nodeid"]))
                    ns = live(d, s["fseid"])
                    if ns is None or ns["rid"] != s["seid"] or live(prev, s["fseid"]) is not None:
                        bad.append((i, "UP F-SEID %d does not address the new session" % s["fseid"]))
                    want = [p["id"] if p["id"] is not None else 0 for p in (m.get("ops") or {}).get("cPDR", []) if p.get("ueip")]
                    if (s["created"] or []) != want:
                        bad.append((i, "Created PDR list %s, expected %s" % (s["created"], want)))
        if m["k"] == "asr":
            for s in rsp:
                if s["nodeid"] != upf:
                    bad.append((i, "Association Setup Response carries node id %r" % s["nodeid"]))
        if not accepted and m["k"] in ("est", "mod", "del", "asr"):
            if core(prev, prev_dp) != core(d, o["dp"] or []):
                bad.append((i, "request answered with an error cause or not at all left a trace in session / data-plane state"))
            if o["drv"]:
                bad.append((i, "request answered with an error cause or not at all reached the data plane"))
    if len(rts) > 1:
        bad.append((len(obs) - 1, "recovery time stamps differ within one run: %s" % sorted(rts)))
    return bad


TERMR, IMMER = 2048, 128


def _sess_urrs(sess):
    return {u["id"]: u for u in (sess["urrs"] or [])} if sess else {}


def _owner_peer(dump, sess, prefix):
    for n in dump.get("nodes") or []:
        if n["obj"] == sess["node"]:
            ip = n["id"]
            if ip.startswith(prefix):
                try:
                    return int(ip[len(prefix):]) - 10
                except ValueError:
                    return None
    return None


def _expect_ie(u, r, seqn=None):
    """the usage-report IE go-upf must build for driver report r of a URR with profile u (TS 29.244 7.5.8.3)"""
    trig = r["trig"] % (1 << 24)
    no_times = bool(r["trig"] & (16 | 32 | (1 << 14)))
    vf = (r.get("vflags", 0) | 7 | (56 if u["mnop"] else 0)) % 256
    cnt = (list(r["cnt"]) + [0] * 6)[:6]
    return {"urr": r["urr"], "trig": trig, "start": None if no_times else r["start"], "end": None if no_times else r["end"],
            "vol": {"flags": vf, "cnt": [c if vf & (1 << i) else 0 for i, c in enumerate(cnt)]} if u["volum"] else None,
            "dur": (r.get("dur", 0) % (1 << 32)) if u["durat"] else None}


def _ie_matches(ie, exp, extra_trig=0):
    return (ie["urr"] == exp["urr"] and ie["trig"] == (exp["trig"] | extra_trig) % (1 << 24) and ie["start"] == exp["start"]
            and ie["end"] == exp["end"] and ie["vol"] == exp["vol"] and ie["dur"] == exp["dur"])


def _profile_apply(prof, lid, ops, held, drv=None):
    """what the SMF configured, tracked from the requests alone (Create URR, then Remove, then Update URR: the handlers'
    order): measurement method bits DURAT=1 VOLUM=2 EVENT=4, measurement information MNOP=0x10.  A Create URR for a URR
    the session holds which the data plane rejects (it has the rule) changes nothing; a removed URR is no longer tracked."""
    touched = set()
    held = set(held)
    results = [c["ok"] for c in (drv or []) if c["op"] == "create" and c["kind"] == "urr"]
    k = 0
    for u in ops.get("cURR", []) or []:
        if u.get("id") is None:
            continue
        ok = results[k] if k < len(results) else True
        k += 1
        if u["id"] in held and not ok and (lid, u["id"]) in prof:
            continue        # duplicate Create URR, rejected by the data plane: the running URR keeps its profile
        m, inf = u.get("method") or 0, u.get("info") or 0
        prof[(lid, u["id"])] = {"durat": bool(m & 1), "volum": bool(m & 2), "event": bool(m & 4), "mnop": bool(inf & 0x10)}
        touched.add(u["id"])
        held.add(u["id"])
    for i in ops.get("rURR", []) or []:
        if i is not None and i in held:
            prof.pop((lid, i), None)
            held.discard(i)
            touched.add(i)
    for u in ops.get("uURR", []) or []:
        k_ = (lid, u.get("id"))
        if u.get("id") is None or (k_ not in prof) or u["id"] not in held:
            continue
        if u.get("method") is not None:
            m = u["method"]
            prof[k_] = dict(prof[k_], durat=bool(m & 1), volum=bool(m & 2), event=bool(m & 4))
        if u.get("info") is not None:
            prof[k_] = dict(prof[k_], mnop=bool(u["info"] & 0x10))
        touched.add(u["id"])
    return touched


def mon_c10(case, obs, prefix):
    bad = []
    prof = {}      # (UP SEID, URR id) -> measurement profile the SMF configured last (independent of the implementation's)
    gone = set()   # (UP SEID, URR id): removed by an executed Remove URR which the data plane carried out, not created again
    for i, ev, o, prev, prev_dp, dup in walk(case, obs, prefix):
        if o.get("fault"):
            bad.append((i, "fault: " + o["fault"]))
            break
        d = o["dump"]
        sends = o["sends"] or []
        if ev["t"] == "recv" and not dup and ev["msg"]["k"] in ("est", "mod", "del") and not o.get("panicked"):
            ops = ev["msg"].get("ops") or {}
            if ev["msg"]["k"] == "est":
                for sl in d["slots"] or []:
                    if sl is not None and live(prev, sl["lid"]) is None:
                        gone = {k for k in gone if k[0] != sl["lid"]}
            elif ev["msg"]["k"] == "del":
                if live(d, ev["msg"]["seid"]) is None:
                    gone = {k for k in gone if k[0] != ev["msg"]["seid"]}
            elif any(x["type"] == "modrsp" and x["cause"] == 1 for x in sends):
                lid_ = ev["msg"]["seid"]
                for u in ops.get("cURR", []) or []:
                    gone.discard((lid_, u.get("id")))
                for c_ in o.get("drv") or []:
                    if c_["op"] == "remove" and c_["kind"] == "urr" and c_["ok"] and c_["id"] in (ops.get("rURR") or []):
                        gone.add((lid_, c_["id"]))
        if ev["t"] == "report":
            items = ev["items"]
            s = live(prev, ev["seid"])
            reqs = [x for x in sends if x["type"] == "srreq"]
            if s is None:
                if sends or core(prev, prev_dp) != core(d, o["dp"] or []):
                    bad.append((i, "report for SEID %d (not live) had an effect" % ev["seid"]))
                continue
            for x in reqs:
                for ie in x["urs"] or []:
                    if (ev["seid"], ie["urr"]) in gone:
                        bad.append((i, "Usage Report IE for URR %d of session %d sent although the SMF removed that URR (Remove URR executed, "
                                       "carried out by the data plane, URR not created again): a removed URR is unknown" % (ie["urr"], ev["seid"])))
            owner = _owner_peer(prev, s, prefix)
            for x in reqs:
                if x["dst"] != owner:
                    bad.append((i, "Session Report Request sent to peer %s, the session belongs to node %s" % (x["dst"], owner)))
                if x["seid"] != s["rid"]:
                    bad.append((i, "Session Report Request carries SEID %d, the peer's SEID is %d" % (x["seid"], s["rid"])))
            if all(it.get("usa") for it in items):
                urrs = _sess_urrs(s)
                known = [it["usa"] for it in items if it["usa"]["urr"] in urrs]
                usar = [x for x in reqs if x["dldr"] < 0]
                if known:
                    if len(usar) != 1:
                        bad.append((i, "usage report for a live session and known URR produced %d Session Report Requests" % len(usar)))
                        continue
                    ies = usar[0]["urs"] or []
                    if len(ies) != len(known):
                        bad.append((i, "%d usage reports for known URRs, %d Usage Report IEs sent" % (len(known), len(ies))))
                        continue
                    for r, ie in zip(known, ies):
                        u = prof.get((ev["seid"], r["urr"]), urrs[r["urr"]])
                        if not _ie_matches(ie, _expect_ie(u, r)):
                            bad.append((i, "Usage Report IE %s does not carry the measured values %s intact (URR profile configured by the SMF: %s)" % (
                                {k: ie[k] for k in ("urr", "trig", "start", "end", "vol", "dur")}, _expect_ie(u, r),
                                {k: u[k] for k in ("durat", "volum", "mnop")})))
        elif ev["t"] == "recv" and not dup and ev["msg"]["k"] == "est":
            for sl in d["slots"] or []:
                if sl is not None and live(prev, sl["lid"]) is None:
                    for k in [k for k in prof if k[0] == sl["lid"]]:
                        del prof[k]
                    _profile_apply(prof, sl["lid"], ev["msg"].get("ops") or {}, set(), o["drv"])
        elif ev["t"] == "recv" and not dup and ev["msg"]["k"] in ("mod", "del"):
            # every IE in the response stems from a report the data plane returned during this request, values intact
            s = live(prev, ev["msg"]["seid"])
            snow = live(d, ev["msg"]["seid"])
            if s is None:
                continue
            lid = ev["msg"]["seid"]
            touched = set()
            if ev["msg"]["k"] == "mod" and any(x["type"] == "modrsp" and x["cause"] == 1 for x in sends):
                touched = _profile_apply(prof, lid, ev["msg"].get("ops") or {},
                                         {u for u, x in _sess_urrs(s).items() if not x.get("removed")}, o["drv"])
            scripted = [r for u in ev.get("usage", []) for r in u["rpts"]]
            profiles = dict(_sess_urrs(s))
            profiles.update(_sess_urrs(snow))
            for x in sends:
                if x["type"] not in ("modrsp", "delrsp"):
                    continue
                for ie in x["urs"] or []:
                    u = profiles.get(ie["urr"])
                    if u is None:
                        continue
                    u = prof.get((lid, ie["urr"]), u)
                    cands = [r for r in scripted if r["urr"] == ie["urr"]]
                    if not any(_ie_matches(ie, _expect_ie(u, r), t) for r in cands for t in (0, TERMR, IMMER, TERMR | IMMER)):
                        # a URR whose profile this very request (re)defines more than once: accept any profile bits
                        alt = [dict(u, volum=v, durat=dd, mnop=m) for v in (0, 1) for dd in (0, 1) for m in (0, 1)] if ie["urr"] in touched else []
                        if not any(_ie_matches(ie, _expect_ie(a, r), t) for a in alt for r in cands for t in (0, TERMR, IMMER, TERMR | IMMER)):
                            bad.append((i, "Usage Report IE for URR %d in the response matches no report the data plane returned "
                                           "(values or measurement IEs differ; profile configured by the SMF: %s)" % (
                                               ie["urr"], {k: u[k] for k in ("durat", "volum", "mnop")})))
            if ev["msg"]["k"] == "del" and snow is None:
                for k in [k for k in prof if k[0] == lid]:
                    del prof[k]
    return bad


def mon_c11(case, obs, prefix):
    bad = []
    nxt = {}       # (UP SEID, URR id) -> next UR-SEQN expected, tracked independently of the implementation
    ended = {}     # (UP SEID, URR id) -> the URR was removed but its bookkeeping entry is still there (no final report came)
    lost = {}      # transaction key -> UP SEID of a Session Report Request whose first transmission failed in the socket
    for i, ev, o, prev, prev_dp, dup in walk(case, obs, prefix):
        if o.get("fault"):
            bad.append((i, "fault: " + o["fault"]))
            break
        d = o["dump"]
        sends = o["sends"] or []
        lid = None
        if ev["t"] == "setseq":
            nxt[(ev["seid"], ev["urr"])] = ev["v"]      # the harness positioned the counter (C11 counter phase)
            continue
        if ev["t"] == "report":
            lid = ev["seid"]
            carriers = [x for x in sends if x["type"] == "srreq" and x["dldr"] < 0]
            if ev.get("wfail") and not sends:
                # the request never left the UPF (socket write failed): its usage reports have been numbered all the same and
                # reach the SMF with the first retransmission
                for e_ in d.get("tx") or []:
                    if tx_entry(prev, e_["key"]) is None:
                        lost[e_["key"]] = lid
        elif ev["t"] == "timeout" and ev.get("tx") and key_of(prefix, ev["peer"], ev["seq"]) in lost and sends:
            lid = lost.pop(key_of(prefix, ev["peer"], ev["seq"]))
            carriers = [x for x in sends if x["type"] == "srreq" and x["dldr"] < 0]
        elif ev["t"] == "recv" and not dup and ev["msg"]["k"] in ("mod", "del"):
            lid = ev["msg"]["seid"]
            carriers = [x for x in sends if x["type"] in ("modrsp", "delrsp") and x["cause"] == 1]
        else:
            carriers = []
        if lid is not None and live(prev, lid) is not None:
            before = _sess_urrs(live(prev, lid))
            # URRs created by this very request start at 0 (they may report in the same response)
            created = set()
            if ev["t"] == "recv" and ev["msg"]["k"] == "mod":
                created = {u["id"] for u in (ev["msg"].get("ops") or {}).get("cURR", []) if u.get("id") is not None}
            for x in carriers:
                for ie in x["urs"] or []:
                    k = (lid, ie["urr"])
                    if ie["urr"] in created and (ie["urr"] not in before or before[ie["urr"]].get("removed")):
                        nxt[k] = 0
                        created.discard(ie["urr"])
                        ended.pop(k, None)          # the new life has begun (and has reported) within this very response
                    want = nxt.get(k, 0)
                    if ended.get(k) and ie["urr"] not in created:
                        # report for a URR whose removal produced no final report (its entry lingers, marked removed): the
                        # property does not say whether such a stale report continues or restarts - accept both
                        want = ie["seqn"] if ie["seqn"] in (want, 0) else want
                    if ie["seqn"] != want:
                        bad.append((i, "UR-SEQN %d for URR %d of session %d, expected %d" % (ie["seqn"], ie["urr"], lid, want)))
                    nxt[k] = (ie["seqn"] + 1) % (1 << 32)
        # bookkeeping: URRs and sessions that ended restart at 0
        for (l, u) in list(nxt):
            s = live(d, l)
            if s is None or u not in _sess_urrs(s) or (live(prev, l) is not None and live(prev, l)["rid"] != s["rid"]):
                del nxt[(l, u)]
                ended.pop((l, u), None)
            elif _sess_urrs(s)[u].get("removed"):
                ended[(l, u)] = True        # removed, entry lingers: a Create URR for this id starts a new life at 0
            elif ended.get((l, u)):
                nxt[(l, u)] = 0             # re-created (entry live again) without having reported in that response
                ended.pop((l, u))
    return bad


def sig_c11(case, failures, trace=None, prefix=""):
    """create-urr-existing-id: the FIRST failure concerns a (session, URR) for which an earlier Create URR IE named the id
    while the session still held it, not removed (judged on the implementation's own state dumps), or twice in one request"""
    import re as _re
    m0 = _re.match(r"UR-SEQN \d+ for URR (\d+) of session (\d+)", failures[0][1]) if failures else None
    if not m0 or trace is None:
        return None
    urr, lid, upto = int(m0.group(1)), int(m0.group(2)), failures[0][0]
    for i, ev, o, prev, prev_dp, dup in walk(case, trace, prefix):
        if i > upto:
            break
        if ev["t"] != "recv" or dup or ev["msg"]["k"] not in ("est", "mod"):
            continue
        ids = [u.get("id") for u in (ev["msg"].get("ops") or {}).get("cURR", [])]
        if urr not in ids:
            continue
        if ev["msg"]["k"] == "est":
            # the session this request created is the one with UP SEID lid?
            if ids.count(urr) > 1 and live(o["dump"], lid) is not None and live(prev, lid) is None:
                return "create-urr-existing-id"
            continue
        if ev["msg"]["seid"] != lid:
            continue
        held = _sess_urrs(live(prev, lid)).get(urr)
        if ids.count(urr) > 1 or (held is not None and not held.get("removed")):
            return "create-urr-existing-id"
    return None


def _pdr_map(sess):
    return {p["id"]: set(p["urrs"] or []) for p in (sess["pdrs"] or [])}


def mon_c12(case, obs, prefix):
    bad = []
    have = {}      # UP SEID -> URR ids created and not removed, tracked from the requests alone
    plist = {}     # UP SEID -> {PDR id: URR ids of the list the SMF last gave for it}, tracked from the requests alone
    for i, ev, o, prev, prev_dp, dup in walk(case, obs, prefix):
        if o.get("fault"):
            bad.append((i, "fault: " + o["fault"]))
            break
        d = o["dump"]
        have_before = {l: set(v) for l, v in have.items()}
        # --- independent URR life-cycle: a URR the SMF created and has not removed must stay known to the session
        if ev["t"] == "recv" and not dup and ev["msg"]["k"] in ("est", "mod"):
            fl = {(f["op"], f["kind"], f["id"]) for f in ev.get("fail", [])}
            ops_ = ev["msg"].get("ops") or {}
            lids = []
            if ev["msg"]["k"] == "est":
                lids = [sl["lid"] for sl in (d["slots"] or []) if sl is not None and live(prev, sl["lid"]) is None]
                for l in lids:
                    have[l] = set()
            elif live(prev, ev["msg"]["seid"]) is not None and live(d, ev["msg"]["seid"]) is not None and \
                    any(x["type"] == "modrsp" and x["cause"] == 1 for x in (o["sends"] or [])):
                lids = [ev["msg"]["seid"]]      # the request was executed (an undecodable Node ID, e.g., makes the handler drop it)
            if ev["msg"]["k"] == "mod" and not lids and ev["msg"]["seid"] in plist:
                plist[ev["msg"]["seid"]] = {}       # rejected / dropped half-way: which PDR operations ran is not asserted
            for l in lids:
                # --- independent PDR -> URR lists: what the SMF last gave for each PDR (only where that is certain)
                pl = plist.setdefault(l, {})
                if ev["msg"]["k"] == "est" or o.get("panicked"):
                    pl.clear()
                if not o.get("panicked"):
                    sprev = live(prev, l) if ev["msg"]["k"] == "mod" else None
                    pm_prev = _pdr_map(sprev) if sprev else {}
                    indp_prev = {(r[1], r[2]) for r in prev_dp if r[0] == l} if ev["msg"]["k"] == "mod" else set()
                    named = [(kd, (p_ if kd == "rPDR" else (p_ or {}).get("id")), p_) for kd in ("cPDR", "uPDR", "rPDR") for p_ in (ops_.get(kd) or [])]
                    for kd, pid, p_ in named:
                        if pid is None:
                            continue
                        if sum(1 for _, q, _ in named if q == pid) > 1 or (kd != "rPDR" and any(x is None for x in (p_.get("urrs") or []))):
                            pl.pop(pid, None)
                        elif kd == "cPDR":
                            if ("create", "pdr", pid) in fl or pid in pm_prev or (KIDX["pdr"], pid) in indp_prev:
                                pl.pop(pid, None)
                            else:
                                pl[pid] = set(p_.get("urrs") or [])
                        elif kd == "uPDR":
                            if ("update", "pdr", pid) in fl or (KIDX["pdr"], pid) not in indp_prev:
                                pl.pop(pid, None)
                            elif p_.get("urrs") and pid in pl:
                                pl[pid] = set(p_["urrs"])
                        else:
                            pl.pop(pid, None)
                cur = have.setdefault(l, set())
                for u in ops_.get("cURR", []) or []:
                    if u.get("id") is not None and ("create", "urr", u["id"]) not in fl:
                        cur.add(u["id"])
                    elif u.get("id") is not None:
                        cur.discard(u["id"])          # failed create: state of that id not asserted
                for u in ops_.get("rURR", []) or []:
                    cur.discard(u)
        for l in list(have):
            sl = live(d, l)
            if sl is None or (live(prev, l) is not None and live(prev, l)["rid"] != sl["rid"] and ev["t"] == "recv" and ev["msg"]["k"] == "est"):
                if sl is None:
                    del have[l]
                continue
            known = _sess_urrs(sl)
            for u in sorted(have[l]):
                if u not in known or known[u].get("removed"):
                    bad.append((i, "URR %d of session %d, created by the SMF and never removed, is no longer known to the session: "
                                   "its removal or the session's deletion cannot return its final usage" % (u, l)))
                    have[l].discard(u)
        for l in list(plist):
            sl = live(d, l)
            if sl is None:
                del plist[l]
                continue
            pm = _pdr_map(sl)
            for pid, want_ in sorted(plist[l].items()):
                if pid in pm and pm[pid] != want_:
                    bad.append((i, "session %d: PDR %d is recorded as referring to URRs %s, the SMF's current URR list for it is %s"
                                   % (l, pid, sorted(pm[pid]), sorted(want_))))
                    del plist[l][pid]
        for idx, s in enumerate(d["slots"] or []):
            if s is None:
                continue
            pm = _pdr_map(s)
            for u in s["urrs"] or []:
                refs = sum(1 for ids in pm.values() if u["id"] in ids)
                if u["ref"] != refs:
                    bad.append((i, "session %d: URR %d counts %d referring PDRs, %d PDRs name it" % (idx + 1, u["id"], u["ref"], refs)))
        if ev["t"] != "recv" or dup or ev["msg"]["k"] not in ("mod", "del"):
            continue
        m = ev["msg"]
        s = live(prev, m["seid"])
        if s is None:
            continue
        rsp = [x for x in (o["sends"] or []) if x["type"] in ("modrsp", "delrsp") and x["cause"] == 1]
        ies = [ie for x in rsp for ie in (x["urs"] or [])]
        if m["k"] == "del":
            for ie in ies:
                if not ie["trig"] & TERMR:
                    bad.append((i, "usage report for URR %d in the Deletion Response is not marked as termination report" % ie["urr"]))
            seen = [ie["urr"] for ie in ies]
            if len(seen) != len(set(seen)):
                bad.append((i, "Deletion Response carries more than one report for a URR"))
            continue
        ops = m.get("ops") or {}
        touched = [k for k in ("cURR", "cPDR", "rURR", "uURR", "uPDR", "rPDR", "qURR") if ops.get(k)]
        urrs = _sess_urrs(s)
        fails = {(f["op"], f["kind"], f["id"]) for f in ev.get("fail", [])}
        usage = {}
        for u in ev.get("usage", []):
            usage.setdefault((u["op"], u["id"]), u["rpts"])
        indp = {(r[1], r[2]) for r in prev_dp if r[0] == m["seid"]}
        if touched == ["rPDR"] or touched == ["uPDR"]:
            # exact expectation for a request that only removes / re-points PDRs
            pm = _pdr_map(s)
            ref = {u: sum(1 for ids in pm.values() if u in ids) for u in urrs}
            expect = []
            if touched == ["rPDR"]:
                for pid in ops["rPDR"]:
                    if pid is None or pid not in pm or (KIDX["pdr"], pid) not in indp:
                        continue
                    for u in sorted(pm.pop(pid)):
                        if u in ref and ref[u] > 0:
                            ref[u] -= 1
                            if ref[u] == 0 and (KIDX["urr"], u) in indp and ("query", "urr", u) not in fails:
                                expect += [(u, r) for r in usage.get(("query", u), [])]
                    indp.discard((KIDX["pdr"], pid))
            else:
                for p in ops["uPDR"]:
                    pid = p.get("id") if p.get("id") is not None else 0
                    if pid not in pm or (KIDX["pdr"], pid) not in indp or ("update", "pdr", pid) in fails or not p.get("urrs"):
                        continue
                    new = set(p["urrs"])
                    for u in sorted(new - pm[pid]):
                        if u in ref:
                            ref[u] += 1
                    for u in sorted(pm[pid] - new):
                        if u in ref and ref[u] > 0:
                            ref[u] -= 1
                            if ref[u] == 0 and (KIDX["urr"], u) in indp and ("query", "urr", u) not in fails:
                                expect += [(u, r) for r in usage.get(("query", u), [])]
                    pm[pid] = new
            exp_known = [(u, r) for (u, r) in expect if r["urr"] in urrs]
            got = sorted((ie["urr"], ie["trig"]) for ie in ies)
            want = sorted((r["urr"], (r["trig"] | TERMR) % (1 << 24)) for (u, r) in exp_known)
            if got != want:
                bad.append((i, "final usage of dissociated URRs: response carries %s (urr, trigger), expected %s" % (got, want)))
        if touched == ["rURR"]:
            want = []
            gone = set()
            for u in ops["rURR"]:
                if u is None or u not in urrs or u in gone:
                    continue
                if (KIDX["urr"], u) in indp:
                    rs = [r for r in usage.get(("remove", u), []) if r["urr"] in urrs and r["urr"] not in gone]
                    indp.discard((KIDX["urr"], u))
                    for r in rs[:1] if any(r["urr"] == u for r in rs[:1]) else rs:
                        want.append((r["urr"], (r["trig"] | TERMR) % (1 << 24)))
                    if rs and rs[0]["urr"] == u:
                        gone.add(u)
            for ie in ies:
                if not ie["trig"] & TERMR:
                    bad.append((i, "report for removed URR %d is not marked as termination report" % ie["urr"]))
            # lower bound from the independent life-cycle: a removed URR's own final report must be in the response
            # (only when every scripted report carries the id of the URR it was returned for)
            if all(r["urr"] == u_["id"] for u_ in ev.get("usage", []) for r in u_["rpts"]):
                got = {(ie["urr"], ie["trig"]) for ie in ies}
                done = set()
                for u in ops["rURR"]:
                    if u is None or u in done or u not in have_before.get(m["seid"], set()) or (KIDX["urr"], u) not in {(r[1], r[2]) for r in prev_dp if r[0] == m["seid"]}:
                        continue
                    done.add(u)
                    rs = usage.get(("remove", u), [])
                    if rs and (u, (rs[0]["trig"] | TERMR) % (1 << 24)) not in got:
                        bad.append((i, "Remove URR %d: the data plane returned its final usage, the response does not carry it as a termination report" % u))
        if touched == ["qURR"]:
            for ie in ies:
                if not ie["trig"] & IMMER:
                    bad.append((i, "report for queried URR %d is not marked as immediate report" % ie["urr"]))
            # lower bound from the independent life-cycle: a URR the SMF created and has not removed, installed in the data
            # plane, whose query the data plane answers with a report, yields an immediate report in the response - whether
            # or not a PDR currently names it
            if all(r["urr"] == u_["id"] for u_ in ev.get("usage", []) for r in u_["rpts"]):
                got = {(ie["urr"], ie["trig"]) for ie in ies}
                done = set()
                for u in ops["qURR"]:
                    if u is None or u in done or u not in have_before.get(m["seid"], set()) or (KIDX["urr"], u) not in indp \
                            or ("query", "urr", u) in fails:
                        continue
                    done.add(u)
                    rs = usage.get(("query", u), [])
                    if rs and (u, (rs[0]["trig"] | IMMER) % (1 << 24)) not in got:
                        bad.append((i, "Query URR %d: the data plane returned a report, the response does not carry it as an immediate report" % u))
    return bad


def sig_c12(case, failures, trace=None, prefix=""):
    """create-pdr-existing-id: before the first failure, a Create PDR IE named a PDR id which the addressed session held
    at that moment (judged on the implementation's own state dumps), or one request named an id twice"""
    if not failures or trace is None or not ("referring PDRs" in failures[0][1] or failures[0][1].startswith("final usage of dissociated")):
        return None
    upto = failures[0][0]
    for i, ev, o, prev, prev_dp, dup in walk(case, trace, prefix):
        if i > upto:
            break
        if ev["t"] != "recv" or dup or ev["msg"]["k"] not in ("est", "mod"):
            continue
        ids = [(p.get("id") if p.get("id") is not None else 0) for p in (ev["msg"].get("ops") or {}).get("cPDR", [])]
        if len(ids) != len(set(ids)):
            return "create-pdr-existing-id"
        if ev["msg"]["k"] == "mod":
            held = _pdr_map(live(prev, ev["msg"]["seid"])) if live(prev, ev["msg"]["seid"]) is not None else {}
            if any(p in held for p in ids):
                return "create-pdr-existing-id"
    return None


def mon_c13(case, obs, prefix):
    bad = []
    cap = 512
    for i, ev, o, prev, prev_dp, dup in walk(case, obs, prefix):
        if o.get("fault"):
            bad.append((i, "fault: " + o["fault"]))
            break
        d = o["dump"]
        for idx, s in enumerate(d["slots"] or []):
            for q in (s or {}).get("q") or []:
                if len(q["pkts"] or []) > cap:
                    bad.append((i, "queue of session %d PDR %d holds %d packets" % (idx + 1, q["pdr"], len(q["pkts"]))))
        if ev["t"] != "report":
            continue
        s = live(prev, ev["seid"])
        if s is None:
            continue
        now = live(d, ev["seid"])
        qs = {q["pdr"]: list(q["pkts"] or []) for q in (s["q"] or [])}
        dldr = []
        for it in ev["items"]:
            if not it.get("dld"):
                continue
            x = it["dld"]
            if x["action"] & 4 and x["pkt"]:
                q = qs.setdefault(x["pdr"], [])
                if len(q) < cap:
                    q.append(x["pkt"])
            if not x["action"] & 8:
                break
            dldr.append(x["pdr"])
        got = {q["pdr"]: list(q["pkts"] or []) for q in ((now or {}).get("q") or [])}
        if now is not None and got != qs:
            bad.append((i, "packet queues after the notification differ from arrival order / capacity rule"))
        sent = [x["dldr"] for x in (o["sends"] or []) if x["type"] == "srreq" and x["dldr"] >= 0]
        if sent != dldr:
            bad.append((i, "downlink data reports sent for PDRs %s, requested (NOCP) for %s" % (sent, dldr)))
        owner = _owner_peer(prev, s, prefix)
        for x in (o["sends"] or []):
            if x["type"] == "srreq" and x["dldr"] >= 0 and (x["dst"] != owner or x["seid"] != s["rid"]):
                bad.append((i, "downlink data report not addressed to the owning node with the peer's SEID"))
    return bad


def _rc(peer, seq, msg, **kw):
    return dict({"t": "recv", "peer": peer, "seq": seq, "msg": msg, "fail": [], "usage": []}, **kw)


def directed_c05(rnd):
    """the history of the former finding takeover-collision (fixed in 8b22329): a regression case run first"""
    return [{"maxretrans": 1, "txseq0": 0, "events": [
        _rc(0, 1, {"k": "asr", "nid": {"v": 0}}), _rc(1, 1, {"k": "asr", "nid": {"v": 1}}),
        _rc(0, 2, {"k": "est", "nid": {"v": 0}, "fseid": {"v": 10}, "ops": {"cFAR": [1]}}),
        _rc(1, 2, {"k": "est", "nid": {"v": 1}, "fseid": {"v": 20}, "ops": {"cFAR": [1]}}),
        _rc(1, 3, {"k": "mod", "seid": 1, "nid": {"v": 1}, "ops": {}}),
        _rc(1, 4, {"k": "asr", "nid": {"v": 1}})]},
        # the same takeover, then the PREVIOUS owner re-associates: the session it lost must stay (it is B's now), and a
        # later re-association of B removes both of B's sessions
        {"maxretrans": 1, "txseq0": 0, "events": [
        _rc(0, 1, {"k": "asr", "nid": {"v": 0}}), _rc(1, 1, {"k": "asr", "nid": {"v": 1}}),
        _rc(0, 2, {"k": "est", "nid": {"v": 0}, "fseid": {"v": 10}, "ops": {"cFAR": [1]}}),
        _rc(1, 2, {"k": "est", "nid": {"v": 1}, "fseid": {"v": 20}, "ops": {"cFAR": [1]}}),
        _rc(0, 3, {"k": "est", "nid": {"v": 0}, "fseid": {"v": 11}, "ops": {"cFAR": [2]}}),
        _rc(1, 3, {"k": "mod", "seid": 1, "nid": {"v": 1}, "ops": {}}),
        _rc(0, 4, {"k": "asr", "nid": {"v": 0}}),
        _rc(1, 4, {"k": "mod", "seid": 1, "nid": {"absent": True}, "ops": {"cFAR": [7]}}),
        _rc(1, 5, {"k": "asr", "nid": {"v": 1}})]}] + [
        # two nodes using the SAME control-plane SEID; the report of the session with the HIGHER user-plane SEID is answered
        # with header SEID 0 by its own peer: exactly that session goes, its twin under the other node stays
        {"maxretrans": 1, "txseq0": 0, "events": [
            _rc(0, 1, {"k": "asr", "nid": {"v": 0}}), _rc(1, 1, {"k": "asr", "nid": {"v": 1}}),
            _rc(a, 2, {"k": "est", "nid": {"v": a}, "fseid": {"v": cp}, "ops": {"cFAR": [1]}}),
            _rc(1 - a, 2, {"k": "est", "nid": {"v": 1 - a}, "fseid": {"v": cp}, "ops": {"cFAR": [1]}}),
            {"t": "report", "seid": 2, "items": [{"dld": {"pdr": 1, "action": 12, "pkt": "aabb"}}], "fail": [], "usage": []},
            {"t": "recv", "peer": 1 - a, "seq": 0, "msg": {"k": "srr", "hdr": 0}, "fail": [], "usage": []},
            _rc(a, 3, {"k": "mod", "seid": 1, "nid": {"absent": True}, "ops": {"cFAR": [2]}})]}
        for a, cp in ((0, 77), (1, 10))] + [
        # several released SEIDs outstanding at once, then re-issued to sessions of different nodes: each new session gets
        # a SEID of its own and no live session is touched
        {"maxretrans": 1, "txseq0": 0, "events": [
            _rc(0, 1, {"k": "asr", "nid": {"v": 0}}), _rc(1, 1, {"k": "asr", "nid": {"v": 1}}),
            _rc(0, 2, {"k": "est", "nid": {"v": 0}, "fseid": {"v": 10}, "ops": {"cFAR": [1]}}),
            _rc(1, 2, {"k": "est", "nid": {"v": 1}, "fseid": {"v": 10}, "ops": {"cFAR": [1]}}),
            _rc(0, 3, {"k": "est", "nid": {"v": 0}, "fseid": {"v": 11}, "ops": {"cFAR": [1]}}),
            _rc(0, 4, {"k": "del", "seid": d1}), _rc(1, 3, {"k": "del", "seid": d2}),
            _rc(1, 4, {"k": "est", "nid": {"v": 1}, "fseid": {"v": 20}, "ops": {"cFAR": [3]}}),
            _rc(0, 5, {"k": "est", "nid": {"v": 0}, "fseid": {"v": 21}, "ops": {"cFAR": [4]}}),
            _rc(1, 5, {"k": "mod", "seid": 1, "nid": {"absent": True}, "ops": {"cFAR": [5]}}),
            _rc(0, 6, {"k": "mod", "seid": 2, "nid": {"absent": True}, "ops": {"cFAR": [6]}}),
            _rc(0, 7, {"k": "del", "seid": 3})]}
        for d1, d2 in ((1, 2), (3, 2))] + directed_alias(rnd)


def directed_alias(rnd):
    """two control-plane nodes behind ONE IP address (peer 0 on port 8805, alias peer 4 on port 9805), both using the same
    control-plane SEID; the session of the node on port 8805 has the HIGHER user-plane SEID and its report is answered with
    header SEID 0: exactly that session goes, the twin of the node on the other port stays and keeps resolving. Also a
    duplicate of a request from the other port of the same address is a first copy, not a retransmission."""
    dld = {"t": "report", "seid": 2, "items": [{"dld": {"pdr": 1, "action": 12, "pkt": "aabb"}}], "fail": [], "usage": []}
    return [{"maxretrans": 1, "txseq0": 0, "events": [
        _rc(4, 1, {"k": "asr", "nid": {"v": 1}}), _rc(0, 1, {"k": "asr", "nid": {"v": 0}}),
        _rc(4, 2, {"k": "est", "nid": {"v": 1}, "fseid": {"v": cp}, "ops": {"cFAR": [1]}}),
        _rc(0, 2, {"k": "est", "nid": {"v": 0}, "fseid": {"v": cp}, "ops": {"cFAR": [1]}}),
        dld,
        {"t": "recv", "peer": 0, "seq": 0, "msg": {"k": "srr", "hdr": 0}, "fail": [], "usage": []},
        _rc(4, 3, {"k": "mod", "seid": 1, "nid": {"absent": True}, "ops": {"cFAR": [2]}}),
        _rc(0, 3, {"k": "mod", "seid": 2, "nid": {"absent": True}, "ops": {"cFAR": [3]}}),
        _rc(4, 4, {"k": "del", "seid": 1})]} for cp in (77, 5)] + [
        # the alias peer answers (wrong port: matches no outstanding request), then the right one
        {"maxretrans": 1, "txseq0": 3, "events": [
        _rc(4, 1, {"k": "asr", "nid": {"v": 1}}), _rc(0, 1, {"k": "asr", "nid": {"v": 0}}),
        _rc(4, 2, {"k": "est", "nid": {"v": 1}, "fseid": {"v": 9}, "ops": {"cFAR": [1]}}),
        _rc(0, 2, {"k": "est", "nid": {"v": 0}, "fseid": {"v": 9}, "ops": {"cFAR": [1]}}),
        dld,
        {"t": "recv", "peer": 4, "seq": 3, "msg": {"k": "srr", "hdr": 0}, "fail": [], "usage": []},
        _rc(0, 2, {"k": "est", "nid": {"v": 0}, "fseid": {"v": 9}, "ops": {"cFAR": [1]}}),
        _rc(4, 2, {"k": "est", "nid": {"v": 1}, "fseid": {"v": 9}, "ops": {"cFAR": [1]}}),
        {"t": "recv", "peer": 0, "seq": 3, "msg": {"k": "srr", "hdr": 0}, "fail": [], "usage": []},
        _rc(4, 3, {"k": "mod", "seid": 1, "nid": {"absent": True}, "ops": {"cFAR": [2]}})]}]


def _usa(seid, urr, val):
    return {"t": "report", "seid": seid, "items": [{"usa": {"urr": urr, "trig": 2, "vflags": 0, "cnt": [val, 0, 0, 0, 0, 0], "dur": 0,
                                                       "start": 10, "end": 20}}], "fail": [], "usage": []}


def directed_c09(rnd):
    """a response of another kind (Heartbeat / Association Setup / Session Establishment / Modification Response) from the
    right peer with the sequence number of an outstanding Session Report Request retires that request: nothing is
    retransmitted afterwards; the same from the wrong peer changes nothing"""
    out = []
    for ty, q0 in ((2, 0), (6, 5), (51, 2 ** 24 - 1), (53, 7)):
        for wrong in (False, True):
            out.append({"maxretrans": 2, "txseq0": q0, "events": [
                _rc(0, 1, {"k": "asr", "nid": {"v": 0}}), _rc(1, 1, {"k": "asr", "nid": {"v": 1}}),
                _rc(0, 2, {"k": "est", "nid": {"v": 0}, "fseid": {"v": 10}, "ops": {"cFAR": [1]}}),
                {"t": "report", "seid": 1, "items": [{"dld": {"pdr": 1, "action": 12, "pkt": "aa"}}], "fail": [], "usage": []},
                {"t": "recv", "peer": 1 if wrong else 0, "seq": q0, "msg": {"k": "otherrsp", "type": ty, "seid": 10}, "fail": [], "usage": []},
                {"t": "timeout", "tx": True, "peer": 0, "seq": q0, "fail": [], "usage": []},
                {"t": "timeout", "tx": True, "peer": 0, "seq": q0, "fail": [], "usage": []}]})
    return out


def directed_c04(rnd):
    """a Modification naming the session's own node id (no takeover), then deletion: the SEID stops resolving and is
    re-issued to the next establishment"""
    return [{"maxretrans": 1, "txseq0": 0, "events": [
        _rc(0, 1, {"k": "asr", "nid": {"v": 0}}),
        _rc(0, 2, {"k": "est", "nid": {"v": 0}, "fseid": {"v": 10}, "ops": {"cFAR": [1]}}),
        _rc(0, 3, {"k": "est", "nid": {"v": 0}, "fseid": {"v": 11}, "ops": {"cFAR": [1]}}),
        _rc(0, 4, {"k": "mod", "seid": 1, "nid": {"v": 0}, "ops": {"cFAR": [2]}}),
        _rc(0, 5, {"k": "del", "seid": 1}),
        _rc(0, 6, {"k": "mod", "seid": 1, "nid": {"absent": True}, "ops": {"cFAR": [3]}}),
        _rc(0, 7, {"k": "del", "seid": 1}),
        _rc(0, 8, {"k": "est", "nid": {"v": 0}, "fseid": {"v": 12}, "ops": {"cFAR": [1]}}),
        _rc(0, 9, {"k": "asr", "nid": {"v": 0}}),
        _rc(0, 10, {"k": "mod", "seid": 2, "nid": {"absent": True}, "ops": {"cFAR": [4]}})]}] + directed_alias(rnd)


def directed_c10(rnd):
    """the history of the former finding removed-urr-lingers (fixed): Remove URR without a final report, then a report naming
    the removed URR (dropped), the same with a final report, and with a re-created URR (reported again, from 0)"""
    est = [_rc(0, 1, {"k": "asr", "nid": {"v": 0}}),
           _rc(0, 2, {"k": "est", "nid": {"v": 0}, "fseid": {"v": 10}, "ops": {"cURR": [{"id": 1, "method": 2, "info": 0}, {"id": 2, "method": 2, "info": 0}]}})]
    final = {"op": "remove", "id": 1, "rpts": [{"urr": 1, "trig": 0, "vflags": 0, "cnt": [9, 0, 0, 0, 0, 0], "dur": 0, "start": 1, "end": 2}]}
    return [{"maxretrans": 0, "txseq0": 0, "events": est + [
                _usa(1, 1, 5),
                _rc(0, 3, {"k": "mod", "seid": 1, "nid": {"absent": True}, "ops": {"rURR": [1]}}),
                _usa(1, 1, 6), _usa(1, 2, 7),
                _rc(0, 4, {"k": "mod", "seid": 1, "nid": {"absent": True}, "ops": {"cURR": [{"id": 1, "method": 2, "info": 0}]}}),
                _usa(1, 1, 8)]},
            {"maxretrans": 0, "txseq0": 0, "events": est + [
                _rc(0, 3, {"k": "mod", "seid": 1, "nid": {"absent": True}, "ops": {"rURR": [1]}}, usage=[final]),
                _usa(1, 1, 6), _usa(1, 2, 7)]},
            # takeover by a node id that has no association of its own (the session's node is re-keyed): reports go to
            # the new owner from then on; and by one that has (the session moves)
            {"maxretrans": 0, "txseq0": 0, "events": est + [
                _usa(1, 1, 5),
                _rc(0, 3, {"k": "mod", "seid": 1, "nid": {"v": 1}, "ops": {}}),
                _usa(1, 1, 6), _usa(1, 2, 7)]},
            {"maxretrans": 0, "txseq0": 0, "events": est + [
                _rc(2, 1, {"k": "asr", "nid": {"v": 2}}),
                _rc(2, 2, {"k": "mod", "seid": 1, "nid": {"v": 2}, "ops": {}}),
                _usa(1, 1, 6), _usa(1, 2, 7)]}]


def directed_c11(rnd):
    """the history of the former finding create-urr-existing-id (fixed): a regression case run first"""
    return [{"maxretrans": 0, "txseq0": 0, "events": [
        _rc(0, 1, {"k": "asr", "nid": {"v": 0}}),
        _rc(0, 2, {"k": "est", "nid": {"v": 0}, "fseid": {"v": 10}, "ops": {"cURR": [{"id": 1, "method": 2, "info": 0}]}}),
        _usa(1, 1, 5), _usa(1, 1, 6),
        _rc(0, 3, {"k": "mod", "seid": 1, "nid": {"absent": True}, "ops": {"cURR": [{"id": 1, "method": 2, "info": 0}]}}),
        _usa(1, 1, 7)]}]


def directed_c11c(rnd):
    """a Session Report Request whose first transmission fails in the socket: its usage reports keep their numbers (the
    retransmission delivers them), the next report of the URR goes on from there"""
    out = []
    for first in (0, 1):
        evs = [_rc(0, 1, {"k": "asr", "nid": {"v": 0}}),
               _rc(0, 2, {"k": "est", "nid": {"v": 0}, "fseid": {"v": 10}, "ops": {"cURR": [{"id": 1, "method": 2, "info": 0}, {"id": 2, "method": 2, "info": 0}]}})]
        evs += [_usa(1, 1, 5)] * first
        evs += [dict(_usa(1, 1, 6), wfail=True),
                {"t": "timeout", "tx": True, "peer": 0, "seq": first, "fail": [], "usage": []},
                _usa(1, 1, 7), _usa(1, 2, 8),
                _rc(0, 3, {"k": "mod", "seid": 1, "nid": {"absent": True}, "ops": {"qURR": [1]}},
                    usage=[{"op": "query", "id": 1, "rpts": [{"urr": 1, "trig": 0, "vflags": 0, "cnt": [9, 0, 0, 0, 0, 0], "dur": 0, "start": 1, "end": 2}]}])]
        out.append({"maxretrans": 2, "txseq0": 0, "events": evs})
    return out


def directed_c11b(rnd):
    """a URR the session holds although its installation failed (so that the data plane ACCEPTS the second Create URR):
    the running counter goes on"""
    return [{"maxretrans": 0, "txseq0": 0, "events": [
        _rc(0, 1, {"k": "asr", "nid": {"v": 0}}),
        dict(_rc(0, 2, {"k": "est", "nid": {"v": 0}, "fseid": {"v": 10}, "ops": {"cURR": [{"id": 1, "method": 2, "info": 0}]}}),
             fail=[{"op": "create", "kind": "urr", "id": 1}]),
        _usa(1, 1, 5), _usa(1, 1, 6),
        _rc(0, 3, {"k": "mod", "seid": 1, "nid": {"absent": True}, "ops": {"cURR": [{"id": 1, "method": 2, "info": 0}]}}),
        _usa(1, 1, 7), _usa(1, 1, 8)]}]


def directed_c12(rnd):
    """the history of the former finding create-pdr-existing-id (fixed): a regression case run first"""
    return [{"maxretrans": 0, "txseq0": 0, "events": [
        _rc(0, 1, {"k": "asr", "nid": {"v": 0}}),
        _rc(0, 2, {"k": "est", "nid": {"v": 0}, "fseid": {"v": 10},
                   "ops": {"cURR": [{"id": 7, "method": 2, "info": 0}], "cPDR": [{"id": 1, "urrs": [7], "ueip": False}]}}),
        _rc(0, 3, {"k": "mod", "seid": 1, "nid": {"absent": True}, "ops": {"cPDR": [{"id": 1, "urrs": [7], "ueip": False}]}}),
        _rc(0, 4, {"k": "mod", "seid": 1, "nid": {"absent": True}, "ops": {"rPDR": [1]}},
            usage=[{"op": "query", "id": 7, "rpts": [{"urr": 7, "trig": 0, "vflags": 0, "cnt": [1, 2, 3, 4, 5, 6], "dur": 0, "start": 1, "end": 2}]}])]}] + [
        # a PDR is pointed (Update PDR / Create PDR) at a URR the session does not hold YET; the URR is created by a later
        # request; the PDR is then removed / re-pointed: it was the URR's only referrer, so its usage comes back once, as a
        # termination report (a URR counts as referenced by the PDRs whose current list names it, however that came about)
        {"maxretrans": 0, "txseq0": 0, "events": [
            _rc(0, 1, {"k": "asr", "nid": {"v": 0}}),
            _rc(0, 2, {"k": "est", "nid": {"v": 0}, "fseid": {"v": 10},
                       "ops": {"cURR": [{"id": 3, "method": 2, "info": 0}], "cPDR": [{"id": 1, "urrs": [3] if first == "create7" else [], "ueip": False},
                                                                                       {"id": 2, "urrs": [3], "ueip": False}]}}),
            _rc(0, 3, {"k": "mod", "seid": 1, "nid": {"absent": True},
                       "ops": ({"cPDR": [{"id": 4, "urrs": [7, 3], "ueip": False}]} if first == "create7" else {"uPDR": [{"id": 1, "urrs": [7], "ueip": False}]})}),
            _rc(0, 4, {"k": "mod", "seid": 1, "nid": {"absent": True}, "ops": {"cURR": [{"id": 7, "method": 2, "info": 0}]}}),
            _rc(0, 5, {"k": "mod", "seid": 1, "nid": {"absent": True},
                       "ops": ({"rPDR": [4 if first == "create7" else 1]} if last == "remove" else {"uPDR": [{"id": 4 if first == "create7" else 1, "urrs": [3], "ueip": False}]})},
                usage=[{"op": "query", "id": 7, "rpts": [{"urr": 7, "trig": 0, "vflags": 0, "cnt": [1, 2, 3, 4, 5, 6], "dur": 0, "start": 1, "end": 2}]}]),
            _rc(0, 6, {"k": "mod", "seid": 1, "nid": {"absent": True}, "ops": {"rURR": [7]}},
                usage=[{"op": "remove", "id": 7, "rpts": [{"urr": 7, "trig": 0, "vflags": 0, "cnt": [2, 2, 3, 4, 5, 6], "dur": 0, "start": 2, "end": 3}]}])]}
        for first in ("update7", "create7") for last in ("remove", "repoint")]


def directed_c13(rnd):
    """bursts below, at and beyond the queue capacity in ONE notification batch; then session end and SEID re-use"""
    def rc(peer, seq, msg):
        return {"t": "recv", "peer": peer, "seq": seq, "msg": msg, "fail": [], "usage": []}
    out = []
    for n in (511, 512, 513, 700):
        # every item carries NOCP: ServeReport stops at the first buffer item WITHOUT it, so a batch of plain BUFF items
        # would push one packet only (the first version of this scenario did just that and exercised nothing)
        items = [{"dld": {"pdr": 1 + (k % 2 if n == 700 else 0), "action": 12, "pkt": "%04x" % k}} for k in range(n)]
        evs = [rc(0, 1, {"k": "asr", "nid": {"v": 0}}),
               rc(0, 2, {"k": "est", "nid": {"v": 0}, "fseid": {"v": 10}, "ops": {"cFAR": [1], "cPDR": [{"id": 1, "urrs": [], "ueip": False}]}}),
               {"t": "report", "seid": 1, "items": [{"dld": {"pdr": 1, "action": 12, "pkt": "ffff"}}], "fail": [], "usage": []},
               {"t": "report", "seid": 1, "items": [dict(it, dld=dict(it["dld"], action=12)) if k == 0 else it for k, it in enumerate(items)], "fail": [], "usage": []},
               {"t": "report", "seid": 1, "items": [{"dld": {"pdr": 1, "action": 4, "pkt": "eeee"}}], "fail": [], "usage": []},
               rc(0, 3, {"k": "del", "seid": 1}),
               rc(0, 4, {"k": "est", "nid": {"v": 0}, "fseid": {"v": 11}, "ops": {"cPDR": [{"id": 1, "urrs": [], "ueip": False}]}}),
               {"t": "report", "seid": 1, "items": [{"dld": {"pdr": 1, "action": 4, "pkt": "dddd"}}], "fail": [], "usage": []}]
        out.append({"maxretrans": 0, "txseq0": 0, "events": evs})
    return out


# ---------------------------------------------------------------- runner

def shrink(ctx, harness, case, monitor, budget=40):
    """delta-debugging over the event list; keeps the failure of [monitor] alive"""
    def fails(c):
        res, _ = common.run_harness(ctx, harness, "pfcp", [c], timeout=120, tag="-shrink")
        if res is None:
            return False
        return bool(monitor(c, res["cases"][0], res["prefix"]))
    evs = case["events"]
    n = 2
    while len(evs) >= 2 and budget > 0:
        chunk = max(1, len(evs) // n)
        reduced = False
        for start in range(0, len(evs), chunk):
            cand = evs[:start] + evs[start + chunk:]
            if not cand:
                continue
            budget -= 1
            c2 = dict(case, events=cand)
            if fails(c2):
                evs, reduced = cand, True
                n = max(2, n - 1)
                break
            if budget <= 0:
                break
        if not reduced:
            if chunk == 1:
                break
            n = min(len(evs), n * 2)
    return dict(case, events=evs)


def corpus_cases(prop):
    d = os.path.join(common.VERIF, "corpus", prop)
    out = []
    if os.path.isdir(d):
        for f in sorted(os.listdir(d)):
            if f.endswith(".json"):
                out.append(json.load(open(os.path.join(d, f))))
    return out


def _call_sig(fn, case, failures, trace, prefix):
    import inspect
    if "trace" in inspect.signature(fn).parameters:
        return fn(case, failures, trace=trace, prefix=prefix)
    return fn(case, failures)


def run_property(ctx, prop, monitor, gen_kwargs, n_quick, n_thorough, replay=None, finding_sig=None,
                 assumptions=None, directed=None, rule="", extra_phase=None):
    info = common.prepare(ctx)
    obl = info["obl"]
    broken = []
    if not info["gen_ok"]:
        broken.append("T-gen translator no longer recognises the source: " + info["gen_log"][-400:])
    if not obl["compiled"]:
        broken.append("props/%s.v (theorems %s) no longer compiles" % (prop, ", ".join(obl["theorems"])))
    if info["forbidden"]:
        broken.append("forbidden constructs: %s" % info["forbidden"])
    coverage = {"obligations": len(obl["theorems"]), "discharged": len(obl["theorems"]) if obl["compiled"] else 0,
                "checker_cmd": "make -f Makefile.coq (coqc 8.16.1, full .vo build) + coqc props/%s.v (Print Assumptions)" % prop,
                "trusted_base": common.TRUSTED_BASE, "axioms": obl["axioms"], "theorems": obl["theorems"],
                "evaluations": 0, "distinct_nontrivial": 0, "rule": rule}
    assumptions = assumptions or []
    if info["tie_broken"]:
        ctx.violation({"property": prop, "broken": "correspondence harness no longer builds against the tree (the overlay's hooks "
                       "read fields/functions that changed)", "log": info["tie_broken"][-2000:]}, no_input=True)
        return ctx.finish(coverage, assumptions)
    rnd = random.Random(ctx.seed)
    if replay:
        rp = json.load(open(replay))
        if str(rp.get("mode", "")).startswith("pfcp (refused-removal"):
            # a history of the monitor-only phase (the data plane refuses a removal: not a model event)
            from checks import rmfail_phase
            res, err = common.run_harness(ctx, info["harness"], "pfcp", [rp["case"]], timeout=120, tag="-replay")
            f = rmfail_phase.monitor(prop, rp["case"], res["cases"][0], res["prefix"]) if res else [(0, "harness run failed: %s" % (err or "")[-300:])]
            coverage["evaluations"] = 1
            if f:
                ctx.violation({"property": prop, "what": f[0][1], "all_failures": f[:5], "mode": rp["mode"], "case": rp["case"],
                               "implementation_trace": res["cases"][0] if res else None})
            return ctx.finish(coverage, assumptions)
        cases = [rp["case"] if "case" in rp else rp["first_disagreement"]["case"]]
    else:
        gk = dict(gen_kwargs)
        usage_share = gk.pop("usage_share", 0.0)     # share of usage-dense histories (Gen.usage_history)
        g = pfcp.Gen(rnd, **gk)
        n = n_quick if ctx.tier == "quick" else n_thorough
        cases = corpus_cases(prop) + pfcp.directed(rnd) + (directed(rnd) if directed else [])
        cases += [g.usage_history() if rnd.random() < usage_share else g.history() for _ in range(n)]
    r = pfcp.run_cases(ctx, info["harness"], cases)
    if "error" in r and "impl" not in r:
        ctx.violation({"property": prop, "broken": r["error"]}, no_input=True)
        return ctx.finish(coverage, assumptions)
    impl, prefix = r["impl"], r["prefix"]
    diffs = r.get("diffs", [])
    if "error" in r:
        broken.append(r["error"])
    coverage["evaluations"] = len(cases)
    coverage["distinct_nontrivial"] = pfcp.distinct_nontrivial(cases)
    coverage["input_distribution"] = pfcp.distribution(cases)
    coverage["model_impl_disagreements"] = len(diffs)
    coverage["samples"] = [{"events": c["events"][:4], "n_events": len(c["events"])} for c in cases[:2]]
    failures = []
    for ci, (c, o) in enumerate(zip(cases, impl)):
        f = monitor(c, o, prefix)
        if f:
            failures.append((ci, f))
    coverage["monitor_failures"] = len(failures)
    reported = set()
    for ci, f in failures[:6]:
        case = cases[ci]
        small = shrink(ctx, info["harness"], case, monitor) if not replay else case
        res, _ = common.run_harness(ctx, info["harness"], "pfcp", [small], timeout=120, tag="-final")
        f2 = monitor(small, res["cases"][0], res["prefix"]) if res else f
        msg = (f2 or f)[0][1]
        sig = _call_sig(finding_sig, small, f2 or f, res["cases"][0] if res else None, res["prefix"] if res else prefix) if finding_sig else None
        known = [k for k in common.known_findings(prop) if k["sig"] == sig] if sig else []
        if known:
            ctx.known("sig=%s %s" % (sig, known[0]["what"]))
            continue
        if msg in reported:
            continue
        reported.add(msg)
        ctx.violation({"property": prop, "what": msg, "all_failures": (f2 or f)[:5], "case": small,
                       "implementation_trace": res["cases"][0] if res else None,
                       "replay_cmd": "python3 check.py %s --replay <this file>" % prop})
    if extra_phase and not replay:
        extra_phase(ctx, info, coverage)
    if not ctx.violations and (broken or diffs):
        first = None
        if diffs:
            ci, ei, code = diffs[0]
            first = {"case": cases[ci], "event_index": ei, "component": pfcp.DIFF_CODES.get(code, str(code)),
                     "implementation_event": impl[ci][ei] if ei < len(impl[ci]) else None}
        ctx.violation({"property": prop, "broken_obligations": broken,
                       "correspondence": "model step <> implementation (first disagreement below)" if diffs else None,
                       "n_disagreements": len(diffs), "first_disagreement": first,
                       "make_log": info.get("make_log", "")[-1500:]}, no_input=True)
    return ctx.finish(coverage, assumptions)


PFCP_NOTE = ("Modelled, not verified: go-pfcp (message.Parse, IE accessors/constructors), Go maps (iteration order is an oracle "
             "or canonicalised), UDP sockets, timers (expiries are injected events). The model data plane (ModelDP) stands for "
             "the driver; failures of create/update/query are oracles.")
