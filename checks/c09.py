"""C09 - see MANIFEST below and DESIGN.md section 4/C09."""
import random

from checks import pfcp_common as pc
from checks import timer_phase, wfail_phase

MANIFEST = dict(
    text='Kernel-checked: every UPF-initiated request takes the counter as sequence number, which is < 2^24 and stays < 2^24 for every counter position (wrap-around included) and is registered under exactly that number; each expiry re-sends the same datagram while the retry count is below the maximum, then the entry is dropped; a response from the same peer with that sequence number releases the entry without any transmission; unmatched responses/expiries leave the whole state unchanged. Tie: differential run with the counter positioned at 0, 5, 2^24-2, 2^24-1 (in-package hook), reports, expiries, matching / wrong-peer / wrong-sequence / duplicated responses, retry counts 0..3; byte-identity monitor.',
    note='Distinctness: the k-th request since the counter stood at x0 carries (x0+k) mod 2^24, two requests differ iff fewer than 2^24 requests lie between them, and the bound is exact (C09_distinct_within_window, C09_window_bound_exact); that no request stays outstanding over 2^24 later ones is an assumption on the environment (its life is bounded by (N+1)*T). Socket write failures: the first transmission of a request failing in the socket is the model event EvReportWF (theorems C09_failed_write_same_state / _still_registered / _then_expiry / _then_response; such reports are part of the model-compared histories), failing retransmissions are not modelled; a further monitor-only write-failure phase (the first transmission of a Session Report Request fails in the socket: the request is registered all the same, a response with its number from its peer - not from another peer or another port of the same host - retires it, the retry budget runs from the failed transmission, the bookkeeping is released). In the differential run time-outs are injected events; a separate real-timer phase (time-outs of 150-200 ms, retry budgets 0..3) runs the real AfterFunc callbacks, the timer.Stop() of TxTransaction.recv and the interplay with receive transactions using the same sequence number, and checks the property on the time-stamped trace (retransmission times, budget, no retransmission after the response, response effective while outstanding, bookkeeping released). With time (model/Timed.v, parameters read from transaction.go / pfcp.go on every run: C09_timer_sites): for every T, N, send time and loop latencies the i-th retransmission is not before t0 + i*T and at most delta late, there are never more than N, after N+1 expiries the request is abandoned and released, nothing after a response (C09_retransmission_schedule, C09_retry_budget_and_release, C09_response_stops_retransmission); a re-arm that can be skipped is refuted (C09_skipped_rearm_refuted). ',
    technique='Coq step lemmas on the transmit-transaction table + differential run with positioned counter + byte-identity monitor',
    design='4/C09')

RULE = 'histories dense in reports, transmit expiries and responses; counter start in {0,5,2^24-2,2^24-1}; maxRetrans 0..3'

GEN = dict(weights=dict(usa=22, dld=16, timeout=26, srr=20, otherrsp=6, est=12, mod=6, dele=4), big_seids=False, p_alias=0.06, p_wfail=0.2, p_wfail_recv=0.05)
N_QUICK, N_THOROUGH = 120, 3000


def run(ctx, replay=None):
    return pc.run_property(ctx, "C09", pc.mon_c09, GEN, N_QUICK, N_THOROUGH, replay=replay, rule=RULE,
                           assumptions=[pc.PFCP_NOTE], directed=lambda rnd: pc.directed_c09(rnd) + wfail_phase.cases(random.Random(rnd.randrange(1 << 30)), 10), extra_phase=wfail_phase.both(wfail_phase.phase("C09"), timer_phase.phase("C09", timer_phase.mon_c09_timed)))
