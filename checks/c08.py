"""C08 - see MANIFEST below."""
from checks import pfcp_common as pc

MANIFEST = dict(
    text="Kernel-checked per handler: every datagram produced while handling a request goes to the sender, echoes its sequence number and is a response; session-level responses carry the session's CP SEID, or 0 with cause 65 when it does not exist (then nothing but the transaction bookkeeping changes); an accepted Establishment yields a fresh non-zero UP SEID under which the new session is live from then on and lists exactly the Create PDRs with a UE IP address; requests lacking Node ID / F-SEID or naming an unknown node leave the state identical and get no answer. Recovery time stamp: not a model field; compared across all responses of each run. Tie: differential run + monitor on decoded response datagrams.",
    note='Socket write failures after a state change are not modelled. Correlation of a re-sent cached answer follows from C06 (identical datagram). ',
    technique='Coq handler specifications + differential run + monitor on decoded responses',
    design='4/C08')

RULE = 'histories incl. unknown nodes, missing/undecodable Node ID and F-SEID, equal CP SEIDs across peers, Create PDRs with and without UE IP'
GEN = dict(weights=dict(est=20, mod=20, dele=10, asr=10, hb=8, dup=6), big_seids=True, p_alias=0.06)
N_QUICK, N_THOROUGH = 120, 3000


def run(ctx, replay=None):
    return pc.run_property(ctx, "C08", pc.mon_c08x, GEN, N_QUICK, N_THOROUGH, replay=replay, rule=RULE,
                           assumptions=[pc.PFCP_NOTE], finding_sig=None, directed=pc.directed_c05)
