"""C01 - see MANIFEST below and DESIGN.md section 4/C01."""
from checks import pfcp_common as pc
from checks import rmfail_phase

MANIFEST = dict(
    text="Kernel-checked for ALL histories, failure oracles and Reset iteration orders: every rule in the (model) data plane belongs to a live session and is in that session's recorded id set (containment, part of the world invariant proved preserved by every step); Sess.Close withdraws every rule of the session assuming only containment, i.e. also after failed installations (close_withdraws, for the Close order regenerated from node.go); every session end goes through delete_sess whose post-condition (slot released, no rule left, other sessions and their rules untouched) is proved; Update/Remove/Query for ids the session has not recorded never reach the driver. Tie: differential run of the model vs the real handlers with a model data plane that fails scripted create/update/query calls; monitors on the trace.",
    note="The data plane is the harness's ModelDP (create fails when scripted or when the rule exists; update/query fail when scripted or absent; remove fails when absent; in the separate refused-removal phase - monitor only, not a model event - a Modification Request's removal of an installed rule is refused: the session keeps the rule recorded and withdraws it when it ends). A URR id stays recorded between its successful removal and the emission of its report (documented in DESIGN.md). ",
    technique='Coq invariant + withdrawal proof over all histories/fault oracles + differential run + trace monitors',
    design='4/C01')

RULE = 'histories with colliding / repeated / never-created / twice-removed rule ids, random failure sets per request (create/update/query), re-association and SEID-0 report responses; non-trivial = contains est/mod/del'

GEN = dict(weights=dict(est=18, mod=26, dele=10, asr=10, srr=8), p_fail=0.35, big_seids=False)
N_QUICK, N_THOROUGH = 120, 3000


def run(ctx, replay=None):
    return pc.run_property(ctx, "C01", pc.mon_c01, GEN, N_QUICK, N_THOROUGH, replay=replay, rule=RULE,
                           assumptions=[pc.PFCP_NOTE], finding_sig=pc.sig_c05, directed=pc.directed_c05, extra_phase=rmfail_phase.phase("C01"))
