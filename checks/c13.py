"""C13 - see MANIFEST below."""
from checks import pfcp_common as pc

MANIFEST = dict(
    text="Kernel-checked for the PFCP layer: push appends iff the queue is below capacity (BUFFQ_LEN from T-gen), otherwise the NEWEST packet is dropped and nothing else changes; other PDRs' queues and all other session fields are untouched; a buffer item pushes iff BUFF and the packet is non-empty, a Downlink Data Report is sent iff NOCP, to the owning node with the peer's SEID; Close drops the queues; no per-session rule operation touches a queue; in every reachable state every queue holds at most BUFFQ_LEN packets. PARTIAL: the release path (BUFF->FORW/DROP in Gtp5g.applyAction, encapsulation) lives in the gtp5g driver and needs the simulated kernel - not yet covered. Tie: differential run incl. bursts beyond the capacity; queue-content monitor.",
    note='Partial: release/encapsulation path (driver) not covered yet. ',
    technique="Coq lemmas on the emission / queue / reference-count functions + differential run + trace monitor",
    design='4/C13')

RULE = 'buffer notifications for live / unknown / ended sessions, BUFF/NOCP/DROP/FORW action combinations, bursts of 511/512/513/700 packets in one batch, session removal and SEID re-use'
GEN = dict(weights=dict(dld=34, est=14, mod=10, dele=10, asr=6, srr=8, usa=2), big_seids=False)
N_QUICK, N_THOROUGH = 110, 3000


def run(ctx, replay=None):
    return pc.run_property(ctx, "C13", pc.mon_c13, GEN, N_QUICK, N_THOROUGH, replay=replay, rule=RULE,
                           assumptions=[pc.PFCP_NOTE], finding_sig=None, directed=pc.directed_c13)
