"""C13 - see MANIFEST below."""
from checks import pfcp_common as pc

MANIFEST = dict(
    text="Kernel-checked for the PFCP layer: push appends iff the queue is below capacity (BUFFQ_LEN from T-gen), otherwise the NEWEST packet is dropped and nothing else changes; other PDRs' queues and all other session fields are untouched; a buffer item pushes iff BUFF and the packet is non-empty, a Downlink Data Report is sent iff NOCP, to the owning node with the peer's SEID; Close drops the queues; no per-session rule operation touches a queue; in every reachable state every queue holds at most BUFFQ_LEN packets. Release path (Gtp5g.UpdateFAR/applyAction/WritePacket, model/Release.v, after fix 6f99407): on BUFF->FORW every queued packet of every PDR the data plane relates to the FAR is emitted exactly once, in queue order, as the G-PDU of C14 with the FAR's UPDATED peer/port/TEID and the PDR's first non-zero QFI (the reference decoder reads back teid, qfi and payload), afterwards those queues are empty; BUFF->DROP empties them without emission; otherwise nothing leaves and no queue changes; nothing survives the session. Tie: differential run incl. bursts beyond the capacity + queue-content monitor; full-stack release scenarios (real PfcpServer + real Gtp5g over the simulated kernel, BUFFER multicasts through the real netlink listener, two fake gNB sockets) compared step by step with the model, plus a monitor on the gNB datagrams.",
    note='The release path runs over the simulated kernel (SimKernel lists RELATED_TO_PDR in ascending PDR id order; a queue outlives Remove PDR - modelled as is). A release-mode replay file is replayed through the full stack (python3 check.py C13 --replay f). ',
    technique="Coq lemmas on the emission / queue / reference-count functions + differential run + trace monitor",
    design='4/C13')

RULE = 'buffer notifications for live / unknown / ended sessions, BUFF/NOCP/DROP/FORW action combinations, bursts of 511/512/513/700 packets in one batch, session removal and SEID re-use'
GEN = dict(weights=dict(dld=34, est=14, mod=10, dele=10, asr=6, srr=8, usa=2), big_seids=False)
N_QUICK, N_THOROUGH = 80, 3000


def release_phase(ctx, info, coverage, cases=None):
    """second half of C13: the release path through the real Gtp5g driver over the simulated kernel"""
    from checks import release_phase as rp
    r = rp.run(ctx, info["harness"], 40 if ctx.tier == "quick" else 1500, cases=cases)
    if r.get("error"):
        ctx.violation({"property": "C13", "broken": r["error"]}, no_input=True)
        return
    coverage["release_scenarios"] = len(r["cases"])
    coverage["release_model_impl_disagreements"] = len(r["mism"])
    coverage["release_monitor_failures"] = len(r["monf"])
    coverage["evaluations"] = coverage.get("evaluations", 0) + len(r["cases"])
    for ci, si, msg in r["pyf"][:2]:
        ctx.violation({"property": "C13", "what": "release path: " + msg, "mode": "release", "step": si, "case": r["cases"][ci],
                       "implementation_trace": r["impl"][ci][max(0, si - 2):si + 1]})
    for ci, si in ([] if r["pyf"] else r["monf"][:2]):
        ctx.violation({"property": "C13", "what": "release path: a datagram at the gNB is not a well-formed G-PDU carrying a packet that was "
                       "buffered earlier and not yet emitted, or the server faulted / a queue exceeds its capacity (step %d)" % si,
                       "mode": "release", "case": r["cases"][ci], "implementation_trace": r["impl"][ci]})
    coverage["release_monitor_failures"] = len(r["monf"]) + len(r["pyf"])
    if not r["monf"] and not r["pyf"] and r["mism"]:
        ci, si = r["mism"][0]
        ctx.violation({"property": "C13", "correspondence": "model/Release.v step <> implementation at step %d (datagrams per gNB, "
                       "downlink data reports or queue contents differ)" % si, "mode": "release", "case": r["cases"][ci],
                       "implementation_trace": r["impl"][ci][max(0, si - 2):si + 1]}, no_input=True)


def run(ctx, replay=None):
    if replay:
        import json
        r = json.load(open(replay))
        if r.get("mode") == "release":
            # a replay of the release path: that scenario alone, through the full stack
            from lib import common
            info = common.prepare(ctx)
            coverage = {"obligations": len(info["obl"]["theorems"]), "discharged": len(info["obl"]["theorems"]) if info["obl"]["compiled"] else 0,
                        "checker_cmd": "make -f Makefile.coq + coqc props/C13.v", "trusted_base": common.TRUSTED_BASE,
                        "axioms": info["obl"]["axioms"], "theorems": info["obl"]["theorems"], "evaluations": 0, "distinct_nontrivial": 1,
                        "rule": "replay of one release scenario"}
            release_phase(ctx, info, coverage, cases=[r["case"]])
            return ctx.finish(coverage, [pc.PFCP_NOTE])
    return pc.run_property(ctx, "C13", pc.mon_c13, GEN, N_QUICK, N_THOROUGH, replay=replay, rule=RULE,
                           assumptions=[pc.PFCP_NOTE], finding_sig=None, directed=pc.directed_c13, extra_phase=release_phase)
