"""C13 - see MANIFEST below."""
from checks import pfcp_common as pc

MANIFEST = dict(
    text="Kernel-checked for the PFCP layer: push appends iff the queue is below capacity (BUFFQ_LEN from T-gen), otherwise the NEWEST packet is dropped and nothing else changes; other PDRs' queues and all other session fields are untouched; a buffer item pushes iff BUFF and the packet is non-empty, a Downlink Data Report is sent iff NOCP, to the owning node with the peer's SEID; Close drops the queues; no per-session rule operation touches a queue; in every reachable state every queue holds at most BUFFQ_LEN packets. Release path (Gtp5g.UpdateFAR/applyAction/WritePacket, model/Release.v, after fix 6f99407): on BUFF->FORW every queued packet of every PDR the data plane relates to the FAR is emitted exactly once, in queue order, as the G-PDU of C14 with the FAR's UPDATED peer/port/TEID and the PDR's first non-zero QFI (the reference decoder reads back teid, qfi and payload), afterwards those queues are empty; BUFF->DROP empties them without emission; otherwise nothing leaves and no queue changes; nothing survives the session. Tie: differential run incl. bursts beyond the capacity + queue-content monitor; full-stack release scenarios (real PfcpServer + real Gtp5g over the simulated kernel, BUFFER multicasts through the real netlink listener, two fake gNB sockets) compared step by step with the model, plus a monitor on the gNB datagrams. The way in - the BUFFER notification of the gtp5g module, walked by hand in buffnetlink.decodbuffer - has an octet-level model (model/BuffDec.v, shape read from the source: C13_buffer_decoder_source_shape): for every order of the attributes, repetitions, attributes of other types in between, every packet length (the padding is not part of the packet) and every 64-bit SEID the walk returns exactly what the message carries (C13_buffer_notification_decoded); the malformed bodies on which the Go code faults or never returns (length 0: endless walk) are part of the model and of the differential run against the real function.",
    note='The release path runs over the simulated kernel (SimKernel lists RELATED_TO_PDR in ascending PDR id order; a queue outlives Remove PDR - modelled as is). A release-mode replay file is replayed through the full stack (python3 check.py C13 --replay f). ',
    technique="Coq lemmas on the emission / queue / reference-count functions + differential run + trace monitor",
    design='4/C13')

RULE = 'buffer notifications for live / unknown / ended sessions, BUFF/NOCP/DROP/FORW action combinations, bursts of 511/512/513/700 packets in one batch, session removal and SEID re-use'
GEN = dict(weights=dict(dld=34, est=14, mod=10, dele=10, asr=6, srr=8, usa=2), big_seids=False)
N_QUICK, N_THOROUGH = 80, 3000


def release_phase(ctx, info, coverage, cases=None):
    """second half of C13: the release path through the real Gtp5g driver over the simulated kernel"""
    from checks import release_phase as rp
    r = rp.run(ctx, info["harness"], 40 if ctx.tier == "quick" else 1500, cases=cases)
    if r.get("error"):
        ctx.violation({"property": "C13", "broken": r["error"]}, no_input=True)
        return
    coverage["release_scenarios"] = len(r["cases"])
    coverage["release_model_impl_disagreements"] = len(r["mism"])
    coverage["release_monitor_failures"] = len(r["monf"])
    coverage["evaluations"] = coverage.get("evaluations", 0) + len(r["cases"])
    for ci, si, msg in r["pyf"][:2]:
        ctx.violation({"property": "C13", "what": "release path: " + msg, "mode": "release", "step": si, "case": r["cases"][ci],
                       "implementation_trace": r["impl"][ci][max(0, si - 2):si + 1]})
    for ci, si in ([] if r["pyf"] else r["monf"][:2]):
        ctx.violation({"property": "C13", "what": "release path: a datagram at the gNB is not a well-formed G-PDU carrying a packet that was "
                       "buffered earlier and not yet emitted, or the server faulted / a queue exceeds its capacity (step %d)" % si,
                       "mode": "release", "case": r["cases"][ci], "implementation_trace": r["impl"][ci]})
    coverage["release_monitor_failures"] = len(r["monf"]) + len(r["pyf"])
    if not r["monf"] and not r["pyf"] and r["mism"]:
        ci, si = r["mism"][0]
        ctx.violation({"property": "C13", "correspondence": "model/Release.v step <> implementation at step %d (datagrams per gNB, "
                       "downlink data reports or queue contents differ)" % si, "mode": "release", "case": r["cases"][ci],
                       "implementation_trace": r["impl"][ci][max(0, si - 2):si + 1]}, no_input=True)


def buffdec_cases(ctx):
    """octet strings for decodbuffer: well-formed notifications (any attribute order, repetitions, unknown attributes, flag
    bits in the type, packets of every length mod 4) and malformed ones (truncated, lengths off by a few, random octets);
    two with an attribute of length 0 (the walk never ends) go last"""
    import random
    rnd = random.Random(ctx.seed + 1313)
    n = 400 if ctx.tier == "quick" else 6000

    def attr(ty, payload, flags=0, lie=0):
        ln = 4 + len(payload) + lie
        pad = (-len(payload)) % 4
        return ln.to_bytes(2, "little") + (ty | flags).to_bytes(2, "little") + payload + bytes(pad)

    def good():
        parts = []
        kinds = ["pkt", "seid", "id", "act"] + [rnd.choice(["pkt", "seid", "id", "act", "other", "other"]) for _ in range(rnd.choice([0, 0, 1, 2, 3]))]
        rnd.shuffle(kinds)
        if rnd.random() < 0.15:
            kinds = [k for k in kinds if k != rnd.choice(["pkt", "seid", "id", "act"])]
        for k in kinds:
            fl = rnd.choice([0, 0, 0, 0x8000, 0x4000])
            if k == "pkt":
                parts.append(attr(4, bytes(rnd.randrange(256) for _ in range(rnd.choice([0, 1, 2, 3, 4, 5, 7, 8, 20, 61, 1400]))), fl))
            elif k == "seid":
                parts.append(attr(6, rnd.choice([0, 1, 2 ** 32, 2 ** 63, 2 ** 64 - 1, rnd.randrange(2 ** 64)]).to_bytes(8, "little"), fl))
            elif k == "id":
                parts.append(attr(5, rnd.choice([0, 1, 65535, rnd.randrange(65536)]).to_bytes(2, "little"), fl))
            elif k == "act":
                parts.append(attr(7, rnd.choice([4, 12, 0, 65535, rnd.randrange(65536)]).to_bytes(2, "little"), fl))
            else:
                parts.append(attr(rnd.choice([1, 2, 3, 8, 9, 100, 16383]), bytes(rnd.randrange(256) for _ in range(rnd.choice([0, 1, 4, 6]))), fl))
        return b"".join(parts)

    out = []
    for i in range(n):
        b = good()
        x = rnd.random()
        if x < 0.55:
            pass
        elif x < 0.7:
            b = b[:rnd.randrange(len(b) + 1)]                      # truncated
        elif x < 0.85 and len(b) >= 4:
            j = rnd.randrange(0, len(b))
            b = b[:j] + bytes([(b[j] + rnd.choice([1, 2, 3, 252, 253, 255])) % 256]) + b[j + 1:]   # one octet off
        else:
            b = bytes(rnd.randrange(256) for _ in range(rnd.choice([0, 1, 3, 4, 5, 8, 12, 30])))
        out.append(b)
    # a zero length anywhere would spin: keep such inputs for the end, and only two of them
    def has_zero_len(b):
        i = 0
        while i + 4 <= len(b):
            ln = int.from_bytes(b[i:i + 2], "little")
            if ln == 0:
                return True
            i += (ln + 3) & ~3
        return False
    out = [b for b in out if not has_zero_len(b)]
    out += [bytes([0, 0, 9, 0]), attr(6, (77).to_bytes(8, "little")) + bytes([0, 0, 5, 0, 1, 0, 0, 0])]
    return [b.hex() for b in out]


def buffdec_phase(ctx, info, coverage):
    """buffnetlink.decodbuffer: the real function against model/BuffDec.v on the same octet strings"""
    from lib import common
    from lib.common import clist
    cases = buffdec_cases(ctx)
    res, log = common.run_harness(ctx, info["harness"], "buffdec", cases, timeout=600)
    if res is None:
        ctx.violation({"property": "C13", "broken": "buffdec harness run failed", "log": log[-1500:]}, no_input=True)
        return
    items = []
    for h, o in zip(cases, res):
        bs = clist([str(x) for x in bytes.fromhex(h)])
        if o["res"] == "ok":
            pk = "(Some %s)" % clist([str(x) for x in bytes.fromhex(o["pkt"])]) if o["has_pkt"] else "None"
            ob = "(OOk %d %d %d %s)" % (o["seid"], o["pdr"], o["action"], pk)
        else:
            ob = {"err": "OErr", "panic": "OPanic", "loop": "OLoop"}[o["res"]]
        items.append("(%s, %s)" % (bs, ob))
    body = ("Inductive obs := OOk (seid pdr action : N) (pkt : option (list N)) | OErr | OPanic | OLoop.\n"
            "Definition oeq (a b : option (list N)) : bool := match a, b with None, None => true | Some x, Some y => list_N_eqb x y | _, _ => false end.\n"
            "Definition agrees (c : list N * obs) : bool :=\n"
            "  match dec_buffer (fst c), snd c with\n"
            "  | DOk s, OOk seid pdr action pkt => (b_seid s =? seid) && (b_pdr s =? pdr) && (b_action s =? action) && oeq (b_pkt s) pkt\n"
            "  | DErr, OErr => true | DPanic, OPanic => true | DLoop, OLoop => true\n"
            "  | DOut, _ => true        (* a length beyond the body: outside the model *)\n"
            "  | _, _ => false end.\n"
            "Fixpoint bad_idx {A} (f : A -> bool) (l : list A) (i : N) : list N :=\n"
            "  match l with [] => [] | x :: r => (if f x then [] else [i]) ++ bad_idx f r (i + 1) end.\n"
            "Definition cases : list (list N * obs) := \n" + clist(items) + ".\n"
            "Definition mism := Eval vm_compute in bad_idx agrees cases 0.\n"
            "Definition nout := Eval vm_compute in N.of_nat (List.length (filter (fun c => match dec_buffer (fst c) with DOut => true | _ => false end) cases)).\n")
    out, clog = common.run_coq_cases(ctx, "cases_c13_buffdec", body, ["Bytes", "Nlattr", "RulesGen", "BuffDec"], ["mism", "nout"])
    if out is None:
        ctx.violation({"property": "C13", "broken": "buffdec cases do not compile: " + clog[-1200:]}, no_input=True)
        return
    mm = common.parse_N_list(out["mism"])
    kinds = {}
    for o in res:
        kinds[o["res"]] = kinds.get(o["res"], 0) + 1
    coverage["buffdec"] = {"inputs": len(cases), "outcomes": kinds, "model_impl_disagreements": len(mm), "outside_model": out["nout"].strip()}
    coverage["evaluations"] = coverage.get("evaluations", 0) + len(cases)
    # the specification on the implementation's own answers: a well-formed notification in the module's form
    for i in mm[:1]:
        ctx.violation({"property": "C13", "what": "decodbuffer and model/BuffDec.v disagree on this notification body", "mode": "buffdec",
                       "octets": cases[i], "implementation": res[i]})


def both_phases(ctx, info, coverage):
    release_phase(ctx, info, coverage)
    buffdec_phase(ctx, info, coverage)


def run(ctx, replay=None):
    if replay:
        import json
        r = json.load(open(replay))
        if r.get("mode") == "release":
            # a replay of the release path: that scenario alone, through the full stack
            from lib import common
            info = common.prepare(ctx)
            coverage = {"obligations": len(info["obl"]["theorems"]), "discharged": len(info["obl"]["theorems"]) if info["obl"]["compiled"] else 0,
                        "checker_cmd": "make -f Makefile.coq + coqc props/C13.v", "trusted_base": common.TRUSTED_BASE,
                        "axioms": info["obl"]["axioms"], "theorems": info["obl"]["theorems"], "evaluations": 0, "distinct_nontrivial": 1,
                        "rule": "replay of one release scenario"}
            release_phase(ctx, info, coverage, cases=[r["case"]])
            return ctx.finish(coverage, [pc.PFCP_NOTE])
    return pc.run_property(ctx, "C13", pc.mon_c13, GEN, N_QUICK, N_THOROUGH, replay=replay, rule=RULE,
                           assumptions=[pc.PFCP_NOTE], finding_sig=None, directed=pc.directed_c13, extra_phase=both_phases)
