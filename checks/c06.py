"""C06 - see MANIFEST below and DESIGN.md section 4/C06."""
from checks import pfcp_common as pc

MANIFEST = dict(
    text='Kernel-checked: a request whose (source, sequence) is in the receive-transaction table leaves the ENTIRE state identical and is answered with the cached datagram (or not at all if none was produced) - for every message and state; keys compare exactly; the retention expiry releases the entry. Tie: differential run incl. duplicates from several peers using equal sequence numbers and injected retention expiries; monitor checks no driver call / no state change / byte-identical re-sent datagram on the real server.',
    note="Transaction keys are modelled as (peer, sequence) pairs; the string formatting 'addr-seq' is injective for ip:port addresses (no '-' in them) - not proved in Coq yet. Timers are injected events. ",
    technique='Coq step lemmas (duplicate = identity on the state) + differential run + byte-equality monitor',
    design='4/C06')

RULE = 'histories dense in duplicates (30%), equal sequence numbers across peers, retention expiries at random points'

GEN = dict(weights=dict(dup=30, timeout=14, hb=8, est=12, mod=14), npeers=3, big_seids=False)
N_QUICK, N_THOROUGH = 120, 3000


def run(ctx, replay=None):
    return pc.run_property(ctx, "C06", pc.mon_c06, GEN, N_QUICK, N_THOROUGH, replay=replay, rule=RULE,
                           assumptions=[pc.PFCP_NOTE])
