"""C06 - see MANIFEST below and DESIGN.md section 4/C06."""
import random
from lib import common
from checks import pfcp_common as pc
from checks import timer_phase

MANIFEST = dict(
    text='Kernel-checked: a request whose (source, sequence) is in the receive-transaction table leaves the ENTIRE state identical and is answered with the cached datagram (or not at all if none was produced) - for every message and state; keys compare exactly; the retention expiry releases the entry. Tie: differential run incl. duplicates from several peers using equal sequence numbers and injected retention expiries; monitor checks no driver call / no state change / byte-identical re-sent datagram on the real server.',
    note="Peers include alias sockets (same host, other source port: a different source address, never a retransmission). Responses lost in the socket are model events (EvRecvWF: the datagram is handled while every write fails; theorems C06_lost_response_same_state, C06_lost_heartbeat_response_retained) and part of the model-compared histories; the byte-identity monitor takes the first copy that left the UPF as the original. Transaction keys are modelled as (peer, sequence) pairs; the string keys fmt.Sprintf(format, addr, seq) at the sites regenerated from the source are proved injective for ANY address string and sequence number (C06_string_key_injective), and the rendering model is compared with the keys the real constructors build (IPv4/IPv6/zone addresses, sequence extremes). In the differential run timers are injected events; a separate real-timer phase (retention windows of 150-800 ms, duplicates inside the window, re-use of a sequence number after it, duplicates of the re-use) runs the real AfterFunc callbacks and checks the property on the time-stamped trace. With time (model/Timed.v): where transaction.go arms its timers, what an expiry posts and how the loop dispatches it is read from the source on every run (TimerGen.v, C06_timer_sites); the retention window is fixed at T*(N+1) from the first copy whatever follows (C06_retention_window_fixed), the bookkeeping is released at its end answered or not (C06_released_after_window), a sender's expiry never touches the receive table even for an equal key (C06_tx_expiry_leaves_receive_table); the variants 'armed when the response is sent' and 'posted as an RX event' are refuted. ",
    technique='Coq step lemmas (duplicate = identity on the state) + differential run + byte-equality monitor',
    design='4/C06')

RULE = 'histories dense in duplicates (30%), equal sequence numbers across peers, retention expiries at random points'

GEN = dict(weights=dict(dup=30, timeout=14, hb=8, est=12, mod=14), npeers=3, big_seids=False, p_alias=0.12, p_wfail_recv=0.08)
N_QUICK, N_THOROUGH = 120, 3000


def cstr(s):
    assert all(32 <= ord(c) < 127 for c in s)
    return '"' + s.replace('"', '""') + '"'


def txkey_phase(ctx, info, coverage):
    """model/TxKey.trid vs the keys NewTxTransaction/NewRxTransaction build"""
    rnd = random.Random(ctx.seed + 6)
    cases = []
    ips = ["127.0.0.1", "10.0.0.200", "255.255.255.255", "0.0.0.0", "::1", "fe80::1", "2001:db8::10:1", "::ffff:1.2.3.4"]
    seqs = [0, 1, 9, 10, 99, 100, 2**24 - 1, 2**24, 2**31, 2**32 - 1]
    for ip in ips:
        for sq in seqs:
            zone = rnd.choice(["", "", "eth0", "a-b", "1-2"]) if ":" in ip and not ip.startswith("::ffff") else ""
            cases.append({"ip": ip, "port": rnd.choice([8805, 0, 1, 65535, 80]), "zone": zone, "seq": sq})
    # pairs that collide under a format without (or with a digit-like) separator: the port's last digit moves to the sequence number
    for port, sq in [(8805, 1), (8805, 0), (65535, 12), (10, 7)]:
        for ip in ("127.0.0.1", "::1"):
            cases.append({"ip": ip, "port": port, "zone": "", "seq": sq})
            cases.append({"ip": ip, "port": port // 10, "zone": "", "seq": int(str(port % 10) + str(sq))})
    for _ in range(60 if ctx.tier == "quick" else 2000):
        v6 = rnd.random() < 0.4
        ip = ":".join("%x" % rnd.randrange(65536) for _ in range(8)) if v6 else ".".join(str(rnd.randrange(256)) for _ in range(4))
        cases.append({"ip": ip, "port": rnd.randrange(65536), "zone": rnd.choice(["", "", "z-%d" % rnd.randrange(100)]) if v6 else "",
                      "seq": rnd.choice([rnd.randrange(2**32), rnd.randrange(2**24), rnd.randrange(1000)])})
    res, log = common.run_harness(ctx, info["harness"], "txkey", cases, timeout=300)
    if res is None:
        ctx.violation({"property": "C06", "broken": "txkey harness run failed: " + log[-1200:]}, no_input=True)
        return
    items = ["(%s, %d, %s, %s)" % (cstr(r["addr"]), c["seq"], cstr(r["tx"]), cstr(r["rx"])) for c, r in zip(cases, res)]
    body = """
Definition key_agrees (c : string * N * string * string) : bool :=
  match c with (a, n, tx, rx) => String.eqb (trid a n) tx && String.eqb (trid a n) rx end.
Fixpoint bad_idx {A} (f : A -> bool) (l : list A) (i : N) : list N :=
  match l with [] => [] | x :: r => if f x then bad_idx f r (i + 1) else i :: bad_idx f r (i + 1) end.
Local Open Scope string_scope.
Definition kcases : list (string * N * string * string) := [""" + ";\n".join(items) + """].
Definition kmism := Eval vm_compute in bad_idx key_agrees kcases 0.
"""
    out, clog = common.run_coq_cases(ctx, "cases_c06_txkey", body, ["TxKey"], ["kmism"])
    if out is None:
        ctx.violation({"property": "C06", "broken": "txkey cases do not compile: " + clog[-800:]}, no_input=True)
        return
    mism = common.parse_N_list(out["kmism"])
    coverage["txkey_cases"] = len(cases)
    coverage["txkey_mismatches"] = len(mism)
    coverage["evaluations"] = coverage.get("evaluations", 0) + len(cases)
    # two different (address, sequence) pairs with the same real key would be a failing input for the property itself
    seen = {}
    for c, r in zip(cases, res):
        for k in (r["tx"], r["rx"]):
            prev = seen.setdefault(k, (r["addr"], c["seq"]))
            if prev != (r["addr"], c["seq"]):
                ctx.violation({"property": "C06", "what": "two different (address, sequence number) pairs share one transaction key",
                               "key": k, "pairs": [prev, (r["addr"], c["seq"])]})
                return
    if mism:
        i = mism[0]
        ctx.violation({"property": "C06", "correspondence": "model/TxKey.trid <> key built by the real transaction constructors",
                       "case": cases[i], "result": res[i]}, no_input=True)


def both_phases(ctx, info, coverage):
    txkey_phase(ctx, info, coverage)
    timer_phase.phase("C06", timer_phase.mon_c06_timed)(ctx, info, coverage)


def run(ctx, replay=None):
    return pc.run_property(ctx, "C06", pc.mon_c06, GEN, N_QUICK, N_THOROUGH, replay=replay, rule=RULE,
                           assumptions=[pc.PFCP_NOTE], extra_phase=both_phases)
