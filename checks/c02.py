"""C02 - PDR and FAR reach the kernel exactly as the SMF specified them."""
import itertools
import json
import random
from concurrent.futures import ThreadPoolExecutor

from lib import common
from lib.common import clist

MANIFEST = dict(
    text="Kernel-checked decoder-of-encoder theorems: for ALL 64-bit SEIDs and ALL well-formed Create/Update PDR and "
         "Create/Update FAR grouped IEs (boolean wf: singleton IEs at most once, values within their wire widths, any number "
         "of QER ids / URR ids / SDF filters, any other IEs interleaved), an independent strict reference decoder of the gtp5g "
         "netlink rule format applied to the model of gtp5g.go:176-753 (+ go-gtp5gnl's request envelope) returns exactly the "
         "order-free specification of the IE (ids, SEID, precedence, source interface, F-TEID, UE address, every SDF filter "
         "with source/destination swapped iff source interface = Access, outer-header removal, FAR/QER/URR ids, apply-action "
         "bits, outer-header creation TEID/peer/port, forwarding policy, BAR id); results are invariant under permutation of "
         "child IEs at both nesting levels. The model is tied to the source on every run: attribute/command numbers and the "
         "shape of every switch clause are regenerated from go.mod's go-gtp5gnl and gtp5g.go (T-gen, pinned by Examples), and "
         "the REAL Gtp5g.CreatePDR/UpdatePDR/CreateFAR/UpdateFAR run over a simulated gtp5g netlink endpoint (SimKernel) on "
         "generated IEs; inside Coq the captured request is compared with the model's and the reference decoder + spec is "
         "applied to the implementation's request as a monitor.",
    note="Modelled, not verified: go-pfcp's IE accessors (the model's input is what they return for the IE handed to the driver), "
         "forwarder.ParseFlowDesc (its result is an input here; C16 owns it), go-nl's serialisation of the attribute tree (the "
         "tree is re-parsed from the bytes written on the simulated socket by SimKernel). Outside the well-formed set and said "
         "so in props/C02.v: SDF TTC/SPI/FL (driver placeholders), IPv6 addresses, apply-action IEs longer than 2 octets. "
         "Finding (known_findings.txt): a forwarding-policy identifier containing a NUL octet is cut at the NUL.",
    technique="Coq proof (decoder-of-encoder, permutation invariance) + generated tables/clauses + differential run of the real driver "
              "over SimKernel vs vm_compute model + reference-decoder monitor on the implementation's requests",
    design="4/C02")

REQUIRES = ["Bytes", "Nlattr", "PfcpIe", "RulesGen", "RulesSpec", "RulesPdrFar"]
LINK = 7
OPS = ["create_pdr", "update_pdr", "create_far", "update_far"]
CHUNK = 400

B8 = [0, 1, 254, 255]
B16 = [0, 1, 65534, 65535]
B32 = [0, 1, 2**32 - 2, 2**32 - 1]
SEIDS = [0, 1, 2**32 - 1, 2**32, 2**63 - 1, 2**63, 2**64 - 2, 2**64 - 1]


def hx(b):
    return bytes(b).hex()


class Gen:
    def __init__(self, rnd):
        self.r = rnd

    def pick(self, bounds, bits):
        if self.r.random() < 0.55:
            return self.r.choice(bounds)
        return self.r.randrange(2 ** bits)

    def ip4(self):
        c = self.r.random()
        if c < 0.1:
            return "00000000"
        if c < 0.2:
            return "ffffffff"
        return hx(self.r.randrange(256) for _ in range(4))

    def seid(self):
        return self.r.choice(SEIDS) if self.r.random() < 0.6 else self.r.randrange(2 ** 64)

    # ---- flow descriptions (text handed to the real ParseFlowDesc; its result is read back from the harness)
    def addr(self):
        c = self.r.random()
        if c < 0.25:
            return "any"
        if c < 0.35:
            return "assigned"
        a = ".".join(str(self.r.choice([0, 1, 10, 127, 192, 255, self.r.randrange(256)])) for _ in range(4))
        if self.r.random() < 0.6:
            a += "/%d" % self.r.choice([0, 1, 8, 24, 31, 32, self.r.randrange(33)])
        return a

    def ports(self):
        n = self.r.choice([0, 0, 1, 1, 2, 3])
        if n == 0:
            return ""
        out = []
        for _ in range(n):
            a = self.pick([0, 1, 65534, 65535], 16)
            if self.r.random() < 0.5:
                out.append(str(a))
            else:
                out.append("%d-%d" % (a, self.pick([0, 1, 65534, 65535], 16)))
        return ",".join(out)

    def flowdesc(self, valid=True):
        if not valid:
            return self.r.choice(["deny out ip from any to any", "permit sideways ip from any to any", "permit out ip from any",
                                  "", "permit out 256 from any to any", "permit out ip from 1.2.3 to any", "garbage"])
        proto = self.r.choice(["ip", "6", "17", "0", "255", str(self.r.randrange(256))])
        sp, dp = self.ports(), self.ports()
        return "permit %s %s from %s%s to %s%s" % (self.r.choice(["in", "out"]), proto, self.addr(), " " + sp if sp else "",
                                                    self.addr(), " " + dp if dp else "")

    def sdf(self, wf=True):
        has_fd = self.r.random() < 0.8
        has_bid = self.r.random() < 0.5 or not has_fd
        flags = (1 if has_fd else 0) | (16 if has_bid else 0)
        d = {"k": "sdf", "flags": flags, "fd": "", "bid": 0, "ttc": "", "spi": "", "fl": ""}
        if has_fd:
            d["fd"] = self.flowdesc(valid=wf or self.r.random() < 0.5).encode().hex()
        if has_bid:
            d["bid"] = self.pick(B32, 32)
        if not wf and self.r.random() < 0.6:
            for bit, key, n in ((2, "ttc", 2), (4, "spi", 4), (8, "fl", 3)):
                if self.r.random() < 0.5:
                    d["flags"] |= bit
                    d[key] = hx(self.r.randrange(256) for _ in range(n))
        return d

    def others(self, lst, p=0.3):
        if self.r.random() < p:
            lst.append({"k": "netinst", "hex": b"internet".hex()})
        if self.r.random() < p / 2:
            lst.append({"k": "appid", "hex": b"app1".hex()})

    def pdi(self, wf=True):
        c = []
        srcif = self.r.choice([0, 0, 0, 1, 1, 2, 3, 4, 15]) if wf or self.r.random() < 0.7 else self.r.randrange(256)
        c.append({"k": "srcif", "v": srcif})
        if self.r.random() < 0.7:
            c.append({"k": "fteid", "flags": 1, "teid": self.pick(B32, 32), "v4": self.ip4(), "v6": "", "chid": 0})
        if self.r.random() < 0.7:
            c.append({"k": "ueip", "flags": 2 | (4 if self.r.random() < 0.5 else 0), "v4": self.ip4(), "v6": ""})
        for _ in range(self.r.choice([0, 1, 1, 1, 2, 3])):
            c.append(self.sdf(wf))
        self.others(c)
        if not wf:
            m = self.r.randrange(9)
            if m == 0:
                c = [x for x in c if x["k"] != "srcif"]
            elif m == 1:
                c.append({"k": "srcif", "v": self.r.randrange(4)})
            elif m == 2:
                c.append({"k": "fteid", "flags": 2, "teid": 5, "v4": "", "v6": "20010db8000000000000000000000001", "chid": 0})
            elif m == 3:
                c.append({"k": "fteid", "flags": 4 | 8, "teid": 0, "v4": "", "v6": "", "chid": 9})
            elif m == 4:
                c.append({"k": "ueip", "flags": 1, "v4": "", "v6": "20010db8000000000000000000000002"})
            elif m == 5:
                c.append({"k": "raw", "type": self.r.choice([20, 21, 93, 23]), "hex": ""})
            elif m == 6:
                c = [x for x in c if x["k"] in ("netinst", "appid")]
            elif m == 7:
                c.append({"k": "ueip", "flags": 2, "v4": self.ip4(), "v6": ""})
        self.r.shuffle(c)
        return {"k": "pdi", "c": c}

    def pdr(self, op, wf=True):
        ies = [{"k": "pdrid", "v": self.pick(B16, 16)}]
        if self.r.random() < 0.8:
            ies.append({"k": "prec", "v": self.pick(B32, 32)})
        if self.r.random() < 0.85:
            ies.append(self.pdi(wf or self.r.random() < 0.5))
        if self.r.random() < 0.6:
            ies.append({"k": "ohr", "desc": self.pick(B8, 8), "ext": self.r.choice([None, 0, 1, 255])})
        if self.r.random() < 0.8:
            ies.append({"k": "farid", "v": self.pick(B32, 32)})
        for _ in range(self.r.choice([0, 1, 1, 2, 3])):
            ies.append({"k": "qerid", "v": self.pick(B32, 32)})
        for _ in range(self.r.choice([0, 1, 1, 2, 3])):
            ies.append({"k": "urrid", "v": self.pick(B32, 32)})
        self.others(ies, 0.15)
        if self.r.random() < 0.1:
            ies.append({"k": "barid", "v": 3})                     # no case in the PDR switch
        if not wf:
            m = self.r.randrange(7)
            if m == 0:
                ies = [x for x in ies if x["k"] != "pdrid"]
            elif m == 1:
                ies.append({"k": self.r.choice(["pdrid", "prec", "farid"]), "v": self.r.randrange(65536)})
            elif m == 2:
                ies.append({"k": "ohr", "desc": 1, "ext": None})
            elif m == 3:
                ies.append({"k": "raw", "type": self.r.choice([56, 29, 95, 108, 109, 81]), "hex": self.r.choice(["", "00"])})
            elif m == 4:
                ies.append(self.pdi(False))
            elif m == 5 and not any(x["k"] == "pdi" for x in ies):
                ies.append(self.pdi(False))
        self.r.shuffle(ies)
        return {"op": op, "seid": self.seid(), "ies": ies}

    def ohc(self, wf=True):
        kind = self.r.choice([0x0100, 0x0100, 0x0100, 0x0200, 0x0400, 0x0800, 0x1000, 0x2000, 0x0300]) if wf else \
            self.r.choice([0x0500, 0x0600, 0x0d00, 0x0000, 0x3f00, 0x0101, 0x2100])
        # bits 7/8 of either description octet (C-TAG/S-TAG, spare) are kept out of the stream: see OHC_SPARE_PROBE
        desc = kind | (self.r.choice([0, 0, 1, 2, 4]) if wf else self.r.randrange(64))
        return {"k": "ohc", "desc": desc, "teid": self.pick(B32, 32), "v4": self.ip4(), "v6": "20010db8000000000000000000000001",
                "port": self.pick(B16, 16), "ctag": 0x123456 & 0xffffff, "stag": 0x654321}

    def fpol(self, nul=False):
        n = self.r.choice([0, 1, 1, 4, 8, 32, 255]) if self.r.random() < 0.7 else self.r.randrange(256)
        s = [self.r.randrange(1, 256) for _ in range(n)]
        if nul and s:
            s[self.r.randrange(len(s))] = 0
        return {"k": "fpol", "hex": hx(s)}

    def fparams(self, upd, wf=True, nul=False):
        c = []
        if self.r.random() < 0.8:
            c.append({"k": "dstif", "v": self.r.choice([0, 1, 2, 3])})
        if self.r.random() < 0.8:
            c.append(self.ohc(wf or self.r.random() < 0.5))
        if self.r.random() < 0.5 or nul:
            c.append(self.fpol(nul))
        if self.r.random() < 0.3:
            c.append({"k": "smreq", "v": self.pick(B8, 8)})
        self.others(c)
        if not wf:
            m = self.r.randrange(4)
            if m == 0:
                c.append(self.ohc(True))
            elif m == 1:
                c.append(self.fpol())
            elif m == 2:
                c.append({"k": "raw", "type": self.r.choice([84, 41, 49]), "hex": ""})
            elif m == 3:
                c.append({"k": "smreq", "v": 1})
        self.r.shuffle(c)
        return {"k": "ufp" if upd else "fp", "c": c}

    def aa(self, wf=True):
        c = self.r.random()
        if not wf and c < 0.5:
            return {"k": "aa", "hex": hx(self.r.randrange(256) for _ in range(self.r.choice([3, 4])))}
        if c < 0.3:
            return {"k": "aa", "hex": hx([1 << self.r.randrange(8)])}
        if c < 0.6:
            v = 1 << self.r.randrange(16)
            return {"k": "aa", "hex": hx([v & 255, v >> 8])}
        if c < 0.8:
            return {"k": "aa", "hex": hx(self.r.choice([[0], [255], [0, 0], [255, 255], [0, 255], [255, 0]]))}
        return {"k": "aa", "hex": hx(self.r.randrange(256) for _ in range(self.r.choice([1, 2])))}

    def far(self, op, wf=True, nul=False):
        upd = op == "update_far"
        ies = [{"k": "farid", "v": self.pick(B32, 32)}]
        if self.r.random() < 0.85:
            ies.append(self.aa(wf or self.r.random() < 0.5))
        if self.r.random() < 0.85 or nul:
            ies.append(self.fparams(upd, wf or self.r.random() < 0.5, nul))
        if self.r.random() < 0.5:
            ies.append({"k": "barid", "v": self.pick(B8, 8)})
        if self.r.random() < 0.15:
            ies.append(self.fparams(not upd, True))               # the other operation's grouped IE: ignored
        self.others(ies, 0.1)
        if self.r.random() < 0.1:
            ies.append({"k": "urrid", "v": 1})
        if not wf:
            m = self.r.randrange(7)
            if m == 0:
                ies = [x for x in ies if x["k"] != "farid"]
            elif m == 1:
                ies.append({"k": "farid", "v": self.r.randrange(2 ** 32)})
            elif m == 2:
                ies.append({"k": "raw", "type": self.r.choice([108, 44, 88]), "hex": ""})
            elif m == 3:
                ies.append(self.aa(True))
            elif m == 4:
                ies.append(self.fparams(upd, True))
            elif m == 5:
                ies.append({"k": "barid", "v": 7})
        self.r.shuffle(ies)
        return {"op": op, "seid": self.seid(), "ies": ies}


def all_perms_cases(rnd, thorough):
    """exhaustive child orders for samples with <= 5 children, at both nesting levels"""
    g = Gen(rnd)
    out = []
    for rep in range(3 if thorough else 1):
        pdi = {"k": "pdi", "c": [{"k": "srcif", "v": rep % 2}, {"k": "fteid", "flags": 1, "teid": g.pick(B32, 32), "v4": g.ip4(), "v6": "", "chid": 0},
                                 {"k": "ueip", "flags": 2, "v4": g.ip4(), "v6": ""}]}
        sdf1 = {"k": "sdf", "flags": 17, "fd": b"permit out 17 from 10.1.2.0/24 1000-2000 to 192.168.7.9 80,443".hex(), "bid": 77, "ttc": "", "spi": "", "fl": ""}
        sdf2 = {"k": "sdf", "flags": 1, "fd": b"permit out ip from any to assigned".hex(), "bid": 0, "ttc": "", "spi": "", "fl": ""}
        base = [{"k": "pdrid", "v": g.pick(B16, 16)}, {"k": "prec", "v": g.pick(B32, 32)}, pdi, {"k": "farid", "v": g.pick(B32, 32)},
                {"k": "qerid", "v": g.pick(B32, 32)}]
        for op in ("create_pdr", "update_pdr"):
            for p in itertools.permutations(base):
                out.append({"op": op, "seid": g.seid(), "ies": list(p)})
        kids = pdi["c"] + [sdf1, sdf2]
        for p in itertools.permutations(kids):
            out.append({"op": "create_pdr", "seid": g.seid(), "ies": [base[0], base[1], {"k": "pdi", "c": list(p)}, base[3]]})
        for op in ("create_far", "update_far"):
            upd = op == "update_far"
            fpc = [{"k": "dstif", "v": 0}, g.ohc(True), g.fpol(), {"k": "smreq", "v": g.pick(B8, 8)}]
            fb = [{"k": "farid", "v": g.pick(B32, 32)}, g.aa(True), {"k": "ufp" if upd else "fp", "c": fpc}, {"k": "barid", "v": g.pick(B8, 8)}]
            for p in itertools.permutations(fb):
                out.append({"op": op, "seid": g.seid(), "ies": list(p)})
            for p in itertools.permutations(fpc):
                out.append({"op": op, "seid": g.seid(), "ies": [fb[0], fb[1], {"k": fb[2]["k"], "c": list(p)}, fb[3]]})
    for c in out:
        c["want_wf"] = True
    return out


def field_sweep(rnd):
    """each scalar field at 0 / 1 / max-1 / max with everything else fixed; all SEID classes"""
    out = []
    pdi = lambda s: {"k": "pdi", "c": [{"k": "srcif", "v": s}, {"k": "fteid", "flags": 1, "teid": 0x01020304, "v4": "0a000001", "v6": "", "chid": 0}]}
    for s in SEIDS:
        out.append({"op": "create_pdr", "seid": s, "ies": [{"k": "pdrid", "v": 1}, pdi(0)]})
        out.append({"op": "update_far", "seid": s, "ies": [{"k": "farid", "v": 1}, {"k": "aa", "hex": "02"}]})
    for v in B16:
        out.append({"op": "create_pdr", "seid": 5, "ies": [{"k": "pdrid", "v": v}, pdi(1)]})
        out.append({"op": "create_far", "seid": 5, "ies": [{"k": "farid", "v": 1}, {"k": "fp", "c": [
            {"k": "ohc", "desc": 0x0400, "teid": 0, "v4": "01020304", "v6": "", "port": v, "ctag": 0, "stag": 0}]}]})
    for v in B32:
        for k in ("prec", "farid", "qerid", "urrid"):
            out.append({"op": "update_pdr", "seid": 5, "ies": [{"k": "pdrid", "v": 2}, {"k": k, "v": v}]})
        out.append({"op": "create_pdr", "seid": 5, "ies": [{"k": "pdrid", "v": 2}, {"k": "pdi", "c": [
            {"k": "srcif", "v": 0}, {"k": "fteid", "flags": 1, "teid": v, "v4": "7f000001", "v6": "", "chid": 0},
            {"k": "sdf", "flags": 16, "fd": "", "bid": v, "ttc": "", "spi": "", "fl": ""}]}]})
        out.append({"op": "create_far", "seid": 5, "ies": [{"k": "farid", "v": v}, {"k": "fp", "c": [
            {"k": "ohc", "desc": 0x0100, "teid": v, "v4": "01020304", "v6": "", "port": 0, "ctag": 0, "stag": 0}]}]})
    for v in B8:
        out.append({"op": "create_pdr", "seid": 5, "ies": [{"k": "pdrid", "v": 2}, {"k": "ohr", "desc": v, "ext": None}, pdi(v)]})
        out.append({"op": "update_far", "seid": 5, "ies": [{"k": "farid", "v": 2}, {"k": "barid", "v": v},
                                                            {"k": "ufp", "c": [{"k": "smreq", "v": v}]}]})
    for b in range(16):
        v = 1 << b
        out.append({"op": "create_far", "seid": 5, "ies": [{"k": "farid", "v": 2}, {"k": "aa", "hex": hx([v & 255, v >> 8])}]})
    for c in out:
        c["want_wf"] = True
    # outside wf (model correspondence only): two Source Interface IEs around an SDF filter - the LAST one decides the swap
    sdf = {"k": "sdf", "flags": 1, "fd": b"permit out 6 from 10.0.0.1 1-2 to 10.0.0.2 3".hex(), "bid": 0, "ttc": "", "spi": "", "fl": ""}
    for a in (0, 1):
        for b in (0, 1, 2):
            for p in itertools.permutations([{"k": "srcif", "v": a}, {"k": "srcif", "v": b}, sdf]):
                out.append({"op": "create_pdr", "seid": 9, "ies": [{"k": "pdrid", "v": 3}, {"k": "pdi", "c": list(p)}], "want_wf": False})
    return out


def gen_cases(ctx):
    rnd = random.Random(ctx.seed)
    g = Gen(rnd)
    thorough = ctx.tier != "quick"
    cases = field_sweep(rnd) + all_perms_cases(rnd, thorough)
    n = 40000 if thorough else 2500
    for i in range(n):
        op = OPS[i % 4]
        wf = rnd.random() < 0.75
        c = g.pdr(op, wf) if op.endswith("pdr") else g.far(op, wf)
        c["want_wf"] = wf
        cases.append(c)
    cases.append(dict(OHC_SPARE_PROBE, want_wf=False))
    # full-strength candidates outside wf by a documented clause: forwarding policy with a NUL octet
    for i in range(60 if thorough else 12):
        c = g.far(OPS[2 + i % 2], True, nul=True)
        c["want_wf"] = False
        c["full"] = "fpol_nul"
        cases.append(c)
    return cases


# ---------------------------------------------------------------- Coq terms

def cb(b):
    return "true" if b else "false"


def cbytes(h):
    return clist([str(x) for x in bytes.fromhex(h)])


def coq_pfd(p):
    if p is None:
        return "None"
    act = 1 if p["action"] == "permit" else 0
    d = {"in": 1, "out": 2}.get(p["dir"], 0)
    pl = lambda ps: clist([clist([str(x) for x in e]) for e in ps])
    return ("(Some {| pf_action := %d; pf_dir := %d; pf_proto := %d; pf_src_ip := %s; pf_src_mask := %s; pf_dst_ip := %s; "
            "pf_dst_mask := %s; pf_sports := %s; pf_dports := %s |})"
            % (act, d, p["proto"], cbytes(p["src_ip"]), cbytes(p["src_mask"]), cbytes(p["dst_ip"]), cbytes(p["dst_mask"]),
               pl(p["sports"]), pl(p["dports"])))


def coq_ie(a):
    k = a["k"]
    if k in ("pdrid", "prec", "srcif", "ohr", "farid", "qerid", "urrid", "smreq", "barid"):
        return "(%s %d)" % ({"pdrid": "IPdrId", "prec": "IPrecedence", "srcif": "ISrcIf", "ohr": "IOhr", "farid": "IFarId", "qerid": "IQerId",
                             "urrid": "IUrrId", "smreq": "ISmReqFlags", "barid": "IBarId"}[k], a["v"])
    if k in ("pdi", "fp", "ufp"):
        return "(%s %s)" % ({"pdi": "IPdi", "fp": "IFwdParams", "ufp": "IUpdFwdParams"}[k], clist([coq_ie(x) for x in a["c"]]))
    if k == "fteid":
        return "(IFteid %d %s)" % (a["teid"], cbytes(a["v4"]))
    if k == "ueip":
        return "(IUeIp %s)" % cbytes(a["v4"])
    if k == "sdf":
        return "(ISdf %s %s %s %s %s %s %s %d)" % (cb(a["has_fd"]), cb(a["has_ttc"]), cb(a["has_spi"]), cb(a["has_fl"]), cb(a["has_bid"]),
                                                    cbytes(a["fd_raw"]), coq_pfd(a["pfd"]), a["bid"])
    if k == "aa":
        return "(IApplyAction %s)" % cbytes(a["b"])
    if k == "ohc":
        return "(IOhc %d %s %s %d %s %d)" % (a["desc"], cb(a["has_teid"]), cb(a["has_v4"]), a["teid"], cbytes(a["v4"]), a["port"])
    if k == "fpol":
        return "(IFwdPolicy %s)" % cbytes(a["id"])
    if k == "bad":
        return "(IBad %d)" % a["type"]
    if k == "other":
        return "(IOther %d)" % a["type"]
    raise ValueError(k)


def coq_attr(a):
    if a.get("n"):
        return "(A %d (VNest %s))" % (a["t"], clist([coq_attr(x) for x in a.get("s") or []]))
    return "(A %d (VBytes %s))" % (a["t"], cbytes(a.get("d", "")))


ADD_CMD = {"create_pdr": 1, "update_pdr": 1, "create_far": 2, "update_far": 2}


def add_request(c, r):
    """the (single) ADD_PDR / ADD_FAR request of a case's output, or None"""
    adds = [q for q in r["reqs"] if q["cmd"] == ADD_CMD[c["op"]] and q["conn"] == "main"]
    return adds[-1] if adds else None, len(adds)


def coq_case(c, r):
    q, _ = add_request(c, r)
    impl = "None" if q is None else "(Some (%d, %d, %s))" % (q["cmd"], q["flags"], clist([coq_attr(a) for a in q["attrs"]]))
    raw = "[]" if q is None else cbytes(q["raw"])
    return "(%d, %d, %s, %s, %s, %s, %s)" % (OPS.index(c["op"]), c["seid"], clist([coq_ie(a) for a in r["abs"]]), impl,
                                             cb(c.get("want_wf", False)), cb(bool(c.get("full"))), raw)


PRELUDE = r"""
Definition link : N := %d.
(* operation, SEID, abstract IEs, the implementation's ADD request (cmd, flags, tree as parsed by SimKernel), generated as
   well-formed?, full-strength candidate?, the request's attribute octets as written on the simulated socket *)
Definition tcase : Type := (N * N * list ie * option (N * N * list attr) * bool * bool * list N)%%type.
Definition run_model (op seid : N) (ies : list ie) : result request :=
  if op =? 0 then create_pdr link seid ies else if op =? 1 then update_pdr link seid ies
  else if op =? 2 then create_far link seid ies else update_far link seid ies.
(* model request = implementation request: command, flags, attribute tree, and at octet level: the model's tree serialised
   like go-nl equals the octets on the wire, and those octets parse (Nlattr.parse) to the tree SimKernel reported *)
Definition agrees (c : tcase) : bool :=
  let '(op, seid, ies, impl, _, _, raw) := c in
  match run_model op seid ies, impl with
  | Ok (cmd, fl, _, attrs), Some (cmd', fl', attrs') =>
      (cmd =? cmd') && (fl =? fl') && attrs_eqb (map norm attrs) attrs'
      && list_N_eqb (ser_list attrs) raw
      && match parse (S (List.length raw)) raw with Some t => attrs_eqb t attrs' | None => false end
  | Err, None => true
  | _, _ => false
  end.
Definition is_wf (c : tcase) : bool :=
  let '(op, _, ies, _, _, _, _) := c in
  if op <? 2 then wf_pdr ies else wf_far (op =? 3) ies.
Definition req_ok (c : tcase) : bool :=
  let '(op, seid, ies, impl, _, _, _) := c in
  match impl with
  | Some (cmd, fl, attrs) =>
      if op <? 2 then pdr_req_ok (op =? 0) link seid ies cmd fl attrs else far_req_ok (op =? 3) link seid ies cmd fl attrs
  | None => false
  end.
Definition monitor (c : tcase) : bool := if is_wf c then req_ok c else true.
Definition monitor_full (c : tcase) : bool := let '(_, _, _, _, _, full, _) := c in if full then req_ok c else true.
Definition wf_as_wanted (c : tcase) : bool := let '(_, _, _, _, w, _, _) := c in if w then is_wf c else true.
Fixpoint bad_idx {X} (f : X -> bool) (l : list X) (i : N) : list N :=
  match l with [] => [] | x :: r => (if f x then [] else [i]) ++ bad_idx f r (i + 1) end.
""" % LINK


def evaluate_chunk(ctx, name, items):
    body = PRELUDE + "Definition cases : list tcase := \n" + clist(items) + ".\n"
    for nm, f in (("mism", "agrees"), ("monf", "monitor"), ("fullf", "monitor_full"), ("wfdiff", "wf_as_wanted")):
        body += "Definition %s := Eval vm_compute in bad_idx %s cases 0.\n" % (nm, f)
    body += "Definition nwf := Eval vm_compute in N.of_nat (List.length (filter is_wf cases)).\n"
    res, log = common.run_coq_cases(ctx, name, body, REQUIRES, ["mism", "monf", "fullf", "wfdiff", "nwf"])
    if res is None:
        return None, log
    return {k: common.parse_N_list(v) for k, v in res.items()}, log


def evaluate(ctx, idx, cases, impl):
    """idx: indices (into cases) that go to Coq.  Returns dict of global index lists, or (None, log)."""
    chunks = [idx[i:i + CHUNK] for i in range(0, len(idx), CHUNK)]

    def one(k):
        ch = chunks[k]
        return evaluate_chunk(ctx, "cases_c02_%d" % k, [coq_case(cases[i], impl[i]) for i in ch])
    with ThreadPoolExecutor(max_workers=12) as ex:
        results = list(ex.map(one, range(len(chunks))))
    tot = {"mism": [], "monf": [], "fullf": [], "wfdiff": [], "nwf": 0}
    for ch, (res, log) in zip(chunks, results):
        if res is None:
            return None, log
        for k in ("mism", "monf", "fullf", "wfdiff"):
            tot[k] += [ch[j] for j in res[k]]
        tot["nwf"] += res["nwf"][0] if res["nwf"] else 0
    return tot, ""


# ---------------------------------------------------------------- second opinion: go-gtp5gnl's own decoders

def want_libdec(c):
    """what DecodePDR / DecodeFAR should report for a case the generator built as well-formed (Python rendering of the IE)"""
    ies = c["ies"]
    first = lambda k, l=ies: next((x for x in l if x["k"] == k), None)
    if c["op"].endswith("pdr"):
        w = {"id": first("pdrid")["v"], "seid": c["seid"], "prec": (first("prec") or {}).get("v"), "farid": (first("farid") or {}).get("v"),
             "ohr": (first("ohr") or {}).get("desc"), "qerids": [x["v"] for x in ies if x["k"] == "qerid"] or None,
             "urrids": [x["v"] for x in ies if x["k"] == "urrid"] or None}
        p = first("pdi")
        if p:
            pc = p["c"]
            ft, ue = first("fteid", pc), first("ueip", pc)
            w["pdi"] = {"srcif": first("srcif", pc)["v"], "ueaddr": ue["v4"] if ue else "",
                        "fteid": {"teid": ft["teid"], "addr": ft["v4"]} if ft else None,
                        "nsdf": len([x for x in pc if x["k"] == "sdf"]),
                        "last_bid": next((x["bid"] if x["flags"] & 16 else None for x in reversed(pc) if x["k"] == "sdf"), None)}
        else:
            w["pdi"] = None
        return w
    upd = c["op"] == "update_far"
    aa = first("aa")
    w = {"id": first("farid")["v"], "seid": c["seid"], "barid": (first("barid") or {}).get("v"),
         "action": None if aa is None else int.from_bytes(bytes.fromhex(aa["hex"])[:2], "little")}
    return w


def libdec_ok(c, r):
    d = r.get("dec")
    if not isinstance(d, dict):
        return False, "decoder said %r" % (d,)
    w = want_libdec(c)
    if c["op"].endswith("pdr"):
        for k in ("id", "seid", "prec", "farid", "ohr", "qerids", "urrids"):
            if d.get(k) != w[k]:
                return False, "%s: decoded %r, IE has %r" % (k, d.get(k), w[k])
        if (d["pdi"] is None) != (w["pdi"] is None):
            return False, "pdi presence"
        if w["pdi"]:
            dp, wp = d["pdi"], w["pdi"]
            if dp["srcif"] != wp["srcif"] or dp["ueaddr"] != wp["ueaddr"] or dp["fteid"] != wp["fteid"]:
                return False, "pdi: decoded %r, IE has %r" % (dp, wp)
            if (dp["sdf"] is None) != (wp["nsdf"] == 0):
                return False, "sdf presence"
            if dp["sdf"] and dp["sdf"]["bid"] != wp["last_bid"]:
                return False, "sdf filter id"
        return True, ""
    for k in ("id", "seid", "barid"):
        if d.get(k) != w[k]:
            return False, "%s: decoded %r, IE has %r" % (k, d.get(k), w[k])
    if (d.get("action") or 0) != (w["action"] or 0):
        return False, "action: decoded %r, IE has %r" % (d.get("action"), w["action"])
    return True, ""


# ---------------------------------------------------------------- run

# Outside C02's quantifier, recorded in the evidence only: go-pfcp's OuterHeaderCreation() accessor tests the C-TAG/S-TAG bits on
# the SECOND description octet and reads 3 octets with Uint32 -> run-time panic inside Gtp5g.newForwardingParameter (C07's subject).
OHC_SPARE_PROBE = {"op": "create_far", "seid": 1, "ies": [{"k": "farid", "v": 1}, {"k": "fp", "c": [
    {"k": "raw", "type": 84, "hex": "014000000001" + "0a000001" + "000000"}]}]}


def strip(c):
    return {k: v for k, v in c.items() if k in ("op", "seid", "ies")}


def run(ctx, replay=None):
    info = common.prepare(ctx)
    obl = info["obl"]
    broken = []
    if not info["gen_ok"]:
        broken.append("T-gen translator no longer recognises the source: " + info["gen_log"][-500:])
    if not obl["compiled"]:
        broken.append("props/C02.v (theorems %s) no longer compiles" % ", ".join(obl["theorems"]))
    if info["forbidden"]:
        broken.append("forbidden constructs: %s" % info["forbidden"])
    cases = gen_cases(ctx)
    if replay:
        cases = json.load(open(replay))["cases"]
    coverage = {"obligations": len(obl["theorems"]), "discharged": len(obl["theorems"]) if obl["compiled"] else 0,
                "checker_cmd": "make -f Makefile.coq (coqc 8.16.1, full .vo build) + coqc props/C02.v (Print Assumptions)",
                "trusted_base": common.TRUSTED_BASE + ["SimKernel (harness/overlay/internal/forwarder/verif_sim.go): parses the bytes the driver "
                                                       "writes on the simulated netlink socket into the attribute tree"],
                "axioms": obl["axioms"], "theorems": obl["theorems"], "evaluations": 0, "distinct_nontrivial": 0, "exhaustive": False}
    if info["tie_broken"]:
        ctx.violation({"broken": "correspondence harness no longer builds against the tree", "log": info["tie_broken"]}, no_input=True)
        return ctx.finish(coverage, [])
    impl, log = common.run_harness(ctx, info["harness"], "gtp5g", [strip(c) for c in cases])
    if impl is None:
        ctx.violation({"broken": "harness run failed", "log": log[-2000:]}, no_input=True)
        return ctx.finish(coverage, [])

    viol = []          # (case index, what)
    idx = []
    unbuildable = 0
    probe = None
    for i, (c, r) in enumerate(zip(cases, impl)):
        if c["ies"] == OHC_SPARE_PROBE["ies"]:
            probe = {"case": strip(c), "driver_result": r["err"], "accessor_panic": r.get("abs_panic", "")}
            continue
        if r["err"].startswith("panic:"):
            if "badcase: constructing the IE" in r["err"] and not c.get("want_wf"):
                unbuildable += 1                       # go-pfcp's constructor refuses the (perturbed) field combination
                continue
            if "badcase" in r["err"]:
                raise RuntimeError("generator produced a case the harness cannot build: %r %s" % (c, r["err"]))
            viol.append((i, "the driver panicked: " + r["err"]))
            continue
        q, nadd = add_request(c, r)
        if nadd > 1:
            viol.append((i, "more than one ADD request for one rule"))
            continue
        if r["top_err"]:
            # the grouped IE itself does not parse: the driver must refuse it without touching the kernel
            if q is not None or not r["err"]:
                viol.append((i, "unparsable grouped IE reached the kernel"))
            continue
        if (q is None) != bool(r["err"]):
            viol.append((i, "driver result %r but %s request was sent" % (r["err"], "no" if q is None else "a")))
            continue
        idx.append(i)
    tot, clog = evaluate(ctx, idx, cases, impl)
    if tot is None:
        broken.append("model/RulesPdrFar.v, monitor/RulesSpec.v or the cases file no longer compiles: " + clog[-1500:])
        tot = {"mism": [], "monf": [], "fullf": [], "wfdiff": [], "nwf": 0}
    if tot["wfdiff"]:
        i = tot["wfdiff"][0]
        raise RuntimeError("a case generated as well-formed is rejected by wf_pdr/wf_far: case %d: %r" % (i, cases[i]))

    # go-gtp5gnl's decoders on the implementation's bytes (wf cases only; that library keeps the last SDF filter)
    wfset = set(i for i in idx if cases[i].get("want_wf"))
    libf = []
    for i in sorted(wfset):
        ok, why = libdec_ok(cases[i], impl[i])
        if not ok:
            libf.append((i, why))

    known = {k["sig"]: k["what"] for k in common.known_findings("C02")}
    for i in tot["fullf"]:
        sig = cases[i].get("full")
        if sig in known:
            ctx.known("sig=%s %s" % (sig, known[sig]))
        else:
            viol.append((i, "full-strength monitor false (%s)" % sig))

    coverage["evaluations"] = len(cases) - unbuildable
    coverage["distinct_nontrivial"] = len({json.dumps(strip(cases[i]), sort_keys=True) for i in wfset})
    coverage["well_formed_monitored"] = tot["nwf"]
    coverage["rule"] = ("case = (operation, SEID, grouped IE); generator: field sweep (every scalar at 0/1/max-1/max, all SEID classes, all 16 "
                        "apply-action bits), all child permutations of 5-child PDR / 5-child PDI / 4-child FAR / 4-child forwarding-parameter "
                        "samples, then random IEs (75% well-formed: optional IEs present/absent/repeated, 0-3 QER ids/URR ids/SDF filters, source "
                        "interface access/core/other, random order; 25% perturbed: duplicates, missing ids, malformed IEs, TTC/SPI/FL, bad flow "
                        "descriptions) - the latter are compared with the model only; non-trivial = well-formed by wf_pdr/wf_far (computed in "
                        "Coq) so that the reference-decoder monitor applies; distinct by full case content")
    coverage["exhaustive"] = False
    coverage["per_op"] = {op: sum(1 for c in cases if c["op"] == op) for op in OPS}
    coverage["samples"] = [dict(strip(c), impl_request=add_request(c, r)[0]) for c, r in list(zip(cases, impl))[40:42]]
    coverage["model_impl_mismatches"] = len(tot["mism"])
    coverage["monitor_failures"] = len(tot["monf"])
    coverage["libdecoder_failures"] = len(libf)
    coverage["known_finding_hits"] = len(tot["fullf"])
    coverage["outside_quantifier_probe_ohc_spare_bits"] = probe

    for i in tot["monf"][:2]:
        ctx.violation({"property": "C02", "what": "the reference decoder applied to the request the real driver sent does not return the IE's content "
                                                  "(pdr_req_ok / far_req_ok false)",
                       "cases": [strip(cases[i])], "impl": impl[i], "replay_cmd": "python3 check.py C02 --replay <this file>"})
    for i, why in viol[:2]:
        ctx.violation({"property": "C02", "what": why, "cases": [strip(cases[i])], "impl": impl[i],
                       "replay_cmd": "python3 check.py C02 --replay <this file>"})
    if not tot["monf"] and not viol:
        for i, why in libf[:2]:
            ctx.violation({"property": "C02", "what": "go-gtp5gnl's decoder does not read back the IE's content: " + why,
                           "cases": [strip(cases[i])], "impl": impl[i], "replay_cmd": "python3 check.py C02 --replay <this file>"})
    if not tot["monf"] and not viol and not libf and (tot["mism"] or broken):
        ctx.violation({"property": "C02", "broken_obligations": broken,
                       "correspondence": "model request <> implementation request" if tot["mism"] else None,
                       "cases": [strip(cases[i]) for i in tot["mism"][:3]], "impl": [impl[i] for i in tot["mism"][:3]],
                       "make_log": info.get("make_log", "")[-1500:]}, no_input=True)
    return ctx.finish(coverage, ["IE field values are sampled (boundaries + random); go-pfcp accessors and ParseFlowDesc results are inputs of the model",
                                 "the simulated kernel accepts every request (lenient mode): netlink errors are not part of this property"])
