"""C11 - see MANIFEST below."""
from checks import pfcp_common as pc

MANIFEST = dict(
    text='Kernel-checked: emit (the one emission routine behind all three carriers) numbers the IEs of each URR consecutively from the stored counter, without gap or repeat (mod 2^32), leaves the counter at start + number emitted, does not touch URRs without a report (independence), drops a removed URR after its first IE; Create URR starts at 0; no other per-session operation changes a counter (for any category order); the session stored after each carrier is the first component of the very emission whose second component was sent, so counters chain across messages; counters stay < 2^32 in every reachable state. PARTIAL: Create URR naming an id the session still holds resets the counter (refuted lemma C11_create_urr_existing_id_refuted; finding sig=create-urr-existing-id). Tie: differential run + an independent per-(session, URR) counter monitor.',
    note='Partial: duplicate Create URR for a live id is a recorded finding. ',
    technique="Coq lemmas on the emission / queue / reference-count functions + differential run + trace monitor",
    design='4/C11')

RULE = 'histories threading all three carriers (Session Report Request, Modification Response, Deletion Response), several reports per URR per message, URR removal and re-creation'
GEN = dict(usage_share=0.7, weights=dict(usa=24, mod=26, est=14, dele=8, asr=4, srr=4, dld=2), idpool=(1, 2, 3, 4, 5), big_seids=False)
N_QUICK, N_THOROUGH = 110, 3000


def run(ctx, replay=None):
    return pc.run_property(ctx, "C11", pc.mon_c11, GEN, N_QUICK, N_THOROUGH, replay=replay, rule=RULE,
                           assumptions=[pc.PFCP_NOTE], finding_sig=pc.sig_c11, directed=pc.directed_c11)
