"""C11 - see MANIFEST below."""
from checks import pfcp_common as pc

MANIFEST = dict(
    text='Kernel-checked: emit (the one emission routine behind all three carriers) numbers the IEs of each URR consecutively from the stored counter, without gap or repeat (mod 2^32), leaves the counter at start + number emitted, does not touch URRs without a report (independence), drops a removed URR after its first IE; Create URR starts at 0; no other per-session operation changes a counter (for any category order); the session stored after each carrier is the first component of the very emission whose second component was sent, so counters chain across messages; counters stay < 2^32 in every reachable state. A Create URR naming an id the session still holds keeps the running counter, and leaves the bookkeeping untouched when the data plane rejects the duplicate (C11_create_urr_held_keeps_counter, C11_create_urr_duplicate_rejected_unchanged; the former finding create-urr-existing-id is fixed and its history is a regression case). Tie: differential run + an independent per-(session, URR) counter monitor.',
    note='The code that advances a counter (Sess.URRSeq: post-increment of a uint32) and every other write to a SEQN field are read from the source on every run (C11_counter_source_shape); counters far from 0 (around 2^8, 2^16, 2^24, 2^31, just below 2^32) are reached by positioning them through a harness hook, not by emitting 2^24 reports. An entry of a removed URR lingers only when the data plane refused the removal. ',
    technique="Coq lemmas on the emission / queue / reference-count functions + differential run + trace monitor",
    design='4/C11')

RULE = 'histories threading all three carriers (Session Report Request, Modification Response, Deletion Response), several reports per URR per message, URR removal and re-creation'
GEN = dict(usage_share=0.7, weights=dict(usa=24, mod=26, est=14, dele=8, asr=4, srr=4, dld=2), idpool=(1, 2, 3, 4, 5), big_seids=False)
N_QUICK, N_THOROUGH = 110, 3000


def counter_cases(ctx):
    """histories whose UR-SEQN counters are positioned far from 0 (harness event setseq): around 2^8, 2^16, 2^24, 2^31 and
    just below 2^32, then threaded through all three carriers"""
    import random
    rnd = random.Random(ctx.seed + 1111)
    starts = [255, 65535, 2 ** 24 - 2, 2 ** 24 - 1, 2 ** 31 - 1, 2 ** 32 - 12]
    if ctx.tier == "thorough":
        starts += [rnd.randrange(2 ** 32 - 16) for _ in range(40)] + [2 ** k - 1 for k in range(9, 32)]
    out = []
    for v in starts:
        evs = [pc._rc(0, 1, {"k": "asr", "nid": {"v": 0}}),
               pc._rc(0, 2, {"k": "est", "nid": {"v": 0}, "fseid": {"v": 10},
                             "ops": {"cURR": [{"id": 1, "method": 2, "info": 0}, {"id": 2, "method": 2, "info": 0}]}}),
               {"t": "setseq", "seid": 1, "urr": 1, "v": v, "fail": [], "usage": []}]
        for k in range(rnd.choice([2, 3, 4])):
            evs.append(pc._usa(1, 1, 100 + k))
            if k == 0:
                evs.append(pc._usa(1, 2, 7))
        q = {"op": "query", "id": 1, "rpts": [{"urr": 1, "trig": 0, "vflags": 0, "cnt": [k_, 0, 0, 0, 0, 0], "dur": 0, "start": 1, "end": 2} for k_ in (1, 2)]}
        evs.append(pc._rc(0, 3, {"k": "mod", "seid": 1, "nid": {"absent": True}, "ops": {"qURR": [1]}}, usage=[q]))
        evs.append(pc._usa(1, 1, 200))
        fin = {"op": "remove", "id": 1, "rpts": [{"urr": 1, "trig": 0, "vflags": 0, "cnt": [9, 0, 0, 0, 0, 0], "dur": 0, "start": 1, "end": 2}]}
        evs.append(pc._rc(0, 4, {"k": "del", "seid": 1}, usage=[fin]))
        out.append({"maxretrans": 0, "txseq0": 0, "events": evs})
    return out


def counter_phase(ctx, info, coverage):
    """UR-SEQN far from 0: the counters are positioned by the harness, the independent counter monitor follows"""
    from lib import common
    cases = counter_cases(ctx)
    res, log = common.run_harness(ctx, info["harness"], "pfcp", cases, timeout=600, tag="-ctr")
    if res is None:
        ctx.violation({"property": "C11", "broken": "counter phase: harness run failed", "log": log[-1500:]}, no_input=True)
        return
    seen, n = 0, 0
    for c, o in zip(cases, res["cases"]):
        bad = pc.mon_c11(c, o, res["prefix"])
        for x in o:
            for sd in x.get("sends") or []:
                for ie in sd.get("urs") or []:
                    n += 1
                    seen = max(seen, ie.get("seqn", 0))
        if bad and n >= 0:
            ctx.violation({"property": "C11", "what": "counter positioned at %d: %s" % (c["events"][2]["v"], bad[0][1]), "mode": "counter",
                           "case": c, "event_index": bad[0][0], "implementation_trace": [x.get("sends") for x in o]})
            break
    coverage["counter_phase"] = {"histories": len(cases), "usage_report_ies": n, "largest_ur_seqn_seen": seen,
                                 "starts": [c["events"][2]["v"] for c in cases][:12]}
    coverage["evaluations"] = coverage.get("evaluations", 0) + len(cases)


def run(ctx, replay=None):
    return pc.run_property(ctx, "C11", pc.mon_c11, GEN, N_QUICK, N_THOROUGH, replay=replay, rule=RULE,
                           assumptions=[pc.PFCP_NOTE], finding_sig=pc.sig_c11, directed=lambda rnd: pc.directed_c11(rnd) + pc.directed_c11b(rnd) + pc.directed_c11c(rnd), extra_phase=counter_phase)
