"""C11 - see MANIFEST below."""
from checks import pfcp_common as pc

MANIFEST = dict(
    text='Kernel-checked: emit (the one emission routine behind all three carriers) numbers the IEs of each URR consecutively from the stored counter, without gap or repeat (mod 2^32), leaves the counter at start + number emitted, does not touch URRs without a report (independence), drops a removed URR after its first IE; Create URR starts at 0; no other per-session operation changes a counter (for any category order); the session stored after each carrier is the first component of the very emission whose second component was sent, so counters chain across messages; counters stay < 2^32 in every reachable state. A Create URR naming an id the session still holds keeps the running counter, and leaves the bookkeeping untouched when the data plane rejects the duplicate (C11_create_urr_held_keeps_counter, C11_create_urr_duplicate_rejected_unchanged; the former finding create-urr-existing-id is fixed and its history is a regression case). Tie: differential run + an independent per-(session, URR) counter monitor.',
    note='Reports that arrive for a URR after its removal produced no final report (its entry lingers, marked removed) may continue or restart the numbering: the property does not say, the monitor accepts both. ',
    technique="Coq lemmas on the emission / queue / reference-count functions + differential run + trace monitor",
    design='4/C11')

RULE = 'histories threading all three carriers (Session Report Request, Modification Response, Deletion Response), several reports per URR per message, URR removal and re-creation'
GEN = dict(usage_share=0.7, weights=dict(usa=24, mod=26, est=14, dele=8, asr=4, srr=4, dld=2), idpool=(1, 2, 3, 4, 5), big_seids=False)
N_QUICK, N_THOROUGH = 110, 3000


def run(ctx, replay=None):
    return pc.run_property(ctx, "C11", pc.mon_c11, GEN, N_QUICK, N_THOROUGH, replay=replay, rule=RULE,
                           assumptions=[pc.PFCP_NOTE], finding_sig=pc.sig_c11, directed=pc.directed_c11)
