"""C16 - SDF flow descriptions are translated to the filter they denote."""
import json
import random
import threading
from concurrent.futures import ThreadPoolExecutor

from lib import common
from lib.common import clist

MANIFEST = dict(
    text="Kernel-checked theorems about an executable model of ParseFlowDesc/ParseFlowDescIPNet/ParseFlowDescPorts and "
         "newFlowDesc/convertSlice (incl. the fragments of strings.Fields/Split, strconv.ParseUint, net.ParseCIDR/ParseIP they "
         "use): for EVERY rule of the IPFilterRule grammar (permit in|out, protocol 0..255 or ip, any/assigned/IPv4 host/IPv4 "
         "prefix /0../32, port lists of any length with single ports and ranges over 0..65535), every admissible white "
         "space (the six ASCII space characters, any amounts, leading/trailing) and any number of leading zeros in protocol, "
         "prefix length and ports, the parser returns exactly the filter the rule denotes, and the netlink attribute list "
         "built from it decodes (independent reference decoder) to that filter with source and destination exchanged for "
         "uplink PDRs; unpack(convertSlice l) = l.  The constants the model fixes (ParseUint bit sizes, keywords, separators, "
         "attribute order and kinds, convertSlice shift/stride) are regenerated from flowdesc.go/gtp5g.go on every run (T-gen, "
         "theorem C16_source_shape) and the model is tied to the tree by a differential run of the "
         "real ParseFlowDesc / newFlowDesc / convertSlice against the model on grammar-derived strings, near-miss mutations "
         "and arbitrary octet strings, evaluated inside Coq; the specification (denote, reference decoder) is also applied as "
         "a monitor to what the implementation returned, and go-gtp5gnl's DecodeFlowDesc is run on the encoded attributes.  "
         "Which PDR is uplink is decided in newPdi: the order in which it packs filters (while or after scanning the PDI) is read "
         "from the source, theorem C16_pdi_direction_any_ie_order shows every filter is exchanged iff the PDI's Source Interface "
         "is Access wherever that IE stands, and the real newPdi is run on PDIs with the IEs in every order.",
    note="Strings with an octet >= 0x80 (unicode.IsSpace territory) or a ':' in an address token (IPv6) are outside the "
         "model: for those only 'no panic' and pack/unpack consistency are checked.  Go's strings/strconv/net are modelled, not "
         "verified; the control flow of the parser is hand-modelled and tied by the correspondence run only.",
    technique="Coq proof (parse-of-render, decode-of-pack, unbounded) + differential run vs vm_compute model + spec monitor",
    design="4/C16")

REQUIRES = ["FlowTypes", "FlowSpec", "FlowDesc"]
WS = ["WTab", "WLF", "WVT", "WFF", "WCR", "WSP"]
WS_CODE = {"WTab": 9, "WLF": 10, "WVT": 11, "WFF": 12, "WCR": 13, "WSP": 32}

# ---------------------------------------------------------------- grammar-derived cases


def gen_addr(rnd, k):
    """k cycles through the address kinds and all prefix lengths 0..32"""
    kind = k % 37
    octs = [rnd.choice([0, 1, 9, 10, 99, 100, 127, 128, 199, 200, 249, 250, 254, 255, rnd.randrange(256)]) for _ in range(4)]
    if kind == 33:
        return ["any"]
    if kind == 34:
        return ["assigned"]
    if kind in (35, 36):
        return ["host"] + octs
    return ["prefix"] + octs + [kind]


def gen_port(rnd):
    return rnd.choice([0, 1, 9, 10, 80, 99, 100, 443, 999, 1000, 9999, 10000, 32767, 32768, 65534, 65535,
                       rnd.randrange(65536), rnd.randrange(65536)])


def gen_ports(rnd, n):
    out = []
    for _ in range(n):
        if rnd.random() < 0.5:
            out.append([gen_port(rnd)])
        else:
            lo, hi = gen_port(rnd), gen_port(rnd)
            if rnd.random() < 0.15:
                hi = lo
            out.append([lo, hi])        # lo > hi is in the grammar too
    return out


def gen_spacing(rnd, plain):
    def run(minn):
        if plain:
            return ["WSP"] * max(minn, 1) if minn else []
        n = minn + (rnd.randrange(4) if rnd.random() < 0.4 else 0)
        return [rnd.choice(WS) if rnd.random() < 0.5 else "WSP" for _ in range(n)]

    def z():
        if plain:
            return 0
        return rnd.choice([0, 0, 0, 1, 2, 3, 7, 25])
    return {"lead": run(0), "trail": run(0), "gaps": [run(1) for _ in range(10)],
            "z_proto": z(), "z_slen": z(), "z_dlen": z(),
            "z_sports": [[z(), z()] for _ in range(8)], "z_dports": [[z(), z()] for _ in range(8)]}


def gen_rule(rnd, k):
    proto = None if k % 257 == 256 else k % 257
    return {"dir": "in" if (k // 3) % 2 else "out", "proto": proto,
            "src": gen_addr(rnd, k), "sports": gen_ports(rnd, (k // 2) % 9 if k % 2 else 0),
            "dst": gen_addr(rnd, k * 7 + 3), "dports": gen_ports(rnd, (k // 5) % 9 if (k // 2) % 2 else 0)}


def num(z, n):
    return "0" * z + str(n)


def render_addr(a, z):
    if a[0] in ("any", "assigned"):
        return a[0]
    s = "%d.%d.%d.%d" % tuple(a[1:5])
    if a[0] == "prefix":
        s += "/" + num(z, a[5])
    return s


def render_ports(ps, zs):
    items = []
    for i, p in enumerate(ps):
        z = zs[i] if i < len(zs) else [0, 0]
        items.append(num(z[0], p[0]) if len(p) == 1 else num(z[0], p[0]) + "-" + num(z[1], p[1]))
    return ",".join(items)


def rule_tokens(r, sp):
    t = ["permit", r["dir"], "ip" if r["proto"] is None else num(sp["z_proto"], r["proto"]), "from",
         render_addr(r["src"], sp["z_slen"])]
    if r["sports"]:
        t.append(render_ports(r["sports"], sp["z_sports"]))
    t += ["to", render_addr(r["dst"], sp["z_dlen"])]
    if r["dports"]:
        t.append(render_ports(r["dports"], sp["z_dports"]))
    return t


def render(r, sp):
    toks = rule_tokens(r, sp)
    out = bytearray(WS_CODE[w] for w in sp["lead"])
    for i, t in enumerate(toks):
        out += t.encode()
        if i + 1 < len(toks):
            out += bytes(WS_CODE[w] for w in sp["gaps"][i])
    out += bytes(WS_CODE[w] for w in sp["trail"])
    return bytes(out)


# ---------------------------------------------------------------- near-miss mutations

BAD_NUMS = ["256", "257", "300", "999", "1000", "65535", "65536", "65537", "70000", "4294967296", "18446744073709551616",
            "123456789012345678901234567890", "00000000000000000000000000001", "-1", "+1", "1_0", "0x10", "1e3", "", " ",
            "33", "032", "0033", "128", "129"]
GARBAGE = ["", "x", "to", "from", "ip", "any", "assigned", "permit", "deny", "in", "out", "PERMIT", "To", "80", "80-", "-80", "80-90-100",
           "80,,90", ",80", "80,", "-", ",", "/", ".", "1.2.3.4", "1.2.3.4/33", "1.2.3.4/", "/24", "1.2.3", "1.2.3.4.5", "1..3.4",
           "01.2.3.4", "1.2.3.04", "1.2.3.004", "0.0.0.00", "00.0.0.0", "256.1.1.1", "1.2.3.256", "1.2.3.4/024", "1.2.3.4/-1",
           "1.2.3.4/+8", "1.2.3.4/8/8", "1.2.3.4%eth0", "::1", "::/0", "::ffff:1.2.3.4", "::ffff:1.2.3.4/120", "1.2.3.4:80", "fe80::1%lo",
           "2001:db8::/32", "65536", "0-65536", "65535-0", "0", "00", "1.2.3.4/0000000000000000000000000000032", "1.2.3.4/4294967296",
           "1.2.3.4/16777215", "1.2.3.4/16777216", "any/0", "Any", "0.0.0.0/0", "255.255.255.255/32", "1.2.3.4/ 8", "a.b.c.d"]
ODD_SEPS = [b"\x00", b"\x1c", b"\x1f", b"\x85", b"\xa0", b"\xc2\xa0", b"\xe2\x80\x83", b"\xc2\x85", b"\x08", b"\x0e", b"\x7f", b"\xe3\x80\x80"]


def mutate(rnd, r, sp):
    toks = [t.encode() for t in rule_tokens(r, sp)]
    sep = b" "
    m = rnd.randrange(16)
    i = rnd.randrange(len(toks))
    if m == 0:
        del toks[i]
    elif m == 1:
        toks.insert(i, toks[i])
    elif m == 2:
        toks[i] = rnd.choice(GARBAGE).encode()
    elif m == 3:
        toks.insert(rnd.randrange(len(toks) + 1), rnd.choice(GARBAGE).encode())
    elif m == 4 and toks[i]:
        j = rnd.randrange(len(toks[i]))
        toks[i] = toks[i][:j] + bytes([rnd.choice(b"0123456789.,-/: xtoipanyfrm\t") if rnd.random() < 0.8 else rnd.randrange(256)]) + toks[i][j + 1:]
    elif m == 5 and toks[i]:
        j = rnd.randrange(len(toks[i]))
        toks[i] = toks[i][:j] + toks[i][j + 1:]
    elif m == 6:
        j = rnd.randrange(len(toks[i]) + 1)
        toks[i] = toks[i][:j] + bytes([rnd.choice(b"0123456789.,-/:+_ ")]) + toks[i][j:]
    elif m == 7:
        toks[2] = rnd.choice(BAD_NUMS).encode()
    elif m == 8:
        # out-of-range / odd number inside an address or port token
        k = rnd.choice([4, len(toks) - 1, len(toks) - 2, 5])
        k = min(k, len(toks) - 1)
        t = toks[k].decode()
        import re
        nums = list(re.finditer(r"\d+", t))
        if nums:
            mm = rnd.choice(nums)
            t = t[:mm.start()] + rnd.choice(BAD_NUMS + ["0" + mm.group(0), "00" + mm.group(0)]) + t[mm.end():]
        toks[k] = t.encode()
    elif m == 9:
        toks = [t for t in toks if t != b"to"]
    elif m == 10:
        toks += [rnd.choice(GARBAGE).encode() for _ in range(rnd.randrange(1, 4))]
    elif m == 11:
        sep = rnd.choice(ODD_SEPS)
    elif m == 12:
        toks[i] = toks[i].upper() if rnd.random() < 0.5 else toks[i] + rnd.choice(ODD_SEPS)
    elif m == 13:
        a, b = rnd.randrange(len(toks)), rnd.randrange(len(toks))
        toks[a], toks[b] = toks[b], toks[a]
    elif m == 14:
        toks = toks[:rnd.randrange(len(toks))]
    else:
        k = rnd.choice([4, len(toks) - 1, len(toks) - 2])
        toks[k] = rnd.choice(GARBAGE).encode()
    if m == 11 and rnd.random() < 0.5:
        j = rnd.randrange(1, len(toks)) if len(toks) > 1 else 0
        return b" ".join(toks[:j]) + sep + b" ".join(toks[j:])
    return sep.join(toks)


ALPH = b"0123456789.,-/ \t" + b"permitnoufaysgd" + b":"


def gen_bytes(rnd):
    m = rnd.randrange(4)
    if m == 0:
        return bytes(rnd.randrange(256) for _ in range(rnd.randrange(0, 60)))
    if m == 1:
        return bytes(rnd.choice(ALPH) for _ in range(rnd.randrange(0, 70)))
    if m == 2:
        return bytes(rnd.randrange(128) for _ in range(rnd.randrange(0, 60)))
    n = rnd.randrange(0, 12)
    return b" ".join(rnd.choice(GARBAGE).encode() for _ in range(n))


def gen_cases(ctx):
    rnd = random.Random(ctx.seed)
    scale = 1 if ctx.tier == "quick" else 20
    cases = []
    off = rnd.randrange(257 * 37)
    for k in range(5000 * scale):
        r = gen_rule(rnd, k + off)
        sp = gen_spacing(rnd, plain=(k % 4 == 0))
        cases.append({"kind": "grammar", "s": render(r, sp).hex(), "swap": bool(k % 2) ^ bool((k // 64) % 2), "rule": r, "sp": sp})
    for k in range(5000 * scale):
        r = gen_rule(rnd, rnd.randrange(10 ** 6))
        sp = gen_spacing(rnd, plain=True)
        cases.append({"kind": "mutant", "s": mutate(rnd, r, sp).hex(), "swap": rnd.random() < 0.5})
    for k in range(3000 * scale):
        cases.append({"kind": "bytes", "s": gen_bytes(rnd).hex(), "swap": rnd.random() < 0.5})
    fixed = ["permit out ip from any to assigned", "permit in 6 from 10.0.0.0/8 to 192.168.1.1 80,443,8000-9000",
             "permit out 17 from 0.0.0.0/0 0-65535 to 255.255.255.255/32 65535", "", " ", "permit", "permit out ip from any to",
             "permit out ip from any to any to any", "permit out ip from any any to any", "permit out ip from any to any 70000",
             "permit out ip from any 70000 to any", "permit out 0256 from any to any", "permit out 0255 from any to any",
             "permit out ip from 1.2.3.4/024 to any", "permit out ip from 1.2.3.4/33 to any", "permit out ip from any to to",
             "permit out ip from to to any", "permit out ip from any 1 2 to any", "permit out ip from any to any 1 2",
             "permit out ip from ::1 to any", "permit out ip from 1.2.3.4 to any 5-5", "permit out ip from any to any 6-5"]
    for s in fixed:
        for sw in (False, True):
            cases.append({"kind": "fixed", "s": s.encode().hex(), "swap": sw})
    # the same string translated again and again, for uplink and downlink PDRs in turn (what an SMF does with the one flow
    # description of a service data flow): every translation must come out as the first one did
    for k in range(60 * scale):
        r = gen_rule(rnd, rnd.randrange(10 ** 6))
        spx = gen_spacing(rnd, plain=True)
        sx = render(r, spx).hex()
        for sw in (True, False, True, False, False, True):
            cases.append({"kind": "repeat", "s": sx, "swap": sw, "rule": r, "sp": spx})
    return cases


# ---------------------------------------------------------------- Coq terms

def ctext(b):
    if b and all(32 <= c < 127 and c != 34 for c in b):
        return '(txt "%s")' % b.decode()
    return clist([str(c) for c in b])


def chex(h):
    return clist([str(c) for c in bytes.fromhex(h)])


def cports(p):
    return clist([clist([str(v) for v in e]) for e in p])


def caddr(a):
    if a[0] == "any":
        return "Any"
    if a[0] == "assigned":
        return "Assigned"
    if a[0] == "host":
        return "(Host %d %d %d %d)" % tuple(a[1:5])
    return "(Prefix %d %d %d %d %d)" % tuple(a[1:6])


def cplist(ps):
    return clist(["Single %d" % p[0] if len(p) == 1 else "Range %d %d" % (p[0], p[1]) for p in ps])


def crule(r):
    return ("{| r_dir := %s; r_proto := %s; r_src := %s; r_sports := %s; r_dst := %s; r_dports := %s |}"
            % ("DIn" if r["dir"] == "in" else "DOut", "None" if r["proto"] is None else "(Some %d)" % r["proto"],
               caddr(r["src"]), cplist(r["sports"]), caddr(r["dst"]), cplist(r["dports"])))


def cspacing(sp, r=None):
    """the spacing as a Coq term; entries the rule does not use are left out (defaults: one blank, no zeros)"""
    ntok = 8 + (1 if r and r["sports"] else 0) + (1 if r and r["dports"] else 0) if r else 10
    ns, nd = (len(r["sports"]), len(r["dports"])) if r else (8, 8)
    gaps = sp["gaps"][:ntok - 1]
    zs, zd = sp["z_sports"][:ns], sp["z_dports"][:nd]
    if (not sp["lead"] and not sp["trail"] and all(g == ["WSP"] for g in gaps) and not sp["z_proto"] and not sp["z_slen"]
            and not sp["z_dlen"] and not any(a or b for a, b in zs + zd)):
        return "sp_plain"

    def zz(l):
        while l and l[-1] == [0, 0]:
            l = l[:-1]
        return clist(["(%d, %d)" % (a, b) for a, b in l])
    while gaps and gaps[-1] == ["WSP"]:
        gaps = gaps[:-1]
    return ("(mksp %s %s %s %d %d %d %s %s)"
            % (clist(sp["lead"]), clist(sp["trail"]), clist(["g1" if g == ["WSP"] else "(%s, %s)" % (g[0], clist(g[1:])) for g in gaps]),
               sp["z_proto"], sp["z_slen"], sp["z_dlen"], zz(zs), zz(zd)))


def norm_pairs(p):
    return clist(["(%d, %d)" % (e[0], e[-1]) for e in p])


def coq_case(c, r):
    if r["parse"] == "ok":
        p = r["parsed"]
        ip = ("(IPok {| f_action := %s; f_dir := %s; f_proto := %d; f_src_ip := %s; f_src_mask := %s; f_dst_ip := %s; "
              "f_dst_mask := %s; f_sports := %s; f_dports := %s |})"
              % (ctext(bytes.fromhex(p["action"])), ctext(bytes.fromhex(p["dir"])), p["proto"], chex(p["src_ip"]), chex(p["src_mask"]),
                 chex(p["dst_ip"]), chex(p["dst_mask"]), cports(p["sports"]), cports(p["dports"])))
    elif r["parse"] == "err":
        ip = "IPerr"
    else:
        ip = "IPpanic"
    if r["attrs"] == "ok":
        items = []
        for a in r["list"]:
            if a[1] == "u8":
                items.append("(%d, AU8 %d)" % (a[0], a[2]))
            elif a[1] == "bytes":
                items.append("(%d, ABytes %s)" % (a[0], chex(a[2])))
            else:
                items.append("(%d, AU8 999999)" % a[0])     # a nested attribute: never equal to the model's
        ia = "(IAok %s)" % clist(items)
    elif r["attrs"] == "err":
        ia = "IAerr"
    else:
        ia = "IApanic"
    if r.get("dec") == "ok":
        d = r["decoded"]
        idc = ("(Some {| d_action := %d; d_dir := %d; d_proto := %d; d_src_ip := %s; d_src_mask := %s; d_dst_ip := %s; "
               "d_dst_mask := %s; d_sports := %s; d_dports := %s |})"
               % (d["action"], d["dir"], d["proto"], chex(d["src_ip"]), chex(d["src_mask"]), chex(d["dst_ip"]), chex(d["dst_mask"]),
                  norm_pairs(d["sports"]), norm_pairs(d["dports"])))
    else:
        idc = "None"
    exp = "None"
    if c.get("rule") is not None:
        exp = "(Some (%s, %s))" % (crule(c["rule"]), cspacing(c["sp"], c["rule"]))
    return "(mkc %s %s %s %s %s %s)" % (ctext(bytes.fromhex(c["s"])), "true" if c["swap"] else "false", ip, ia, idc, exp)


PRELUDE = r"""
Inductive iparse := IPok (f : fdesc) | IPerr | IPpanic.
Inductive iattrs := IAok (al : list attr) | IAerr | IApanic.
Record case := mkc { c_s : text; c_up : bool; c_p : iparse; c_a : iattrs; c_d : option dfilter; c_r : option (rule * spacing) }.

Definition g1 : ws * list ws := (WSP, []).
Definition znat (l : list (N * N)) : list (nat * nat) := map (fun p => (N.to_nat (fst p), N.to_nat (snd p))) l.
Definition mksp (lead trail : list ws) (gaps : list (ws * list ws)) (zp zs zd : N) (zsp zdp : list (N * N)) : spacing :=
  {| sp_lead := lead; sp_trail := trail; sp_gap := fun i => nth i gaps g1;
     z_proto := N.to_nat zp; z_slen := N.to_nat zs; z_dlen := N.to_nat zd; z_sports := znat zsp; z_dports := znat zdp |}.
Definition sp_plain : spacing := mksp [] [] [] 0 0 0 [] [].

(* model = implementation ? *)
Definition agrees (c : case) : bool :=
  match parse_flow_desc (c_s c) with
  | Unmodelled => true
  | Err => match c_p c, c_a c with IPerr, IAerr => true | _, _ => false end
  | Ok f =>
    match c_p c with IPok f' => fdesc_eqb f f' | _ => false end
    && match new_flow_desc (c_s c) (c_up c), c_a c with
       | Ok al, IAok al' => attrs_eqb al al'
       | Err, IAerr => true
       | _, _ => false
       end
  end
  && match c_a c with          (* reference decoder vs go-gtp5gnl's DecodeFlowDesc on the encoded attributes *)
     | IAok al => match decode_fd al, c_d c with
                  | Some x, Some y => dfilter_eqb x y
                  | None, None => true
                  | _, _ => false
                  end
     | _ => true
     end.

(* the property, applied to what the implementation returned (no reference to the model) *)
Definition monitor (c : case) : bool :=
  match c_p c, c_a c with
  | IPok f, IAok al => mon_pack (c_up c) f al && mon_skeleton (c_s c) f
  | IPerr, IAerr => true
  | _, _ => false                      (* a panic, or parse and pack disagree on acceptance *)
  end
  && match c_r c with
     | Some (r, sp) =>
       wf_ruleb r && N_list_eqb (render r sp) (c_s c)
       && match c_p c, c_a c with IPok f, IAok al => mon_rule r (c_up c) f al | _, _ => false end
     | None => true
     end.

(* which clause fails *)
Definition m_fault (c : case) : bool :=
  match c_p c, c_a c with IPok _, IAok _ => true | IPerr, IAerr => true | _, _ => false end.
Definition m_pack (c : case) : bool :=
  match c_p c, c_a c with IPok f, IAok al => mon_pack (c_up c) f al | _, _ => true end.
Definition m_skel (c : case) : bool :=
  match c_p c with IPok f => mon_skeleton (c_s c) f | _ => true end.

Definition unmodelled (c : case) : bool :=
  match parse_flow_desc (c_s c) with Unmodelled => true | _ => false end.

Fixpoint bad_idx {A} (f : A -> bool) (l : list A) (i : N) : list N :=
  match l with [] => [] | x :: r => (if f x then [] else [i]) ++ bad_idx f r (i + 1) end.
"""


WHY = {}
WHY_LOCK = threading.Lock()
WHY_TEXT = {1: "the implementation panicked, or ParseFlowDesc and newFlowDesc disagree on acceptance",
            2: "the packed attributes do not decode to the parsed filter (source and destination exchanged for uplink)",
            3: "an accepted string lacks the grammar's keyword skeleton, or its protocol numeral has another value than the protocol reported",
            4: "a string of the grammar was rejected, or the filter parsed/packed by the implementation is not the one the rule denotes"}


def evaluate_chunk(ctx, cases, impl, name):
    items = [coq_case(c, r) for c, r in zip(cases, impl)]
    body = PRELUDE + "Definition cases : list case := \n" + clist(items) + ".\n"
    body += "Definition mism := Eval vm_compute in bad_idx agrees cases 0.\n"
    body += "Definition monf := Eval vm_compute in bad_idx monitor cases 0.\n"
    body += "Definition unmo := Eval vm_compute in bad_idx (fun c => negb (unmodelled c)) cases 0.\n"
    body += "Definition why := Eval vm_compute in map (fun i => let c := nth (N.to_nat i) cases (mkc [] false IPerr IAerr None None) in\n"
    body += "  (i, if negb (m_fault c) then 1 else if negb (m_pack c) then 2 else if negb (m_skel c) then 3 else 4)) monf.\n"
    res, log = common.run_coq_cases(ctx, name, body, REQUIRES, ["mism", "monf", "unmo", "why"])
    if res is None:
        return None, None, None, log
    w = common.parse_N_list(res["why"])
    with WHY_LOCK:
        for k in range(0, len(w) - 1, 2):
            WHY[(name, w[k])] = w[k + 1]
    return (common.parse_N_list(res["mism"]), common.parse_N_list(res["monf"]), common.parse_N_list(res["unmo"]), log)


def evaluate(ctx, cases, impl, name, chunk=500, workers=16):
    jobs = []
    for k, start in enumerate(range(0, len(cases), chunk)):
        jobs.append((start, cases[start:start + chunk], impl[start:start + chunk], "%s_%d" % (name, k)))
    mism, monf, unmo = [], [], []
    with ThreadPoolExecutor(max_workers=workers) as ex:
        nm_of = {start: nm for start, _, _, nm in jobs}
        futs = [(start, ex.submit(evaluate_chunk, ctx, cs, im, nm)) for start, cs, im, nm in jobs]
        for start, f in futs:
            a, b, u, log = f.result()
            if a is None:
                return None, None, None, log
            mism += [start + i for i in a]
            monf += [start + i for i in b]
            for i in b:
                WHY[start + i] = WHY.get((nm_of[start], i), 0)
            unmo += [start + i for i in u]
    return mism, monf, unmo, ""


# convertSlice alone (incl. entry lengths other than 1 and 2, which the parser never produces)
def conv_cases(ctx):
    rnd = random.Random(ctx.seed + 1)
    cases = [[], [[0]], [[65535]], [[0, 65535]], [[65535, 0]], [[1, 2, 3]], [[]], [[1], [], [2, 3], [4, 5, 6]]]
    for _ in range(300 if ctx.tier == "quick" else 6000):
        cases.append([[rnd.choice([0, 1, 255, 256, 65535, rnd.randrange(65536)]) for _ in range(rnd.choice([1, 1, 2, 2, 2, 0, 3]))]
                      for _ in range(rnd.randrange(0, 10))])
    return cases


def evaluate_conv(ctx, cases, impl):
    items = []
    for c, r in zip(cases, impl):
        items.append("(%s, %s)" % (cports(c), "None" if r.startswith("panic") else "(Some %s)" % chex(r)))
    body = ("Definition agrees (c : list (list N) * option (list N)) : bool :=\n"
            "  match c with (p, Some b) => N_list_eqb (convert_slice p) b | _ => false end.\n"
            "Definition wfp (p : list N) : bool := match p with [a] => a <? 65536 | [a; b] => (a <? 65536) && (b <? 65536) | _ => false end.\n"
            "Definition rng (p : list N) : N * N := match p with [a] => (a, a) | [a; b] => (a, b) | _ => (0, 0) end.\n"
            "Definition monitor (c : list (list N) * option (list N)) : bool :=\n"
            "  match c with\n"
            "  | (p, Some b) => if forallb wfp p then match unpack b with Some l => pairs_eqb l (map rng p) | None => false end else true\n"
            "  | _ => false end.\n"
            "Fixpoint bad_idx {A} (f : A -> bool) (l : list A) (i : N) : list N :=\n"
            "  match l with [] => [] | x :: r => (if f x then [] else [i]) ++ bad_idx f r (i + 1) end.\n"
            "Definition cases : list (list (list N) * option (list N)) := \n" + clist(items) + ".\n"
            "Definition mism := Eval vm_compute in bad_idx agrees cases 0.\n"
            "Definition monf := Eval vm_compute in bad_idx monitor cases 0.\n")
    res, log = common.run_coq_cases(ctx, "cases_c16_conv", body, REQUIRES, ["mism", "monf"])
    if res is None:
        return None, None, log
    return common.parse_N_list(res["mism"]), common.parse_N_list(res["monf"]), log


# ---------------------------------------------------------------- the PDI around the filter (newPdi)

def pdi_cases(ctx):
    """PDIs with 0..3 SDF filters, 0..2 Source Interface IEs (mostly exactly one, as TS 29.244 requires) and other
    IEs, in every order; the flow descriptions are grammar rules whose source and destination differ"""
    rnd = random.Random(ctx.seed + 1616)
    n = 300 if ctx.tier == "quick" else 4000
    out = []
    for k in range(n):
        items = []
        for j in range(rnd.choice([1, 1, 2, 3])):
            r = gen_rule(rnd, rnd.randrange(10 ** 6))
            items.append(["sdf", render(r, gen_spacing(rnd, plain=True)).hex()])
        for _ in range(rnd.choice([0, 1, 1, 1, 1, 1, 1, 2])):
            items.append(["srcif", rnd.choice([0, 1, 1, 2, 3])])
        for _ in range(rnd.choice([0, 0, 1, 2])):
            items.append(["other"])
        rnd.shuffle(items)
        out.append(items)
    # every order of {filter, Source Interface v}, v = Access / Core / SGi-LAN / CP-function
    for v in (0, 1, 2, 3):
        f1 = ["sdf", b"permit out 17 from 10.0.0.0/8 80 to 192.168.1.1 443".hex()]
        f2 = ["sdf", b"permit out ip from 1.2.3.4 to any".hex()]
        out += [[f1, ["srcif", v]], [["srcif", v], f1], [f1, ["srcif", v], f2], [["other"], f1, f2, ["srcif", v]]]
    return out


def evaluate_pdi(ctx, cases, impl):
    """observed exchange flag per filter (which of newFlowDesc(s, true/false) the PDI attribute equals), compared with
    the model pdi_sdf_swaps under the evaluation order read from the source, and with the specification: exchanged
    iff the PDI's (single) Source Interface is Access"""
    items, spec_bad, ambiguous, skipped = [], [], 0, 0
    idx = []
    for ci, (c, o) in enumerate(zip(cases, impl)):
        if o["res"] != "ok":
            spec_bad.append((ci, "newPdi: " + o["res"]))
            continue
        sdfs = o.get("sdfs") or []
        sw, ns = o.get("swap") or [], o.get("noswap") or []
        accepted = [j for j in range(len(sw)) if sw[j] is not None and ns[j] is not None]
        if len(accepted) != len(sdfs):
            spec_bad.append((ci, "newPdi emitted %d SDF filters for %d acceptable flow descriptions" % (len(sdfs), len(accepted))))
            continue
        obs = []
        bad = False
        for pos, j in enumerate(accepted):
            a, b, got = sw[j], ns[j], sdfs[pos]
            if a == b:
                ambiguous += 1
                obs.append(None)
            elif got == a:
                obs.append(True)
            elif got == b:
                obs.append(False)
            else:
                spec_bad.append((ci, "filter %d of the PDI is neither newFlowDesc(s, true) nor newFlowDesc(s, false)" % pos))
                bad = True
        if bad:
            continue
        srcifs = [it[1] for it in c if it[0] == "srcif"]
        if len(srcifs) == 1:
            for pos, x in enumerate(obs):
                if x is not None and x != (srcifs[0] == 0):
                    spec_bad.append((ci, "Source Interface %d (%s): filter %d packed %s the source/destination exchange"
                                     % (srcifs[0], "Access, uplink" if srcifs[0] == 0 else "not Access", pos, "with" if x else "without")))
                    break
        # model comparison: items with the rejected flow descriptions left out
        acc_set, k, its = set(accepted), 0, []
        for it in c:
            if it[0] == "sdf":
                if k in acc_set:
                    its.append("PSdf %d" % k)
                k += 1
            elif it[0] == "srcif":
                its.append("PSrcIf %d" % it[1])
            else:
                its.append("POther")
        want = ["(%d, %s)" % (j, "None" if x is None else "Some true" if x else "Some false") for j, x in zip(accepted, obs)]
        items.append("(%s, %s)" % (clist(its), clist(want)))
        idx.append(ci)
    body = ("Definition agrees (c : list pdi_item * list (N * option bool)) : bool :=\n"
            "  let m := pdi_sdf_swaps fd_pdi_sdf_in_scan (fst c) in\n"
            "  Nat.eqb (List.length m) (List.length (snd c)) &&\n"
            "  forallb (fun p => match p with ((k, b), (k', ob)) => N.eqb k k' && match ob with None => true | Some b' => Bool.eqb b b' end end)\n"
            "          (combine m (snd c)).\n"
            "Fixpoint bad_idx {A} (f : A -> bool) (l : list A) (i : N) : list N :=\n"
            "  match l with [] => [] | x :: r => (if f x then [] else [i]) ++ bad_idx f r (i + 1) end.\n"
            "Definition cases : list (list pdi_item * list (N * option bool)) := \n" + clist(items) + ".\n"
            "Definition mism := Eval vm_compute in bad_idx agrees cases 0.\n")
    res, log = common.run_coq_cases(ctx, "cases_c16_pdi", body, REQUIRES + ["FlowDescGen", "Pdi"], ["mism"])
    if res is None:
        return None, spec_bad, ambiguous, log
    return [idx[i] for i in common.parse_N_list(res["mism"])], spec_bad, ambiguous, log


def show(c):
    b = bytes.fromhex(c["s"])
    return dict(c, text=b.decode("latin-1"))


def run(ctx, replay=None):
    info = common.prepare(ctx)
    obl = info["obl"]
    broken = []
    if not info["gen_ok"]:
        broken.append("T-gen translator no longer recognises the source: " + info["gen_log"][-500:])
    if not obl["compiled"]:
        broken.append("props/C16.v (theorems %s) no longer compiles" % ", ".join(obl["theorems"]))
    if info["forbidden"]:
        broken.append("forbidden constructs: %s" % info["forbidden"])
    cases = gen_cases(ctx)
    if replay:
        cases = json.load(open(replay))["cases"]
    coverage = {"obligations": len(obl["theorems"]), "discharged": len(obl["theorems"]) if obl["compiled"] else 0,
                "checker_cmd": "make -f Makefile.coq (coqc 8.16.1, full .vo build) + coqc props/C16.v (Print Assumptions)",
                "trusted_base": common.TRUSTED_BASE, "axioms": obl["axioms"], "theorems": obl["theorems"],
                "evaluations": 0, "distinct_nontrivial": 0, "exhaustive": False}
    if info["tie_broken"]:
        ctx.violation({"broken": "correspondence harness no longer builds against the tree", "log": info["tie_broken"]},
                      no_input=True)
        return ctx.finish(coverage, [])
    impl, log = common.run_harness(ctx, info["harness"], "flowdesc", [{"s": c["s"], "swap": c["swap"]} for c in cases])
    if impl is None:
        ctx.violation({"broken": "harness run failed", "log": log[-2000:]}, no_input=True)
        return ctx.finish(coverage, [])
    mism, monf, unmo, clog = evaluate(ctx, cases, impl, "cases_c16")
    if mism is None:
        broken.append("model/FlowDesc.v, monitor/FlowSpec.v or the cases file no longer compiles: " + clog[-800:])
        mism, monf, unmo = [], [], []
    cmism, cmonf = [], []
    ccases, cimpl = [], []
    if not replay:
        ccases = conv_cases(ctx)
        cimpl, log = common.run_harness(ctx, info["harness"], "convslice", ccases)
        if cimpl is None:
            ctx.violation({"broken": "harness run (convslice) failed", "log": log[-2000:]}, no_input=True)
            return ctx.finish(coverage, [])
        cmism, cmonf, clog = evaluate_conv(ctx, ccases, cimpl)
        if cmism is None:
            broken.append("convert_slice cases no longer compile: " + clog[-800:])
            cmism, cmonf = [], []
    pmism, pspec, pamb, pcases, pimpl = [], [], 0, [], []
    if not replay:
        pcases = pdi_cases(ctx)
        pimpl, log = common.run_harness(ctx, info["harness"], "pdi", pcases)
        if pimpl is None:
            ctx.violation({"broken": "harness run (pdi) failed", "log": log[-2000:]}, no_input=True)
            return ctx.finish(coverage, [])
        pmism, pspec, pamb, clog = evaluate_pdi(ctx, pcases, pimpl)
        if pmism is None:
            broken.append("PDI cases no longer compile: " + clog[-800:])
            pmism = []
    kinds = {}
    for c, r in zip(cases, impl):
        k = kinds.setdefault(c["kind"], {"n": 0, "accepted": 0, "rejected": 0, "panic": 0})
        k["n"] += 1
        k["accepted" if r["parse"] == "ok" else "rejected" if r["parse"] == "err" else "panic"] += 1
    coverage["evaluations"] = len(cases) + len(ccases) + len(pcases)
    coverage["pdi_cases"] = {"n": len(pcases), "filters_with_equal_source_and_destination": pamb,
                             "filter_before_source_interface": sum(1 for c in pcases if any(
                                 it[0] == "sdf" and any(x[0] == "srcif" for x in c[i + 1:]) for i, it in enumerate(c))),
                             "one_source_interface": sum(1 for c in pcases if sum(1 for it in c if it[0] == "srcif") == 1)}
    coverage["distinct_nontrivial"] = len({json.dumps(r.get("parsed"), sort_keys=True) + str(c["swap"])
                                           for c, r in zip(cases, impl) if r["parse"] == "ok"})
    coverage["rule"] = ("cases = (octet string, uplink flag); grammar: rule index k cycles protocol k mod 257 (256 = ip), address kind/"
                        "prefix length k mod 37 (0..32 prefix, any, assigned, host), port-list lengths 0..8, random spacing from the six "
                        "ASCII spaces and leading zeros (every 4th plain); mutant: one of 16 near-miss edits of a valid rule; bytes: random "
                        "octets / grammar alphabet / token soup; non-trivial = accepted by the implementation, distinct by parsed filter+flag")
    coverage["input_distribution"] = kinds
    coverage["unmodelled_inputs"] = len(unmo)
    coverage["samples"] = [dict(text=bytes.fromhex(c["s"]).decode("latin-1"), swap=c["swap"], parse=r["parse"], parsed=r.get("parsed"))
                           for c, r in list(zip(cases, impl))[:3]]
    coverage["model_impl_mismatches"] = len(mism) + len(cmism) + len(pmism)
    coverage["monitor_failures"] = len(monf) + len(cmonf) + len(pspec)
    # report the shortest failing inputs (selection instead of shrinking: the generators emit many short cases)
    for i in sorted(monf, key=lambda j: len(cases[j]["s"]))[:2]:
        c = cases[i]
        what = WHY_TEXT.get(WHY.get(i, 0), "monitor false")
        ctx.violation({"property": "C16", "what": what, "cases": [show(c)], "impl": impl[i],
                       "replay_cmd": "python3 check.py C16 --replay <this file>"})
    for i in cmonf[:1]:
        ctx.violation({"property": "C16", "what": "unpack (convertSlice ports) <> ports", "ports": ccases[i], "impl_bytes": cimpl[i]})
    def show_pdi(c):
        return [[it[0], bytes.fromhex(it[1]).decode("latin-1")] if it[0] == "sdf" else it for it in c]
    for ci, why in sorted(pspec, key=lambda x: len(pcases[x[0]]))[:1]:
        ctx.violation({"property": "C16", "what": "newPdi: " + why, "pdi_ies_in_order": show_pdi(pcases[ci]), "impl": pimpl[ci]})
    if pmism and not pspec:
        ci = sorted(pmism, key=lambda j: len(pcases[j]))[0]
        ctx.violation({"property": "C16", "what": "newPdi disagrees with the model pdi_sdf_swaps on which filters are exchanged",
                       "pdi_ies_in_order": show_pdi(pcases[ci]), "impl": pimpl[ci]})
    msel = sorted(mism, key=lambda j: len(cases[j]["s"]))[:3]
    if not monf and not cmonf and not pspec and not pmism and (mism or cmism or broken):
        ctx.violation({"property": "C16", "broken_obligations": broken,
                       "correspondence": "model parse_flow_desc/new_flow_desc <> implementation (or reference decoder <> DecodeFlowDesc)" if mism
                       else "model convert_slice <> implementation" if cmism else None,
                       "cases": [show(cases[i]) for i in msel], "impl": [impl[i] for i in msel],
                       "conv_cases": [ccases[i] for i in cmism[:3]], "conv_impl": [cimpl[i] for i in cmism[:3]],
                       "make_log": info.get("make_log", "")[-1500:]}, no_input=True)
    return ctx.finish(coverage, ["inputs with an octet >= 0x80 or a ':' in an address token are outside the model (no-fault and "
                                 "pack consistency only)",
                                 "Go's strings/strconv/net behaviour is modelled and tied by the differential run only",
                                 "the netlink serialisation of the attribute list (go-nl) is not modelled; go-gtp5gnl's DecodeFlowDesc "
                                 "is run on the encoded bytes and compared with the reference decoder"])
