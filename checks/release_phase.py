"""C13 release path: scenarios for the full stack (real PfcpServer + real Gtp5g over the simulated kernel), the Coq model
model/Release.v evaluated on the same steps, comparison and monitor inside Coq."""
import json
import random

from lib import common
from lib.common import cN, clist, cbytes_hex

REQUIRES = ["Bytes", "FlagsGen", "ConstsGen", "GtpuGen", "Gtpu", "GtpuRef", "Release"]


def gen_scenario(rnd, uniq):
    def pkt():
        uniq[0] += 1
        return (uniq[0].to_bytes(3, "big") + bytes(rnd.randrange(256) for _ in range(rnd.choice([0, 1, 5, 20])))).hex()

    def far(i):
        return {"id": i, "action": rnd.choice([12, 12, 4, 2, 1, 6]),
                "ohc": ({"teid": rnd.choice([1, 100, 2**32 - 1, rnd.randrange(2**32)]), "gnb": rnd.randrange(2)} if rnd.random() < 0.5 else None)}

    def est():
        nf = rnd.choice([1, 1, 2])
        return {"op": "est", "cfars": [far(i + 1) for i in range(nf)],
                "cqers": [{"id": 5 + j, "qfi": rnd.choice([0, 5, 9, 63])} for j in range(rnd.choice([0, 1, 2]))],
                "cpdrs": [{"id": p + 1, "far": rnd.randint(1, nf), "qers": rnd.sample([5, 6], rnd.choice([0, 1, 2]))}
                          for p in range(rnd.choice([1, 2, 3]))]}
    steps = [est()]
    alive = True
    for _ in range(rnd.randint(4, 14)):
        x = rnd.random()
        if not alive:
            steps.append(est())
            alive = True
        elif x < 0.5:
            steps.append({"op": "buffer", "seid": 1, "pdr": rnd.choice([1, 1, 2, 3, 4]), "action": rnd.choice([12, 12, 4, 4, 8, 0, 2]),
                          "pkt": pkt() if rnd.random() < 0.93 else ""})
        elif x < 0.85:
            u = {"id": rnd.choice([1, 1, 2, 3]), "action": rnd.choice([2, 2, 2, 1, 3, 4, 12, 6]), "id_last": rnd.random() < 0.3,
                 "no_apply": rnd.random() < 0.1,
                 "ohc": ({"teid": rnd.choice([7, 200, rnd.randrange(2**32)]), "gnb": rnd.randrange(2)} if rnd.random() < 0.6 else None)}
            st = {"op": "mod", "seid": 1, "ufars": [u]}
            if rnd.random() < 0.2:
                st["cpdrs"] = [{"id": rnd.choice([2, 3, 4]), "far": rnd.choice([1, 2]), "qers": [5]}]
            if rnd.random() < 0.15:
                st["rpdrs"] = [rnd.choice([1, 2, 3])]
            if rnd.random() < 0.15:
                st["cfars"] = [far(rnd.choice([2, 3]))]
            if rnd.random() < 0.15:
                st["fail_ufar"] = rnd.choice([12, 16, 22])   # the data plane rejects the FAR update: nothing is released
            steps.append(st)
        elif x < 0.93:
            steps.append({"op": "del", "seid": 1})
            alive = False
        else:
            steps.append({"op": "buffer", "seid": rnd.choice([2, 9]), "pdr": 1, "action": 12, "pkt": pkt()})
    return steps


def directed():
    """the history of the repaired defect, and a burst beyond the capacity followed by a release"""
    out = [[{"op": "est", "cfars": [{"id": 1, "action": 12, "ohc": None}], "cqers": [{"id": 5, "qfi": 9}], "cpdrs": [{"id": 1, "far": 1, "qers": [5]}]},
            {"op": "buffer", "seid": 1, "pdr": 1, "action": 12, "pkt": "bb01"},
            {"op": "mod", "seid": 1, "ufars": [{"id": 1, "action": 2, "ohc": {"teid": 200, "gnb": 1}}]},
            {"op": "mod", "seid": 1, "ufars": [{"id": 1, "action": 2}]}],
           [{"op": "est", "cfars": [{"id": 1, "action": 4, "ohc": {"teid": 100, "gnb": 0}}], "cqers": [{"id": 5, "qfi": 63}], "cpdrs": [{"id": 1, "far": 1, "qers": [5]}]},
            {"op": "buffer", "seid": 1, "pdr": 1, "action": 4, "pkt": "cc01"},
            {"op": "mod", "seid": 1, "ufars": [{"id": 1, "action": 2, "id_last": True, "ohc": {"teid": 300, "gnb": 1}}]}]]
    for act in (2, 1):
        out.append([{"op": "est", "cfars": [{"id": 1, "action": 4, "ohc": {"teid": 9, "gnb": 0}}], "cqers": [], "cpdrs": [{"id": 1, "far": 1, "qers": []}]},
                    {"op": "buffer", "seid": 1, "pdr": 1, "action": 4, "pkt": "dd01"},
                    {"op": "buffer", "seid": 1, "pdr": 1, "action": 4, "pkt": "dd02"},
                    {"op": "mod", "seid": 1, "ufars": [{"id": 1, "action": act, "ohc": {"teid": 400, "gnb": 1}}], "fail_ufar": 12},
                    {"op": "buffer", "seid": 1, "pdr": 1, "action": 4, "pkt": "dd03"},
                    {"op": "mod", "seid": 1, "ufars": [{"id": 1, "action": 2, "ohc": {"teid": 401, "gnb": 1}}]}])
    # the PDR's first QER carries no QFI (a session-AMBR QER), the second does: the packets leave with the second's
    out.append([{"op": "est", "cfars": [{"id": 1, "action": 4, "ohc": {"teid": 11, "gnb": 0}}], "cqers": [{"id": 5, "qfi": 0}, {"id": 6, "qfi": 9}],
                 "cpdrs": [{"id": 1, "far": 1, "qers": [5, 6]}]},
                {"op": "buffer", "seid": 1, "pdr": 1, "action": 4, "pkt": "ee01"},
                {"op": "buffer", "seid": 1, "pdr": 1, "action": 4, "pkt": "ee02ff"},
                {"op": "mod", "seid": 1, "ufars": [{"id": 1, "action": 2}]}])
    burst = [{"op": "est", "cfars": [{"id": 1, "action": 4, "ohc": {"teid": 5, "gnb": 0}}], "cqers": [], "cpdrs": [{"id": 1, "far": 1, "qers": []}]}]
    for n in (511, 515):
        out.append(burst + [{"op": "burst", "seid": 1, "pdr": 1, "action": 4, "pkt": "90", "count": n},
                            {"op": "mod", "seid": 1, "ufars": [{"id": 1, "action": 2}]},
                            {"op": "burst", "seid": 1, "pdr": 1, "action": 4, "pkt": "91", "count": 3},
                            {"op": "mod", "seid": 1, "ufars": [{"id": 1, "action": 1}]}])
    return out


def c_far(f):
    ohc = "None" if not f.get("ohc") else "(Some (mkOhc %d %d 2152))" % (f["ohc"]["teid"], f["ohc"]["gnb"])
    return "(%d, mkFar %d %s)" % (f["id"], f["action"], ohc)


def c_upd(u):
    ohc = "None" if not u.get("ohc") else "(Some (mkOhc %d %d 2152))" % (u["ohc"]["teid"], u["ohc"]["gnb"])
    act = "None" if u.get("no_apply") else "(Some %d)" % u["action"]
    return "(mkFarUpd %d %s %s)" % (u["id"], act, ohc)


def c_pdr(p):
    return "(%d, (%d, %s))" % (p["id"], p["far"], clist([cN(q) for q in p.get("qers", [])]))


def c_step(st):
    if st["op"] == "est":
        return "(REst %s %s %s)" % (clist([c_far(f) for f in st.get("cfars", [])]),
                                   clist(["(%d, %d)" % (q["id"], q["qfi"]) for q in st.get("cqers", [])]),
                                   clist([c_pdr(p) for p in st.get("cpdrs", [])]))
    if st["op"] == "mod":
        if st["seid"] != 1:
            return "(RBuffer 0 0 [])"
        return "(RMod %s %s %s %s %s)" % (clist([c_far(f) for f in st.get("cfars", [])]),
                                         clist(["(%d, %d)" % (q["id"], q["qfi"]) for q in st.get("cqers", [])]),
                                         clist([c_pdr(p) for p in st.get("cpdrs", [])]),
                                         clist([cN(p) for p in st.get("rpdrs", [])]),
                                         clist([c_upd(u) for u in ([] if st.get("fail_ufar") else st.get("ufars", []))]))
    if st["op"] == "del":
        return "RDel" if st["seid"] == 1 else "(RBuffer 0 0 [])"
    if st["op"] == "burst":
        pk = [bytes.fromhex(st["pkt"]) + k.to_bytes(3, "big") for k in range(st["count"])]
        return "(RBurst %d %d %s)" % (st["pdr"], st["action"], clist([clist([str(b) for b in p]) for p in pk]))
    if st["op"] == "buffer":
        if st["seid"] != 1:
            return "(RBuffer 0 0 [])"          # a notification for a session that does not exist: no effect
        return "(RBuffer %d %d %s)" % (st["pdr"], st["action"], cbytes_hex(st["pkt"]))
    raise ValueError(st["op"])


def c_obs(o):
    g0 = clist([cbytes_hex(x) for x in (o["gnb"][0] or [])])
    g1 = clist([cbytes_hex(x) for x in (o["gnb"][1] or [])])
    dl = clist([cN(x) for x in (o["dldr"] or [])])
    qs = []
    for k, v in sorted((o.get("queue") or {}).items()):
        seid, pdr = json.loads(k)
        if v and seid == 1:
            qs.append("(%d, %s)" % (pdr, clist([cbytes_hex(p) for p in v])))
    return "(%s, %s, %s, %s, %s)" % (g0, g1, dl, clist(qs), "true" if o.get("fault") else "false")


PRELUDE = r"""
Definition obs := (list (list N) * list (list N) * list N * list (N * list (list N)) * bool)%type.
Definition leqb (a b : list N) : bool := if list_eq_dec N.eq_dec a b then true else false.
Fixpoint lleqb (a b : list (list N)) : bool :=
  match a, b with [], [] => true | x :: r, y :: s => leqb x y && lleqb r s | _, _ => false end.
Definition to_peer (es : list emission) (p : N) : list (list N) :=
  flat_map (fun e => match e with Emit q _ bs => if N.eqb q p then [bs] else [] end) es.
Definition nonempty (q : list (N * list pkt)) := filter (fun x => match snd x with [] => false | _ => true end) q.
Definition queues_agree (m : list (N * list pkt)) (i : list (N * list (list N))) : bool :=
  Nat.eqb (List.length (nonempty m)) (List.length i)
  && forallb (fun x => match alook (fst x) m with Some q => lleqb q (snd x) | None => false end) i.
Inductive xstep := XStep (st : rstep) | RBurst (pdr action : N) (ps : list pkt).
Coercion XStep : rstep >-> xstep.
Definition xrun (s : rstate) (x : xstep) : rstate * list emission * list N :=
  match x with
  | XStep st => rstep_run s st
  | RBurst pdr action ps =>
    fold_left (fun acc p => let '(s0, es, d) := acc in let '(s1, d1) := buffer_in s0 pdr action p in (s1, es, d ++ d1)) ps (s, [], [])
  end.
Definition step_agrees (s : rstate) (st : xstep) (o : obs) : bool * rstate :=
  match o with (g0, g1, dl, qs, fault) =>
    let '(s', es, d) := xrun s st in
    (negb fault && lleqb (to_peer es 0) g0 && lleqb (to_peer es 1) g1 && leqb d dl && queues_agree (r_q s') qs, s')
  end.
Fixpoint run_agrees (s : rstate) (l : list (xstep * obs)) (i : N) : option N :=
  match l with
  | [] => None
  | (st, o) :: r => let '(ok, s') := step_agrees s st o in if ok then run_agrees s' r (i + 1) else Some i
  end.
(* monitor on the implementation's datagrams alone: each is a well-formed G-PDU whose payload was handed up for buffering
   earlier in this history and has not been emitted before; queues within capacity *)
Definition payload_of (bs : list N) : option (list N) := option_map g_payload (ref_parse bs).
Fixpoint mon (l : list (xstep * obs)) (pushed emitted : list (list N)) (i : N) : option N :=
  match l with
  | [] => None
  | (st, (g0, g1, dl, qs, fault)) :: r =>
    let pushed' := match st with XStep (RBuffer _ _ p) => p :: pushed | RBurst _ _ ps => ps ++ pushed | _ => pushed end in
    let ps := map payload_of (g0 ++ g1) in
    let fresh := fix fresh (xs : list (option (list N))) (seen : list (list N)) : bool :=
                   match xs with
                   | [] => true
                   | None :: _ => false
                   | Some p :: t => existsb (leqb p) pushed' && negb (existsb (leqb p) seen) && fresh t (p :: seen)
                   end in
    if fault then Some i else
    if negb (fresh ps emitted) then Some i else
    if negb (forallb (fun x => Nat.leb (List.length (snd x)) 512) qs) then Some i else
    mon r pushed' (flat_map (fun x => match x with Some p => [p] | None => [] end) ps ++ emitted) (i + 1)
  end.
Fixpoint idx {A} (f : A -> option N) (l : list A) (i : N) : list (N * N) :=
  match l with [] => [] | x :: r => (match f x with Some e => [(i, e)] | None => [] end) ++ idx f r (i + 1) end.
"""


def _parse_gpdu(hexs):
    b = bytes.fromhex(hexs)
    if len(b) < 12 or b[0] != 0x34 or b[1] != 0xff:
        return None
    teid = int.from_bytes(b[4:8], "big")
    if b[11] == 0x85:
        if len(b) < 16:
            return None
        return teid, b[14] & 0x3f, b[16:].hex()
    return teid, None, b[12:].hex()


def py_monitor(case, impl):
    """the property read on the implementation's trace: on BUFF->FORW the packets queued (per the implementation's own
    previous dump) for the FAR's PDRs arrive once, in order, at the peer of the FAR's CURRENT outer header with its TEID
    and the PDR's QFI; on BUFF->DROP nothing leaves; in both cases those queues are empty afterwards"""
    fars, pdrs, qers = {}, {}, {}
    alive = False
    prevq = {}
    bad = []
    for i, (st, o) in enumerate(zip(case, impl)):
        if o.get("fault"):
            bad.append((i, "fault: " + o["fault"]))
            break
        q = {json.loads(k)[1]: (v or []) for k, v in (o.get("queue") or {}).items() if json.loads(k)[0] == 1}
        g = [o["gnb"][0] or [], o["gnb"][1] or []]
        if st["op"] == "est" and not alive:
            fars, pdrs, qers, alive = {}, {}, {}, True
        if st["op"] in ("est", "mod") and alive and st.get("seid", 1) == 1:
            for f in st.get("cfars", []):
                fars.setdefault(f["id"], {"action": f["action"], "ohc": f.get("ohc")})
            for x in st.get("cqers", []):
                qers.setdefault(x["id"], x["qfi"])
            for x in st.get("cpdrs", []):
                pdrs.setdefault(x["id"], x)
            for x in st.get("rpdrs", []):
                pdrs.pop(x, None)
            expected_any = False
            if st.get("fail_ufar") and st["op"] == "mod":
                # every FAR update of this request was rejected by the data plane: no FAR switched, so nothing may be
                # released or discarded - the queues of the PDRs that still exist are what they were
                if g[0] or g[1]:
                    bad.append((i, "packets left although the data plane rejected the FAR update (no FAR switched)"))
                for p in pdrs:
                    if q.get(p, []) != prevq.get(p, []):
                        bad.append((i, "queue of PDR %d changed (%d -> %d packets) although the data plane rejected the FAR update"
                                    % (p, len(prevq.get(p, [])), len(q.get(p, [])))))
            for u in ([] if st.get("fail_ufar") else st.get("ufars", [])):
                f = fars.get(u["id"])
                if f is None:
                    continue
                was_buff = bool(f["action"] & 4)
                if u.get("ohc"):
                    f["ohc"] = u["ohc"]
                if u.get("no_apply"):
                    continue
                f["action"] = u["action"]
                if not was_buff:
                    continue
                rel = sorted(p for p, x in pdrs.items() if x["far"] == u["id"])
                if u["action"] & 1:
                    expected_any = True
                    if g[0] or g[1]:
                        bad.append((i, "BUFF->DROP emitted packets"))
                    if any(q.get(p) for p in rel):
                        bad.append((i, "BUFF->DROP left packets queued"))
                elif u["action"] & 2 and f["ohc"] and len(st.get("ufars", [])) == 1:
                    expected_any = True
                    want = []
                    for p in rel:
                        qfi = next((qers[x] for x in pdrs[p].get("qers", []) if qers.get(x)), None)
                        want += [(f["ohc"]["teid"], qfi, pk) for pk in prevq.get(p, [])]
                    got = [_parse_gpdu(x) for x in g[f["ohc"]["gnb"]]]
                    other = g[1 - f["ohc"]["gnb"]]
                    if got != want or other:
                        bad.append((i, "BUFF->FORW: %d packets queued for the FAR's PDRs, the FAR's peer received %s (expected TEID %d), "
                                    "the other gNB %d datagrams" % (len(want), [x if x is None else (x[0], x[1]) for x in got][:4],
                                                                   f["ohc"]["teid"], len(other))))
                    if any(q.get(p) for p in rel):
                        bad.append((i, "BUFF->FORW left packets queued"))
            if not expected_any and (g[0] or g[1]) and not st.get("ufars"):
                bad.append((i, "packets emitted by a request that updates no FAR"))
        elif st["op"] == "del" and st.get("seid") == 1:
            alive = False
            if g[0] or g[1] or q:
                bad.append((i, "session deletion emitted packets or left queues"))
        elif st["op"] in ("buffer", "burst"):
            if g[0] or g[1]:
                bad.append((i, "a buffer notification emitted packets"))
            # held in arrival order, bounded: the queue afterwards is (queue before ++ arrivals) cut at the capacity - the
            # OLDEST packets stay, what does not fit is dropped
            if alive and st.get("seid") == 1 and (st.get("action", 0) & 4):
                if st["op"] == "burst":
                    arr = [st["pkt"] + "%06x" % n_ for n_ in range(st.get("count", 0))]
                else:
                    arr = [st["pkt"]] if st.get("pkt") else []
                want_q = (prevq.get(st["pdr"], []) + arr)[:512]
                if q.get(st["pdr"], []) != want_q:
                    got_q = q.get(st["pdr"], [])
                    bad.append((i, "queue of PDR %d after %d arrival(s): %d packets held (first %s, last %s), expected %d (first %s, last %s): "
                                   "arrival order / capacity rule broken" % (st["pdr"], len(arr), len(got_q), got_q[:1], got_q[-1:], len(want_q), want_q[:1], want_q[-1:])))
        prevq = q
    return bad


def run(ctx, harness, n, cases=None):
    rnd = random.Random(ctx.seed + 13)
    uniq = [0x100000]
    if cases is None:
        cases = directed() + [gen_scenario(rnd, uniq) for _ in range(n)]
    res, log = common.run_harness(ctx, harness, "release", cases, timeout=300 if ctx.tier == "quick" else 1200)
    if res is None:
        return {"error": "release harness run failed: " + log[-1200:], "cases": cases}
    impl = res["cases"]
    items = []
    for c, o in zip(cases, impl):
        pairs = ["((%s : xstep), %s)" % (c_step(st), c_obs(ob)) for st, ob in zip(c, o)]
        items.append(clist(pairs))
    body = PRELUDE + "Definition cases : list (list (xstep * obs)) := \n" + clist(items) + ".\n"
    body += "Definition mism := Eval vm_compute in idx (fun c => run_agrees r_init c 0) cases 0.\n"
    body += "Definition monf := Eval vm_compute in idx (fun c => mon c [] [] 0) cases 0.\n"
    out, clog = common.run_coq_cases(ctx, "cases_release", body, REQUIRES, ["mism", "monf"])
    if out is None:
        return {"error": "release cases do not compile: " + clog[-1200:], "cases": cases, "impl": impl}
    mm = common.parse_N_list(out["mism"])
    mf = common.parse_N_list(out["monf"])
    monf = list(zip(mf[0::2], mf[1::2]))
    pyf = []
    for ci, (c, o) in enumerate(zip(cases, impl)):
        b = py_monitor(c, o)
        if b:
            pyf.append((ci, b[0][0], b[0][1]))
    return {"cases": cases, "impl": impl, "mism": list(zip(mm[0::2], mm[1::2])), "monf": monf, "pyf": pyf}
