"""Monitor-only phase for C07 / C09: Session Report Requests whose FIRST transmission fails in the socket (the harness puts the
write deadline of the PFCP socket into the past while the report is served: a transient send failure), followed by
datagrams with the sequence number of that request from the peer it was meant for, by time-outs of it, by further
reports and by a Heartbeat.

The event-level Coq model has no write failures (its sends always succeed), so these histories are not compared with
the model; they are judged by trace rules that restate the property:
  C07  no datagram takes the server down: no fault, the Heartbeat that ends every history is answered;
  C09  the request is registered under its sequence number although the write failed (sendReqTo registers first), a
       response with that number from that peer retires it, a response from another peer does not, the retry budget
       is counted from the failed transmission, and after the budget the bookkeeping is released.
Harmless degeneration: if the loop is slower than the harness's grace period the write succeeds and the history is an
ordinary one - every rule below holds for it too."""
import random

from lib import common
from checks import pfcp_common as pc


def _rc(peer, seq, msg):
    return {"t": "recv", "peer": peer, "seq": seq, "msg": msg, "fail": [], "usage": []}


def _usa(seid, urr, val, wfail):
    return {"t": "report", "seid": seid, "wfail": wfail, "fail": [], "usage": [],
            "items": [{"usa": {"urr": urr, "trig": 2, "vflags": 0, "cnt": [val, 0, 0, 0, 0, 0], "dur": 0, "start": 10, "end": 20}}]}


def _dld(seid, wfail):
    return {"t": "report", "seid": seid, "wfail": wfail, "fail": [], "usage": [],
            "items": [{"dld": {"pdr": 1, "action": 12, "pkt": "aabb"}}]}


def cases(rnd, n):
    out = []
    for i in range(n):
        q0 = rnd.choice([0, 5, 2 ** 24 - 2, 2 ** 24 - 1])
        mr = rnd.choice([0, 1, 2])
        evs = [_rc(0, 1, {"k": "asr", "nid": {"v": 0}}), _rc(1, 1, {"k": "asr", "nid": {"v": 1}}),
               _rc(0, 2, {"k": "est", "nid": {"v": 0}, "fseid": {"v": 10},
                          "ops": {"cFAR": [1], "cURR": [{"id": 1, "method": 2, "info": 0}]}}),
               _rc(1, 2, {"k": "est", "nid": {"v": 1}, "fseid": {"v": 20}, "ops": {"cFAR": [1]}})]
        plan = []      # (sequence number, write failed)
        q = q0
        for _ in range(rnd.choice([1, 1, 2, 3])):
            wf = rnd.random() < 0.7
            evs.append(_usa(1, 1, rnd.randrange(1, 99), wf) if rnd.random() < 0.6 else _dld(1, wf))
            plan.append((q % 2 ** 24, wf))
            q += 1
        rnd.shuffle(plan)
        seqp = 3
        for sq, wf in plan:
            k = rnd.choice(["rsp", "rsp", "rsp0", "wrongpeer", "timeouts", "other", "alias"])
            if k == "rsp":
                evs.append({"t": "recv", "peer": 0, "seq": sq, "msg": {"k": "srr", "hdr": 10}, "fail": [], "usage": []})
            elif k == "rsp0":
                evs.append({"t": "recv", "peer": 0, "seq": sq, "msg": {"k": "srr", "hdr": 0}, "fail": [], "usage": []})
            elif k == "wrongpeer":
                evs.append({"t": "recv", "peer": 1, "seq": sq, "msg": {"k": "srr", "hdr": 10}, "fail": [], "usage": []})
                evs.append({"t": "recv", "peer": 0, "seq": sq, "msg": {"k": "srr", "hdr": 10}, "fail": [], "usage": []})
            elif k == "alias":
                evs.append({"t": "recv", "peer": 4, "seq": sq, "msg": {"k": "srr", "hdr": 10}, "fail": [], "usage": []})
                evs.append({"t": "recv", "peer": 0, "seq": sq, "msg": {"k": "srr", "hdr": 10}, "fail": [], "usage": []})
            elif k == "other":
                evs.append({"t": "recv", "peer": 0, "seq": sq, "msg": {"k": "otherrsp", "type": rnd.choice([2, 6, 51, 53]), "seid": 10},
                            "fail": [], "usage": []})
            else:
                for _ in range(mr + 1):
                    evs.append({"t": "timeout", "tx": True, "peer": 0, "seq": sq, "fail": [], "usage": []})
                evs.append({"t": "recv", "peer": 0, "seq": sq, "msg": {"k": "srr", "hdr": 10}, "fail": [], "usage": []})
            if rnd.random() < 0.4:
                evs.append(_rc(1, seqp, {"k": "mod", "seid": 2, "nid": {"absent": True}, "ops": {"cFAR": [seqp]}}))
                seqp += 1
        evs.append(_rc(1, seqp, {"k": "hb"}))
        out.append({"maxretrans": mr, "txseq0": q0, "events": evs})
    return out


def monitor(prop, case, obs, prefix):
    bad = pc.mon_no_fault(case, obs, prefix)
    if bad:
        return bad
    outstanding = {}     # sequence number -> transmissions still allowed (tracked from the events alone)
    for i, ev, o, prev, prev_dp, dup in pc.walk(case, obs, prefix):
        d = o["dump"]
        if ev["t"] == "recv" and ev["msg"]["k"] == "hb":
            s = o["sends"] or []
            if len(s) != 1 or s[0]["type"] != "hbrsp" or s[0]["seq"] != ev["seq"] or s[0]["dst"] != ev["peer"]:
                bad.append((i, "Heartbeat Request not answered after a Session Report Request whose transmission failed"))
        if prop != "C09":
            continue
        if ev["t"] == "report" and pc.live(prev, ev["seid"]) is not None:
            new = [e["key"] for e in (d.get("tx") or []) if pc.tx_entry(prev, e["key"]) is None]
            if len(new) != 1:
                bad.append((i, "a report for a live session registered %d requests (write %s)" % (len(new), "failed" if ev.get("wfail") else "ok")))
            for k in new:
                outstanding[k] = True
        elif ev["t"] == "recv" and ev["msg"]["k"] in ("srr", "otherrsp"):
            k = pc.key_of(prefix, ev["peer"], ev["seq"])
            if k in outstanding:
                del outstanding[k]
                if pc.tx_entry(d, k) is not None:
                    bad.append((i, "response with the sequence number of the outstanding request %s from its peer did not retire it" % k))
        elif ev["t"] == "timeout" and ev.get("tx"):
            k = pc.key_of(prefix, ev["peer"], ev["seq"])
            e0 = pc.tx_entry(prev, k)
            if k in outstanding and e0 is not None:
                if e0["count"] < case["maxretrans"]:
                    s = [x for x in (o["sends"] or []) if x["type"] == "srreq" and x["seq"] == ev["seq"]]
                    if len(s) != 1 or pc.tx_entry(d, k) is None:
                        bad.append((i, "expiry %d of request %s (budget %d) did not retransmit it" % (e0["count"] + 1, k, case["maxretrans"])))
                else:
                    del outstanding[k]
                    if pc.tx_entry(d, k) is not None or (o["sends"] or []):
                        bad.append((i, "request %s not abandoned after its last retry" % k))
        for k in outstanding:
            if pc.tx_entry(d, k) is None:
                bad.append((i, "outstanding request %s lost its bookkeeping at an event that neither answers nor expires it" % k))
                break
    return bad


def phase(prop):
    def run(ctx, info, coverage):
        rnd = random.Random(ctx.seed * 7919 + 17)
        cs = cases(rnd, 24 if ctx.tier == "quick" else 400)
        res, err = common.run_harness(ctx, info["harness"], "pfcp", cs, timeout=600, tag="-wfail")
        if not res:
            ctx.violation({"property": prop, "broken": "write-failure phase did not run: %s" % (err or "")[-600:]}, no_input=True)
            return
        coverage["write_failure_histories"] = len(cs)
        coverage["write_failure_reports"] = sum(1 for c in cs for e in c["events"] if e.get("wfail"))
        coverage["evaluations"] = coverage.get("evaluations", 0) + len(cs)
        reported = 0
        for c, o in zip(cs, res["cases"]):
            f = monitor(prop, c, o, res["prefix"])
            if f and reported < 2:
                reported += 1
                ctx.violation({"property": prop, "what": f[0][1], "all_failures": f[:5], "mode": "pfcp (write-failure phase, monitor only)",
                               "case": c, "implementation_trace": o,
                               "replay_cmd": "python3 check.py %s --replay <this file>" % prop})
    return run


def both(first, second):
    def run(ctx, info, coverage):
        first(ctx, info, coverage)
        second(ctx, info, coverage)
    return run
