"""C19 - flag octets are decoded and encoded bit-exactly per TS 29.244."""
import itertools
import json
import os
import random
import re
from concurrent.futures import ThreadPoolExecutor

from lib import common
from lib.common import cstr, clist

MANIFEST = dict(
    text="Kernel-checked theorems over ALL octet values: for every row (name, octet, bit) of the four tables transcribed by "
         "hand from TS 29.244 8.2.19/8.2.26/8.2.41/8.2.40, the model of report.go (Unmarshal, IE(), accessors, "
         "SetReportingTrigger, SetFlags over the constants, accessor masks, switch table and Unmarshal/IE shape parameters "
         "REGENERATED from report.go on every run) reads/writes exactly that bit; too-short input is an error; "
         "SetReportingTrigger equals the same-name rule for every (flags, cause) pair; SetFlags sets exactly "
         "TOVOL|ULVOL|DLVOL(+TONOP|ULNOP|DLNOP). The real code is run against the model and against the specification "
         "monitors inside Coq: every run all 2^16+2^8 apply-action inputs and all 512 volume cases; reporting triggers with "
         "<=3 bits + random (quick) or all 2^24 three-octet and 2^16 two-octet inputs, all 2^24 IE() encodings and all 2^22 "
         "usage-report flag sets (thorough).",
    note="Modelled, not verified: go-pfcp's ie.New* constructors (payload = the octets passed); control flow of "
         "Unmarshal/IE is hand-modelled over generated shape parameters and tied by the correspondence run only. "
         "REEMR has no same-named usage-report trigger (EMRRE is a different name): SetReportingTrigger(REEMR) sets nothing.",
    technique="Coq proof (testbit/byte-decomposition lemmas, finite table sweeps lifted) + generated tables + exhaustive "
              "differential run vs vm_compute model and specification monitors",
    design="4/C19")

REQ_SPEC = ["Bytes", "FlagsSpec"]
REQ_MODEL = ["Bytes", "FlagsSpec", "FlagsGen", "Flags"]
KINDS = ["aa", "rt", "rtie", "usar", "srt", "sf"]
SHARD = 1 << 18
WORKERS = 14


# ---------------------------------------------------------------- packing (mirrors harness/overlay/cmd/vharness/flags.go)

def pack_octets(bs):
    bs = bytes(bs)
    assert len(bs) <= 7
    return len(bs) | (int.from_bytes(bs, "little") << 3)


def unpack_octets(p):
    n = p & 7
    return (p >> 3).to_bytes(7, "little")[:n]


def describe(kind, case, obs, names):
    """Human-readable form of one case and of what the implementation answered (for replays/samples)."""
    st = {0: "ok", 1: "error", 2: "panic", 3: "unrepresentable"}[obs & 3]
    d = {"kind": kind, "status": st}
    if kind in ("aa", "rt"):
        d["octets"] = unpack_octets(case).hex()
        d["func"] = {"aa": "ApplyAction.Unmarshal", "rt": "ReportingTrigger.Unmarshal"}[kind]
        if st == "ok":
            am = obs >> 34
            d["Flags"] = hex((obs >> 2) & 0xffffffff)
            d["accessors_true"] = [n for i, n in enumerate(names[kind]) if am >> i & 1]
    elif kind in ("rtie", "usar"):
        d["Flags"] = hex(case)
        d["func"] = {"rtie": "ReportingTrigger.IE", "usar": "UsageReportTrigger.IE"}[kind]
        if st == "ok":
            n = (obs >> 2) & 7
            d["payload"] = ((obs >> 5) & 0xffffffff).to_bytes(4, "little")[:n].hex()
            am = obs >> 37
            d["accessors_true"] = [x for i, x in enumerate(names["rt" if kind == "rtie" else "usar"]) if am >> i & 1]
    elif kind == "srt":
        d["func"] = "UsageReportTrigger.SetReportingTrigger"
        d["Flags_before"], d["r"] = hex(case[0]), hex(case[1])
        d["Flags_after"] = hex(obs >> 2)
    elif kind == "sf":
        d["func"] = "VolumeMeasure.SetFlags"
        d["Flags_before"], d["mnop"] = hex(case[0]), bool(case[1])
        d["Flags_after"] = hex((obs >> 2) & 0xff)
        d["ie_payload0"] = hex((obs >> 10) & 0xff)
    return d


# ---------------------------------------------------------------- case generation

def bits_upto(nbits, k):
    for n in range(k + 1):
        for c in itertools.combinations(range(nbits), n):
            yield sum(1 << i for i in c)


def gen_cases(ctx):
    rnd = random.Random(ctx.seed)
    thorough = ctx.tier == "thorough"
    nrand = 100000 if thorough else 20000
    c = {k: [] for k in KINDS}
    # --- Apply Action (explicit list: too short, over-long; the 1- and 2-octet forms are swept completely)
    for _ in range(50):
        c["aa"].append(pack_octets(bytes(rnd.randrange(256) for _ in range(rnd.choice((1, 2))))))
    c["aa"].append(pack_octets(b""))
    for ln in (3, 4, 5, 7):
        c["aa"].append(pack_octets(b"\xff" * ln))
        c["aa"].append(pack_octets(b"\x00" * ln))
        for _ in range(100):
            c["aa"].append(pack_octets(bytes(rnd.randrange(256) for _ in range(ln))))
    # --- Reporting Triggers, decode
    c["rt"].append(pack_octets(b""))
    for v in range(256):
        c["rt"].append(pack_octets(bytes([v])))                      # too short
    for v in bits_upto(24, 3):
        c["rt"].append(pack_octets(v.to_bytes(3, "little")))
    for v in bits_upto(16, 3):
        c["rt"].append(pack_octets(v.to_bytes(2, "little")))
    for v in (0xffffff, 0xfffffe, 0x7fffff, 0xfeffff, 0xfffeff):
        c["rt"].append(pack_octets(v.to_bytes(3, "little")))
    c["rt"].append(pack_octets(b"\xff\xff"))
    for _ in range(nrand):
        c["rt"].append(pack_octets(rnd.randrange(1 << 24).to_bytes(3, "little")))
        c["rt"].append(pack_octets(rnd.randrange(1 << 16).to_bytes(2, "little")))
    for ln in (4, 5, 6, 7):                                           # over-long (accepted by the code)
        c["rt"].append(pack_octets(b"\xff" * ln))
        c["rt"].append(pack_octets(b"\x00" * ln))
        for _ in range(100):
            c["rt"].append(pack_octets(bytes(rnd.randrange(256) for _ in range(ln))))
    # --- Reporting Triggers, encode
    c["rtie"] += list(bits_upto(24, 3)) + [0xffffff, 0xffffffff, 0xff000000, 0x01000000]
    c["rtie"] += [rnd.randrange(1 << 24) for _ in range(nrand // 4)]
    c["rtie"] += [rnd.randrange(1 << 32) for _ in range(500)]
    # --- Usage Report Trigger, encode: all single bits and pairs of the 22 defined bits, random subsets
    c["usar"] += list(bits_upto(22, 2)) + [(1 << 22) - 1, 0xffffff, 0xffffffff]
    c["usar"] += [rnd.randrange(1 << 22) for _ in range(nrand // 4)]
    c["usar"] += [rnd.randrange(1 << 32) for _ in range(500)]
    # --- SetReportingTrigger
    causes = [0] + [1 << k for k in range(32)]
    causes += [(1 << a) | (1 << b) for a, b in itertools.combinations(range(18), 2)]
    causes += [(1 << a) | (1 << b) for a in range(18) for b in range(18, 32, 3)]
    causes += [rnd.randrange(1 << 32) for _ in range(2000 if not thorough else 20000)]
    causes += [rnd.randrange(1 << 18) for _ in range(1000)]
    for r in causes:
        for f0 in (0, 0xffffffff, rnd.randrange(1 << 22), rnd.randrange(1 << 32)):
            c["srt"].append([f0, r])
    # --- SetFlags: all 256 initial octets (so all 64 flag subsets, with and without the spare bits) x mnop
    for f0 in range(256):
        for mnop in (0, 1):
            c["sf"].append([f0, mnop])
    sweeps = [dict(kind="aa", nbytes=2, start=0, count=1 << 16), dict(kind="aa", nbytes=1, start=0, count=256)]
    big = []
    if thorough:
        big.append(dict(kind="rt", nbytes=2, start=0, count=1 << 16))
        for kind, total in (("rt", 1 << 24), ("rtie", 1 << 24), ("usar", 1 << 22)):
            for s in range(0, total, SHARD):
                big.append(dict(kind=kind, nbytes=3 if kind == "rt" else 0, start=s, count=min(SHARD, total - s)))
    return c, sweeps, big


# ---------------------------------------------------------------- Coq side

PRELUDE_SPEC = r"""
From Coq Require Import Uint63.
Definition n_of (i : int) : N := Z.to_N (Uint63.to_Z i).
Definition st_of (n : N) : status := match n with 0 => StOk | 1 => StErr | _ => StPanic end.
(* unpacking with shifts and masks (N.div/N.modulo are slow in vm_compute) *)
Definition fld (x sh mask : N) : N := N.land (N.shiftr x sh) mask.
Fixpoint lsb_octets (n : nat) (x : N) : list N :=
  match n with O => [] | S k => N.land x 255 :: lsb_octets k (N.shiftr x 8) end.
Definition octs (p : N) : list N := lsb_octets (N.to_nat (N.land p 7)) (N.shiftr p 3).
Definition P_rt := Eval vm_compute in prep rt_spec rt_names.
Definition P_usar := Eval vm_compute in prep usar_spec usar_names.
Definition P_aa := Eval vm_compute in prep aa_spec aa_names.
(* specification monitors applied to (input, what the implementation returned) *)
Definition mon_dec (P : list (nat * N * N)) (minlen : nat) (inp obs : N) : bool :=
  decode_mon P minlen (octs inp) (st_of (N.land obs 3)) (fld obs 2 4294967295) (N.shiftr obs 34).
Definition mon_enc (P : list (nat * N * N)) (f obs : N) : bool :=
  encode_mon P f (N.shiftr obs 37) (st_of (N.land obs 3)) (lsb_octets (N.to_nat (fld obs 2 7)) (fld obs 5 4294967295)).
Definition mon_rt := mon_dec P_rt 2.
Definition mon_aa := mon_dec P_aa 1.
Definition mon_rtie := mon_enc P_rt.
Definition mon_usar := mon_enc P_usar.
Definition mon_srt (f0 r obs : N) : bool := srt_mon f0 r (st_of (N.land obs 3)) (N.shiftr obs 2).
Definition mon_sf (f0 m obs : N) : bool :=
  let f1 := fld obs 2 255 in
  sf_mon f0 (negb (m =? 0)) (st_of (N.land obs 3)) f1 && vol_ie_mon f1 (fld obs 10 255).
Fixpoint bad2 (f : N -> N -> bool) (ins obs : list int) (i cnt : N) (acc : list N) : N * list N :=
  match ins, obs with
  | a :: ins', b :: obs' =>
      if f (n_of a) (n_of b) then bad2 f ins' obs' (i + 1) cnt acc
      else bad2 f ins' obs' (i + 1) (cnt + 1) (if cnt <? 10 then i :: acc else acc)
  | _, _ => (cnt, rev acc)
  end.
Fixpoint bad3 (f : N -> N -> N -> bool) (xs ys obs : list int) (i cnt : N) (acc : list N) : N * list N :=
  match xs, ys, obs with
  | a :: xs', b :: ys', o :: obs' =>
      if f (n_of a) (n_of b) (n_of o) then bad3 f xs' ys' obs' (i + 1) cnt acc
      else bad3 f xs' ys' obs' (i + 1) (cnt + 1) (if cnt <? 10 then i :: acc else acc)
  | _, _, _ => (cnt, rev acc)
  end.
(* sweep: the k-th observation belongs to input  enc (start + k) *)
Fixpoint bads (f : N -> N -> bool) (enc : N -> N) (v : N) (obs : list int) (cnt : N) (acc : list N) : N * list N :=
  match obs with
  | b :: obs' =>
      if f (enc v) (n_of b) then bads f enc (v + 1) obs' cnt acc
      else bads f enc (v + 1) obs' (cnt + 1) (if cnt <? 10 then v :: acc else acc)
  | [] => (cnt, rev acc)
  end.
"""

PRELUDE_MODEL = r"""
(* accessor masks looked up once (accmask tbl names f = accmask_m (map (accessor_mask tbl) names) f by definition) *)
Definition M_rt := Eval vm_compute in map (accessor_mask rpt_accessors) rt_names.
Definition M_usar := Eval vm_compute in map (accessor_mask usar_accessors) usar_names.
Definition M_aa := Eval vm_compute in map (accessor_mask act_accessors) aa_names.
Definition pk_dec (M : list (option N)) (r : ures) : N :=
  match r with UOk f => N.shiftl (f + N.shiftl (accmask_m M f) 32) 2 | UErr => 1 | UPanic => 2 end.
Definition pk_enc (o : option (list N)) (am : N) : N :=
  match o with Some p => N.shiftl (N.of_nat (List.length p)) 2 + N.shiftl (le_val p) 5 + N.shiftl am 37 | None => 2 end.
Definition agr_rt (inp obs : N) : bool := pk_dec M_rt (rt_unmarshal_res (octs inp)) =? obs.
Definition agr_aa (inp obs : N) : bool := pk_dec M_aa (aa_unmarshal_res (octs inp)) =? obs.
Definition agr_rtie (f obs : N) : bool := pk_enc (rt_ie f) (accmask_m M_rt f) =? obs.
Definition agr_usar (f obs : N) : bool := pk_enc (usar_ie f) (accmask_m M_usar f) =? obs.
Definition agr_srt (f0 r obs : N) : bool := N.shiftl (set_reporting_trigger f0 r) 2 =? obs.
Definition agr_sf (f0 m obs : N) : bool :=
  let f1 := set_flags f0 (negb (m =? 0)) in N.shiftl f1 2 + N.shiftl f1 10 =? N.land obs 262143.
"""


def ints(xs):
    return "[" + ";".join(map(str, xs)) + "]%uint63"


def names_defs(names, consts):
    s = ""
    for k in ("rt", "usar", "aa"):
        s += "Definition %s_names : list string := %s.\n" % (k, clist([cstr(n) for n in names[k]]))
    for k in ("rt", "usar", "aa", "vol"):
        s += "Definition %s_iconsts : list (string * N) := %s.\n" % (
            k, clist(["(%s, %d)" % (cstr(n), v) for n, v in sorted(consts[k].items())]))
    return s


def sweep_enc(sw):
    return "(fun v => %d + 8 * v)" % sw["nbytes"] if sw["kind"] in ("aa", "rt") else "(fun v => v)"


def coq_body(names, consts, cases, impl, sweeps, sweep_obs, with_model):
    """Returns (body, keys): results is a list of (count, first bad) in the order of keys."""
    body = names_defs(names, consts) + PRELUDE_SPEC + (PRELUDE_MODEL if with_model else "")
    exprs, keys = [], []
    for k in KINDS:
        if not cases.get(k):
            continue
        if k in ("srt", "sf"):
            body += "Definition %s_x : list int := %s.\n" % (k, ints(x[0] for x in cases[k]))
            body += "Definition %s_y : list int := %s.\n" % (k, ints(x[1] for x in cases[k]))
        else:
            body += "Definition %s_in : list int := %s.\n" % (k, ints(cases[k]))
        body += "Definition %s_obs : list int := %s.\n" % (k, ints(impl[k]))
        for what in (("mon", "agr") if with_model else ("mon",)):
            if k in ("srt", "sf"):
                exprs.append("bad3 %s_%s %s_x %s_y %s_obs 0 0 []" % (what, k, k, k, k))
            else:
                exprs.append("bad2 %s_%s %s_in %s_obs 0 0 []" % (what, k, k, k))
            keys.append((what, k, None))
    for j, (sw, obs) in enumerate(zip(sweeps, sweep_obs)):
        body += "Definition sw%d_obs : list int := %s.\n" % (j, ints(obs))
        for what in (("mon", "agr") if with_model else ("mon",)):
            exprs.append("bads %s_%s %s %d sw%d_obs 0 []" % (what, sw["kind"], sweep_enc(sw), sw["start"], j))
            keys.append((what, sw["kind"], j))
    body += "Definition results : list (N * list N) := Eval vm_compute in\n  [" + ";\n   ".join(exprs) + "].\n"
    body += ("Definition static : list bool := Eval vm_compute in [names_mon rt_spec rt_names; names_mon usar_spec usar_names; "
             "names_mon aa_spec aa_names; consts_mon rt_spec rt_iconsts; consts_mon usar_spec usar_iconsts; "
             "consts_mon aa_spec aa_iconsts; consts_mon vol_spec vol_iconsts].\n")
    return body, keys


STATIC_KEYS = ["accessor names of *ReportingTrigger = names of TS 29.244 8.2.19", "accessor names of *UsageReportTrigger = names of 8.2.41",
               "accessor names of *ApplyAction = names of 8.2.26", "RPT_TRIG_* constants = 2^(8*octet+bit) of 8.2.19",
               "USAR_TRIG_* constants = 2^(8*octet+bit) of 8.2.41", "APPLY_ACT_* constants = 2^(8*octet+bit) of 8.2.26",
               "TOVOL..DLNOP constants = 2^bit of 8.2.40"]


def parse_results(term):
    return [(int(m.group(1)), [int(x) for x in re.findall(r"\d+", m.group(2))])
            for m in re.finditer(r"\(\s*(\d+)\s*,\s*\[([\d;\s]*)\]\s*\)", term)]


def evaluate(ctx, name, names, consts, cases, impl, sweeps, sweep_obs):
    """Runs the comparison inside Coq.  Returns dict(model_ok, results=[(what, kind, sweep idx, count, first)], static=[bool], log)."""
    for with_model in (True, False):
        body, keys = coq_body(names, consts, cases, impl, sweeps, sweep_obs, with_model)
        res, log = common.run_coq_cases(ctx, name + ("" if with_model else "_mon"), body,
                                        REQ_MODEL if with_model else REQ_SPEC, ["results", "static"], timeout=1500)
        if res is not None and "results" in res:
            parsed = parse_results(res["results"])
            if len(parsed) != len(keys):
                return dict(model_ok=with_model, results=None, static=None, log="cannot parse Coq output: " + log[-1500:])
            static = [x == "true" for x in re.findall(r"true|false", res.get("static", ""))]
            return dict(model_ok=with_model, log=log if not with_model else "",
                        results=[(w, k, j, cnt, first) for (w, k, j), (cnt, first) in zip(keys, parsed)], static=static,
                        model_log=first_log if not with_model else "")
        first_log = log
    return dict(model_ok=False, results=None, static=None, log=log[-3000:])


def input_of(sw, v):
    """explicit (replayable) case for sweep value v"""
    if sw["kind"] in ("aa", "rt"):
        return sw["nbytes"] | (v << 3)
    return v


def run_shard(ctx, harness, names, consts, sw, idx):
    out, log = common.run_harness(ctx, harness, "flags", {"sweeps": [sw]}, tag="-s%d" % idx)
    if out is None:
        return dict(sw=sw, error="harness: " + log[-500:])
    obs = out["sweeps"][0]
    ev = evaluate(ctx, "cases_c19_s%d" % idx, names, consts, {}, {}, [sw], [obs])
    for f in os.listdir(ctx.workdir):                       # shard files are large; drop them as soon as they are evaluated
        if f.startswith("cases_c19_s%d." % idx) or f.startswith(".cases_c19_s%d." % idx) or f.startswith("cases_c19_s%d_mon." % idx) \
                or f in ("in-flags-s%d.json" % idx, "out-flags-s%d.json" % idx):
            try:
                os.remove(os.path.join(ctx.workdir, f))
            except OSError:
                pass
    ev["sw"] = sw
    ev["obs_of"] = {}
    if ev["results"]:
        for (w, k, j, cnt, first) in ev["results"]:
            for v in first:
                ev["obs_of"][v] = obs[v - sw["start"]]
    return ev


# ---------------------------------------------------------------- the check

def run(ctx, replay=None):
    info = common.prepare(ctx)
    obl = info["obl"]
    broken = []
    if not info["gen_ok"]:
        broken.append("T-gen translator no longer recognises report.go: " + info["gen_log"][-500:])
    if not obl["compiled"]:
        broken.append("props/C19.v (theorems %s) no longer compiles against the regenerated tables" % ", ".join(obl["theorems"]))
    if info["forbidden"]:
        broken.append("forbidden constructs: %s" % info["forbidden"])
    coverage = {"obligations": len(obl["theorems"]), "discharged": len(obl["theorems"]) if obl["compiled"] else 0,
                "checker_cmd": "make -f Makefile.coq (coqc 8.16.1, full .vo build) + coqc props/C19.v (Print Assumptions)",
                "trusted_base": common.TRUSTED_BASE, "axioms": obl["axioms"], "theorems": obl["theorems"],
                "evaluations": 0, "distinct_nontrivial": 0, "exhaustive": False}
    if info["tie_broken"]:
        ctx.violation({"property": "C19", "broken": "correspondence harness no longer builds against the tree (an exported constant, "
                       "type or method of internal/report that it uses has gone)", "log": info["tie_broken"]}, no_input=True)
        return ctx.finish(coverage, [])
    cases, sweeps, big = gen_cases(ctx)
    if replay:
        rp = json.load(open(replay))
        cases = {k: rp.get("cases", {}).get(k, []) for k in KINDS}
        sweeps, big = [], []
    inp = dict(cases, sweeps=sweeps)
    impl, log = common.run_harness(ctx, info["harness"], "flags", inp)
    if impl is None:
        ctx.violation({"property": "C19", "broken": "harness run failed", "log": log[-2000:]}, no_input=True)
        return ctx.finish(coverage, [])
    names, consts = impl["names"], impl["consts"]
    ev = evaluate(ctx, "cases_c19", names, consts, cases, impl, sweeps, impl["sweeps"] or [])
    evs = [(ev, sweeps, impl["sweeps"] or [])]
    if big:
        with ThreadPoolExecutor(max_workers=WORKERS) as ex:
            futs = [ex.submit(run_shard, ctx, info["harness"], names, consts, sw, i) for i, sw in enumerate(big)]
            for f in futs:
                evs.append((f.result(), None, None))
    # ---- collect
    monf, mism = [], []            # (kind, explicit case, obs)
    nmon = nmis = 0
    model_broken = None
    for e, sws, sobs in evs:
        if e.get("error") or e["results"] is None:
            broken.append("cases file could not be evaluated: " + (e.get("error") or e["log"])[-800:])
            continue
        if not e["model_ok"] and model_broken is None:
            model_broken = e.get("model_log", "")[-800:]
        for (w, k, j, cnt, first) in e["results"]:
            for x in first:
                if j is None:
                    item = (k, cases[k][x], impl[k][x])
                elif sws is not None:
                    item = (k, input_of(sws[j], x), sobs[j][x - sws[j]["start"]])
                else:
                    item = (k, input_of(e["sw"], x), e["obs_of"][x])
                (monf if w == "mon" else mism).append(item)
            if w == "mon":
                nmon += cnt
            else:
                nmis += cnt
    if model_broken is not None:
        broken.append("model/Flags.v no longer compiles/evaluates against the regenerated tables (monitors evaluated alone): " + model_broken)
    static = ev["static"] or []
    static_bad = [STATIC_KEYS[i] for i, ok in enumerate(static) if not ok]
    # ---- coverage
    nsweep = sum(s["count"] for s in sweeps) + sum(s["count"] for s in big)
    coverage["evaluations"] = sum(len(cases[k]) for k in KINDS) + nsweep
    distinct = set()
    for k in KINDS:
        for x in cases[k]:
            key = tuple(x) if isinstance(x, list) else x
            if (key[1] if k == "srt" else (key[0] if k == "sf" else (key >> 3 if k in ("aa", "rt") else key))):
                distinct.add((k, key))
    coverage["distinct_nontrivial"] = len(distinct) + sum(s["count"] - (1 if s["start"] == 0 else 0) for s in sweeps + big)
    coverage["rule"] = (
        "case = (function, input): Unmarshal of an octet string (aa, rt), IE() of a Flags word (rtie, usar), SetReportingTrigger"
        "(f0, r), SetFlags(f0, mnop); every run: ALL 2^16 two-octet and 2^8 one-octet apply-action inputs, all 256x2 SetFlags cases, "
        "empty/too-short/over-long inputs, reporting-trigger values with <=3 of 24 (16) bits in 3 (2) octets + random values, all single "
        "bits and pairs of the 22 usage-report bits + random sets, causes 0 / every 2^k (k<32) / pairs / random from 4 initial flag "
        "words; thorough adds ALL 2^24 three-octet and 2^16 two-octet reporting-trigger inputs, ALL 2^24 ReportingTrigger.IE and ALL "
        "2^22 UsageReportTrigger.IE flag words, in shards of 2^18 evaluated by parallel coqc runs; non-trivial = input with at least "
        "one bit set (cause != 0 for srt); distinct by (function, input); sweep values are distinct by construction")
    coverage["exhaustive"] = True
    coverage["exhaustive_note"] = ("apply-action octets (both forms) and SetFlags enumerated completely in every tier; reporting-trigger "
                                   "octets, IE() of all 24-bit flag words and all 2^22 usage-report flag sets completely in the thorough "
                                   "tier only" + ("" if ctx.tier == "thorough" else " (this run: quick, sampled as described)"))
    coverage["samples"] = [describe(k, cases[k][i], impl[k][i], names) for k in KINDS for i in (0, len(cases[k]) // 2) if cases[k]][:8]
    coverage["input_distribution"] = dict({k: len(cases[k]) for k in KINDS}, sweeps=len(sweeps) + len(big), sweep_values=nsweep)
    coverage["model_impl_mismatches"] = nmis
    coverage["monitor_failures"] = nmon + len(static_bad)
    # ---- verdict
    for sb in static_bad[:2]:
        ctx.violation({"property": "C19", "what": "implementation's exported tables differ from TS 29.244: " + sb,
                       "impl_constants": consts, "impl_accessor_names": names})
    seen = set()
    for (k, case, obs) in monf:
        if k in seen or len(seen) >= 3:
            continue
        seen.add(k)
        ctx.violation({"property": "C19",
                       "what": "specification monitor (TS 29.244 table applied to what the real code returned) is false",
                       "monitor": {"aa": "decode_mon aa_spec", "rt": "decode_mon rt_spec", "rtie": "encode_mon rt_spec",
                                   "usar": "encode_mon usar_spec", "srt": "srt_mon", "sf": "sf_mon/vol_ie_mon"}[k],
                       "case": describe(k, case, obs, names), "cases": {k: [case]}, "total_monitor_failures": nmon,
                       "replay_cmd": "python3 check.py C19 --replay <this file>"})
    if not monf and not static_bad and (mism or broken):
        ctx.violation({"property": "C19", "broken_obligations": broken,
                       "correspondence": "model result <> implementation result" if mism else None,
                       "cases": {k: [c for (k2, c, _) in mism[:6] if k2 == k] for k in KINDS},
                       "first_mismatches": [describe(k, c, o, names) for (k, c, o) in mism[:3]],
                       "make_log": info.get("make_log", "")[-1500:]}, no_input=True)
    return ctx.finish(coverage, [
        "go-pfcp's ie.NewReportingTriggers/NewUsageReportTrigger/NewVolumeMeasurement are taken to put the given octets first in Payload",
        "quick tier samples the 2^24 reporting-trigger space; the thorough tier enumerates it",
        "inputs longer than 3 (2) octets are outside the property's quantifier; the code accepts them and keeps a 4th octet in Flags bits 24-31"])
