"""C15 - periodic reporting queries exactly the URRs currently registered."""
import json
import random

from lib import common
from lib.common import clist

MANIFEST = dict(
    text="Kernel-checked refinement: the model of perio.Server.Serve (ADD/DEL/TIMEOUT/CLOSE, one ticker per period) refines the "
         "spec 'set of (period, seid, urr)' on ALL histories in which a URR is registered at most once at a time: a tick of period p "
         "issues one query listing exactly the pairs registered with p (none removed, none missing, none twice), a stale tick does "
         "nothing, every returned report is notified once with PERIO set under the SEID it was returned for; on ALL histories the "
         "live tickers are the keys of the group table, no group or entry is empty, and Close releases everything. queryMultiURR's "
         "chunking (model `batches`) partitions the query in order into requests of 1..n ids, all but the last full, for every n>0. "
         "The flag OR-ed into the reports and the shape of the chunking loop are regenerated from the source on every run (T-gen); "
         "a real perio.Server (real ticker goroutines with 1000 h periods, ticks injected through its event channel) is run against "
         "the model on generated histories, and the real Gtp5g.queryMultiURR is run over the simulated netlink endpoint on a sweep of "
         "registration counts around the batch limit (T-corr); the theorem statements are applied as boolean monitors to what the "
         "implementation did.",
    note="Modelled, not verified: the Go scheduler / channel semantics behind the event loop (one event at a time, in order), "
         "time.Ticker itself (ticks are injected), goroutine exit after the stop handshake (observed by counting goroutines). "
         "Concurrency of ticker goroutines with a full event channel is C17/C18's subject. The DEL scan order over periods is "
         "Go's map order; it matters only when one (seid,urr) is registered under two periods, which the property excludes.",
    technique="Coq proof (invariant + refinement by induction over event lists) + generated tables + differential run vs vm_compute model",
    design="4/C15")

REQUIRES = ["PerioGen", "PerioSpec", "Perio"]
CLOSED_PANIC = "panic:send on closed channel"


# ---------------------------------------------------------------- generation

class Gen:
    """One history.  Tracks registrations so that answers and stale ticks can be aimed."""

    def __init__(self, rnd, nper, nsess, nurr, wf=True):
        self.rnd = rnd
        self.periods = rnd.sample(range(1, 9), nper)
        self.seids = rnd.sample(range(1, 12), nsess) if rnd.random() < 0.8 else \
            rnd.sample([1, 2, 2**32, 2**63, 2**64 - 1, 2**64 - 2, 77, 5], nsess)
        self.urrs = list(range(1, nurr + 1)) if rnd.random() < 0.7 else rnd.sample([1, 2, 3, 2**31, 2**32 - 1, 9, 100], nurr)
        self.reg = {}          # (seid, urr) -> set of periods
        self.wf = wf
        self.closed = False
        self.tag = 0
        self.evs = []

    def live_periods(self):
        return sorted({p for ps in self.reg.values() for p in ps})

    def pairs_of(self, p):
        return sorted(k for k, ps in self.reg.items() if p in ps)

    def add(self, seid=None, urr=None, period=None):
        rnd = self.rnd
        seid = rnd.choice(self.seids) if seid is None else seid
        urr = rnd.choice(self.urrs) if urr is None else urr
        cur = self.reg.get((seid, urr), set())
        if period is None:
            if cur and (self.wf or rnd.random() < 0.6):
                period = sorted(cur)[0]                       # idempotent re-add
            else:
                period = rnd.choice(self.periods)
        if cur and self.wf and period not in cur:
            period = sorted(cur)[0]
        self.evs.append({"op": "add", "seid": seid, "urr": urr, "period": period})
        if not self.closed:
            self.reg.setdefault((seid, urr), set()).add(period)

    def delete(self, seid=None, urr=None):
        rnd = self.rnd
        if seid is None:
            if self.reg and rnd.random() < 0.85:
                seid, urr = rnd.choice(sorted(self.reg))
            else:
                seid, urr = rnd.choice(self.seids), rnd.choice(self.urrs)
        if len(self.reg.get((seid, urr), ())) > 1:
            return                                            # outcome depends on Go's map order: not generated
        self.evs.append({"op": "del", "seid": seid, "urr": urr})
        if not self.closed:
            self.reg.pop((seid, urr), None)

    def end_session(self):
        seids = sorted({s for s, _ in self.reg})
        if not seids:
            return
        s = self.rnd.choice(seids)
        for (x, u) in sorted(self.reg):
            if x == s:
                self.delete(x, u)

    def rep(self, urr):
        self.tag += 1
        rnd = self.rnd
        flags = rnd.choice([0, 0, 2, 4, 1, 3, 0x80, 0x100, 0x200000, 0xffffffff, 0xfffffffe, rnd.randrange(2**22)])
        return {"urr": urr, "flags": flags, "tag": self.tag}

    def tick(self, period=None):
        rnd = self.rnd
        if period is None:
            live = self.live_periods()
            if live and rnd.random() < 0.8:
                period = rnd.choice(live)
            else:
                period = rnd.choice(self.periods + [9, 10])
        ev = {"op": "tick", "period": period, "err": False, "ans": []}
        pairs = self.pairs_of(period)
        k = rnd.random()
        if k < 0.08:
            ev["err"] = True
        elif k < 0.16:
            pass                                              # empty map
        else:
            by = {}
            for (x, u) in pairs:
                if k < 0.3 and rnd.random() < 0.4:
                    continue                                  # data plane returns fewer
                by.setdefault(x, []).append(self.rep(u))
                if rnd.random() < 0.1:
                    by[x].append(self.rep(u))                 # two reports for one URR
            if rnd.random() < 0.15:                           # or something unrelated / an empty list
                by.setdefault(rnd.choice(self.seids + [99]), []).extend([self.rep(rnd.choice(self.urrs))] * rnd.randrange(2))
            items = list(by.items())
            rnd.shuffle(items)
            ev["ans"] = [{"seid": x, "reports": rs} for x, rs in items]
        self.evs.append(ev)

    def close(self):
        self.evs.append({"op": "close"})
        self.closed = True
        self.reg = {}


def gen_history(rnd, kind):
    nper, nsess, nurr = rnd.randint(1, 4), rnd.randint(1, 6), rnd.randint(1, 5)
    n = rnd.randint(20, 60)
    g = Gen(rnd, nper, nsess, nurr, wf=(kind != "nonwf"))
    mid_close = rnd.random() < 0.15
    close_at = rnd.randrange(n // 3, n) if mid_close else None
    while len(g.evs) < n:
        if close_at is not None and len(g.evs) >= close_at:
            g.close()
            close_at = None
            continue
        k = rnd.random()
        before = len(g.evs)
        if k < 0.40:
            g.add()
        elif k < 0.62:
            g.delete()
        elif k < 0.68:
            g.end_session()
        elif k < 0.97:
            g.tick()
        elif k < 0.975:
            g.close()
        else:
            g.add()
        if kind == "tick-everywhere" and len(g.evs) > before and g.evs[-1]["op"] != "tick":
            # a tick at every point: one for every period in use and one stale
            for p in g.periods[:2]:
                g.tick(p)
    if rnd.random() < 0.5 and not g.closed:
        # stale ticks queued behind the removal of a period's last URR, then Close
        live = g.live_periods()
        if live:
            p = rnd.choice(live)
            for (x, u) in g.pairs_of(p):
                g.delete(x, u)
            g.tick(p)
            g.tick(p)
        g.close()
        if rnd.random() < 0.3:
            g.tick()
            g.add()
    return g.evs


def gen_big(rnd, limit):
    """registration counts crossing the per-message batch limit under one period"""
    g = Gen(rnd, 2, 3, 1)
    g.seids = [1, 2, 3]
    g.urrs = list(range(1, 31))
    p = g.periods[0]
    order = [(s, u) for s in g.seids for u in g.urrs]
    rnd.shuffle(order)
    marks = {limit - 1, limit, limit + 1, len(order)}
    for i, (s, u) in enumerate(order, 1):
        g.add(s, u, p)
        if i in marks:
            g.tick(p)
    for (s, u) in order[:len(order) - limit + 1]:
        g.delete(s, u)
    g.tick(p)
    g.close()
    return g.evs


def gen_cases(ctx):
    rnd = random.Random(ctx.seed)
    nh = 300 if ctx.tier == "quick" else 3000
    hs = []
    # fixed corner histories
    hs.append([{"op": "tick", "period": 1, "err": False, "ans": []}, {"op": "close"}])
    hs.append([{"op": "close"}, {"op": "close"}, {"op": "add", "seid": 1, "urr": 1, "period": 1}])
    hs.append([{"op": "add", "seid": 1, "urr": 1, "period": 1}, {"op": "add", "seid": 1, "urr": 1, "period": 1},
               {"op": "del", "seid": 1, "urr": 1}, {"op": "tick", "period": 1, "err": False, "ans": []},
               {"op": "del", "seid": 1, "urr": 1}, {"op": "add", "seid": 1, "urr": 1, "period": 2},
               {"op": "tick", "period": 2, "err": False, "ans": [{"seid": 1, "reports": [{"urr": 1, "flags": 0, "tag": 1}]}]}])
    for i in range(nh):
        r = rnd.random()
        kind = "tick-everywhere" if r < 0.2 else ("nonwf" if r < 0.3 else "random")
        hs.append(gen_history(rnd, kind))
    for _ in range(1 if ctx.tier == "quick" else 6):
        hs.append(gen_big(rnd, 56))
    return hs


def sweep_sizes(ctx, limit):
    n = limit
    base = [0, 1, 2, n - 1, n, n + 1, 2 * n - 1, 2 * n, 2 * n + 1, 3 * n + 2]
    if ctx.tier != "quick":
        base += list(range(3, 3 * n + 8, 7)) + [10 * n + 3]
    return sorted(set(x for x in base if x >= 0))


# ---------------------------------------------------------------- Coq terms

def c_ans(ev):
    if ev.get("err"):
        return "None"
    items = []
    for a in ev.get("ans") or []:
        items.append("(%d, %s)" % (a["seid"], clist(["R %d %d %d" % (r["urr"], r["flags"], r["tag"]) for r in a["reports"]])))
    return "(Some %s)" % clist(items)


def c_event(ev):
    op = ev["op"]
    if op == "add":
        return "Add %d %d %d" % (ev["seid"], ev["urr"], ev["period"])
    if op == "del":
        return "Del %d %d" % (ev["seid"], ev["urr"])
    if op == "tick":
        return "Tick %d %s" % (ev["period"], c_ans(ev))
    return "Close"


def c_keyed(l):
    return clist(["(%d, %s)" % (k, clist([str(x) for x in v])) for k, v in l])


def c_obs(o):
    q = clist([c_keyed(x) for x in o["q"]])
    n = clist(["(%d, %s)" % (x, clist(["R %d %d %d" % tuple(r) for r in rs])) for x, rs in o["n"]])
    g = clist(["(%d, %s)" % (p, c_keyed(es)) for p, es in o["g"]])
    return "O %s %s %s %d %s" % (q, n, g, o["t"], "true" if o["f"] else "false")


PRELUDE = r"""
Definition R u f t := {| r_urr := u; r_flags := f; r_tag := t |}.
Definition O q n g t f := {| o_queries := q; o_notifies := n; o_groups := g; o_tickers := t; o_fault := f |}.
Fixpoint insN (a : N) (l : list N) : list N :=
  match l with [] => [a] | h :: t => if a <=? h then a :: l else h :: insN a t end.
Definition sortN (l : list N) : list N := fold_right insN [] l.
Definition canon_q (q : list (N * list N)) := sort_key (map (fun e => (fst e, sortN (snd e))) q).
Definition canon (o : obs) : obs :=
  {| o_queries := map canon_q (o_queries o); o_notifies := sort_key (o_notifies o);
     o_groups := sort_key (map (fun pg => (fst pg, canon_q (snd pg))) (o_groups o));
     o_tickers := o_tickers o; o_fault := o_fault o |}.
Definition keyed_eqb (a b : N * list N) := (fst a =? fst b) && list_eqb N.eqb (snd a) (snd b).
Definition obs_eqb (a b : obs) : bool :=
  list_eqb (list_eqb keyed_eqb) (o_queries a) (o_queries b)
  && list_eqb (fun x y => (fst x =? fst y) && list_eqb report_eqb (snd x) (snd y)) (o_notifies a) (o_notifies b)
  && list_eqb (fun x y => (fst x =? fst y) && list_eqb keyed_eqb (snd x) (snd y)) (o_groups a) (o_groups b)
  && (o_tickers a =? o_tickers b) && Bool.eqb (o_fault a) (o_fault b).
(* index of the first event on which model and implementation differ *)
Fixpoint first_diff (ms os : list obs) (i : N) : option N :=
  match ms, os with
  | [], [] => None
  | m :: mr, o :: or => if obs_eqb (canon m) (canon o) then first_diff mr or (i + 1) else Some i
  | _, _ => Some i
  end.
Definition agree (c : list event * list obs) : option N :=
  first_diff (map obs_of (trace (fst c))) (snd c) 0.
Definition mon (c : list event * list obs) : option N :=
  if wf_histb (fst c) then mon_first_bad spec_init (fst c) (snd c) 0 else None.
Fixpoint bad_idx {A} (f : A -> option N) (l : list A) (i : N) : list (N * N) :=
  match l with [] => [] | x :: r => (match f x with Some k => [(i, k)] | None => [] end) ++ bad_idx f r (i + 1) end.
(* batching sweep: (limit, query map, requests as issued, result map) *)
Definition sw_agree (c : nat * list (N * list N) * list (list (N * N)) * list (N * list N)) : option N :=
  match c with (n, q, reqs, res) =>
    if list_eqb (list_eqb pair_eqb) (batches n (List.concat reqs)) reqs then None else Some 0 end.
Definition sw_mon (c : nat * list (N * list N) * list (list (N * N)) * list (N * list N)) : option N :=
  match c with (n, q, reqs, res) =>
    if mon_batches pair_eqb n (List.concat reqs) reqs
       && same_setb pair_eqb (List.concat reqs) (flat_pairs q) && inclb pair_eqb (flat_pairs q) (List.concat reqs)
       && same_setb pair_eqb (flat_pairs res) (flat_pairs q)
    then None else Some 0 end.
"""


def evaluate(ctx, hs, impl, sweep, limit, name):
    items = []
    for evs, obs in zip(hs, impl):
        items.append("(%s,\n  %s)" % (clist([c_event(e) for e in evs]), clist([c_obs(o) for o in obs])))
    body = PRELUDE + "Definition cases : list (list event * list obs) := \n" + clist(items) + ".\n"
    body += "Definition mism := Eval vm_compute in bad_idx agree cases 0.\n"
    body += "Definition monf := Eval vm_compute in bad_idx mon cases 0.\n"
    body += "Definition nwf := Eval vm_compute in N.of_nat (List.length (filter (fun c => wf_histb (fst c)) cases)).\n"
    sw = []
    for s in sweep:
        reqs = clist([clist(["(%d, %d)" % (a, b) for a, b in r]) for r in s["requests"]])
        sw.append("(%d%%nat, %s, %s, %s)" % (limit, c_keyed(s["query"]), reqs, c_keyed(s["result"])))
    body += "Definition sweep : list (nat * list (N * list N) * list (list (N * N)) * list (N * list N)) := \n" + clist(sw) + ".\n"
    body += "Definition swmism := Eval vm_compute in bad_idx sw_agree sweep 0.\n"
    body += "Definition swmonf := Eval vm_compute in bad_idx sw_mon sweep 0.\n"
    res, log = common.run_coq_cases(ctx, name, body, REQUIRES, ["mism", "monf", "nwf", "swmism", "swmonf"])
    if res is None:
        return None, log

    def pairs(t):
        xs = common.parse_N_list(t)
        return list(zip(xs[0::2], xs[1::2]))
    return {"mism": pairs(res["mism"]), "monf": pairs(res["monf"]), "nwf": common.parse_N_list(res["nwf"])[0],
            "swmism": pairs(res["swmism"]), "swmonf": pairs(res["swmonf"])}, log


# ---------------------------------------------------------------- run

def run_impl(ctx, info, hs, tag=""):
    out, log = common.run_harness(ctx, info["harness"], "perio", {"histories": hs}, tag=tag)
    return out, log


def run_sweep(ctx, info, sizes):
    """the REAL Gtp5g.queryMultiURR over the simulated netlink endpoint (mode gtp5g_multiurr of the SimKernel overlay)"""
    rnd = random.Random(ctx.seed * 7919 + 1)
    cases, metas = [], []
    for total in sizes:
        nse = rnd.randint(1, 4) if total > 0 else rnd.randint(0, 1)
        seids = rnd.sample([1, 2, 3, 5, 2**32 + 1, 2**63 + 5], nse) if nse else []
        regs = {str(x): [] for x in seids}
        for i in range(total):
            x = seids[rnd.randrange(len(seids))] if i >= len(seids) else seids[i]
            regs[str(x)].append(len(regs[str(x)]) + 1)
        regs = {k: v for k, v in regs.items() if v} if rnd.random() < 0.8 else regs
        reports = [{"urrid": u, "seid": int(x), "trigger": 0, "seqn": 0, "vol_mask": 1, "tot_vol": (int(x) % 1000) * 1000 + u}
                   for x, us in regs.items() for u in us]
        cases.append({"regs": regs, "ps": True, "reports": reports})
        metas.append(total)
    out, log = common.run_harness(ctx, info["harness"], "gtp5g_multiurr", cases, tag="-sweep")
    if out is None:
        return None, log
    res = []
    for total, c, o in zip(metas, cases, out):
        q = sorted((int(x), sorted(us)) for x, us in c["regs"].items())
        r = {"total": total, "query": [[x, us] for x, us in q], "err": o["err"],
             "requests": [[[d["seid"], d["id"]] for d in req] for req in o["oids"]],
             "conns": o["conns"], "urr_num": o["urr_num"],
             "result": sorted([int(x), sorted(rep["urrid"] for rep in reps)] for x, reps in o["result"].items()),
             "result_payload_ok": all(rep["tot_vol"] == (int(x) % 1000) * 1000 + rep["urrid"] for x, reps in o["result"].items() for rep in reps)}
        if not r["err"]:
            if any(c != "ps" for c in r["conns"]):
                r["err"] = "request not on the periodic server's own netlink client: %s" % r["conns"]
            elif r["urr_num"] != [len(x) for x in r["requests"]]:
                r["err"] = "URR_NUM attribute %s differs from the number of ids in the request" % r["urr_num"]
            elif not r["result_payload_ok"]:
                r["err"] = "a report came back under the wrong SEID/URR"
        res.append(r)
    return res, log


def shrink(ctx, info, evs, limit, rounds=12):
    """greedy delta-debugging of one failing history: drop single events while the monitor still rejects
    (both sides are re-run on every candidate batch)"""
    cur = evs
    for rnd_i in range(rounds):
        n, size, cands = len(cur), len(cur) // 2, []
        while size >= 1:                      # ddmin: drop chunks of n/2, n/4, ... 1 events
            for start in range(0, n, size):
                c = cur[:start] + cur[start + size:]
                if c and c not in cands:
                    cands.append(c)
            size //= 2
        if not cands:
            break
        impl, _ = run_impl(ctx, info, cands, tag="-shrink%d" % rnd_i)
        if impl is None:
            break
        res, _ = evaluate(ctx, cands, impl["histories"], [], limit, "shrink_c15_%d" % rnd_i)
        if res is None or not res["monf"]:
            break
        hi, ei = min(res["monf"], key=lambda x: x[1])
        cur = cands[hi][:ei + 1]
    return cur


def state_changing(evs):
    return any(e["op"] in ("add", "del", "close") for e in evs)


def run(ctx, replay=None):
    info = common.prepare(ctx)
    obl = info["obl"]
    broken = []
    if not info["gen_ok"]:
        broken.append("T-gen translator no longer recognises the source: " + info["gen_log"][-500:])
    if not obl["compiled"]:
        broken.append("props/C15.v (theorems %s) no longer compiles: %s" % (", ".join(obl["theorems"]), obl["log"][-600:]))
    if info["forbidden"]:
        broken.append("forbidden constructs: %s" % info["forbidden"])
    hs = gen_cases(ctx)
    if replay:
        rp = json.load(open(replay))
        hs = rp.get("cases") or hs
    coverage = {"obligations": len(obl["theorems"]), "discharged": len(obl["theorems"]) if obl["compiled"] else 0,
                "checker_cmd": "make -f Makefile.coq (coqc 8.16.1, full .vo build) + coqc props/C15.v (Print Assumptions)",
                "trusted_base": common.TRUSTED_BASE, "axioms": obl["axioms"], "theorems": obl["theorems"],
                "evaluations": 0, "distinct_nontrivial": 0, "exhaustive": False}
    if info["tie_broken"]:
        ctx.violation({"property": "C15", "broken": "correspondence harness no longer builds against the tree", "log": info["tie_broken"]},
                      no_input=True)
        return ctx.finish(coverage, [])
    impl, log = run_impl(ctx, info, hs)
    if impl is None:
        ctx.violation({"property": "C15", "broken": "harness run failed", "log": log[-2000:]}, no_input=True)
        return ctx.finish(coverage, [])
    limit = impl["limit"]
    sizes = sweep_sizes(ctx, limit)
    sweep, slog = run_sweep(ctx, info, sizes)
    sweep_note = ""
    if sweep is None:
        sweep_note = "mode gtp5g_multiurr (SimKernel overlay) not available: " + slog[-300:]
        sweep = []
    obs = impl["histories"]
    # harness-level anomalies are observations too
    anomalies = []
    for hi, (evs, os_) in enumerate(zip(hs, obs)):
        for ei, o in enumerate(os_):
            if o["t"] < 0:
                anomalies.append((hi, ei, "negative live-ticker count %d" % o["t"]))
                o["t"] = 0
            if o["f"] not in ("", CLOSED_PANIC):
                anomalies.append((hi, ei, o["f"]))
            elif o["h"] != len(o["g"]):
                anomalies.append((hi, ei, "a group without ticker (PERIOGroup.ticker nil) in the table"))
    sw_err = [s for s in sweep if s.get("err")]
    res, clog = evaluate(ctx, hs, obs, [s for s in sweep if not s.get("err")], limit, "cases_c15")
    if res is None:
        broken.append("model/Perio.v, monitor/PerioSpec.v or the cases file no longer compiles: " + clog[-800:])
        res = {"mism": [], "monf": [], "nwf": 0, "swmism": [], "swmonf": []}
    nev = sum(len(h) for h in hs)
    coverage["evaluations"] = nev + len(sweep)
    coverage["histories"] = len(hs)
    coverage["well_formed_histories"] = res["nwf"]
    coverage["distinct_nontrivial"] = len({json.dumps(h, sort_keys=True) for h in hs if state_changing(h)})
    ops = {}
    for h in hs:
        for e in h:
            ops[e["op"]] = ops.get(e["op"], 0) + 1
    coverage["input_distribution"] = {
        "ops": ops, "history_len_min_max": [min(len(h) for h in hs), max(len(h) for h in hs)],
        "ticks_with_error": sum(1 for h in hs for e in h if e["op"] == "tick" and e.get("err")),
        "ticks_answered": sum(1 for h in hs for e in h if e["op"] == "tick" and e.get("ans")),
        "queries_issued": sum(len(o["q"]) for os_ in obs for o in os_),
        "notifications": sum(len(o["n"]) for os_ in obs for o in os_),
        "faults_after_close": sum(1 for os_ in obs for o in os_ if o["f"] == CLOSED_PANIC),
        "max_registrations_in_one_query": max([sum(len(us) for _, us in q) for os_ in obs for o in os_ for q in o["q"]] or [0]),
        "max_live_tickers": max([o["t"] for os_ in obs for o in os_] or [0]),
    }
    coverage["rule"] = ("history = list of Add/Del/Tick/Close over 1-4 periods, 1-6 sessions, 1-5 URR ids (20-60 events; 20%% with ticks "
                        "after every event, 10%% registering a pair under two periods = outside the quantifier, model correspondence only; "
                        "15%% with Close in the middle; half end with removal of a period's last URR + queued ticks + Close) + histories "
                        "with up to 90 registrations under one period; non-trivial = contains add/del/close; distinct by event list. "
                        "Sweep: real queryMultiURR over the simulated endpoint with total registration counts %s" % sizes)
    coverage["batch_limit"] = limit
    coverage["batch_sweep_sizes"] = [s["total"] for s in sweep]
    coverage["batch_sweep_note"] = sweep_note
    coverage["samples"] = [{"events": h[:6], "impl": o[:6]} for h, o in list(zip(hs, obs))[3:5]]
    coverage["model_impl_mismatches"] = len(res["mism"]) + len(res["swmism"])
    coverage["monitor_failures"] = len(res["monf"]) + len(res["swmonf"]) + len(anomalies) + len(sw_err)
    nviol = 0
    for hi, ei in res["monf"][:2]:
        nviol += 1
        small = hs[hi][:ei + 1]
        try:
            small = shrink(ctx, info, small, limit)
        except Exception as e:  # noqa: BLE001  (shrinking is best effort)
            ctx.notes.append("shrink failed: %s" % e)
        sobs, _ = run_impl(ctx, info, [small], tag="-final")
        ctx.violation({"property": "C15", "what": "monitor (C15_tick_exact / C15_deliver / C15_tickers as boolean checks) rejects what the "
                       "implementation did at the last event of this (shrunk) history",
                       "cases": [small], "failing_event": small[-1],
                       "impl_observations": sobs["histories"][0] if sobs else None,
                       "original_history": hs[hi][:ei + 1], "original_failing_index": ei, "original_impl_observation": obs[hi][ei],
                       "replay_cmd": "python3 check.py C15 --replay <this file>"})
    for hi, ei, what in anomalies[:2]:
        if any(hi == h for h, _ in res["monf"][:2]):
            continue
        nviol += 1
        ctx.violation({"property": "C15", "what": what, "cases": [hs[hi][:ei + 1]], "failing_event": hs[hi][ei],
                       "impl_observation": obs[hi][ei], "replay_cmd": "python3 check.py C15 --replay <this file>"})
    for si, _ in res["swmonf"][:2]:
        nviol += 1
        s = [x for x in sweep if not x.get("err")][si]
        ctx.violation({"property": "C15", "what": "queryMultiURR batching: requests are not a partition of the query into chunks of 1..%d "
                       "ids, or the result does not cover the queried pairs" % limit, "sweep_case": s,
                       "replay_cmd": "python3 check.py C15"})
    for s in sw_err[:1]:
        nviol += 1
        ctx.violation({"property": "C15", "what": "queryMultiURR returned an error / panicked on the simulated endpoint", "sweep_case": s})
    if nviol == 0 and (res["mism"] or res["swmism"] or broken):
        ex = []
        for hi, ei in res["mism"][:2]:
            ex.append({"history": hs[hi][:ei + 1], "first_differing_event": ei, "impl_observation": obs[hi][ei]})
        ctx.violation({"property": "C15", "broken_obligations": broken,
                       "correspondence": "model trace <> implementation observations" if (res["mism"] or res["swmism"]) else None,
                       "examples": ex, "cases": [hs[hi][:ei + 1] for hi, ei in res["mism"][:2]],
                       "sweep_mismatch": [[x for x in sweep if not x.get("err")][si] for si, _ in res["swmism"][:1]],
                       "make_log": info.get("make_log", "")[-1500:]}, no_input=True)
    assumptions = ["ticks are injected through the server's event channel; time.Ticker is not exercised (periods of 1000 h and more)",
                   "the live-ticker count is read from the goroutine dump after waiting (up to 5 s) for stopped goroutines to leave",
                   "answers of the data plane are scripted per tick (error, empty, partial, extra, duplicate reports)"]
    if not sweep:
        assumptions.append("queryMultiURR's chunking loop was NOT executed (no simulated netlink endpoint in the overlay): "
                           "batching is covered by the theorem and the generated loop shape only")
    return ctx.finish(coverage, assumptions)
