"""C14 - re-injected packets are well-formed GTP-U G-PDUs carrying the full QFI."""
import json
import random

from lib import common
from lib.common import cN, clist, cbytes_hex

MAXLEN_EXT = 65527      # 12 + 4 + plen - 8 < 65536
REQUIRES = ["Bytes", "GtpuGen", "Gtpu", "GtpuRef"]


def mkpl(n, seed):
    return bytes(((seed + 7 * i) % 256) for i in range(n))


def gen_cases(ctx):
    rnd = random.Random(ctx.seed)
    cases = []
    teids = [0, 1, 0xffff, 0x10000, 0xffffff, 0x80000000, 0xffffffff]

    def add(flags, teid, exts, plen, seq=0, npdu=0, monitored=True):
        sd = rnd.randrange(256)
        cases.append({"flags": flags, "teid": teid, "seq": seq, "npdu": npdu, "exts": exts, "plen": plen, "pseed": sd,
                      "payload": mkpl(plen, sd).hex(), "monitored": monitored})

    lens_small = range(0, 9) if ctx.tier == "quick" else range(0, 21)
    for pt in range(16):
        for qfi in range(64):
            if ctx.tier == "quick":
                add(0x34, rnd.choice(teids + [rnd.randrange(2**32)]), [[pt, qfi]], (pt + qfi) % 9)
            else:
                for ln in lens_small:
                    add(0x34, rnd.choice(teids + [rnd.randrange(2**32)]), [[pt, qfi]], ln)
    for ln in (range(0, 70) if ctx.tier == "quick" else range(0, 1601)):
        add(0x34, rnd.randrange(2**32), [], ln)
        if ctx.tier != "quick" or ln % 4 == 1:
            add(0x34, rnd.randrange(2**32), [[0, rnd.randrange(64)]], ln)
    for t in teids:
        add(0x34, t, [[0, 9]], 4)
        add(0x34, t, [], 4)
    for ln in (1400, 1500, 1600, 9000, MAXLEN_EXT):
        add(0x34, rnd.randrange(2**32), [[0, rnd.randrange(64)]], ln)
    add(0x34, 7, [], MAXLEN_EXT + 4)
    # outside the property's quantifier: correspondence of the model only
    for fl in (0x30, 0x31, 0x32, 0x33, 0x35, 0x36, 0x37, 0x00, 0xff):
        for ln in (0, 1, 2, 3, 4, 5):
            add(fl, rnd.randrange(2**32), [[rnd.randrange(16), rnd.randrange(64)]] * rnd.randrange(3), ln,
                seq=rnd.randrange(65536), npdu=rnd.randrange(256), monitored=False)
    add(0x34, 1, [[1, 2], [3, 4]], 3, monitored=False)
    add(0x34, 1, [[0, 1]], MAXLEN_EXT + 9, monitored=False)       # 16-bit length wraps
    add(0x34, 1, [[0, 200]], 2, monitored=False)                   # QFI outside 6 bits
    add(0x34, 1, [[200, 1]], 2, monitored=False)
    return cases


def coq_case(c, impl):
    exts = clist(["{| psc_pt := %d; psc_qfi := %d |}" % (e[0], e[1]) for e in c["exts"]])
    pl = "(mkpl %d %d)" % (c["plen"], c["pseed"]) if "plen" in c else cbytes_hex(c["payload"])
    m = ("{| m_flags := %d; m_type := 255; m_teid := %d; m_seq := %d; m_npdu := %d; m_exts := %s; m_payload := %s |}"
         % (c["flags"], c["teid"], c["seq"], c["npdu"], exts, pl))
    if impl is None:
        ib = "None"
    elif len(c["payload"]) > 64 and impl.endswith(c["payload"]):
        ib = "(Some (%s ++ %s)%%list)" % (cbytes_hex(impl[:len(impl) - len(c["payload"])]), pl)
    else:
        ib = "(Some %s)" % cbytes_hex(impl)
    return "(%s, %s, %s)" % (m, ib, "true" if c["monitored"] else "false")


PRELUDE = r"""
Fixpoint mkpl_aux (fuel : nat) (i seed : N) : list N :=
  match fuel with O => [] | S k => (seed + 7 * i) mod 256 :: mkpl_aux k (i + 1) seed end.
Definition mkpl (n seed : N) : list N := mkpl_aux (N.to_nat n) 0 seed.
Definition leq (a b : list N) : bool := if list_eq_dec N.eq_dec a b then true else false.
Definition agrees (c : gmsg * option (list N) * bool) : bool :=
  match c with (m, Some bs, _) => leq (encode m) bs | (_, None, _) => false end.
Definition monitor (c : gmsg * option (list N) * bool) : bool :=
  match c with
  | (m, Some bs, true) =>
      gpdu_ok (m_teid m)
        (match m_exts m with [e] => Some (psc_pt e, psc_qfi e) | _ => None end) (m_payload m) bs
  | (_, None, true) => false
  | (_, _, false) => true
  end.
Fixpoint bad_idx {A} (f : A -> bool) (l : list A) (i : N) : list N :=
  match l with [] => [] | x :: r => (if f x then [] else [i]) ++ bad_idx f r (i + 1) end.
"""


def evaluate(ctx, cases, impl, name):
    items = []
    for c, r in zip(cases, impl):
        ok = isinstance(r, str) and not (r.startswith("panic:") or r.startswith("error:") or r == "badcase")
        items.append(coq_case(c, r if ok else None))
    body = PRELUDE + "Definition cases : list (gmsg * option (list N) * bool) := \n" + clist(items) + ".\n"
    body += "Definition mism := Eval vm_compute in bad_idx agrees cases 0.\n"
    body += "Definition monf := Eval vm_compute in bad_idx monitor cases 0.\n"
    res, log = common.run_coq_cases(ctx, name, body, REQUIRES, ["mism", "monf"])
    if res is None:
        return None, None, log
    return common.parse_N_list(res["mism"]), common.parse_N_list(res["monf"]), log


def run(ctx, replay=None):
    info = common.prepare(ctx)
    obl = info["obl"]
    broken = []
    if not info["gen_ok"]:
        broken.append("T-gen translator no longer recognises the source: " + info["gen_log"][-500:])
    if not obl["compiled"]:
        broken.append("props/C14.v (theorems %s) no longer compiles" % ", ".join(obl["theorems"]))
    if info["forbidden"]:
        broken.append("forbidden constructs: %s" % info["forbidden"])
    cases = gen_cases(ctx)
    if replay:
        cases = json.load(open(replay))["cases"]
    coverage = {"obligations": len(obl["theorems"]), "discharged": len(obl["theorems"]) if obl["compiled"] else 0,
                "checker_cmd": "make -f Makefile.coq (coqc 8.16.1, full .vo build) + coqc props/C14.v (Print Assumptions)",
                "trusted_base": common.TRUSTED_BASE, "axioms": obl["axioms"], "theorems": obl["theorems"],
                "evaluations": 0, "distinct_nontrivial": 0, "exhaustive": False}
    if info["tie_broken"]:
        ctx.violation({"broken": "correspondence harness no longer builds against the tree", "log": info["tie_broken"]},
                      no_input=True)
        return ctx.finish(coverage, [])
    impl, log = common.run_harness(ctx, info["harness"], "gtpu", cases)
    if impl is None:
        ctx.violation({"broken": "harness run failed", "log": log[-2000:]}, no_input=True)
        return ctx.finish(coverage, [])
    mism, monf, clog = evaluate(ctx, cases, impl, "cases_c14")
    if mism is None:
        # the model itself no longer compiles: fall back to the monitor alone (depends on base only)
        broken.append("model/Gtpu.v or the cases file no longer compiles: " + clog[-800:])
        mism, monf = [], []
    coverage["evaluations"] = len(cases)
    coverage["distinct_nontrivial"] = len({(c["flags"], json.dumps(c["exts"]), len(c["payload"]) // 2, c["teid"]) for c in cases if c["exts"]})
    coverage["rule"] = ("cases = (flags, TEID, extension list, payload); quick: all 64 QFI x 16 PDU types with payload length "
                        "(pt+qfi) mod 9, no-extension lengths 0..69, TEID boundaries, lengths 1400..65527; thorough: full cross "
                        "with lengths 0..20 and 0..1600; non-trivial = has an extension header; distinct by (flags, exts, length, teid)")
    coverage["exhaustive"] = True
    coverage["exhaustive_note"] = "QFI 0..63 x PDU type 0..15 enumerated completely; TEID/payload sampled"
    coverage["samples"] = [dict(c, impl=r[:80]) for c, r in list(zip(cases, impl))[:3]]
    coverage["model_impl_mismatches"] = len(mism)
    coverage["monitor_failures"] = len(monf)
    for i in monf[:2]:
        ctx.violation({"property": "C14", "what": "reference GTP-U decoder does not read back the given TEID/QFI/PDU type/payload from the bytes the implementation produced",
                       "cases": [cases[i]], "impl_bytes": impl[i], "replay_cmd": "python3 check.py C14 --replay <this file>"})
    if not monf and (mism or broken):
        ctx.violation({"property": "C14", "broken_obligations": broken,
                       "correspondence": "model encode <> implementation bytes" if mism else None,
                       "cases": [cases[i] for i in mism[:3]], "impl_bytes": [impl[i] for i in mism[:3]],
                       "make_log": info.get("make_log", "")[-1500:]}, no_input=True)
    return ctx.finish(coverage, ["payload contents are pseudo-random per case; TEIDs sampled at boundaries and randomly",
                                 "the UDP write of the encoded packet (Gtp5gLink.WriteTo) is not modelled"])
