"""C20 - start-up accepts only a valid configuration and a compatible gtp5g."""
import copy
import json
import random

from lib import common
from lib.common import clist, cstr

MANIFEST = dict(
    text="Kernel-checked soundness of the start-up model: the `valid:` tag table of pkg/factory/config.go (regenerated on every run) "
         "interpreted as govalidator does, ReadConfig's resolver step and NewDriver's pre-checks accept a YAML document only if the "
         "running configuration has version 1.0.3, host PFCP address and node id (resolvable), a non-zero retransmission timeout, "
         "forwarder gtp5g with a non-empty ifList of host/N3|N9 entries, a non-empty DNN list with valid CIDRs and one of the seven log "
         "levels - for ALL documents and ALL answers of the oracles (IsHost, IsCIDR, resolver, ParseDuration); the accepted record is "
         "the decoded document; checkVersion's condition (bounds and comparison regenerated from gtp5g.go) holds iff v = 0.9.z, z>=5, "
         "for ALL triples of naturals. T-corr: from three valid files every single-field fault (delete, null, empty, wrong type, "
         "out of range, bad host/CIDR/level/version, duplicate/unknown key) exhaustively and random multi-faults are given to the REAL "
         "factory.ReadConfig (stage, returned *Config, values) and, where OpenGtp5g cannot be reached, to the REAL NewDriver; the "
         "REAL checkVersion runs over the simulated netlink endpoint for all x.y.z in 0..12 and large components; the property's "
         "condition list is applied as a boolean monitor to what the implementation accepted.",
    note="The semantics of yaml.v2 (type-directed decoding), govalidator (required/optional/in/host/cidr, recursion) and "
         "hashicorp/go-version (ordering of x.y.z) is library code: modelled by the interpreter, tied by the correspondence run, not "
         "verified. OpenGtp5g (netlink link creation) is not executed: 'started' means NewDriver's own checks passed. DNS answers are "
         "those of the sandbox resolver (IP literals and /etc/hosts names resolve, everything else fails).",
    technique="Coq proof (tag-table interpreter soundness, version window) + generated tables + differential run vs vm_compute model",
    design="4/C20")

REQUIRES = ["ConfigGen", "ConstsGen", "ConfigSpec", "Config"]


# ---------------------------------------------------------------- YAML trees
# node = ["s", text, plain] | ["i", int] | ["f", text, trunc] | ["b", bool, text] | ["n", text] | ["q", [node..]] | ["m", [[key, node]..]]

def S(t, plain=False):
    return ["s", t, plain]


def I(z):
    return ["i", z]


def F(text, trunc):
    return ["f", text, trunc]


def B(b, text=None):
    return ["b", b, text or ("true" if b else "false")]


def NUL(text="~"):
    return ["n", text]


def Q(*items):
    return ["q", list(items)]


def M(**kv):
    return ["m", [[k, v] for k, v in kv.items()]]


def base_full():
    return M(version=S("1.0.3"), description=S("UPF initial local configuration"),
             pfcp=M(addr=S("127.0.0.8"), nodeID=S("127.0.0.8"), retransTimeout=S("1s"), maxRetrans=I(3)),
             gtpu=M(forwarder=S("gtp5g"),
                    ifList=Q(M(addr=S("127.0.0.8"), type=S("N3"), name=S("upf.5gc.nctu.me"), ifname=S("upfgtp"), mtu=I(1400)),
                             M(addr=S("upf9.example.org"), type=S("N9")))),
             dnnList=Q(M(dnn=S("internet"), cidr=S("10.60.0.0/24"), natifname=S("eth0")),
                       M(dnn=S("ims"), cidr=S("10.61.0.0/16"))),
             logger=M(enable=B(True), level=S("info"), reportCaller=B(False)))


def base_min():
    return M(version=S("1.0.3", True),
             pfcp=M(addr=S("10.0.0.1", True), nodeID=S("localhost", True), retransTimeout=I(1500000000)),
             gtpu=M(forwarder=S("gtp5g", True), ifList=Q(M(addr=S("10.0.0.2", True), type=S("N9", True)))),
             dnnList=Q(M(dnn=S("internet", True), cidr=S("10.60.0.0/16", True))),
             logger=M(level=S("debug", True)))


def base_alt():
    return M(logger=M(level=S("panic"), enable=B(True, "yes"), reportCaller=B(True, "on")),
             dnnList=Q(M(cidr=S("fd00::/8"), dnn=S("v6")), M(cidr=S("0.0.0.0/0"), dnn=S("any"), natifname=S("")),
                       M(cidr=S("192.168.1.0/24"), dnn=S("internet"))),
             gtpu=M(ifList=Q(M(type=S("N3"), addr=S("::1"), mtu=I(4294967295), extra=S("ignored")),
                             M(type=S("N9"), addr=S("127.0.0.1"), mtu=F("1500.0", 1500))),
                    forwarder=S("gtp5g")),
             pfcp=M(maxRetrans=I(255), retransTimeout=S("-2m"), nodeID=S("127.0.0.1"), addr=S("localhost")),
             description=NUL(), version=S("1.0.3"), unknownTopLevel=M(a=I(1)))


TYPES = {"version": "str", "description": "str", "pfcp": "map", "addr": "str", "nodeID": "str", "retransTimeout": "dur",
         "maxRetrans": "u8", "gtpu": "map", "forwarder": "str", "ifList": "seq", "type": "str", "name": "str", "ifname": "str",
         "mtu": "u32", "dnnList": "seq", "dnn": "str", "cidr": "str", "natifname": "str", "logger": "map", "enable": "bool",
         "level": "str", "reportCaller": "bool"}

SEMANTIC = {
    "version": [S("1.0.2"), S("1.0.30"), S("1.0.3 "), F("1.0", 1), S("v1.0.3")],
    "addr": [S("not a host!"), S("256.1.1.1"), S("::1"), S("upf.example.com"), S("a_b.c"), S("-bad-.com"), S("127.0.0.8:8805"),
             S("10.0.0"), S("fe80::1%eth0")],
    "nodeID": [S("localhost"), S("upf.nonexistent.invalid"), S("::1"), S("127.0.0.300"), S("bad host"), S("no-such-host"),
               S("0.0.0.0")],
    "retransTimeout": [S("0s"), S("abc"), I(0), I(1000000000), S("-1s"), I(2**63), I(2**63 - 1), I(-2**63), S("1h30m"), F("1.5", 1),
                       I(-5), S("10x"), S("1"), B(True)],
    "maxRetrans": [I(255), I(256), I(-1), I(0), S("3"), F("2.5", 2), F("300.5", 300), I(2**32)],
    "forwarder": [S("dpdk"), S("GTP5G"), S("gtp5g ")],
    "type": [S("N6"), S("n3"), S("N3 "), S("N3|N9"), I(3)],
    "mtu": [I(2**32), I(2**32 - 1), I(-1), S("1400"), I(0), F("1400.9", 1400)],
    "cidr": [S("10.60.0.0"), S("10.60.0.0/33"), S("fe80::/10"), S("10.60.0.0/024"), S("internet"), S("10.60.0.1/24"), S("/24")],
    "dnn": [S(" "), I(5)],
    "level": [S("verbose"), S("INFO"), S("warning"), I(5), S("info ")],
    "enable": [S("true"), B(True, "yes"), I(1), B(False, "off")],
    "reportCaller": [S("no"), I(0)],
    "natifname": [I(7)], "name": [B(True)], "ifname": [Q()], "description": [Q(S("x")), I(1)],
}


def generic_faults(ty):
    out = [("null", NUL()), ("null-word", NUL("null"))]
    if ty == "str":
        out += [("empty", S("")), ("wrong:int", I(7)), ("wrong:bool", B(True)), ("wrong:seq", Q(S("x"))), ("wrong:map", M(k=S("v"))),
                ("wrong:float", F("1.5", 1))]
    elif ty in ("u8", "u32", "dur"):
        out += [("empty", I(0)), ("wrong:str", S("abc")), ("wrong:bool", B(True)), ("wrong:seq", Q(I(1))), ("wrong:map", M(k=I(1)))]
    elif ty == "bool":
        out += [("empty", B(False)), ("wrong:str", S("abc")), ("wrong:seq", Q(B(True))), ("wrong:map", M(k=B(True)))]
    elif ty == "map":
        out += [("empty", M()), ("wrong:str", S("abc")), ("wrong:int", I(7)), ("wrong:seq", Q(S("x"))), ("wrong:seqmap", Q(M(addr=S("1.2.3.4"))))]
    elif ty == "seq":
        out += [("empty", Q()), ("wrong:str", S("abc")), ("wrong:int", I(7)), ("wrong:map", M(addr=S("1.2.3.4"), type=S("N3"), dnn=S("x"), cidr=S("1.0.0.0/8"))),
                ("elem:null", Q(NUL())), ("elem:str", Q(S("x"))), ("elem:empty", Q(M()))]
    return out


def paths(node, pre=()):
    """all paths below the root: keys of maps, indices of sequences"""
    res = []
    if node[0] == "m":
        for k, v in node[1]:
            res.append(pre + (k,))
            res += paths(v, pre + (k,))
    elif node[0] == "q":
        for i, v in enumerate(node[1]):
            res.append(pre + (i,))
            res += paths(v, pre + (i,))
    return res


def get(node, path):
    for p in path:
        if node[0] == "m" and isinstance(p, str):
            hit = [v for k, v in node[1] if k == p]
            if not hit:
                return None
            node = hit[0]
        elif node[0] == "q" and isinstance(p, int) and p < len(node[1]):
            node = node[1][p]
        else:
            return None
    return node


def put(root, path, new):
    """replace (new is a node) or delete (new is None); returns False if the path no longer exists"""
    parent = get(root, path[:-1])
    if parent is None:
        return False
    last = path[-1]
    if parent[0] == "m" and isinstance(last, str):
        for i, kv in enumerate(parent[1]):
            if kv[0] == last:
                if new is None:
                    del parent[1][i]
                else:
                    kv[1] = copy.deepcopy(new)
                return True
        return False
    if parent[0] == "q" and isinstance(last, int) and last < len(parent[1]):
        if new is None:
            del parent[1][last]
        else:
            parent[1][last] = copy.deepcopy(new)
        return True
    return False


def fault_ops(base):
    """every single fault of a base tree: (description, op) with op(tree) -> bool"""
    ops = []
    for p in paths(base):
        last = p[-1]
        ty = TYPES.get(last, "map") if isinstance(last, str) else "map"   # sequence elements are maps
        ops.append(("delete %s" % (p,), (lambda t, p=p: put(t, p, None))))
        for name, node in generic_faults(ty):
            ops.append(("%s %s" % (name, p), (lambda t, p=p, node=node: put(t, p, node))))
        if isinstance(last, str):
            for node in SEMANTIC.get(last, []):
                ops.append(("value %s := %s" % (p, node[1]), (lambda t, p=p, node=node: put(t, p, node))))
        node = get(base, p)
        if node[0] == "m":
            def dup(t, p=p):
                n = get(t, p)
                if n is None or n[0] != "m" or not n[1]:
                    return False
                n[1].append(copy.deepcopy(n[1][0]))
                if n[1][-1][1][0] == "s":
                    n[1][-1][1][1] += "x"          # a different value: the last occurrence must win
                return True

            def unknown(t, p=p):
                n = get(t, p)
                if n is None or n[0] != "m":
                    return False
                n[1].append(["notAField", S("x")])
                return True
            ops.append(("duplicate-key %s" % (p,), dup))
            ops.append(("unknown-key %s" % (p,), unknown))
        if node[0] == "q":
            def twice(t, p=p):
                n = get(t, p)
                if n is None or n[0] != "q" or not n[1]:
                    return False
                n[1].append(copy.deepcopy(n[1][0]))
                return True
            ops.append(("repeat-element %s" % (p,), twice))
    return ops


def gen_docs(ctx):
    rnd = random.Random(ctx.seed)
    docs = []     # (description, tree or None or raw-text)
    bases = [("full", base_full()), ("min", base_min()), ("alt", base_alt())]
    for bn, b in bases:
        docs.append(("valid:" + bn, copy.deepcopy(b)))
    # whole-document faults
    docs += [("empty-file", None), ("doc:null", NUL()), ("doc:scalar", S("hello")), ("doc:seq", Q(S("a"))), ("doc:empty-map", M()),
             ("doc:int", I(3))]
    allops = []
    for bn, b in bases:
        ops = fault_ops(b)
        allops.append((bn, b, ops))
        for desc, op in ops:                    # single faults: exhaustive
            t = copy.deepcopy(b)
            if op(t):
                docs.append(("%s: %s" % (bn, desc), t))
    nmulti = 250 if ctx.tier == "quick" else 6000
    for _ in range(nmulti):                     # multiple faults: random
        bn, b, ops = rnd.choice(allops)
        t = copy.deepcopy(b)
        k = rnd.choice([2, 2, 3, 4, 6])
        ds = []
        for desc, op in rnd.sample(ops, k):
            if op(t):
                ds.append(desc)
        docs.append(("%s: multi %s" % (bn, "; ".join(ds)), t))
    return docs


# ---------------------------------------------------------------- rendering

def y_flow(n):
    k = n[0]
    if k == "s":
        return n[1] if n[2] else json.dumps(n[1])
    if k == "i":
        return str(n[1])
    if k in ("f", "n"):
        return n[1]
    if k == "b":
        return n[2]
    if k == "q":
        return "[" + ", ".join(y_flow(x) for x in n[1]) + "]"
    return "{" + ", ".join("%s: %s" % (kk, y_flow(v)) for kk, v in n[1]) + "}"


def y_block(n, ind=0):
    """block style for maps and sequences, flow style for empty collections and scalars"""
    pad = "  " * ind
    if n[0] == "m" and n[1]:
        lines = []
        for kk, v in n[1]:
            if v[0] in ("m", "q") and v[1]:
                lines.append("%s%s:" % (pad, kk))
                lines.append(y_block(v, ind + 1))
            else:
                lines.append("%s%s: %s" % (pad, kk, y_flow(v)))
        return "\n".join(lines)
    if n[0] == "q" and n[1]:
        lines = []
        for v in n[1]:
            lines.append("%s- %s" % (pad, y_flow(v)))
        return "\n".join(lines)
    return pad + y_flow(n)


def render(tree, style):
    if tree is None:
        return None
    if style == "block" and tree[0] == "m" and tree[1]:
        return "# generated\n" + y_block(tree) + "\n"
    return y_flow(tree) + "\n"


def cz(z):
    return "(%d)%%Z" % z


def c_yv(n):
    k = n[0]
    if k == "s":
        return "(YScalar KStr %s)" % cstr(n[1])
    if k == "i":
        return "(YScalar (KInt %s) %s)" % (cz(n[1]), cstr(str(n[1])))
    if k == "f":
        return "(YScalar (KFloat %s) %s)" % (cz(n[2]), cstr(n[1]))
    if k == "b":
        return "(YScalar (KBool %s) %s)" % ("true" if n[1] else "false", cstr(n[2]))
    if k == "n":
        return "(YScalar KNull %s)" % cstr(n[1])
    if k == "q":
        return "(YSeq %s)" % clist([c_yv(x) for x in n[1]])
    return "(YMap %s)" % clist(["(%s, %s)" % (cstr(kk), c_yv(v)) for kk, v in n[1]])


def scalars(n, acc):
    if n is None:
        return
    if n[0] in ("s", "f", "n"):
        acc.add(n[1])
    elif n[0] == "i":
        acc.add(str(n[1]))
    elif n[0] == "b":
        acc.add(n[2])
    elif n[0] == "q":
        for x in n[1]:
            scalars(x, acc)
    elif n[0] == "m":
        for _, v in n[1]:
            scalars(v, acc)


def c_cfg(d):
    if d is None:
        return "None"

    def ifi(i):
        return "{| i_addr := %s; i_type := %s; i_name := %s; i_ifname := %s; i_mtu := %s |}" % (
            cstr(i["addr"]), cstr(i["type"]), cstr(i["name"]), cstr(i["ifname"]), cz(i["mtu"]))
    p = d["pfcp"]
    g = d["gtpu"]
    lg = d["logger"]
    pf = "None" if p is None else "(Some {| p_addr := %s; p_nodeid := %s; p_retrans_timeout := %s; p_max_retrans := %s |})" % (
        cstr(p["addr"]), cstr(p["nodeid"]), cz(p["rt"]), cz(p["maxretrans"]))
    gt = "None" if g is None else "(Some {| g_forwarder := %s; g_iflist := %s |})" % (cstr(g["forwarder"]), clist([ifi(i) for i in g["iflist"]]))
    dn = clist(["{| d_dnn := %s; d_cidr := %s; d_natifname := %s |}" % (cstr(x["dnn"]), cstr(x["cidr"]), cstr(x["natifname"]))
                for x in d["dnnlist"]])
    lo = "None" if lg is None else "(Some {| l_enable := %s; l_level := %s; l_report_caller := %s |})" % (
        "true" if lg["enable"] else "false", cstr(lg["level"]), "true" if lg["reportcaller"] else "false")
    return ("(Some {| c_version := %s; c_description := %s; c_pfcp := %s; c_gtpu := %s; c_dnnlist := %s; c_logger := %s |})"
            % (cstr(d["version"]), cstr(d["description"]), pf, gt, dn, lo))


def driver_class(o):
    """what the real NewDriver did: 'open' (not executed: its inputs lead to OpenGtp5g), or its early error"""
    d = o["driver"]
    if o["stage"] != "ok":
        return "none"
    if d == "" or d == "opened" or d.startswith("error:open Gtp5g"):
        return "open"          # not executed because its inputs lead to OpenGtp5g, or executed and it got that far
    for k in ("no Gtpu config", "not found GTP address", "not support forwarder"):
        if d.startswith("error:" + k):
            return k
    return "other:" + d[:80]


PRELUDE = r"""
Definition is_host (s : string) : bool := str_mem s hosts.
Definition is_cidr (s : string) : bool := str_mem s cidrs.
Definition resolvable (s : string) : bool := str_mem s resolves.
Fixpoint dur_lookup (s : string) (l : list (string * Z)) : option Z :=
  match l with [] => None | (k, v) :: r => if String.eqb k s then Some v else dur_lookup s r end.
Definition parse_duration (s : string) : option Z := dur_lookup s durs.
Definition IO st n c p d := {| io_stage := st; io_cfg_nil := n; io_cfg := c; io_parsed := p; io_driver_opens := d |}.
(* model vs implementation: ReadConfig's stage, the accepted record, what yaml alone delivers, NewDriver's verdict *)
Definition agree (c : option yv * impl_obs * string * string * Z) : bool :=
  match c with (doc, o, drv, first_addr, first_mtu) =>
    opt_eqb config_eqb (decode parse_duration doc) (io_parsed o)
    && match read_config is_host is_cidr resolvable parse_duration config_tags doc with
       | RcYamlError => String.eqb (io_stage o) "yaml"
       | RcValidationError => String.eqb (io_stage o) "valid"
       | RcResolveError => String.eqb (io_stage o) "resolve"
       | RcOk cfg =>
           String.eqb (io_stage o) "ok" && opt_eqb config_eqb (Some cfg) (io_cfg o)
           && match new_driver_pre cfg with
              | DrvNoGtpu => String.eqb drv "no Gtpu config"
              | DrvNoAddr => String.eqb drv "not found GTP address"
              | DrvUnsupported => String.eqb drv "not support forwarder"
              | DrvOpen a m => String.eqb drv "open" && String.eqb a (first_addr ++ ":2152") && Z.eqb m first_mtu
              end
       end
  end.
Definition monitor (c : option yv * impl_obs * string * string * Z) : bool :=
  match c with (doc, o, _, _, _) => mon_config is_host is_cidr resolvable doc o end.
Fixpoint bad_idx {A} (f : A -> bool) (l : list A) (i : N) : list N :=
  match l with [] => [] | x :: r => (if f x then [] else [i]) ++ bad_idx f r (i + 1)%N end.
(* NewDriver's early errors on directly constructed configurations *)
Definition direct_cfg (gn : bool) (fw : string) (addrs : list string) : config :=
  {| c_version := ""; c_description := ""; c_pfcp := None;
     c_gtpu := if gn then None else Some {| g_forwarder := fw; g_iflist := map (fun a => {| i_addr := a; i_type := "N3"; i_name := ""; i_ifname := ""; i_mtu := 0 |}) addrs |};
     c_dnnlist := []; c_logger := None |}.
Definition direct_agree (c : bool * string * list string * string) : bool :=
  match c with (gn, fw, addrs, drv) =>
    match new_driver_pre (direct_cfg gn fw addrs) with
    | DrvNoGtpu => String.eqb drv "no Gtpu config"
    | DrvNoAddr => String.eqb drv "not found GTP address"
    | DrvUnsupported => String.eqb drv "not support forwarder"
    | DrvOpen _ _ => String.eqb drv "open"
    end end.
(* versions: (x, y, z, implementation accepted) *)
Definition ver_agree (c : N * N * N * bool) : bool := match c with (x, y, z, acc) => Bool.eqb (check_version (x, y, z)) acc end.
Definition ver_monitor (c : N * N * N * bool) : bool := match c with (x, y, z, acc) => implb acc (in_window (x, y, z)) end.
"""


def evaluate(ctx, docs, outs, oracles, direct, dres, vers, vres, name):
    body = "Local Open Scope string_scope.\n"
    body += "Definition hosts : list string := %s.\n" % clist([cstr(s) for s in oracles["host"]])
    body += "Definition cidrs : list string := %s.\n" % clist([cstr(s) for s in oracles["cidr"]])
    body += "Definition resolves : list string := %s.\n" % clist([cstr(s) for s in oracles["resolve"]])
    body += "Definition durs : list (string * Z) := %s.\n" % clist(["(%s, %s)" % (cstr(k), cz(v)) for k, v in sorted(oracles["duration"].items())])
    body += PRELUDE
    items = []
    for (desc, tree), o in zip(docs, outs):
        doc = "None" if tree is None else "(Some %s)" % c_yv(tree)
        opens = "true" if (o["stage"] == "ok" and driver_class(o) == "open") else "false"
        io = "(IO %s %s %s %s %s)" % (cstr(o["stage"]), "true" if o["cfg_nil"] else "false", c_cfg(o["cfg"]), c_cfg(o["parsed"]), opens)
        items.append("(%s,\n %s, %s, %s, %s)" % (doc, io, cstr(driver_class(o)), cstr(o["first_addr"]), cz(o["first_mtu"])))
    body += "Definition cases : list (option yv * impl_obs * string * string * Z) := \n" + clist(items) + ".\n"
    body += "Definition mism := Eval vm_compute in bad_idx agree cases 0%N.\n"
    body += "Definition monf := Eval vm_compute in bad_idx monitor cases 0%N.\n"
    ditems = ["(%s, %s, %s, %s)" % ("true" if d["gtpu_nil"] else "false", cstr(d["forwarder"]), clist([cstr(a) for a in d["addrs"]]), cstr(r))
              for d, r in zip(direct, dres)]
    body += "Definition dcases : list (bool * string * list string * string) := " + clist(ditems) + ".\n"
    body += "Definition dmism := Eval vm_compute in bad_idx direct_agree dcases 0%N.\n"
    vitems = ["(%d%%N, %d%%N, %d%%N, %s)" % (x, y, z, "true" if acc else "false") for (x, y, z), acc in zip(vers, vres)]
    body += "Definition vcases : list (N * N * N * bool) := " + clist(vitems) + ".\n"
    body += "Definition vmism := Eval vm_compute in bad_idx ver_agree vcases 0%N.\n"
    body += "Definition vmonf := Eval vm_compute in bad_idx ver_monitor vcases 0%N.\n"
    res, log = common.run_coq_cases(ctx, name, body, REQUIRES, ["mism", "monf", "dmism", "vmism", "vmonf"])
    if res is None:
        return None, log
    return {k: common.parse_N_list(v) for k, v in res.items()}, log


def gen_versions(ctx):
    rnd = random.Random(ctx.seed + 17)
    vs = set()
    if ctx.tier == "quick":
        for x in (0, 1):
            for y in (0, 8, 9, 10, 11, 12):
                for z in range(0, 13):
                    vs.add((x, y, z))
        for _ in range(150):
            vs.add((rnd.randrange(13), rnd.randrange(13), rnd.randrange(13)))
    else:
        for x in range(13):
            for y in range(13):
                for z in range(13):
                    vs.add((x, y, z))
    big = [2**31 - 1, 2**31, 2**32, 2**63 - 1, 2**63, 2**64, 10**20, 100, 99999]
    for b in big:
        vs |= {(0, 9, b), (0, b, 0), (b, 9, 5), (0, 10, b), (0, 8, b)}
    for _ in range(40):
        vs.add((rnd.choice([0, 0, 1, rnd.randrange(2**40)]), rnd.choice([9, 9, 10, rnd.randrange(2**40)]), rnd.randrange(2**66)))
    return sorted(vs)


def gen_direct():
    res = [{"gtpu_nil": True, "forwarder": "", "addrs": []}]
    for fw in ("gtp5g", "", "dpdk", "GTP5G", "gtp5g "):
        for addrs in ([], [""], ["127.0.0.8"], ["", "1.2.3.4"]):
            res.append({"gtpu_nil": False, "forwarder": fw, "addrs": addrs})
    return res


def run(ctx, replay=None):
    info = common.prepare(ctx)
    obl = info["obl"]
    broken = []
    if not info["gen_ok"]:
        broken.append("T-gen translator no longer recognises the source: " + info["gen_log"][-500:])
    if not obl["compiled"]:
        broken.append("props/C20.v (theorems %s) no longer compiles: %s" % (", ".join(obl["theorems"]), obl["log"][-600:]))
    if info["forbidden"]:
        broken.append("forbidden constructs: %s" % info["forbidden"])
    docs = gen_docs(ctx)
    vers = gen_versions(ctx)
    if replay:
        rp = json.load(open(replay))
        if rp.get("cases"):
            docs = [(c["what"], c["tree"]) for c in rp["cases"]]
        if rp.get("versions"):
            vers = [tuple(v) for v in rp["versions"]]
    coverage = {"obligations": len(obl["theorems"]), "discharged": len(obl["theorems"]) if obl["compiled"] else 0,
                "checker_cmd": "make -f Makefile.coq (coqc 8.16.1, full .vo build) + coqc props/C20.v (Print Assumptions)",
                "trusted_base": common.TRUSTED_BASE, "axioms": obl["axioms"], "theorems": obl["theorems"],
                "evaluations": 0, "distinct_nontrivial": 0, "exhaustive": False}
    if info["tie_broken"]:
        ctx.violation({"property": "C20", "broken": "correspondence harness no longer builds against the tree", "log": info["tie_broken"]},
                      no_input=True)
        return ctx.finish(coverage, [])
    rnd = random.Random(ctx.seed + 5)
    texts = [render(t, rnd.choice(["block", "flow"])) for _, t in docs]
    strings = set()
    for _, t in docs:
        scalars(t, strings)
    direct = gen_direct()
    out, log = common.run_harness(ctx, info["harness"], "config",
                                  {"workdir": ctx.workdir, "docs": texts, "strings": sorted(strings), "direct": direct})
    if out is None:
        ctx.violation({"property": "C20", "broken": "harness run failed", "log": log[-2000:]}, no_input=True)
        return ctx.finish(coverage, [])
    outs = out["docs"]
    dres = []
    for r in out["direct"]:
        cls = "open" if (r == "" or r == "opened" or r.startswith("error:open Gtp5g")) else next((k for k in ("no Gtpu config", "not found GTP address", "not support forwarder")
                                           if r.startswith("error:" + k)), "other:" + r[:60])
        dres.append(cls)
    # versions through the real checkVersion (SimKernel overlay)
    vstrs = ["%d.%d.%d" % v for v in vers]
    vout, vlog = common.run_harness(ctx, info["harness"], "gtp5g_version", vstrs, tag="-ver")
    version_note = ""
    if vout is None:
        version_note = "mode gtp5g_version (SimKernel overlay) not available: checkVersion not executed; " + vlog[-200:]
        vers_run, vres = [], []
    else:
        vers_run, vres = vers, [o["err"] == "" for o in vout]
    res, clog = evaluate(ctx, docs, outs, out["oracles"], direct, dres, vers_run, vres, "cases_c20")
    if res is None:
        broken.append("model/Config.v, monitor/ConfigSpec.v or the cases file no longer compiles: " + clog[-900:])
        res = {"mism": [], "monf": [], "dmism": [], "vmism": [], "vmonf": []}
    panics = [i for i, o in enumerate(outs) if o["stage"] == "panic"]
    stages = {}
    for o in outs:
        key = o["stage"] + ("/" + driver_class(o) if o["stage"] == "ok" else "")
        stages[key] = stages.get(key, 0) + 1
    coverage["evaluations"] = len(docs) + len(vers_run) + len(direct)
    coverage["distinct_nontrivial"] = len({t for t in texts if t})
    coverage["input_distribution"] = {"documents": len(docs), "single_faults": sum(1 for d, _ in docs if ": multi" not in d and ":" in d),
                                      "multi_faults": sum(1 for d, _ in docs if ": multi" in d), "stages": stages,
                                      "oracle_strings": len(strings), "hosts": len(out["oracles"]["host"]),
                                      "cidrs": len(out["oracles"]["cidr"]), "resolvable": len(out["oracles"]["resolve"]),
                                      "versions": len(vers_run), "versions_accepted": sum(1 for a in vres if a),
                                      "direct_driver_cases": len(direct)}
    coverage["rule"] = ("document = one of three valid YAML trees with every single fault (delete / null / empty / wrong type per Go type / "
                        "semantic bad values per field / duplicate key / unknown key / repeated element) applied exhaustively to every "
                        "path, plus random 2-6-fold combinations; rendered in block or flow style; non-trivial = distinct rendered text. "
                        "Versions: x.y.z grid around both bounds plus components at 2^31, 2^32, 2^63-1, 2^63, 2^64, 10^20.")
    coverage["exhaustive"] = True
    coverage["exhaustive_note"] = "single faults of the three base documents enumerated completely; thorough tier: all 13^3 versions"
    coverage["samples"] = [{"what": docs[i][0], "yaml": texts[i], "impl": {k: outs[i][k] for k in ("stage", "err", "driver")}}
                           for i in (0, 12, 40)]
    coverage["version_note"] = version_note
    # behaviours worth knowing that are inside the property as stated (nothing is hidden; see props/C20.v)
    observations = []
    for (d, _), o in zip(docs, outs):
        if o["stage"] == "ok" and o["cfg"] and ": multi" not in d:
            p = o["cfg"]["pfcp"]
            if "'maxRetrans') := 2.5" in d:
                observations.append("%s -> accepted, MaxRetrans = %d (yaml.v2 truncates a float given for an integer field)" % (d, p["maxretrans"]))
            if "'retransTimeout') := -1s" in d or "'retransTimeout') := 1.5" in d or "'retransTimeout') := -5" in d:
                observations.append("%s -> accepted, RetransTimeout = %d ns (`required` only demands non-zero)" % (d, p["rt"]))
            if "'mtu') := 1400.9" in d:
                observations.append("%s -> accepted (mtu truncated)" % d)
    coverage["observations"] = observations[:12]
    coverage["model_impl_mismatches"] = len(res["mism"]) + len(res["dmism"]) + len(res["vmism"])
    coverage["monitor_failures"] = len(res["monf"]) + len(res["vmonf"]) + len(panics)
    nviol = 0
    for i in (res["monf"] + panics)[:2]:
        nviol += 1
        ctx.violation({"property": "C20", "what": "the implementation's outcome for this file violates the property's conditions "
                       "(accepted although a listed condition fails, values changed, or an error together with a configuration)",
                       "cases": [{"what": docs[i][0], "tree": docs[i][1]}], "yaml": texts[i], "impl": outs[i],
                       "replay_cmd": "python3 check.py C20 --replay <this file>"})
    for i in res["vmonf"][:2]:
        nviol += 1
        ctx.violation({"property": "C20", "what": "checkVersion accepted a version outside 0.9.5 <= v < 0.10.0",
                       "versions": [list(vers_run[i])], "version_string": "%d.%d.%d" % vers_run[i], "impl": vout[i]})
    if nviol == 0 and (res["mism"] or res["dmism"] or res["vmism"] or broken):
        ex = [{"what": docs[i][0], "yaml": texts[i], "impl": outs[i]} for i in res["mism"][:3]]
        ctx.violation({"property": "C20", "broken_obligations": broken,
                       "correspondence": "model <> implementation" if (res["mism"] or res["dmism"] or res["vmism"]) else None,
                       "examples": ex, "cases": [{"what": docs[i][0], "tree": docs[i][1]} for i in res["mism"][:3]],
                       "driver_mismatch": [[direct[i], out["direct"][i]] for i in res["dmism"][:3]],
                       "versions": [list(vers_run[i]) for i in res["vmism"][:5]],
                       "version_impl": [vout[i] for i in res["vmism"][:5]] if vout else [],
                       "make_log": info.get("make_log", "")[-1500:]}, no_input=True)
    assumptions = ["OpenGtp5g is never executed: 'started' = ReadConfig accepted and NewDriver's inputs lead to OpenGtp5g",
                   "oracle answers (IsHost, IsCIDR, resolver, ParseDuration) are those of the real functions in this sandbox",
                   "YAML text is rendered from the abstract tree by lib code (quoted strings, plain ints/bools/floats, ~ for null)"]
    if version_note:
        assumptions.append(version_note)
    return ctx.finish(coverage, assumptions)
